#!/usr/bin/env python3
"""Regenerates MANIFEST.json from checks_table.py (single source of truth)."""
import json, os, subprocess
from checks_table import PROPS
here = os.path.dirname(os.path.abspath(__file__))
ALL = ["C%02d" % i for i in range(1, 21)]
NA = {}
try:
    from checks_table import NOT_APPLICABLE as NA
except ImportError:
    pass
hooks = []
try:
    hooks = [l.split()[0] for l in subprocess.check_output(
        ["git", "-C", "/repo", "log", "--format=%H %s", "--grep=^verif hook"], text=True).splitlines()]
except Exception:
    pass
m = {
    "version": 1,
    "setup_cmd": "./setup.sh",
    "hooks": {
        "guard": "verif",
        "enable": "go1.26 test -tags \"verif rpctest\" (GOTOOLCHAIN=local GOFLAGS=-mod=mod GOPROXY=off GOSUMDB=off); hook files: gbn/verif_hooks.go, mailbox/verif_hooks.go",
        "baseline_off_cmd": "for m in gbn mailbox; do (cd /repo/$m && go test -vet=off -count=1 -timeout 25m ./...) || exit 1; done",
        "source_commits": hooks,
        "add_only": True,
    },
    "engines": [
        {"name": "lean-model", "path": "lean/", "serves_properties": sorted(PROPS),
         "kind_free_text": "Lean 4 model + theorems (LncModel.Props.*), obligations on regenerated facts (LncModel.Inst.*), native model driver lncmodel"},
        {"name": "go-harness", "path": "harness/", "serves_properties": sorted(PROPS),
         "kind_free_text": "Go differential / trace-inclusion harness running the real code (synctest virtual time), factgen extractor"},
    ],
    "checks": [],
    "not_applicable": [],
    "notes": "All checks: ./check <id> [--tier quick|thorough]. Known findings: KNOWN_FINDINGS.json. Design: DESIGN.md.",
}
for pid in ALL:
    if pid in PROPS:
        c = PROPS[pid]
        m["checks"].append({
            "property_id": pid,
            "quick_cmd": "./check %s --tier quick" % pid,
            "thorough_cmd": "./check %s --tier thorough" % pid,
            "evidence_file": "evidence/%s.json" % pid,
            "replay_cmd_template": "./check %s --replay {path}" % pid,
            "engine": "lean-model+go-harness",
            "level_claimed": {"category": c["level"], "text": c["text"], "design_ref": c.get("design_ref", "DESIGN.md section 3")},
            "level_note": c["note"],
            "technique": c["technique"],
        })
    else:
        m["not_applicable"].append({"property_id": pid, "reason": NA.get(pid, "not yet covered by the Lean model at this commit; machinery for it is being built (see DESIGN.md section 7)")})
json.dump(m, open(os.path.join(here, "MANIFEST.json"), "w"), indent=1)
print("checks:", [c["property_id"] for c in m["checks"]])
