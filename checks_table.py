"""Per-property configuration shared by ./check and gen_manifest.py."""

TRUSTED_BASE = [
    "Lean 4.33.0 kernel (thorough tier: re-checked by leanchecker)",
    "axioms allowed in property theorems: propext, Classical.choice, Quot.sound (audited by #print axioms on every run)",
    "Lean compiler/runtime for the executable model driver lncmodel",
    "factgen (go/ast extractor) reports constants, guards, select tables, call lists and read modes faithfully",
    "Go harness, verif-tagged export hooks, go1.26 toolchain (repo pins 1.24.9), testing/synctest virtual clock",
    "the hand-written Lean model corresponds to the Go code only as far as the differential/trace correspondence run samples it",
]

CRYPTO = ("cryptography idealised: ChaCha20-Poly1305 unforgeable AEAD binding key/nonce/AD, SHA-256/HKDF/HMAC/SHA-512 "
          "injective on protocol inputs, secp256k1 ECDH symmetric with distinct outputs for distinct pairs, scrypt injective")

PROPS = {
    "C19": {
        "title": "Wire codecs round-trip for all field values",
        "level": "proof",
        "tests": [{"name": "TestC19"}],
        "technique": "Lean 4 theorems (gbn_roundtrip, gbn_canonical, msgdata_roundtrip, msgdata_canonical) over a byte-level model of messages.go / MsgData; model instantiated with guards and constants regenerated from /repo (kernel-checked obligations) and tied to the real functions by an exhaustive+random differential run",
        "text": "Round-trip and canonical-form laws are proved in Lean for every packet type, every value of the one-byte fields, both flags and every payload (MsgData: every version byte, every payload shorter than 2^32). The model's DATA guard and type bytes are re-extracted from /repo and re-checked by the kernel each run; the real Serialize/Deserialize are compared with the model on every byte string up to 2 (quick) / 3 (thorough) bytes, structured packets and random garbage, and the round-trip oracle is evaluated on the real functions.",
        "note": "Trusted: Lean kernel, factgen's guard/constant extraction, the differential harness. Payloads >= 2^32 bytes are outside the MsgData theorem (uint32 truncation in the code).",
        "design_ref": "DESIGN.md section 3, C19",
        "rule": "cases: every byte string of length <= 2 (quick) / 3 (thorough) through gbn.Deserialize, 9x12^3 edge 4/5-byte strings, all 256 values of each one-byte field per packet type x flags x payload lengths, random garbage and near-valid MsgData (length prefix off by -1/0/+1); distinct = distinct input bytes; non-trivial = non-empty input that does not simply yield EOF (gbn) / input of at least header size (MsgData) / structured value",
        "assumptions": ["Go int is 64 bits (amd64); 5+int(payloadLen) cannot overflow"],
    },
}
