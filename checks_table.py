"""Per-property configuration shared by ./check and gen_manifest.py."""

TRUSTED_BASE = [
    "Lean 4.33.0 kernel (thorough tier: re-checked by leanchecker)",
    "axioms allowed in property theorems: propext, Classical.choice, Quot.sound (audited by #print axioms on every run)",
    "Lean compiler/runtime for the executable model driver lncmodel",
    "factgen (go/ast extractor) reports constants, guards, select tables, call lists and read modes faithfully",
    "Go harness, verif-tagged export hooks, go1.26 toolchain (repo pins 1.24.9), testing/synctest virtual clock",
    "the hand-written Lean model corresponds to the Go code only as far as the differential/trace correspondence run samples it",
]

CRYPTO = ("cryptography idealised: ChaCha20-Poly1305 unforgeable AEAD binding key/nonce/AD, SHA-256/HKDF/HMAC/SHA-512 "
          "injective on protocol inputs, secp256k1 ECDH symmetric with distinct outputs for distinct pairs, scrypt injective")

PROPS = {
    "C01": {
        "title": "GBN delivers every message exactly once, in order and intact",
        "level": "proof",
        "tests": [{"name": "TestC01"}],
        "proofs": ["ModArith", "ProtoInv", "ProtoStep"],
        "technique": "Lean 4 inductive invariant over an unbounded Go-Back-N transition system (C01_uni: receiver output is a prefix of accepted packets for every n in 1..254, every step sequence, every drop/dup/delay schedule), queue mirror tied to queue.go by exhaustive differential runs, protocol model tied to real GoBackNConn pairs by trace inclusion under synctest virtual time",
        "text": "C01_uni is a kernel-checked theorem: from the initial state, after any finite sequence of new packets, retransmissions of any of the last n packets, and deliver/duplicate/drop steps on both FIFO channels, the packets handed to the receiving application are a prefix of the packets accepted by the sender, for every window 1<=n<=254. The model's queue/receiver arithmetic is the code's uint8 arithmetic (explicit wrap). The tie: (A) processACK/processNACK/size/containsSequence/addPacket compared with the real queue for all (s,base,top,seq), s<=8 (quick)/16 (thorough); (B) every event of real client/server GoBackNConn pairs run under enumerated and random fault schedules is replayed through the model's step function (must be enabled and produce the observed sequence numbers, payloads, ACK/NACK values), and the API-level prefix oracle is evaluated on the real Recv/Send results.",
        "note": "Proved per direction (C01_uni); the two directions of a conversation are two instances of the system whose shared FIFO is projected onto its DATA and ACK/NACK sub-streams by the trace validator (projection lemma not yet mechanised). Assumes per-method atomicity of the queue (locks, C18) and that the send loop emits only what sendNew/retransmit allow (checked by trace inclusion, not proved). Transport is FIFO with drop/dup/delay; stale packets of other connections are out of scope of C01.",
        "design_ref": "DESIGN.md section 3, C01",
        "rule": "queue cases: all (s,base,top,seq) with base,top<s, seq in 0..255, s in 2..8 (quick)/2..16 (thorough); scenarios: every drop/dup/none pattern over the first 4 (quick)/6 (thorough) data-phase packets client->server combined with patterns over the first 2/3 server->client packets, n in {1,2,3}; plus seeded random schedules n in {1,2,5,20,127,254} with bursts that wrap the sequence space; distinct = distinct scenario / queue tuple; non-trivial = at least one packet dropped or duplicated (scenarios), non-empty window (queue)",
        "assumptions": ["transport keeps per-direction order", "queue methods are atomic w.r.t. each other (C18)"],
    },
    "C07": {
        "title": "No bytes delivered by the untrusted relay can crash an endpoint",
        "level": "proof",
        "tests": [{"name": "TestC07"}],
        "proofs": ["ModArith", "ProtoInv"],
        "technique": "Lean 4 totality theorems over Outcome-valued mirrors of the repo's decoders and window bookkeeping (gbn_deserialize_no_panic, msgdata_deserialize_no_panic, processACK_total, processNACK_total, dataPhaseStep_total, adoptN_safe), instantiated on the DATA guard regenerated from /repo; tied to the real functions and to live endpoints by exhaustive/random differential runs under recover()",
        "text": "Every Go index/slice/modulo that can panic in gbn.Deserialize, MsgData.Deserialize, queue.processACK/processNACK/addPacket, the receiver's sequence bump and setN is an explicit Outcome.panic in the model; the theorems show that for every byte string and every ACK/NACK/SYN value (all 256) one data-phase iteration is ok or 'connection fails', never panic, and keeps base, top, recvSeq inside the sequence space without growing the window. The guard the proof needs (DATA header >= 4 bytes) is re-extracted from /repo and re-checked by the kernel every run. Tie: decoders on all byte strings up to 2/3 bytes plus random; all (s,base,top,seq) for s<=8/16; all 256 SYN window values on a real server handshake; live endpoints in four window states fed ~1000 raw packets each.",
        "note": "Proof covers the repo's own GBN/MsgData decoders and bookkeeping. Noise handshake/record parsing is covered by C16/C02 models (lengths) and exercised here only by search; the websocket JSON envelope (regexp, protojson, websocket, btcec parsing) is third-party code outside the model: that sub-claim rests on random search only.",
        "design_ref": "DESIGN.md section 3, C07",
        "rule": "cases: every byte string <=2 (quick)/<=3 (thorough) bytes through gbn.Deserialize and <=2 through MsgData.Deserialize, 9x12^2/12^3 edge strings, random garbage; all (s,base,top,seq) s<=8/16; SYN N for N=0..255; live endpoint x raw packet (type byte 0..7 x value x 4 shapes) x 4 window states; distinct = distinct input; non-trivial = decodes or reaches the bookkeeping",
        "assumptions": ["Go int is 64 bits"],
    },
    "C09": {
        "title": "GBN sender never exceeds its window; Send blocks only when it is full",
        "level": "proof",
        "tests": [{"name": "TestC09"}],
        "proofs": ["ModArith", "ProtoInv", "ProtoStep"],
        "technique": "Lean 4 corollaries of the Go-Back-N invariant (C09_window, C09_bounds, C09_room_enabled, C09_blocks_when_full, C09_first_n_free, C09_seqspace, C09_relay_values); queue mirror tied to queue.go exhaustively; blocking behaviour and window discipline of real connections checked under synctest and by trace inclusion",
        "text": "For every n in 1..254 and every reachable state of the protocol model: T-B<=n, the code's size() equals T-B, base/top/recvSeq < s and n < s; a new packet is accepted iff fewer than n are outstanding (first n sends of a fresh connection need no ACK, the next is refused until the base moves); s=n+1 for n<=254 and the excluded point 255 gives s=0 (rejected by the handshake, C10). Relay-chosen ACK/NACK values keep the bookkeeping in range. Tie: queue differential as C01; for n in 1..254 real connections with ACKs withheld: exactly n Sends return, the next is durably blocked (synctest.Wait), one ACK frees exactly one; every new DATA packet emitted by real send loops under fault schedules must find room in the model's window (trace inclusion).",
        "note": "'Send returns without waiting for the peer' is a runtime fact established by the synctest runs, not by the theorem. Assumes queue method atomicity (C18).",
        "design_ref": "DESIGN.md section 3, C09",
        "rule": "queue tuples as C01 plus 4000 random (s in 17..255); blocking scenario per n (quick: n<=24, multiples of 7, 250..254; thorough: all 1..254); C01 scenario family replayed (quick: a third); distinct = distinct tuple/scenario; non-trivial = non-empty window / all scenarios",
        "assumptions": ["queue methods atomic (C18)"],
    },
    "C14": {
        "title": "Message boundaries and contents survive chunking for every size",
        "level": "proof",
        "tests": [{"name": "TestC14"}],
        "technique": "Lean 4 theorems reassemble_split / reassemble_msgs / recv_deadlines / C14_with_C01 over a literal model of Send's splitting loop and Recv's reassembly; counterexample theorem for Send deadlines; model tied to real client/server pairs (synctest) by comparing emitted chunk lists and Recv results",
        "text": "For every payload length and every maxChunkSize (0 = off) the Lean model of Send's loop followed by Recv's loop returns exactly the payload, sequences of messages reassemble to themselves, Recv deadlines expiring anywhere inside a message never lose/merge/split data (partial buffer is connection state), and C01's packet-level prefix lifts to messages. The full statement including Send deadlines is proved false of the model (C14_send_deadline_counterexample) and the witness is replayed on the real connection (known finding). Tie: chunk (length, final) lists emitted by real Send and Recv results compared with the model for all L<=12 x M<=6 (quick) / L<=24 x M<=9 (thorough), all triples/quadruples of boundary lengths, large random payloads, and deadline sweeps at every chunk boundary.",
        "note": "Full for the model; transport faults are covered by composition with C01 (C14_with_C01). Negative maxChunkSize is outside the property's configuration space.",
        "design_ref": "DESIGN.md section 3, C14",
        "rule": "one case = one real connection sending a sequence of messages; single lengths 0..L x maxChunk 0..M; sequences over {0,1,m-1,m,m+1,2m,2m+1}^3 (quick) or ^3 x {0,m,2m+1} (thorough); random large; recv/send deadline at every chunk boundary of c-chunk messages; distinct = distinct (maxChunk, lengths, deadline position); non-trivial = chunking enabled or a deadline firing inside a message",
        "assumptions": ["Recv is called from one goroutine at a time"],
    },
    "C19": {
        "title": "Wire codecs round-trip for all field values",
        "level": "proof",
        "tests": [{"name": "TestC19"}],
        "technique": "Lean 4 theorems (gbn_roundtrip, gbn_canonical, msgdata_roundtrip, msgdata_canonical) over a byte-level model of messages.go / MsgData; model instantiated with guards and constants regenerated from /repo (kernel-checked obligations) and tied to the real functions by an exhaustive+random differential run",
        "text": "Round-trip and canonical-form laws are proved in Lean for every packet type, every value of the one-byte fields, both flags and every payload (MsgData: every version byte, every payload shorter than 2^32). The model's DATA guard and type bytes are re-extracted from /repo and re-checked by the kernel each run; the real Serialize/Deserialize are compared with the model on every byte string up to 2 (quick) / 3 (thorough) bytes, structured packets and random garbage, and the round-trip oracle is evaluated on the real functions.",
        "note": "Trusted: Lean kernel, factgen's guard/constant extraction, the differential harness. Payloads >= 2^32 bytes are outside the MsgData theorem (uint32 truncation in the code).",
        "design_ref": "DESIGN.md section 3, C19",
        "rule": "cases: every byte string of length <= 2 (quick) / 3 (thorough) through gbn.Deserialize, 9x12^3 edge 4/5-byte strings, all 256 values of each one-byte field per packet type x flags x payload lengths, random garbage and near-valid MsgData (length prefix off by -1/0/+1); distinct = distinct input bytes; non-trivial = non-empty input that does not simply yield EOF (gbn) / input of at least header size (MsgData) / structured value",
        "assumptions": ["Go int is 64 bits (amd64); 5+int(payloadLen) cannot overflow"],
    },
}
