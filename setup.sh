#!/bin/sh
# Offline build of the verification framework from files on disk only.
set -e
cd "$(dirname "$0")"
export GOFLAGS=-mod=mod GOPROXY=off GOSUMDB=off GOTOOLCHAIN=local
mkdir -p .work evidence replays
# 1. facts from the current tree, 2. whole Lean project (model, proofs, driver)
(cd harness && go1.26 run ./cmd/factgen /repo /verif/lean/LncModel/Facts/Generated.lean)
(cd lean && lake build LncModel lncmodel $(ls LncModel/Props/*.lean LncModel/Inst/*.lean | sed "s#/#.#g; s#\.lean\$##"))
# 3. warm the Go build cache for the harness (plain and -race)
(cd harness && go1.26 test -tags "verif rpctest" -count=1 -run '^$' . >/dev/null)
(cd harness && go1.26 test -race -tags "verif rpctest" -count=1 -run '^$' . >/dev/null)
echo setup-ok
