package harness

import (
	"bytes"
	"fmt"
	"strings"
	"testing"
	"time"

	"github.com/lightninglabs/lightning-node-connect/gbn"
)

// progress facts of one finished scenario
type c06Facts struct {
	AllDelivered bool
	MaxLatency   time.Duration // max over messages of: received - max(accepted by Send, faults ceased)
	WorstMsg     string
	FaultsUntil  time.Duration
	ClosedNoKA   bool // a connection closed although keepalive is off
	BothFailed   bool
	LateData     int // non-ping DATA packets emitted in the last 100 s of the run
	Unacked      [2]uint8
	Pending      [2]int
}

func c06Analyse(sc *GbnScenario, res *GbnResult) c06Facts {
	f := c06Facts{AllDelivered: true}
	if rf := sc.RandFault; rf != nil {
		f.FaultsUntil = rf.Until
	}
	att := attempted(res)
	var accepted, received [2][]time.Duration
	for _, e := range res.Events {
		switch {
		case e.Kind == "send-ret" && e.Err == "":
			accepted[e.EP] = append(accepted[e.EP], e.At)
		case e.Kind == "recv-ret" && e.Err == "":
			received[1-e.EP] = append(received[1-e.EP], e.At)
		}
	}
	for ep := 0; ep < 2; ep++ {
		got, sent := res.Recvd[ep], att[1-ep]
		if len(got) != len(sc.Msgs[1-ep]) || len(sent) != len(got) {
			f.AllDelivered = false
		}
		f.Pending[1-ep] = len(sc.Msgs[1-ep]) - len(got)
		for i := range got {
			if i < len(sent) && !bytes.Equal(got[i], sent[i]) {
				f.AllDelivered = false
			}
		}
	}
	for dir := 0; dir < 2; dir++ {
		for i, ta := range accepted[dir] {
			from := ta
			if f.FaultsUntil > from {
				from = f.FaultsUntil
			}
			end := res.Duration
			if i < len(received[dir]) {
				end = received[dir][i]
			}
			if end-from > f.MaxLatency {
				f.MaxLatency = end - from
				f.WorstMsg = fmt.Sprintf("direction %d message %d accepted at %v, received at %v", dir, i, ta, end)
			}
		}
	}
	lastRecv := time.Duration(0)
	for dir := 0; dir < 2; dir++ {
		for _, tr := range received[dir] {
			if tr > lastRecv {
				lastRecv = tr
			}
		}
	}
	quiet := res.Duration - 100*time.Second
	if lastRecv+20*time.Second > quiet {
		quiet = lastRecv + 20*time.Second
	}
	for _, e := range res.Events {
		if e.Kind == "emit" && e.At > quiet && e.At < res.Duration && e.By == "sendloop" {
			if m, err := gbn.Deserialize(e.Pkt); err == nil {
				if d, ok := m.(*gbn.PacketData); ok && !d.IsPing {
					f.LateData++
				}
			}
		}
		if e.Kind == "emit" && e.By == "close" && e.At < res.Duration && sc.PingNs == 0 {
			f.ClosedNoKA = true
		}
	}
	f.Unacked = [2]uint8{res.States[0].Size, res.States[1].Size}
	failedEarly := [2]bool{}
	for _, e := range res.Events {
		if e.Kind == "recv-ret" && e.Err != "" && e.At < res.Duration {
			failedEarly[e.EP] = true
		}
	}
	f.BothFailed = failedEarly[0] && failedEarly[1]
	return f
}

func c06Scenarios() []*GbnScenario {
	var scs []*GbnScenario
	rng := newRand(606)
	id := 0
	// (a) enumerated fault prefixes over the first packets, then a reliable channel
	k := pick(4, 6)
	for _, n := range []uint8{1, 2, 5} {
		for _, f0 := range faultPatterns(k) {
			id++
			sc := &GbnScenario{Name: fmt.Sprintf("prefix-n%d-%d", n, id), N: n,
				Msgs:    [2][]int{{2, 3, 4, 5, 2, 3}, {3, 2}},
				Faults:  [2][]Fault{cleanHS(0, f0), cleanHS(1, faultPatterns(2)[id%9])},
				Latency: 20 * time.Millisecond, RunFor: 150 * time.Second, Seed: int64(id)}
			if id%2 == 0 {
				sc.Static = time.Second
			}
			if id%3 == 0 {
				sc.PingNs, sc.PongNs = int64(5*time.Second), int64(3*time.Second)
			}
			// timeout configurations: package defaults (resend = handshake = 1 s), the mailbox's
			// (handshake 2 s above the resend timeout), and a short static resend timeout
			switch id % 5 {
			case 1:
				sc.HsTimeout = 2 * time.Second
			case 3:
				sc.Static = 250 * time.Millisecond
			}
			scs = append(scs, sc)
		}
	}
	// (b) random finite fault periods (drop/dup/delay) followed by a reliable suffix
	for i := 0; i < pick(400, 8000); i++ {
		id++
		n := []uint8{1, 2, 5, 20}[rng.Intn(4)]
		m0, m1 := 3+rng.Intn(25), rng.Intn(15)
		if rng.Intn(3) == 0 {
			m1 = 0 // unidirectional
		}
		sizes := func(m int) []int {
			l := make([]int, m)
			for i := range l {
				l[i] = 2 + rng.Intn(5)
			}
			return l
		}
		until := time.Duration(5+rng.Intn(40)) * time.Second
		sc := &GbnScenario{Name: fmt.Sprintf("rand-%d", id), N: n, Msgs: [2][]int{sizes(m0), sizes(m1)},
			Faults:  [2][]Fault{cleanHS(0, nil), cleanHS(1, nil)},
			Latency: time.Duration(1+rng.Intn(300)) * time.Millisecond,
			RandFault: &RandFault{DropPct: rng.Intn(40), DupPct: rng.Intn(20), DelayPct: rng.Intn(25),
				MaxDelay: time.Duration(rng.Intn(2500)) * time.Millisecond, Until: until},
			RunFor: until + 400*time.Second, Seed: int64(7000 + id)}
		if rng.Intn(2) == 0 {
			sc.Static = time.Second
		}
		switch rng.Intn(4) {
		case 0:
			sc.PingNs, sc.PongNs = int64(5*time.Second), int64(3*time.Second)
		case 1:
			sc.PingNs, sc.PongNs = int64(7*time.Second), int64(3*time.Second)
		}
		if rng.Intn(3) == 0 {
			sc.SendGap = [2]time.Duration{time.Duration(rng.Intn(2500)) * time.Millisecond, time.Duration(rng.Intn(2500)) * time.Millisecond}
		}
		switch rng.Intn(6) {
		case 0:
			// the two ends are configured independently: different static resend timeouts
			a := []time.Duration{250 * time.Millisecond, 400 * time.Millisecond, time.Second, 1500 * time.Millisecond, 3 * time.Second}
			sc.StaticEP = [2]time.Duration{a[rng.Intn(len(a))], a[rng.Intn(len(a))]}
		case 1:
			// large windows: occupancy arithmetic beyond 127
			sc.N = []uint8{128, 200, 254}[rng.Intn(3)]
			sc.Msgs[0] = sizes(40 + rng.Intn(260))
			sc.SendGap = [2]time.Duration{}
		}
		switch rng.Intn(5) {
		case 0:
			sc.HsTimeout = 2 * time.Second
		case 1:
			sc.HsTimeout = 3 * time.Second
		case 2:
			if sc.Static > 0 {
				sc.Static = 250 * time.Millisecond
			}
		}
		scs = append(scs, sc)
	}
	return scs
}

// tailLossScenario: the last packet of a burst is lost while the reverse
// direction keeps sending with the given period.
func tailLossScenario(n uint8, reversePeriod time.Duration, keepalive bool) *GbnScenario {
	burst := 3
	faults := make([]Fault, burst)
	faults[burst-1] = Fault{Drop: true}
	rev := make([]int, int(250*time.Second/reversePeriod))
	for i := range rev {
		rev[i] = 3
	}
	sc := &GbnScenario{Name: fmt.Sprintf("tail-loss-n%d-rev%v-ka%v", n, reversePeriod, keepalive), N: n,
		Msgs:   [2][]int{{2, 3, 4}, rev},
		Faults: [2][]Fault{cleanHS(0, faults), cleanHS(1, nil)}, Latency: 10 * time.Millisecond,
		SendGap: [2]time.Duration{0, reversePeriod}, Static: time.Second, RunFor: 300 * time.Second}
	if keepalive {
		sc.PingNs, sc.PongNs = int64(5*time.Second), int64(3*time.Second)
	}
	return sc
}

// ackTailLossScenario: every ACK of a delivered window and the first NACK that answers the
// retransmission are lost; the two ends have different resend timeouts (the receiver's NACK
// back-off is measured in its own timeout, the sender's retransmissions in the sender's).
func ackTailLossScenario(n uint8, cliTO, srvTO time.Duration, lost int) *GbnScenario {
	faults := make([]Fault, lost)
	for i := range faults {
		faults[i] = Fault{Drop: true}
	}
	msgs := make([]int, int(n)+2)
	for i := range msgs {
		msgs[i] = 3
	}
	return &GbnScenario{Name: fmt.Sprintf("ack-tail-loss-n%d-%v-%v-lost%d", n, cliTO, srvTO, lost), N: n,
		Msgs:   [2][]int{msgs, nil},
		Faults: [2][]Fault{cleanHS(0, nil), cleanHS(1, faults)}, Latency: 10 * time.Millisecond,
		StaticEP: [2]time.Duration{cliTO, srvTO}, RunFor: 300 * time.Second}
}

func TestC06(t *testing.T) {
	r := NewRecorder(t, "C06")
	defer r.Close(t)
	scs := c06Scenarios()
	for _, n := range []uint8{1, 2, 3} {
		for _, to := range [][2]time.Duration{{400 * time.Millisecond, 1500 * time.Millisecond}, {time.Second, time.Second},
			{1500 * time.Millisecond, 400 * time.Millisecond}, {250 * time.Millisecond, 3 * time.Second}} {
			for lost := int(n); lost <= int(n)+2; lost++ {
				scs = append(scs, ackTailLossScenario(n, to[0], to[1], lost))
			}
		}
	}
	for _, n := range []uint8{1, 3, 20} {
		for _, p := range []time.Duration{300 * time.Millisecond, 900 * time.Millisecond, 1500 * time.Millisecond} {
			scs = append(scs, tailLossScenario(n, p, false), tailLossScenario(n, p, true))
		}
	}
	// a long history of separate single losses under a static resend timeout: one message every 5 s,
	// the first transmission of each lost once. The configuration bounds the repair of every one of
	// them in the same way, however many came before (judged with a bound of 10 s per message)
	for _, n := range []uint8{2, 20} {
		cnt := pick(40, 120)
		var fl []Fault
		msgs := make([]int, cnt)
		for i := range msgs {
			msgs[i] = 3
			fl = append(fl, Fault{Drop: true}, Fault{})
		}
		scs = append(scs, &GbnScenario{Name: fmt.Sprintf("static-history-n%d", n), N: n, Msgs: [2][]int{msgs, nil},
			Faults: [2][]Fault{cleanHS(0, fl), nil}, Latency: 10 * time.Millisecond, Static: time.Second,
			SendGap: [2]time.Duration{5 * time.Second, 0}, RunFor: time.Duration(cnt)*5*time.Second + 200*time.Second})
	}
	traces := 0
	maxDone := time.Duration(0)
	forEachScenario(t, scs, func(sc *GbnScenario, res *GbnResult) {
		if res.Panic != "" {
			r.Violate("C06/panic", res.Panic, sc)
			return
		}
		if res.HsErr[0] != "" || res.HsErr[1] != "" {
			r.Case(sc.Name, false, "handshake-failed")
			return
		}
		r.EmitOKBlock(uniLines(sc, res))
		traces++
		f := c06Analyse(sc, res)
		faulty := sc.RandFault != nil
		for d := 0; d < 2; d++ {
			for _, x := range sc.Faults[d] {
				if x != (Fault{}) {
					faulty = true
				}
			}
		}
		class := "prefix"
		if sc.RandFault != nil {
			class = "random"
		}
		if len(sc.Name) > 4 && sc.Name[:4] == "tail" {
			class = "tail-loss"
		}
		if len(sc.Name) > 8 && sc.Name[:8] == "ack-tail" {
			class = "ack-tail-loss"
		}
		if strings.HasPrefix(sc.Name, "static-history") {
			class = "static-history"
		}
		r.Case(sc.Name, faulty, fmt.Sprintf("%s/n=%d/ka=%v/static=%v/hs=%v/asym=%v", class, sc.N, sc.PingNs > 0, sc.Static, sc.HsTimeout, sc.StaticEP != [2]time.Duration{}))
		// an accepted message is delivered within `bound` of (acceptance, end of faults)
		bound := 60*time.Second + 100*sc.Latency
		if class == "static-history" {
			bound = 10 * time.Second
		}
		switch {
		case f.ClosedNoKA:
			r.Violate("C06/closed-without-keepalive", "a connection closed itself although keepalive is off", sc)
		case !f.BothFailed && f.MaxLatency > bound:
			sig := "C06/stall"
			if class == "tail-loss" && sc.SendGap[1] < time.Second {
				sig = "C06/retransmit-starved-by-reverse-traffic"
			}
			r.Violate(sig, fmt.Sprintf("both ends open, %s; not delivered within %v (bound %v) although the transport is reliable",
				f.WorstMsg, f.MaxLatency, bound), sc)
		case !f.AllDelivered && !f.BothFailed:
			r.Violate("C06/stall", fmt.Sprintf("both ends open, %v messages never delivered", f.Pending), sc)
		case f.AllDelivered && (f.LateData > 0 || (sc.PingNs == 0 && f.Unacked != [2]uint8{})):
			r.Violate("C06/retransmits-after-quiescence", fmt.Sprintf("%d DATA packets emitted in the last 100 s of the run, %v packets still unacknowledged, %v after the faults ceased",
				f.LateData, f.Unacked, sc.RunFor-f.FaultsUntil), sc)
		}
		if f.MaxLatency > maxDone {
			maxDone = f.MaxLatency
		}
		if ok, why := prefixOracle(res); !ok {
			r.Violate("C01/recv-not-prefix-of-send", why, sc)
		}
		if len(r.Samples) < 3 {
			r.Samples = append(r.Samples, map[string]interface{}{"scenario": sc.Name, "max_latency": f.MaxLatency.String(), "faults_until": f.FaultsUntil.String()})
		}
	})
	r.Notes["traces_validated"] = traces
	r.Notes["max_delivery_latency_after_faults"] = maxDone.String()
}
