package harness

import (
	"errors"
	"io"
	"net"
	"sync"
	"sync/atomic"
	"time"

	"github.com/btcsuite/btcd/btcec/v2"
	"github.com/lightninglabs/lightning-node-connect/mailbox"
	"github.com/lightningnetwork/lnd/keychain"
)

// ---- in-memory byte pipe --------------------------------------------------

type byteQueue struct {
	mu      sync.Mutex
	cond    *sync.Cond
	buf     []byte
	closed  bool
	tap     func(b []byte) []byte // optional MITM rewrite of every chunk written
	log     [][]byte              // every chunk as written (after tap)
	waiting int                   // readers blocked on an empty queue
}

// starved reports whether a reader is blocked on this queue with nothing to read.
func (q *byteQueue) starved() bool {
	q.mu.Lock()
	defer q.mu.Unlock()
	return q.waiting > 0 && len(q.buf) == 0 && !q.closed
}

func newByteQueue() *byteQueue {
	q := &byteQueue{}
	q.cond = sync.NewCond(&q.mu)
	return q
}

func (q *byteQueue) write(b []byte) {
	q.mu.Lock()
	cp := append([]byte(nil), b...)
	if q.tap != nil {
		cp = q.tap(cp)
	}
	q.log = append(q.log, cp)
	q.buf = append(q.buf, cp...)
	q.mu.Unlock()
	q.cond.Broadcast()
}

func (q *byteQueue) close() {
	q.mu.Lock()
	q.closed = true
	q.mu.Unlock()
	q.cond.Broadcast()
}

// read blocks until at least one byte is available (or closed) and returns
// at most max bytes.
func (q *byteQueue) read(p []byte, max int) (int, error) {
	q.mu.Lock()
	defer q.mu.Unlock()
	for len(q.buf) == 0 && !q.closed {
		q.waiting++
		q.cond.Wait()
		q.waiting--
	}
	if len(q.buf) == 0 {
		return 0, io.EOF
	}
	n := len(p)
	if max > 0 && n > max {
		n = max
	}
	if n > len(q.buf) {
		n = len(q.buf)
	}
	copy(p, q.buf[:n])
	q.buf = q.buf[n:]
	return n, nil
}

func (q *byteQueue) available() int {
	q.mu.Lock()
	defer q.mu.Unlock()
	return len(q.buf)
}

// memConn is one end of an in-memory duplex; it satisfies net.Conn and the
// mailbox ProxyConn interface (control messages are framed MsgData).
type memConn struct {
	rd, wr   *byteQueue
	frag     func() int // max bytes returned by one Read (0 = unlimited)
	accept   func(n int) (int, error)
	writeLog [][]byte
}

func newMemPair() (*memConn, *memConn) {
	a, b := newByteQueue(), newByteQueue()
	return &memConn{rd: a, wr: b}, &memConn{rd: b, wr: a}
}

func (c *memConn) Read(p []byte) (int, error) {
	max := 0
	if c.frag != nil {
		max = c.frag()
	}
	return c.rd.read(p, max)
}

var errShortWrite = errors.New("timeout: short write")

func (c *memConn) Write(p []byte) (int, error) {
	n := len(p)
	var err error
	if c.accept != nil {
		n, err = c.accept(len(p))
	}
	c.writeLog = append(c.writeLog, append([]byte(nil), p[:n]...))
	c.wr.write(p[:n])
	return n, err
}

func (c *memConn) Close() error                       { c.wr.close(); c.rd.close(); return nil }
func (c *memConn) LocalAddr() net.Addr                { return &net.TCPAddr{} }
func (c *memConn) RemoteAddr() net.Addr               { return &net.TCPAddr{} }
func (c *memConn) SetDeadline(t time.Time) error      { return nil }
func (c *memConn) SetReadDeadline(t time.Time) error  { return nil }
func (c *memConn) SetWriteDeadline(t time.Time) error { return nil }
func (c *memConn) SetRecvTimeout(time.Duration)       {}
func (c *memConn) SetSendTimeout(time.Duration)       {}
func (c *memConn) ReceiveControlMsg(m mailbox.ControlMsg) error {
	return errors.New("not used")
}
func (c *memConn) SendControlMsg(m mailbox.ControlMsg) error { return errors.New("not used") }

var _ mailbox.ProxyConn = (*memConn)(nil)

// ---- handshake helper ----------------------------------------------------------

type hsSide struct {
	Priv       *btcec.PrivateKey
	Remote     *btcec.PublicKey // expected remote static (KK) or nil (XX)
	Passphrase []byte
	AuthData   []byte
	Min, Max   byte
	Data       *mailbox.ConnData
	Machine    *mailbox.Machine
	Err        error
	NewErr     error
	OnRemote   []byte
	OnAuth     []byte
	gotAuth    bool
	// Pattern, when set, is used instead of the pattern the ConnData selects (the exported API
	// takes pattern and ConnData independently)
	Pattern *mailbox.HandshakePattern
}

func (s *hsSide) build(initiator bool) {
	s.Data = mailbox.NewConnData(&keychain.PrivKeyECDH{PrivKey: s.Priv}, s.Remote, s.Passphrase, s.AuthData,
		func(k *btcec.PublicKey) error { s.OnRemote = k.SerializeCompressed(); return nil },
		func(d []byte) error { s.OnAuth = append([]byte(nil), d...); s.gotAuth = true; return nil })
	pat := s.Data.HandshakePattern()
	if s.Pattern != nil {
		pat = *s.Pattern
	}
	s.Machine, s.NewErr = mailbox.NewBrontideMachine(&mailbox.BrontideMachineConfig{
		Initiator: initiator, HandshakePattern: pat, ConnData: s.Data,
		MinHandshakeVersion: s.Min, MaxHandshakeVersion: s.Max,
	})
}

// rebuild keeps an existing ConnData (a reconnecting party) and only creates a new machine.
func (s *hsSide) rebuild(initiator bool) {
	if s.Data == nil {
		s.build(initiator)
		return
	}
	s.OnAuth, s.gotAuth = nil, false
	s.Machine, s.NewErr = mailbox.NewBrontideMachine(&mailbox.BrontideMachineConfig{
		Initiator: initiator, HandshakePattern: s.Data.HandshakePattern(), ConnData: s.Data,
		MinHandshakeVersion: s.Min, MaxHandshakeVersion: s.Max,
	})
}

// runHandshake performs a real Noise handshake between the two sides over the
// given duplex. A side whose machine could not be built does not take part.
func runHandshake(cli, srv *hsSide, cc, sc *memConn) {
	cli.build(true)
	srv.build(false)
	runBuilt(cli, srv, cc, sc)
}

// runHandshakeReuse: like runHandshake, but sides that already have a ConnData keep it.
func runHandshakeReuse(cli, srv *hsSide, cc, sc *memConn) {
	cli.rebuild(true)
	srv.rebuild(false)
	runBuilt(cli, srv, cc, sc)
}

func runBuilt(cli, srv *hsSide, cc, sc *memConn) {
	var wg sync.WaitGroup
	var finished int32
	run := func(s *hsSide, c *memConn) {
		defer wg.Done()
		defer atomic.AddInt32(&finished, 1)
		if s.NewErr != nil {
			s.Err = s.NewErr
			c.Close()
			return
		}
		s.Err = s.Machine.DoHandshake(c)
		if s.Err != nil {
			c.Close() // what the callers do: a failed handshake closes the connection
		}
	}
	wg.Add(2)
	go run(cli, cc)
	go run(srv, sc)
	// The real callers arm a 5 s read deadline (handshakeReadTimeout). Here a
	// handshake that can make no progress - every side still running is blocked
	// on an empty queue - is ended the same way: the blocked reads fail.
	stop := make(chan struct{})
	go func() {
		for {
			select {
			case <-stop:
				return
			case <-time.After(200 * time.Microsecond):
			}
			f := atomic.LoadInt32(&finished)
			a, b := cc.rd.starved(), sc.rd.starved()
			if (a && b) || (f == 1 && (a || b)) {
				// confirm after a short grace period (a writer may be between two writes)
				time.Sleep(2 * time.Millisecond)
				f2 := atomic.LoadInt32(&finished)
				a2, b2 := cc.rd.starved(), sc.rd.starved()
				if f2 == f && ((a2 && b2) || (f2 == 1 && (a2 || b2))) {
					cc.rd.close()
					sc.rd.close()
				}
			}
		}
	}()
	wg.Wait()
	close(stop)
}

// quickPair returns two handshaken machines (XX, version 2) over a fresh duplex.
func quickPair() (*hsSide, *hsSide, *memConn, *memConn) {
	pass := []byte("pairing-phrase-entropy")
	cli := &hsSide{Priv: key(1001), Passphrase: pass, Min: 0, Max: 2}
	srv := &hsSide{Priv: key(1002), Passphrase: pass, AuthData: []byte("macaroon-auth-data"), Min: 0, Max: 2}
	cc, sc := newMemPair()
	runHandshake(cli, srv, cc, sc)
	return cli, srv, cc, sc
}
