package harness

import (
	"fmt"
	"runtime"
	"sync"
	"sync/atomic"
	"testing"
)

// forEachScenario runs the scenarios on all cores (each in its own synctest
// bubble) and calls each(sc, res) — serialised — for every result.
func forEachScenario(t *testing.T, scs []*GbnScenario, each func(sc *GbnScenario, res *GbnResult)) {
	var next int64 = -1
	var mu sync.Mutex
	workers := runtime.NumCPU()
	if workers > len(scs) {
		workers = len(scs)
	}
	t.Run("scenarios", func(t *testing.T) {
		for w := 0; w < workers; w++ {
			t.Run(fmt.Sprintf("w%d", w), func(t *testing.T) {
				t.Parallel()
				for {
					i := int(atomic.AddInt64(&next, 1))
					if i >= len(scs) {
						return
					}
					res := RunGbn(t, scs[i], nil)
					mu.Lock()
					each(scs[i], res)
					mu.Unlock()
				}
			})
		}
	})
}

// EmitBlock records a contiguous block of lines whose expected result is "ok".
func (r *Recorder) EmitOKBlock(ops []string) {
	r.mu.Lock()
	defer r.mu.Unlock()
	for _, op := range ops {
		r.ops.WriteString(op)
		r.ops.WriteByte('\n')
		r.outs.WriteString("ok\n")
		r.Lines++
	}
}
