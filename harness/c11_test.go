package harness

import (
	"bytes"
	"context"
	"fmt"
	"net"
	"strings"
	"sync"
	"testing"
	"time"

	"github.com/lightninglabs/lightning-node-connect/mailbox"
	"github.com/lightningnetwork/lnd/keychain"
)

var dbgRelay func(*FakeRelay)

type doneConn interface {
	net.Conn
	Done() <-chan struct{}
}

// closeTimed calls Close under a watchdog (a Close that never returns is a finding, not a hang of the harness).
func closeTimed(c net.Conn) bool {
	done := make(chan struct{})
	go func() { c.Close(); close(done) }()
	select {
	case <-done:
		return true
	case <-time.After(20 * time.Second):
		return false
	}
}

func isDone(c net.Conn) bool {
	if d, ok := c.(doneConn); ok {
		select {
		case <-d.Done():
			return true
		default:
			return false
		}
	}
	return true
}

// c11Run plays a sequence of session events against the real Server/Client
// and returns the session-level trace for the Lean session automaton.
func c11Run(ops []string, seed int) (lines []string, viols []Violation, info map[string]interface{}) {
	info = map[string]interface{}{}
	add := func(l string) { lines = append(lines, l) }
	viol := func(sig, what string) {
		viols = append(viols, Violation{sig, what, map[string]interface{}{"ops": ops, "seed": seed}})
	}
	relay := NewFakeRelay()
	st, err := NewStack(relay, seed)
	if err != nil {
		viol("C11/setup", err.Error())
		return
	}
	abandon := false // a wedged connection is left behind rather than shut down (that could hang too)
	defer func() {
		if !abandon {
			st.Shutdown()
		}
	}()
	st.ReuseNoise = true // one NoiseGrpcConn per side for the whole session, as with gRPC credentials
	st.EagerAccept = seed%2 == 0
	info = map[string]interface{}{"eager_accept": st.EagerAccept}
	if dbgRelay != nil {
		defer func() { dbgRelay(relay) }()
	}
	add("sess.init")
	passSID, _ := st.SrvData.SID()
	var srv, cli SecureConn
	connect := func() bool {
		prevS, prevC := srv.Mailbox, cli.Mailbox
		// the pattern each side selects for this connection is fixed by what it stored before
		patS, patC := st.SrvData.HandshakePattern().Name, st.CliData.HandshakePattern().Name
		s, c, _ := st.ConnectRetry(6)
		// one live connection: nothing new may be handed out while the old one is open
		if s.Mailbox != nil && prevS != nil && !isDone(prevS) {
			viol("C11/second-connection-while-open", "Accept returned a connection while the previous one was still open")
		}
		if c.Mailbox != nil && prevC != nil && !isDone(prevC) {
			viol("C11/second-connection-while-open", "Dial returned a connection while the previous one was still open")
		}
		srv, cli = s, c
		if s.Err == nil && c.Err == nil {
			add("sess.accept-ret")
			add("sess.dial-ret")
			ver := "xx"
			if patS == mailbox.KK && patC == mailbox.KK {
				ver = "paired"
			} else if patS != patC {
				ver = "split"
			}
			add("sess.handshake-ok " + ver)
			return true
		}
		return false
	}
	transfer := func() bool {
		msg := highEntropy(3000, seed+len(lines))
		done := make(chan error, 1)
		go func() { _, err := cli.Conn.Write(msg); done <- err }()
		srv.Mailbox.SetReadDeadline(time.Now().Add(40 * time.Second))
		var got []byte
		buf := make([]byte, 32768)
		for len(got) < len(msg) {
			n, err := srv.Conn.Read(buf)
			got = append(got, buf[:n]...)
			if err != nil {
				break
			}
		}
		<-done
		return bytes.Equal(got, msg)
	}
	if len(ops) > 0 && ops[0] == "lost-act3" {
		// the relay loses the client's third handshake message of the very first connection
		st.CutClientWritesAfter = 50
		ops = ops[1:]
	}
	if !connect() {
		if st.CliData.HandshakePattern().Name == mailbox.KK && st.SrvData.HandshakePattern().Name != mailbox.KK {
			sS, _ := st.SrvData.SID()
			sC, _ := st.CliData.SID()
			add("sess.accept-ret")
			add("sess.dial-ret")
			add("sess.handshake-half")
			add("sess.closed c")
			add("sess.closed s")
			add("sess.split " + b01(sS != sC))
			viol("C11/half-paired-after-lost-act3", fmt.Sprintf("the first handshake completed on the client only (its last message was lost): the client moved to the key-derived rendezvous and the KK pattern, the server stays at the passphrase rendezvous; after both closed that connection no fresh one is ever handed out (server %v, client %v)", srv.Err, cli.Err))
			return
		}
		viol("C11/no-connection", fmt.Sprintf("no working connection: server %v, client %v", srv.Err, cli.Err))
		return
	}
	// after the first pairing both sides moved to the key-derived rendezvous
	sidS, _ := st.SrvData.SID()
	sidC, _ := st.CliData.SID()
	info["paired_sid_equal"] = sidS == sidC
	info["paired_sid_differs_from_passphrase"] = sidS != passSID
	if sidS != sidC {
		viol("C11/paired-sid-mismatch", "after pairing client and server derive different session ids")
	}
	if sidS == passSID {
		viol("C11/no-switch-after-pairing", "after a version-2 pairing the session id is still the passphrase-derived one")
	}
	if st.SrvData.HandshakePattern().Name != mailbox.KK || st.CliData.HandshakePattern().Name != mailbox.KK {
		viol("C11/no-switch-after-pairing", "after pairing a side still selects the XX pattern")
	}
	for _, op := range ops {
		switch op {
		case "transfer":
			if !transfer() {
				viol("C11/transfer-failed", "data did not arrive over a connection that was handed out as working")
			}
			add("sess.transfer")
		case "close-client", "close-server", "relay-failure", "relay-outage", "del-fails", "junk-handshake":
			switch op {
			case "close-client":
				if !closeTimed(cli.Mailbox) {
					viol("C11/close-does-not-return", "Close of the client's mailbox connection had not returned after 20 s")
					abandon = true
					return
				}
				add("sess.closed c")
				// the server application notices on its next read and closes its end
				srv.Mailbox.SetReadDeadline(time.Now().Add(25 * time.Second))
				if _, err := srv.Conn.Read(make([]byte, 10)); err == nil {
					viol("C11/peer-close-unnoticed", "server read succeeded after the client closed")
				}
				if !closeTimed(srv.Mailbox) {
					viol("C11/close-does-not-return", "Close of the server's mailbox connection had not returned after 20 s")
					abandon = true
					return
				}
				add("sess.closed s")
			case "close-server":
				if !closeTimed(srv.Mailbox) {
					viol("C11/close-does-not-return", "Close of the server's mailbox connection had not returned after 20 s")
					abandon = true
					return
				}
				add("sess.closed s")
				cli.Mailbox.SetReadDeadline(time.Now().Add(25 * time.Second))
				if _, err := cli.Conn.Read(make([]byte, 10)); err == nil {
					viol("C11/peer-close-unnoticed", "client read succeeded after the server closed")
				}
				if !closeTimed(cli.Mailbox) {
					viol("C11/close-does-not-return", "Close of the client's mailbox connection had not returned after 20 s")
					abandon = true
					return
				}
				add("sess.closed c")
			case "del-fails":
				// the relay answers the next mailbox deletion (the server deletes its old mailboxes when
				// it moves to another rendezvous) with a transient error; then the connection is closed
				relay.mu.Lock()
				relay.FailDel = 1
				relay.mu.Unlock()
				if !closeTimed(cli.Mailbox) || !closeTimed(srv.Mailbox) {
					viol("C11/close-does-not-return", "Close had not returned after 20 s")
					abandon = true
					return
				}
				add("sess.closed c")
				add("sess.closed s")
			case "junk-handshake":
				// both sides close; an unparsable packet then waits in the mailboxes of the next
				// rendezvous, so that the first reconnect attempt fails in the GBN handshake with an
				// error. That attempt may fail; the session must get a working connection afterwards
				if !closeTimed(cli.Mailbox) || !closeTimed(srv.Mailbox) {
					viol("C11/close-does-not-return", "Close had not returned after 20 s")
					abandon = true
					return
				}
				add("sess.closed c")
				add("sess.closed s")
				if nsid, err := st.SrvData.SID(); err == nil {
					a, b := mailbox.GetSID(nsid, true), mailbox.GetSID(nsid, false)
					relay.Inject(sidKey(a[:]), []byte{0xff, 0x01, 0x02})
					relay.Inject(sidKey(b[:]), []byte{0xff, 0x01, 0x02})
				}
			case "relay-outage":
				// the relay is unreachable while both sides give up their connection: every stream
				// operation, closing the streams included, fails; then it comes back
				relay.SetDown(true)
				time.Sleep(300 * time.Millisecond)
				if !closeTimed(cli.Mailbox) {
					viol("C11/close-does-not-return", "Close of the client's mailbox connection had not returned after 20 s")
					abandon = true
					return
				}
				if !closeTimed(srv.Mailbox) {
					viol("C11/close-does-not-return", "Close of the server's mailbox connection had not returned after 20 s")
					abandon = true
					return
				}
				add("sess.closed c")
				add("sess.closed s")
				relay.SetDown(false)
				for _, m := range []net.Conn{cli.Mailbox, srv.Mailbox} {
					if !isDone(m) {
						viol("C11/closed-connection-not-done", "a connection closed during a relay outage never reports Done(): the next Accept/Dial waits forever")
						return
					}
				}
			case "relay-failure":
				// the relay forgets both mailboxes: streams fail, the connection dies or is re-established
				sid := st.CurSID // the rendezvous the current connection runs on
				a, b := mailbox.GetSID(sid, true), mailbox.GetSID(sid, false)
				relay.DeleteBox(sidKey(a[:]))
				relay.DeleteBox(sidKey(b[:]))
				if !closeTimed(cli.Mailbox) {
					viol("C11/close-does-not-return", "Close of the client's mailbox connection had not returned after 20 s")
					abandon = true
					return
				}
				if !closeTimed(srv.Mailbox) {
					viol("C11/close-does-not-return", "Close of the server's mailbox connection had not returned after 20 s")
					abandon = true
					return
				}
				add("sess.closed c")
				add("sess.closed s")
			}
			if !connect() {
				viol("C11/no-fresh-connection", fmt.Sprintf("after %s no fresh working connection: server %v, client %v", op, srv.Err, cli.Err))
				return
			}
			if !transfer() {
				viol("C11/fresh-connection-broken", "the connection handed out after "+op+" does not carry data")
			}
			add("sess.transfer")
		case "early-accept", "early-dial", "early-dial-expiring":
			// asked for the next connection while this one is open: must wait
			ch := make(chan PendingConn, 1)
			if op == "early-accept" && st.PendingAccept != nil {
				ch = st.PendingAccept // the eager Accept of the serve loop is that early call
			} else {
				go func() {
					var c net.Conn
					var err error
					switch op {
					case "early-accept":
						c, err = st.Srv.Accept()
					case "early-dial-expiring":
						// the caller's context runs out while the previous connection is still open:
						// that must not produce a second connection next to it either
						ctx, cancel := context.WithTimeout(st.Ctx, 300*time.Millisecond)
						defer cancel()
						c, err = st.Cli.Dial(ctx, "")
					default:
						c, err = st.Cli.Dial(st.Ctx, "")
					}
					ch <- PendingConn{c, err}
				}()
			}
			select {
			case p := <-ch:
				if p.Err == nil {
					viol("C11/second-connection-while-open", op+": a second connection was handed out while the first is open")
				}
				ch <- p
			case <-time.After(map[bool]time.Duration{false: 1500 * time.Millisecond, true: 8 * time.Second}[op == "early-dial-expiring"]):
			}
			if op == "early-dial-expiring" && !transfer() {
				viol("C11/open-connection-disturbed", "a Dial whose context expired while the connection was open: the open connection no longer carries data")
			}
			add("sess." + strings.TrimSuffix(op, "-expiring") + "-blocked")
			// end the current connection: the waiting call becomes one side of the next one
			if !closeTimed(cli.Mailbox) {
				viol("C11/close-does-not-return", "Close of the client's mailbox connection had not returned after 20 s")
				abandon = true
				return
			}
			if !closeTimed(srv.Mailbox) {
				viol("C11/close-does-not-return", "Close of the server's mailbox connection had not returned after 20 s")
				abandon = true
				return
			}
			add("sess.closed c")
			add("sess.closed s")
			if op == "early-accept" {
				st.PendingAccept = ch
			} else {
				st.PendingDial = ch
			}
			if !connect() {
				viol("C11/no-fresh-connection", fmt.Sprintf("after %s no fresh working connection: server %v, client %v", op, srv.Err, cli.Err))
				return
			}
			if !transfer() {
				viol("C11/fresh-connection-broken", "the connection handed out after "+op+" does not carry data")
			}
			add("sess.transfer")
		}
	}
	// a different client that only knows the passphrase is no longer admitted
	intruder := mailbox.NewConnData(&keychain.PrivKeyECDH{PrivKey: key(9000 + seed)}, nil, st.Entropy, nil, nil, nil)
	ictx, icancel := context.WithTimeout(context.Background(), 9*time.Second)
	defer icancel()
	ic, err := mailbox.NewClient(ictx, "fake-relay", intruder, mailbox.VWithHashMailClient(relay))
	admitted := false
	if err == nil {
		ch := make(chan bool, 1)
		go func() {
			c, err := ic.Dial(ictx, "")
			if err != nil {
				ch <- false
				return
			}
			_, _, err = mailbox.NewNoiseGrpcConn(intruder).ClientHandshake(ictx, "", c)
			c.Close()
			ch <- err == nil
		}()
		select {
		case admitted = <-ch:
		case <-time.After(10 * time.Second):
		}
	}
	if admitted {
		viol("C11/unpaired-client-admitted", "a client presenting only the original passphrase completed a handshake after pairing")
	}
	add("sess.intruder " + b01(admitted))
	if srv.Mailbox != nil {
		srv.Mailbox.Close()
	}
	if cli.Mailbox != nil {
		cli.Mailbox.Close()
	}
	return
}

func waitDone(c net.Conn, d time.Duration) {
	if dc, ok := c.(doneConn); ok {
		select {
		case <-dc.Done():
		case <-time.After(d):
		}
	}
}

func TestC11(t *testing.T) {
	r := NewRecorder(t, "C11")
	defer r.Close(t)
	alphabet := []string{"transfer", "close-client", "close-server", "relay-failure", "early-accept", "early-dial", "relay-outage", "del-fails", "junk-handshake"}
	var seqs [][]string
	// all sequences of length 1 and 2, plus seeded longer ones
	for _, a := range alphabet {
		seqs = append(seqs, []string{a})
	}
	seqs = append(seqs, []string{"lost-act3", "transfer"})
	seqs = append(seqs, []string{"early-dial-expiring"}, []string{"transfer", "early-dial-expiring", "transfer"})
	rng := newRand(11)
	for _, a := range alphabet[1:] {
		for _, b := range alphabet[1:] {
			if thorough() || rng.Intn(3) == 0 {
				seqs = append(seqs, []string{a, "transfer", b})
			}
		}
	}
	for i := 0; i < pick(6, 40); i++ {
		n := 3 + rng.Intn(pick(3, 5))
		s := make([]string, n)
		for k := range s {
			s[k] = alphabet[rng.Intn(len(alphabet))]
		}
		seqs = append(seqs, s)
	}
	var mu sync.Mutex
	idx := 0
	t.Run("session", func(t *testing.T) {
		for w := 0; w < 16; w++ {
			t.Run(fmt.Sprint(w), func(t *testing.T) {
				t.Parallel()
				for {
					mu.Lock()
					i := idx
					idx++
					mu.Unlock()
					if i >= len(seqs) {
						return
					}
					var lines []string
					var viols []Violation
					var info map[string]interface{}
					p, msg := safely(func() { lines, viols, info = c11Run(seqs[i], 200+i) })
					mu.Lock()
					if p {
						r.Violations = append(r.Violations, Violation{"C11/panic", msg, seqs[i]})
					}
					r.Violations = append(r.Violations, viols...)
					mu.Unlock()
					r.EmitOKBlock(lines)
					r.Case(strings.Join(seqs[i], ","), true, fmt.Sprintf("len=%d", len(seqs[i])))
					mu.Lock()
					if len(r.Samples) < 3 {
						r.Samples = append(r.Samples, map[string]interface{}{"ops": seqs[i], "trace": lines, "info": info})
					}
					mu.Unlock()
				}
			})
		}
	})
}
