package harness

import (
	"fmt"
	"testing"
	"time"

	"github.com/lightninglabs/lightning-node-connect/gbn"
)

// queueDiff compares the real send queue with the Lean mirror on every
// (s, base, top, seq) for s in [sLo, sHi] (exhaustive), and evaluates the
// range oracle of C07/C09 on the real queue.
func queueDiff(r *Recorder, sLo, sHi int, seqs []int, class string) {
	for s := sLo; s <= sHi; s++ {
		q := gbn.VNewQueue(uint8(s))
		for base := 0; base < s; base++ {
			for top := 0; top < s; top++ {
				q.Set(uint8(base), uint8(top))
				r.Emit(fmt.Sprintf("q.size %d %d %d", s, base, top), fmt.Sprint(q.Size()))
				for _, seq := range seqs {
					queueCase(r, q, s, base, top, seq, class)
				}
			}
		}
		q.Stop()
	}
}

func queueCase(r *Recorder, q *gbn.VQueue, s, base, top, seq int, class string) {
	check := func(op string) {
		b, t := q.Get()
		if int(b) >= s || int(t) >= s {
			r.Violate("C07/queue-out-of-range",
				fmt.Sprintf("%s(%d) on s=%d base=%d top=%d left base=%d top=%d outside the sequence space", op, seq, s, base, top, b, t),
				map[string]int{"s": s, "base": base, "top": top, "seq": seq})
		}
	}
	q.Set(uint8(base), uint8(top))
	var ok bool
	p, _ := safely(func() { ok = q.ProcessACK(uint8(seq)) })
	b, t := q.Get()
	out := fmt.Sprintf("ok %d %d %s", b, t, b01(ok))
	if p {
		out = "panic"
	}
	r.Emit(fmt.Sprintf("q.ack %d %d %d %d", s, base, top, seq), out)
	check("processACK")
	sizeBefore := (top - base + s) % s
	if int(q.Size()) > sizeBefore {
		r.Violate("C09/ack-grows-window", fmt.Sprintf("processACK(%d) on s=%d base=%d top=%d grew the window from %d to %d", seq, s, base, top, sizeBefore, q.Size()),
			map[string]int{"s": s, "base": base, "top": top, "seq": seq})
	}

	q.Set(uint8(base), uint8(top))
	var rs, bu bool
	p, _ = safely(func() { rs, bu = q.ProcessNACK(uint8(seq)) })
	b, t = q.Get()
	out = fmt.Sprintf("ok %d %d %s %s", b, t, b01(rs), b01(bu))
	if p {
		out = "panic"
	}
	r.Emit(fmt.Sprintf("q.nack %d %d %d %d", s, base, top, seq), out)
	check("processNACK")
	r.Emit(fmt.Sprintf("q.contains %d %d %d", base, top, seq), b01(gbn.VContainsSequence(uint8(base), uint8(top), uint8(seq))))
	r.Case(fmt.Sprintf("q:%d:%d:%d:%d", s, base, top, seq), base != top, class)
}

func allSeqs() []int {
	l := make([]int, 256)
	for i := range l {
		l[i] = i
	}
	return l
}

// queueLarge samples the queue mirror on every large sequence space (17..255), where the 8-bit
// arithmetic of the real queue can wrap: windows that start at 0, end at s-1, are full, are
// wrapped, plus random ones; sequence numbers at and around both ends.
func queueLarge(r *Recorder, class string) {
	rng := newRand(777)
	for s := 17; s <= 255; s++ {
		pairs := [][2]int{{0, s - 1}, {0, s / 2}, {s - 1, 0}, {s / 2, s/2 - 1}, {1, 0}, {s - 2, s - 1}, {s - 1, s - 2}}
		for i := 0; i < pick(3, 12); i++ {
			pairs = append(pairs, [2]int{rng.Intn(s), rng.Intn(s)})
		}
		q := gbn.VNewQueue(uint8(s))
		for _, bt := range pairs {
			base, top := bt[0], bt[1]
			q.Set(uint8(base), uint8(top))
			r.Emit(fmt.Sprintf("q.size %d %d %d", s, base, top), fmt.Sprint(q.Size()))
			want := (top - base + s) % s
			if int(q.Size()) != want {
				r.Violate("C09/size-wrong", fmt.Sprintf("size() on s=%d base=%d top=%d is %d, the window holds %d packets", s, base, top, q.Size(), want),
					map[string]int{"s": s, "base": base, "top": top})
			}
			for _, seq := range []int{base, top, (top + s - 1) % s, (base + 1) % s, rng.Intn(s), s, 255} {
				queueCase(r, q, s, base, top, seq, class)
			}
		}
		q.Stop()
	}
}

func queueMisc(r *Recorder) {
	for s := 1; s <= 255; s++ {
		for _, top := range []int{0, 1, s / 2, s - 1} {
			if top < 0 || top >= s {
				continue
			}
			ea, en := gbn.VSyncerExpect(uint8(s), uint8(top))
			r.Emit(fmt.Sprintf("q.syncer %d %d", s, top), fmt.Sprintf("ok %d %d", ea, en))
			q := gbn.VNewQueue(uint8(s))
			base := (top + s/3) % s
			q.Set(uint8(base), uint8(top))
			var out string
			p, _ := safely(func() { q.AddPacket(&gbn.PacketData{}) })
			if p {
				out = "panic"
			} else {
				b, t := q.Get()
				out = fmt.Sprintf("ok %d %d %d", b, t, top)
			}
			r.Emit(fmt.Sprintf("q.add %d %d %d", s, base, top), out)
			q.Stop()
		}
	}
}

// ---- scenario families -----------------------------------------------------

var faultKinds = []Fault{{}, {Drop: true}, {Dup: true}}

// faultPatterns enumerates all drop/dup/none patterns over k packets.
func faultPatterns(k int) [][]Fault {
	if k == 0 {
		return [][]Fault{{}}
	}
	var res [][]Fault
	for _, rest := range faultPatterns(k - 1) {
		for _, f := range faultKinds {
			res = append(res, append([]Fault{f}, rest...))
		}
	}
	return res
}

func cleanHS(dir int, f []Fault) []Fault {
	// handshake packets (client: SYN, SYNACK; server: SYN) pass unharmed
	n := 2 - dir
	return append(make([]Fault, n), f...)
}

func c01Scenarios() []*GbnScenario {
	var scs []*GbnScenario
	k0 := pick(5, 7)
	p1 := faultPatterns(pick(2, 3))
	id := 0
	for _, n := range []uint8{1, 2, 3} {
		for _, f0 := range faultPatterns(k0) {
			f1 := p1[id%len(p1)]
			id++
			scs = append(scs, &GbnScenario{
				Name: fmt.Sprintf("exh-n%d-%d", n, id), N: n,
				Msgs:    [2][]int{{2, 3, 4, 5, 2}, {3, 2}},
				Faults:  [2][]Fault{cleanHS(0, f0), cleanHS(1, f1)},
				Latency: 10 * time.Millisecond, RunFor: 40 * time.Second,
				Static: time.Second, Seed: int64(id),
			})
		}
	}
	// seeded random schedules: larger windows, wrap-around, bidirectional, pings
	rng := newRand(101)
	for i := 0; i < pick(1200, 12000); i++ {
		n := []uint8{1, 2, 5, 20, 127, 254}[rng.Intn(6)]
		m0 := 5 + rng.Intn(60)
		m1 := rng.Intn(40)
		if rng.Intn(4) == 0 {
			m0 = 300 + rng.Intn(500) // wraps the sequence space several times
		}
		sizes := func(m int) []int {
			l := make([]int, m)
			for i := range l {
				l[i] = 2 + rng.Intn(6)
			}
			return l
		}
		sc := &GbnScenario{
			Name: fmt.Sprintf("rand-%d", i), N: n,
			Msgs:    [2][]int{sizes(m0), sizes(m1)},
			Faults:  [2][]Fault{cleanHS(0, nil), cleanHS(1, nil)},
			Latency: time.Duration(1+rng.Intn(200)) * time.Millisecond,
			RandFault: &RandFault{DropPct: rng.Intn(25), DupPct: rng.Intn(15), DelayPct: rng.Intn(20),
				MaxDelay: time.Duration(rng.Intn(1500)) * time.Millisecond, Until: 60 * time.Second},
			RunFor: 200 * time.Second, Seed: int64(1000 + i),
		}
		if rng.Intn(2) == 0 {
			sc.Static = time.Second
		}
		if rng.Intn(3) == 0 {
			sc.PingNs, sc.PongNs = int64(5*time.Second), int64(3*time.Second)
		}
		if rng.Intn(3) == 0 {
			sc.SendGap = [2]time.Duration{time.Duration(rng.Intn(400)) * time.Millisecond, time.Duration(rng.Intn(900)) * time.Millisecond}
		}
		scs = append(scs, sc)
	}
	// chunked messages (WithMaxSendSize), including empty and one-byte ones, under the same faults
	crng := newRand(102)
	for i := 0; i < pick(200, 2000); i++ {
		n := []uint8{1, 2, 5, 20}[crng.Intn(4)]
		mc := []int{1, 2, 3, 7}[crng.Intn(4)]
		sizes := func(m int) []int {
			l := make([]int, m)
			for i := range l {
				l[i] = []int{0, 1, mc - 1, mc, mc + 1, 2 * mc, 2*mc + 1, 2 + crng.Intn(20)}[crng.Intn(8)]
				if l[i] < 0 {
					l[i] = 0
				}
			}
			return l
		}
		sc := &GbnScenario{
			Name: fmt.Sprintf("chunked-%d", i), N: n, MaxChunk: mc,
			Msgs:    [2][]int{sizes(3 + crng.Intn(12)), sizes(crng.Intn(6))},
			Faults:  [2][]Fault{cleanHS(0, nil), cleanHS(1, nil)},
			Latency: time.Duration(1+crng.Intn(100)) * time.Millisecond,
			RandFault: &RandFault{DropPct: crng.Intn(25), DupPct: crng.Intn(15), DelayPct: crng.Intn(20),
				MaxDelay: time.Duration(crng.Intn(1500)) * time.Millisecond, Until: 40 * time.Second},
			RunFor: 400 * time.Second, Seed: int64(50000 + i), Static: time.Second,
		}
		if i%4 == 0 {
			sc.RandFault = nil
			sc.RunFor = 200 * time.Second
		}
		if i%5 == 2 {
			// keepalive pings more frequent than retransmissions
			sc.PingNs, sc.PongNs = int64(300*time.Millisecond), int64(20*time.Second)
			sc.Static = 3 * time.Second
		}
		if i%3 == 1 {
			// the reading application polls with a deadline that expires inside messages
			sc.RecvTimeout = []time.Duration{30 * time.Millisecond, 200 * time.Millisecond, 900 * time.Millisecond}[crng.Intn(3)]
			sc.SendGap = [2]time.Duration{time.Duration(crng.Intn(300)) * time.Millisecond, time.Duration(crng.Intn(300)) * time.Millisecond}
		}
		scs = append(scs, sc)
	}
	return scs
}

func TestC01(t *testing.T) {
	r := NewRecorder(t, "C01")
	defer r.Close(t)
	// (A) queue mirror vs real queue
	queueDiff(r, 2, pick(8, 16), allSeqs(), "queue-exh")
	queueLarge(r, "queue-large")
	queueMisc(r)
	// (B) trace inclusion + API oracle
	scs := c01Scenarios()
	traces := 0
	forEachScenario(t, scs, func(sc *GbnScenario, res *GbnResult) {
		if res.Panic != "" {
			r.Violate("C07/panic-in-connection", res.Panic, sc)
			return
		}
		if res.HsErr[0] != "" || res.HsErr[1] != "" {
			r.Case(sc.Name, false, "handshake-failed")
			return
		}
		ops := uniLines(sc, res)
		r.EmitOKBlock(ops)
		traces++
		faults := 0
		for _, e := range res.Events {
			if e.Kind == "emit" && e.Copies != 1 {
				faults++
			}
		}
		r.Case(sc.Name, faults > 0, fmt.Sprintf("n=%d/faulty=%v", sc.N, faults > 0))
		if ok, why := prefixOracle(res); !ok {
			r.Violate("C01/recv-not-prefix-of-send", why, sc)
		}
		// on a transport that never faulted every accepted message has arrived by the end of the run
		if faults == 0 && sc.RandFault == nil {
			for ep := 0; ep < 2; ep++ {
				if len(res.Recvd[ep]) != len(res.Sent[1-ep]) {
					r.Violate("C01/message-lost-without-faults", fmt.Sprintf("fault-free transport: endpoint %d received %d of the %d messages its peer's Send accepted",
						ep, len(res.Recvd[ep]), len(res.Sent[1-ep])), sc)
				}
			}
		}
		if traces == 1 {
			r.Sample(map[string]interface{}{"scenario": sc, "first_lines": ops[:min(len(ops), 12)]})
		}
	})
	r.Notes["traces_validated"] = traces
}
