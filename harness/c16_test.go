package harness

import (
	"bytes"
	"errors"
	"fmt"
	"io"
	"strings"
	"sync"
	"testing"
	"time"

	"github.com/lightninglabs/lightning-node-connect/mailbox"
)

type timeoutDur = time.Duration

// budgetWriter accepts the given number of bytes on successive Write calls and
// reports a timeout error on every short write.
type budgetWriter struct {
	budgets []int
	out     []byte
	calls   int
}

func (w *budgetWriter) Write(p []byte) (int, error) {
	w.calls++
	n := len(p)
	if len(w.budgets) > 0 {
		if w.budgets[0] < n {
			n = w.budgets[0]
		}
		w.budgets = w.budgets[1:]
	}
	w.out = append(w.out, p[:n]...)
	if n < len(p) {
		return n, errShortWrite
	}
	return n, nil
}

// flushCase: WriteMessage(payload) then Flush against a writer that accepts the
// given (header, body) amounts per call, then one unrestricted Flush.
func flushCase(r *Recorder, w, rd *mailbox.Machine, payload []byte, pairs [][2]int, class string) {
	if err := w.WriteMessage(payload); err != nil {
		r.Violate("C16/write-message", err.Error(), len(payload))
		return
	}
	var wire []byte
	var res []string
	total := 0
	all := append(append([][2]int{}, pairs...), [2]int{1 << 30, 1 << 30})
	var budgets []string
	for i, pr := range all {
		// a second WriteMessage while bytes are pending must be refused
		if err := w.WriteMessage([]byte("x")); !errors.Is(err, mailbox.ErrMessageNotFlushed) {
			r.Violate("C16/write-while-pending", fmt.Sprintf("WriteMessage with a pending record returned %v", err),
				map[string]interface{}{"payload_len": len(payload), "pairs": pairs, "call": i})
			return
		}
		st := w.VState()
		bw := &budgetWriter{}
		if st.PendingHeader > 0 {
			bw.budgets = []int{pr[0], pr[1]}
		} else {
			bw.budgets = []int{pr[1]}
		}
		n, err := w.Flush(bw)
		wire = append(wire, bw.out...)
		total += n
		res = append(res, fmt.Sprintf("%d:%s:%d", n, b01(err != nil), len(bw.out)))
		budgets = append(budgets, fmt.Sprintf("%d:%d", pr[0], pr[1]))
		if n < 0 {
			r.Violate("C16/negative-count", fmt.Sprintf("Flush returned %d", n), pairs)
		}
		if err == nil {
			break
		}
	}
	st := w.VState()
	r.Emit(fmt.Sprintf("fl.seq %d %s", len(payload), strings.Join(budgets, ",")), strings.Join(res, ";"))
	if st.PendingHeader+st.PendingBody != 0 {
		r.Violate("C16/still-pending", "bytes pending after an error-free Flush", pairs)
	}
	if total != len(payload) {
		r.Violate("C16/flush-count", fmt.Sprintf("Flush calls reported %d plaintext bytes for a %d byte payload (acceptances %v)", total, len(payload), pairs),
			map[string]interface{}{"payload_len": len(payload), "pairs": pairs})
	}
	// a flush with nothing pending writes nothing
	bw := &budgetWriter{}
	if n, err := w.Flush(bw); n != 0 || err != nil || bw.calls != 0 {
		r.Violate("C16/flush-nothing", fmt.Sprintf("Flush with nothing pending: n=%d err=%v writes=%d", n, err, bw.calls), nil)
	}
	// the peer reads exactly the payload from the emitted bytes, whatever the fragmentation
	got, err := rd.ReadMessage(&fragReader{b: wire, max: 1 + len(pairs)%7})
	if err != nil || !bytes.Equal(got, payload) {
		r.Violate("C16/record-corrupted", fmt.Sprintf("peer ReadMessage: %v (payload %d bytes, acceptances %v)", err, len(payload), pairs),
			map[string]interface{}{"payload_len": len(payload), "pairs": pairs})
	}
	r.Case(fmt.Sprintf("fl:%d:%v", len(payload), pairs), len(pairs) > 0, class)
}

type fragReader struct {
	b   []byte
	max int
}

func (f *fragReader) Read(p []byte) (int, error) {
	if len(f.b) == 0 {
		return 0, errors.New("EOF")
	}
	n := len(p)
	if n > f.max {
		n = f.max
	}
	if n > len(f.b) {
		n = len(f.b)
	}
	copy(p, f.b[:n])
	f.b = f.b[n:]
	return n, nil
}

// fragHandshakeCase: a real handshake (and one record each way) over a
// transport whose every Read returns at most k bytes.
func fragHandshakeCase(r *Recorder, k int, min, max byte, kk bool, authLen int, seq func() int) {
	pass := []byte("pairing-phrase-entropy")
	cli := &hsSide{Priv: key(2001), Passphrase: pass, Min: min, Max: max}
	srv := &hsSide{Priv: key(2002), Passphrase: pass, AuthData: patterned(authLen, 3), Min: min, Max: max}
	if kk {
		cli.Remote, srv.Remote = srv.Priv.PubKey(), cli.Priv.PubKey()
	}
	cc, sc := newMemPair()
	cc.frag, sc.frag = seq, seq
	runHandshake(cli, srv, cc, sc)
	name := fmt.Sprintf("frag-hs:k=%d:v=%d-%d:kk=%v:auth=%d", k, min, max, kk, authLen)
	if cli.Err != nil || srv.Err != nil {
		r.Violate("C16/handshake-short-read", fmt.Sprintf("valid handshake over reads of at most %d bytes failed: client %v, server %v", k, cli.Err, srv.Err),
			map[string]interface{}{"k": k, "min": min, "max": max, "kk": kk, "auth_len": authLen})
		r.Case(name, true, "frag-handshake")
		return
	}
	if !bytes.Equal(cli.Data.AuthData(), srv.AuthData) && !(len(cli.Data.AuthData()) == 0 && authLen == 0) {
		r.Violate("C16/handshake-payload", "auth payload differs after a fragmented handshake", name)
	}
	// one record each way over the same fragmenting transport
	for i, pair := range [][2]*hsSide{{cli, srv}, {srv, cli}} {
		p := patterned(100+300*i, 9)
		conn, peer := cc, sc
		if i == 1 {
			conn, peer = sc, cc
		}
		pair[0].Machine.WriteMessage(p)
		if _, err := pair[0].Machine.Flush(conn); err != nil {
			r.Violate("C16/flush-error", err.Error(), name)
		}
		got, err := pair[1].Machine.ReadMessage(peer)
		if err != nil || !bytes.Equal(got, p) {
			r.Violate("C16/record-short-read", fmt.Sprintf("record over reads of at most %d bytes: %v", k, err), name)
		}
	}
	r.Case(name, true, "frag-handshake")
}

// gatedConn lets the first gateAfter bytes be read freely; later reads wait for the gate.
type gatedConn struct {
	*memConn
	consumed, gateAfter int
	gate                chan struct{}
}

func (g *gatedConn) Read(p []byte) (int, error) {
	if g.consumed >= g.gateAfter {
		<-g.gate
	}
	n, err := g.memConn.Read(p)
	g.consumed += n
	return n, err
}

// coalescedHandshakeCase: the opposite of fragmentation. The party that reads the last act of the
// handshake gets to read only after its peer has also written its first record, so one Read can
// return the end of the handshake together with the beginning of the record stream.
// With split the record is read through ReadHeader and ReadBody (what NoiseConn.ReadNextHeader /
// ReadNextBody expose) instead of ReadMessage.
func coalescedHandshakeCase(r *Recorder, kk bool, min, max byte, recLen int) {
	coalescedHandshakeCaseMode(r, kk, min, max, recLen, false)
	coalescedHandshakeCaseMode(r, kk, min, max, recLen, true)
}

func coalescedHandshakeCaseMode(r *Recorder, kk bool, min, max byte, recLen int, split bool) {
	pass := []byte("pairing-phrase-entropy")
	cli := &hsSide{Priv: key(2101), Passphrase: pass, Min: min, Max: max}
	srv := &hsSide{Priv: key(2102), Passphrase: pass, AuthData: patterned(40, 3), Min: min, Max: max}
	if kk {
		cli.Remote, srv.Remote = srv.Priv.PubKey(), cli.Priv.PubKey()
	}
	cli.build(true)
	srv.build(false)
	name := fmt.Sprintf("coalesced-hs:kk=%v:v=%d-%d:rec=%d:split-read-api=%v", kk, min, max, recLen, split)
	if cli.NewErr != nil || srv.NewErr != nil {
		r.Violate("C16/setup", fmt.Sprint(cli.NewErr, srv.NewErr), name)
		return
	}
	cc, sc := newMemPair()
	gate := make(chan struct{})
	first, last := cli, srv // first: finishes its handshake first and sends the record; last: reads the last act
	var firstConn io.ReadWriter = cc
	var lastConn io.ReadWriter = &gatedConn{memConn: sc, gateAfter: 50, gate: gate} // XX: act 1 (50 bytes) passes
	if kk {
		first, last = srv, cli
		firstConn = sc
		lastConn = &gatedConn{memConn: cc, gateAfter: 0, gate: gate}
	}
	record := patterned(recLen, 5)
	var wg sync.WaitGroup
	wg.Add(2)
	go func() {
		defer wg.Done()
		defer close(gate)
		if first.Err = first.Machine.DoHandshake(firstConn); first.Err != nil {
			return
		}
		first.Machine.WriteMessage(record)
		_, first.Err = first.Machine.Flush(firstConn)
	}()
	var got []byte
	var readErr error
	go func() {
		defer wg.Done()
		if last.Err = last.Machine.DoHandshake(lastConn); last.Err != nil {
			return
		}
		done := make(chan struct{})
		go func() {
			defer close(done)
			if !split {
				got, readErr = last.Machine.ReadMessage(lastConn)
				return
			}
			var n uint32
			if n, readErr = last.Machine.ReadHeader(lastConn); readErr == nil {
				got, readErr = last.Machine.ReadBody(lastConn, make([]byte, n))
			}
		}()
		select {
		case <-done:
		case <-time.After(10 * time.Second):
			readErr = errors.New("the read blocks: the bytes of the record are gone")
		}
	}()
	wg.Wait()
	switch {
	case cli.Err != nil || srv.Err != nil:
		r.Violate("C16/handshake-coalesced-read", fmt.Sprintf("valid handshake failed when the last act and the first record arrive together: client %v, server %v", cli.Err, srv.Err), name)
	case readErr != nil || !bytes.Equal(got, record):
		r.Violate("C16/record-lost-after-handshake", fmt.Sprintf("the last act of the handshake and the first %d byte record were readable together: handshake ok on both sides, then reading the record (split header/body API: %v): %v", recLen, split, readErr), name)
	}
	r.Case(name, true, "coalesced-handshake")
}

// writeRetryCase: a net.Conn style writer on the TCP variant whose transport accepts only `cut`
// bytes of the first record and then times out. The application then behaves in one of two ways:
// "flush" (documented: call Flush until it succeeds) or "rewrite" (it calls Write again with the
// bytes Write said were not written yet; when that is refused it falls back to Flush). Whatever it
// does, the reader must end up with exactly the bytes the writer was told had been written.
func writeRetryCase(r *Recorder, pid string, payloadLen, cut int, mode string) {
	cli, srv, cc, sc := quickPair()
	name := fmt.Sprintf("write-retry:len=%d:cut=%d:%s", payloadLen, cut, mode)
	if cli.Err != nil || srv.Err != nil {
		r.Violate(pid+"/setup", fmt.Sprint(cli.Err, srv.Err), name)
		return
	}
	w := mailbox.VNewNoiseConn(cc, cli.Machine)
	first := true
	cc.accept = func(n int) (int, error) {
		if first {
			first = false
			if cut < n {
				return cut, errShortWrite
			}
		}
		return n, nil
	}
	data := patterned(payloadLen, 21)
	told := 0
	n, err := w.Write(data)
	told += n
	steps := []string{fmt.Sprintf("Write(%d)=%d,%v", payloadLen, n, err)}
	for tries := 0; err != nil && tries < 6; tries++ {
		if mode == "rewrite" && tries == 0 && told < len(data) {
			n, err = w.Write(data[told:])
			steps = append(steps, fmt.Sprintf("Write(rest %d)=%d,%v", len(data)-told+0, n, err))
			if err == nil {
				told += n
				break
			}
			if !strings.Contains(err.Error(), "timeout") {
				err = errShortWrite // refused: fall back to the documented Flush
				continue
			}
			told += n
			continue
		}
		n, err = w.Flush()
		told += n
		steps = append(steps, fmt.Sprintf("Flush=%d,%v", n, err))
	}
	if told > len(data) {
		told = len(data)
	}
	// the stream goes on: one more record after the episode must arrive as well
	next := patterned(7, 22)
	want := append([]byte(nil), data[:told]...)
	if err == nil {
		if _, nerr := w.Write(next); nerr == nil {
			want = append(want, next...)
		}
	}
	cc.wr.close() // nothing more will come
	var got []byte
	for {
		m, rerr := srv.Machine.ReadMessage(sc)
		if rerr != nil {
			break
		}
		got = append(got, m...)
	}
	if !bytes.Equal(got, want) {
		r.Violate(pid+"/write-retry-duplicates-or-loses", fmt.Sprintf("%d byte Write, transport accepted %d wire bytes then timed out, application %v, then a 7 byte Write: it was told %d bytes were written in all, the reader got %d bytes (equal prefix: %v)",
			payloadLen, cut, steps, len(want), len(got), bytes.HasPrefix(got, want[:min(len(want), len(got))])), name)
	}
	r.Case(name, true, "write-retry/"+mode)
}

// chunkedWriteResumeCase: one Write of more than a record on the TCP variant, the transport times
// out once after `cut` wire bytes. The application follows the documented protocol: it advances by
// the count Write reported, calls Flush until it succeeds (adding its counts), then writes the rest.
// The reader must get exactly the message. Returns false when the case could not be judged.
func chunkedWriteResumeCase(r *Recorder, pid string, total, cut int) {
	cli, srv, cc, sc := quickPair()
	name := fmt.Sprintf("chunked-write-resume:len=%d:cut=%d", total, cut)
	if cli.Err != nil || srv.Err != nil {
		r.Violate(pid+"/setup", fmt.Sprint(cli.Err, srv.Err), name)
		return
	}
	w := mailbox.VNewNoiseConn(cc, cli.Machine)
	sent, tripped := 0, false
	cc.accept = func(n int) (int, error) {
		if !tripped && sent+n > cut {
			tripped = true
			k := cut - sent
			sent += k
			return k, errShortWrite
		}
		sent += n
		return n, nil
	}
	data := patterned(total, 33)
	// the reader drains concurrently (the in-memory pipe is unbounded, but keep it honest)
	var got []byte
	done := make(chan struct{})
	go func() {
		defer close(done)
		for len(got) < total+70000 {
			m, err := srv.Machine.ReadMessage(sc)
			if err != nil {
				return
			}
			got = append(got, m...)
		}
	}()
	told := 0
	var steps []string
	for guard := 0; told < len(data) && guard < 20; guard++ {
		n, err := w.Write(data[told:])
		told += n
		steps = append(steps, fmt.Sprintf("Write=%d,%v", n, err))
		for tries := 0; err != nil && tries < 8; tries++ {
			n, err = w.Flush()
			told += n
			steps = append(steps, fmt.Sprintf("Flush=%d,%v", n, err))
		}
		if err != nil {
			break
		}
	}
	cc.wr.close()
	<-done
	if told > len(data) {
		told = len(data)
	}
	if !bytes.Equal(got, data[:told]) {
		r.Violate(pid+"/write-retry-duplicates-or-loses", fmt.Sprintf("one Write of %d bytes on the TCP variant, the transport timed out once after %d wire bytes; the application resumed as documented %v: it was told %d bytes were written in total, the reader got %d bytes",
			total, cut, steps, told, len(got)), name)
	}
	r.Case(name, true, "chunked-write-resume")
}

// flushInterleavedReadCase: a record whose Flush timed out inside the 18 byte header; before the
// Flush is resumed the same machine reads a record from its peer (full duplex). The resumed Flush
// must complete the record that was started.
func flushInterleavedReadCase(r *Recorder, cut, payloadLen int) {
	cli, srv, _, _ := quickPair()
	name := fmt.Sprintf("flush-interleaved-read:cut=%d:len=%d", cut, payloadLen)
	if cli.Err != nil || srv.Err != nil {
		r.Violate("C16/setup", fmt.Sprint(cli.Err, srv.Err), name)
		return
	}
	a, b := cli.Machine, srv.Machine
	p := patterned(payloadLen, 41)
	bw := &budgetWriter{budgets: []int{cut}}
	a.WriteMessage(p)
	a.Flush(bw) // times out after `cut` wire bytes
	// meanwhile a record from the peer is read on the same machine
	back := patterned(19, 43)
	bw2 := &budgetWriter{}
	b.WriteMessage(back)
	b.Flush(bw2)
	gotBack, errBack := a.ReadMessage(bytes.NewReader(bw2.out))
	for i := 0; i < 4; i++ {
		if _, err := a.Flush(bw); err == nil {
			break
		}
	}
	got, err := b.ReadMessage(bytes.NewReader(bw.out))
	switch {
	case errBack != nil || !bytes.Equal(gotBack, back):
		r.Violate("C16/read-disturbed-by-pending-write", fmt.Sprintf("a record read while a write was pending (cut %d): %v", cut, errBack), name)
	case err != nil || !bytes.Equal(got, p):
		r.Violate("C16/flush-resume-corrupted", fmt.Sprintf("Flush timed out after %d of %d wire bytes, a record from the peer was read on the same machine, the Flush was resumed: the peer cannot read the record that was started: %v",
			cut, 18+payloadLen+16, err), name)
	}
	r.Case(name, true, "flush-interleaved-read")
}

func TestC16(t *testing.T) {
	r := NewRecorder(t, "C16")
	defer r.Close(t)
	rng := newRand(16)
	cli, srv, _, _ := quickPair()
	if cli.Err != nil || srv.Err != nil {
		t.Fatalf("handshake failed: %v %v", cli.Err, srv.Err)
	}
	w, rd := cli.Machine, srv.Machine
	// all two- and three-way splits of the wire bytes of a record
	for _, l := range []int{0, 1, 17, 300} {
		wire := 18 + l + 16
		if l == 300 && !thorough() {
			// three-way splits of 334 bytes: sample one boundary densely, the other on a grid
			for a := 0; a <= wire; a++ {
				for b := a; b <= wire; b += 13 {
					flushCase(r, w, rd, patterned(l, 1), splitsToPairs(a, b), "3-way")
				}
			}
			continue
		}
		for a := 0; a <= wire; a++ {
			for b := a; b <= wire; b++ {
				flushCase(r, w, rd, patterned(l, 1), splitsToPairs(a, b), "3-way")
			}
		}
	}
	// random finer partitions, payloads up to the record limit
	for i := 0; i < pick(1500, 40000); i++ {
		l := []int{0, 1, 2, 15, 16, 17, 300, 65535, rng.Intn(65536)}[rng.Intn(9)]
		n := rng.Intn(7)
		pairs := make([][2]int, n)
		for j := range pairs {
			pairs[j] = [2]int{rng.Intn(20), rng.Intn(2 * (l + 17))}
			if rng.Intn(4) == 0 {
				pairs[j][0] = 0
			}
		}
		flushCase(r, w, rd, patterned(l, i), pairs, "random")
	}
	// fragmented reads of handshake acts and records
	for _, k := range []int{1, 2, 7, 16, 33, 500} {
		k := k
		for _, cfg := range [][3]int{{0, 0, 0}, {1, 1, 0}, {2, 2, 0}, {0, 2, 0}, {2, 2, 1}} {
			for _, auth := range []int{0, 4, 498, 3000} {
				if cfg[1] == 0 && auth > 498 {
					continue
				}
				fragHandshakeCase(r, k, byte(cfg[0]), byte(cfg[1]), cfg[2] == 1, auth, func() int { return k })
			}
		}
	}
	for i := 0; i < pick(20, 300); i++ {
		fr := newRand(int64(1600 + i))
		fragHandshakeCase(r, 0, 0, 2, i%3 == 0, 100+fr.Intn(2000), func() int { return 1 + fr.Intn(40) })
	}
	// a Write interrupted by a transport timeout, then the application's retry
	for _, l := range []int{1, 12, 300} {
		for _, cut := range []int{0, 5, 18, 19, 18 + l, 18 + l + 15} {
			for _, mode := range []string{"flush", "rewrite"} {
				writeRetryCase(r, "C16", l, cut, mode)
			}
		}
	}
	// one Write larger than a record, a timeout inside a chunk, resumed as documented
	for _, tc := range [][2]int{{70000, 65535 + 34 + 18 + 1000}, {70000, 30000}, {150000, 2*(65535+34) + 18 + 7}, {65536, 65535 + 34 + 18}} {
		chunkedWriteResumeCase(r, "C16", tc[0], tc[1])
	}
	// a Flush interrupted inside the header, a read on the same machine, the Flush resumed
	for _, cut := range []int{0, 1, 9, 17, 18, 25} {
		flushInterleavedReadCase(r, cut, 40)
	}
	// the last act of the handshake and the first record in one Read
	for _, cfg := range [][3]int{{0, 0, 0}, {1, 1, 0}, {2, 2, 0}, {0, 2, 0}, {2, 2, 1}} {
		for _, l := range []int{0, 7, 300, 5000} {
			coalescedHandshakeCase(r, cfg[2] == 1, byte(cfg[0]), byte(cfg[1]), l)
		}
	}
	r.Sample(map[string]string{"op": "fl.seq 5 2:9,0:9,30:3,0:100", "go": "0:1:2;0:1:0;3:1:19;2:0:18"})
}

// splitsToPairs turns two cut points a <= b over the wire bytes of one record
// (18 byte header, then body) into per-Flush acceptances.
func splitsToPairs(a, b int) [][2]int {
	var pairs [][2]int
	pos := 0
	for _, cut := range []int{a, b} {
		n := cut - pos
		// bytes accepted in this call: header part first, then body part
		h := 0
		if pos < 18 {
			h = 18 - pos
			if h > n {
				h = n
			}
		}
		body := n - h
		if pos < 18 && pos+n < 18 {
			pairs = append(pairs, [2]int{h, 0})
		} else {
			pairs = append(pairs, [2]int{h, body})
		}
		pos = cut
	}
	return pairs
}
