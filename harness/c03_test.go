package harness

import (
	"bytes"
	"context"
	"fmt"
	"sort"
	"strings"
	"sync"
	"testing"
	"time"

	"github.com/btcsuite/btcd/btcec/v2"
	"github.com/lightninglabs/lightning-node-connect/mailbox"
	"github.com/lightningnetwork/lnd/keychain"
)

type fieldSpan struct {
	kind       string // ver | point | ct
	start, end int
}

// noiseLayout gives the byte ranges of the fields of a handshake act as it was
// written (the version byte decides the payload layout).
func noiseLayout(kk bool, act int, msg []byte) []fieldSpan {
	f := []fieldSpan{{"ver", 0, 1}}
	pos := 1
	add := func(kind string, n int) {
		f = append(f, fieldSpan{kind, pos, pos + n})
		pos += n
	}
	ver := msg[0]
	switch {
	case !kk && act == 1:
		add("point", 33)
		add("ct", 16)
	case !kk && act == 2:
		add("point", 33)
		add("ct", 49)
		if ver == 0 {
			add("ct", 516)
		} else {
			add("ct", 20)
			add("ct", len(msg)-pos)
		}
	case !kk && act == 3:
		add("ct", 49)
		add("ct", 16)
	case kk && act == 1:
		add("point", 33)
		add("ct", 16)
	case kk && act == 2:
		add("point", 33)
		add("ct", 20)
		add("ct", len(msg)-pos)
	}
	return f
}

type noiseRule struct {
	act, field int
	rw         string // v<n> | pinv | poth | cgarb
}

func (r noiseRule) String() string { return fmt.Sprintf("a%df%d=%s", r.act, r.field, r.rw) }

type noiseCase struct {
	KK                     bool
	IMin, IMax, RMin, RMax byte
	PwSame                 bool
	IExp, RExp             string // "1" right key, "0" wrong key, "-" none
	PayloadLen             int    // -1: nil auth data
	Rules                  []noiseRule
	BitFlip                *[2]int // act, bit index: derived into a rule at run time
}

var otherPoint = key(9999).PubKey().SerializeCompressed()

func applyRule(msg []byte, span fieldSpan, rw string) {
	switch {
	case strings.HasPrefix(rw, "v"):
		var n int
		fmt.Sscanf(rw[1:], "%d", &n)
		msg[span.start] = byte(n)
	case rw == "pinv":
		msg[span.start] = 0x05
	case rw == "poth":
		copy(msg[span.start:span.end], otherPoint)
	case rw == "cgarb":
		msg[span.start+(span.end-span.start)/2] ^= 0x10
	}
}

// runNoiseCase performs the real handshake under the case's man in the middle
// and renders the outcome in the model's vocabulary.
func runNoiseCase(nc *noiseCase) (out string, script string, info map[string]interface{}) {
	pass := []byte("pairing-phrase-entropy")
	pass2 := []byte("pairing-phrase-entropx")
	cli := &hsSide{Priv: key(5001), Passphrase: pass, Min: nc.IMin, Max: nc.IMax}
	srv := &hsSide{Priv: key(5002), Passphrase: pass, Min: nc.RMin, Max: nc.RMax}
	if !nc.PwSame {
		srv.Passphrase = pass2
	}
	if nc.PayloadLen >= 0 {
		srv.AuthData = patterned(nc.PayloadLen, 3)
	}
	exp := func(flag string, right *btcec.PublicKey) *btcec.PublicKey {
		switch flag {
		case "1":
			return right
		case "0":
			return key(5009).PubKey()
		}
		return nil
	}
	cli.Remote = exp(nc.IExp, srv.Priv.PubKey())
	srv.Remote = exp(nc.RExp, cli.Priv.PubKey())
	cc, sc := newMemPair()
	var mu sync.Mutex
	rules := append([]noiseRule(nil), nc.Rules...)
	writes := [2]int{}
	tap := func(side int) func([]byte) []byte {
		return func(b []byte) []byte {
			mu.Lock()
			defer mu.Unlock()
			writes[side]++
			act := 2
			if side == 0 {
				act = 2*writes[0] - 1
			}
			spans := noiseLayout(nc.KK, act, b)
			if nc.BitFlip != nil && nc.BitFlip[0] == act {
				bit := nc.BitFlip[1]
				if bit/8 < len(b) {
					for fi, sp := range spans {
						if bit/8 >= sp.start && bit/8 < sp.end {
							switch sp.kind {
							case "ver":
								rules = append(rules, noiseRule{act, fi, fmt.Sprintf("v%d", b[0]^(1<<(bit%8)))})
							case "ct":
								rules = append(rules, noiseRule{act, fi, "cgarb"})
							case "point":
								cp := append([]byte(nil), b[sp.start:sp.end]...)
								cp[bit/8-sp.start] ^= 1 << (bit % 8)
								if _, err := btcec.ParsePubKey(cp); err == nil {
									rules = append(rules, noiseRule{act, fi, "poth"})
								} else {
									rules = append(rules, noiseRule{act, fi, "pinv"})
								}
							}
						}
					}
					// the flip itself (not the canonical rewrite) goes on the wire
					out := append([]byte(nil), b...)
					out[bit/8] ^= 1 << (bit % 8)
					return out
				}
			}
			out := append([]byte(nil), b...)
			for _, r := range rules {
				if r.act == act && r.field < len(spans) {
					applyRule(out, spans[r.field], r.rw)
				}
			}
			return out
		}
	}
	cc.wr.tap = tap(0)
	sc.wr.tap = tap(1)
	runHandshake(cli, srv, cc, sc)

	side := func(s *hsSide, initiator bool, w int, peer *hsSide) string {
		if s.Err != nil {
			return fmt.Sprintf("fail:w%d", w)
		}
		st := s.Machine.VState()
		rs := "-"
		if st.HasRemoteStatic {
			rs = b01(bytes.Equal(st.RemoteStatic, peer.Priv.PubKey().SerializeCompressed()))
		}
		auth := "-"
		if initiator {
			auth = "neq"
			if bytes.Equal(s.Data.AuthData(), peer.AuthData) {
				auth = "eq"
			}
		}
		return fmt.Sprintf("ok:v%d:rs%s:sr%s:auth%s", st.Version, rs, b01(s.OnRemote != nil), auth)
	}
	cross := "-"
	info = map[string]interface{}{}
	if cli.Err == nil && srv.Err == nil {
		keys := true
		for i, pair := range [][2]*hsSide{{cli, srv}, {srv, cli}} {
			p := patterned(50, i)
			h, b, err := writeRecord(pair[0].Machine, p)
			if err != nil {
				keys = false
				continue
			}
			got, err := pair[1].Machine.ReadMessage(bytes.NewReader(append(h, b...)))
			if err != nil || !bytes.Equal(got, p) {
				keys = false
			}
		}
		dg := cli.Machine.VState().HandshakeDigest == srv.Machine.VState().HandshakeDigest
		cross = fmt.Sprintf("keys%s:dg%s", b01(keys), b01(dg))
		info["both_ok"] = true
		info["versions"] = [2]byte{cli.Machine.VState().Version, srv.Machine.VState().Version}
		info["keys"] = keys
		info["auth_eq"] = bytes.Equal(cli.Data.AuthData(), srv.AuthData)
		info["rs_ok"] = bytes.Equal(cli.Machine.VState().RemoteStatic, srv.Priv.PubKey().SerializeCompressed()) &&
			bytes.Equal(srv.Machine.VState().RemoteStatic, cli.Priv.PubKey().SerializeCompressed())
	}
	info["cli_err"], info["srv_err"] = errStr(cli.Err), errStr(srv.Err)
	info["srv_writes"] = writes[1]
	info["srv_wrote"] = len(sc.writeLog)
	out = fmt.Sprintf("I=%s R=%s X=%s", side(cli, true, writes[0], srv), side(srv, false, writes[1], cli), cross)
	strs := make([]string, len(rules))
	for i, r := range rules {
		strs[i] = r.String()
	}
	sort.Strings(strs)
	script = strings.Join(strs, ",")
	if script == "" {
		script = "none"
	}
	return
}

func (nc *noiseCase) opLine(script string) string {
	pat := "xx"
	if nc.KK {
		pat = "kk"
	}
	pl := "-"
	if nc.PayloadLen >= 0 {
		pl = fmt.Sprint(nc.PayloadLen)
	}
	return fmt.Sprintf("noise.run %s %d %d %d %d %s %s %s %s %s", pat, nc.IMin, nc.IMax, nc.RMin, nc.RMax,
		b01(nc.PwSame), nc.IExp, nc.RExp, pl, script)
}

// judge evaluates the C03 / C04 oracles, stated on the real handshake only.
func noiseJudge(r *Recorder, nc *noiseCase, out, script string, info map[string]interface{}) {
	replay := map[string]interface{}{"case": nc, "script": script, "outcome": out}
	mismatchSecret := !nc.KK && !nc.PwSame || nc.KK && (nc.IExp == "0" || nc.RExp == "0")
	if mismatchSecret {
		// C03: nobody completes, and the responder releases nothing
		if info["both_ok"] == true || info["cli_err"] == "" || info["srv_err"] == "" {
			r.Violate("C03/completed-without-secret", "a handshake completed although passphrase / expected static key do not match: "+out, replay)
		}
		if info["srv_writes"].(int) != 0 {
			r.Violate("C03/responder-wrote-before-authentication", fmt.Sprintf("the responder emitted %d message(s) although act 1 cannot authenticate", info["srv_writes"]), replay)
		}
	}
	if info["both_ok"] == true {
		v := info["versions"].([2]byte)
		if info["keys"] != true {
			r.Violate("C04/keys-not-complementary", "both sides completed but records do not decrypt: "+out, replay)
		}
		if info["rs_ok"] != true {
			r.Violate("C04/wrong-identity", "both sides completed with a wrong remote static key: "+out, replay)
		}
		if info["auth_eq"] != true {
			r.Violate("C04/auth-payload-differs", "both sides completed, initiator's auth data differs from the responder's payload: "+out, replay)
		}
		if v[0] != v[1] {
			sig := "C04/version-split"
			pat := "XX"
			if nc.KK {
				pat = "KK"
			}
			r.Violate(fmt.Sprintf("%s/%s/client=%d,server=%d", sig, pat, v[0], v[1]),
				fmt.Sprintf("both sides completed with different versions: client %d, server %d (rewrites %s)", v[0], v[1], script), replay)
		}
	}
}

func noiseRunAll(t *testing.T, r *Recorder, cases []*noiseCase, class func(*noiseCase) string) {
	var mu sync.Mutex
	idx := 0
	t.Run("noise", func(t *testing.T) {
		for w := 0; w < 16; w++ {
			t.Run(fmt.Sprint(w), func(t *testing.T) {
				t.Parallel()
				for {
					mu.Lock()
					i := idx
					idx++
					mu.Unlock()
					if i >= len(cases) {
						return
					}
					nc := cases[i]
					out, script, info := runNoiseCase(nc)
					mu.Lock()
					r.Emit(nc.opLine(script), out)
					noiseJudge(r, nc, out, script, info)
					r.Case(nc.opLine(script), script != "none" || !nc.PwSame || nc.IExp == "0" || nc.RExp == "0", class(nc))
					if len(r.Samples) < 5 && script != "none" {
						r.Samples = append(r.Samples, map[string]string{"op": nc.opLine(script), "real": out})
					}
					mu.Unlock()
				}
			})
		}
	})
}

func versionRanges() [][4]byte {
	var l [][4]byte
	for a := byte(0); a < 3; a++ {
		for b := byte(0); b < 3; b++ {
			for c := byte(0); c < 3; c++ {
				for d := byte(0); d < 3; d++ {
					l = append(l, [4]byte{a, b, c, d})
				}
			}
		}
	}
	return l
}

// grpcEntry runs one handshake through the product's entry points (NoiseGrpcConn.ClientHandshake /
// ServerHandshake with their version options, which pick the pattern from the ConnData) and reports
// whether each side completed and how many transport writes the responder made.
func grpcEntry(cliNG, srvNG *mailbox.NoiseGrpcConn) (cliErr, srvErr error, srvWrites int) {
	cc, sc := newMemPair()
	var wg sync.WaitGroup
	wg.Add(2)
	go func() {
		defer wg.Done()
		_, _, cliErr = cliNG.ClientHandshake(context.Background(), "", cc)
		if cliErr != nil {
			cc.Close() // what the callers do: a failed handshake closes the connection
		}
	}()
	go func() {
		defer wg.Done()
		_, _, srvErr = srvNG.ServerHandshake(sc)
		if srvErr != nil {
			sc.Close()
		}
	}()
	done := make(chan struct{})
	go func() { wg.Wait(); close(done) }()
	select {
	case <-done:
	case <-time.After(20 * time.Second):
		// both sides wait for bytes that will never come: end it as the read deadline would
		cc.Close()
		sc.Close()
		<-done
	}
	return cliErr, srvErr, len(sc.writeLog)
}

// grpcEntryCases: the repeat-handshake clause at the level of the credentials objects. One side has
// stored its peer's static key at an earlier pairing (its ConnData holds a remote key); the other
// side is either that peer or somebody else who only knows the pairing phrase. For every version cap
// (0, 1, 2 - the key-based handshake needs 2) and for a Clone() of the credentials: the handshake
// completes only for the stored peer, and towards anybody else the responder writes nothing.
func grpcEntryCases(r *Recorder) {
	pass := []byte("pairing-phrase-entropy")
	cliKey, srvKey, otherKey := key(5301), key(5302), key(5303)
	mk := func(priv *btcec.PrivateKey, remote *btcec.PublicKey, auth []byte) *mailbox.ConnData {
		return mailbox.NewConnData(&keychain.PrivKeyECDH{PrivKey: priv}, remote, pass, auth, nil, nil)
	}
	type variant struct {
		name string
		opts func() []func(*mailbox.NoiseGrpcConn)
		cl   bool
	}
	variants := []variant{
		{"max=2", func() []func(*mailbox.NoiseGrpcConn) { return nil }, false},
		{"max=1", func() []func(*mailbox.NoiseGrpcConn) {
			return []func(*mailbox.NoiseGrpcConn){mailbox.WithMaxHandshakeVersion(1)}
		}, false},
		{"max=0", func() []func(*mailbox.NoiseGrpcConn) {
			return []func(*mailbox.NoiseGrpcConn){mailbox.WithMaxHandshakeVersion(0)}
		}, false},
		{"clone", func() []func(*mailbox.NoiseGrpcConn) { return nil }, true},
	}
	build := func(d *mailbox.ConnData, v variant) *mailbox.NoiseGrpcConn {
		ng := mailbox.NewNoiseGrpcConn(d, v.opts()...)
		if v.cl {
			ng = ng.Clone().(*mailbox.NoiseGrpcConn)
		}
		return ng
	}
	for _, pv := range variants { // the paired side's credentials
		for _, ov := range variants[:3] { // the other side's
			for _, legit := range []bool{true, false} {
				// (a) the responder is the paired side
				{
					srv := build(mk(srvKey, cliKey.PubKey(), []byte("macaroon")), pv)
					var cli *mailbox.NoiseGrpcConn
					if legit {
						cli = build(mk(cliKey, srvKey.PubKey(), nil), ov)
					} else {
						cli = build(mk(otherKey, nil, nil), ov)
					}
					ce, se, w := grpcEntry(cli, srv)
					name := fmt.Sprintf("grpc-entry:paired-responder:%s:initiator-%s:legit=%v", pv.name, ov.name, legit)
					if !legit && (se == nil || w != 0) {
						r.Violate("C03/completed-without-secret", fmt.Sprintf("responder credentials (%s) whose ConnData hold the static key stored at pairing time; the initiator (%s) knows the pairing phrase but has another static key: responder err %v, initiator err %v, responder made %d transport writes",
							pv.name, ov.name, se, ce, w), name)
					}
					r.Case(name, !legit, "grpc-entry")
				}
				// (b) the initiator is the paired side
				{
					cli := build(mk(cliKey, srvKey.PubKey(), nil), pv)
					var srv *mailbox.NoiseGrpcConn
					if legit {
						srv = build(mk(srvKey, cliKey.PubKey(), []byte("macaroon")), ov)
					} else {
						srv = build(mk(otherKey, nil, []byte("macaroon")), ov)
					}
					ce, se, _ := grpcEntry(cli, srv)
					name := fmt.Sprintf("grpc-entry:paired-initiator:%s:responder-%s:legit=%v", pv.name, ov.name, legit)
					if !legit && ce == nil {
						r.Violate("C03/completed-without-secret", fmt.Sprintf("initiator credentials (%s) whose ConnData hold the static key stored at pairing time; the responder (%s) knows the pairing phrase but has another static key: initiator err %v, responder err %v",
							pv.name, ov.name, ce, se), name)
					}
					r.Case(name, !legit, "grpc-entry")
				}
			}
		}
	}
}

func TestC03(t *testing.T) {
	r := NewRecorder(t, "C03")
	defer r.Close(t)
	var cases []*noiseCase
	payloads := []int{-1, 0, 1, 498, 499, 500, 65535, 65536, 3 << 20}
	if !thorough() {
		payloads = []int{-1, 0, 1, 498, 499, 65536}
	}
	for _, vr := range versionRanges() {
		for _, pl := range payloads {
			if pl > 70000 && !(vr == [4]byte{0, 2, 0, 2} || vr == [4]byte{1, 1, 1, 1}) {
				continue
			}
			for _, same := range []bool{true, false} {
				cases = append(cases, &noiseCase{IMin: vr[0], IMax: vr[1], RMin: vr[2], RMax: vr[3], PwSame: same,
					IExp: "-", RExp: "-", PayloadLen: pl})
			}
			for _, ie := range []string{"1", "0"} {
				for _, re := range []string{"1", "0"} {
					cases = append(cases, &noiseCase{KK: true, IMin: vr[0], IMax: vr[1], RMin: vr[2], RMax: vr[3], PwSame: true,
						IExp: ie, RExp: re, PayloadLen: pl})
				}
			}
		}
	}
	noiseRunAll(t, r, cases, func(nc *noiseCase) string {
		return fmt.Sprintf("kk=%v/secret-ok=%v", nc.KK, nc.PwSame && nc.IExp != "0" && nc.RExp != "0")
	})
	// passphrases differing in exactly one bit, all 112 positions of a 14 byte entropy
	for bit := 0; bit < 112; bit++ {
		a := bytes.Repeat([]byte{0x5a}, 14)
		b := append([]byte(nil), a...)
		b[bit/8] ^= 1 << (bit % 8)
		cli := &hsSide{Priv: key(5001), Passphrase: a, Min: 0, Max: 2}
		srv := &hsSide{Priv: key(5002), Passphrase: b, AuthData: []byte("macaroon"), Min: 0, Max: 2}
		cc, sc := newMemPair()
		runHandshake(cli, srv, cc, sc)
		if cli.Err == nil || srv.Err == nil || len(sc.writeLog) != 0 {
			r.Violate("C03/completed-without-secret", fmt.Sprintf("passphrases differing in bit %d: client err %v, server err %v, server wrote %d messages",
				bit, cli.Err, srv.Err, len(sc.writeLog)), bit)
		}
		r.Case(fmt.Sprintf("pwbit:%d", bit), true, "passphrase-bit")
	}
	// the XX pattern asked for explicitly on ConnData that already hold a remote key (re-pairing):
	// the passphrase decides, exactly as on fresh ConnData
	for _, same := range []bool{true, false} {
		for _, vr := range [][2]byte{{0, 2}, {2, 2}, {0, 0}} {
			pa := []byte("pairing-phrase-entropy")
			pb := pa
			if !same {
				pb = []byte("pairing-phrase-entropz")
			}
			xx := mailbox.XXPattern
			cli := &hsSide{Priv: key(5101), Passphrase: pa, Min: vr[0], Max: vr[1], Pattern: &xx}
			srv := &hsSide{Priv: key(5102), Passphrase: pb, AuthData: []byte("macaroon"), Min: vr[0], Max: vr[1], Pattern: &xx}
			cli.Remote, srv.Remote = srv.Priv.PubKey(), cli.Priv.PubKey()
			cc, sc := newMemPair()
			runHandshake(cli, srv, cc, sc)
			completed := cli.Err == nil && srv.Err == nil
			if same && !completed {
				r.Violate("C03/right-secret-rejected", fmt.Sprintf("XX asked for explicitly on paired ConnData, same passphrase, versions %v: client %v, server %v", vr, cli.Err, srv.Err), vr)
			}
			if !same && (cli.Err == nil || srv.Err == nil || len(sc.writeLog) != 0) {
				r.Violate("C03/completed-without-secret", fmt.Sprintf("XX asked for explicitly on ConnData that hold a remote key, different passphrases, versions %v: client err %v, server err %v, server wrote %d messages",
					vr, cli.Err, srv.Err, len(sc.writeLog)), vr)
			}
			r.Case(fmt.Sprintf("xx-on-paired:%v:%v", same, vr), !same, "xx-on-paired")
		}
	}
	grpcEntryCases(r)
	// the application keeps its passphrase in one buffer and overwrites it in place between
	// pairings: only the bytes in the buffer at the time of a handshake count
	{
		buf := []byte("pairing-phrase-entropy")
		old := append([]byte(nil), buf...)
		hist := []string{}
		round := func(label string, peer []byte, want bool) {
			hist = append(hist, label)
			cli := &hsSide{Priv: key(5201), Passphrase: buf, Min: 0, Max: 2}
			srv := &hsSide{Priv: key(5202), Passphrase: peer, AuthData: []byte("macaroon"), Min: 0, Max: 2}
			cc, sc := newMemPair()
			runHandshake(cli, srv, cc, sc)
			completed := cli.Err == nil && srv.Err == nil
			switch {
			case want && !completed:
				r.Violate("C03/right-secret-rejected", fmt.Sprintf("%s: client %v, server %v", label, cli.Err, srv.Err), hist)
			case !want && (cli.Err == nil || srv.Err == nil || len(sc.writeLog) != 0):
				r.Violate("C03/completed-without-secret", fmt.Sprintf("%s: the initiator's passphrase buffer was overwritten in place since an earlier handshake; client err %v, server err %v, server wrote %d messages",
					label, cli.Err, srv.Err, len(sc.writeLog)), append([]string(nil), hist...))
			}
			r.Case("pw-buffer:"+label, !want, "passphrase-buffer-reuse")
		}
		round("both sides hold phrase 1", old, true)
		copy(buf, "another-phrase-entropy")
		round("initiator's buffer now holds phrase 2, responder still phrase 1", old, false)
		round("both sides hold phrase 2", append([]byte(nil), buf...), true)
		copy(buf, old)
		round("initiator back to phrase 1, responder at phrase 2", []byte("another-phrase-entropy"), false)
	}
}
