package harness

import (
	"bytes"
	"fmt"
	"strings"
	"testing"
	"testing/synctest"
	"time"

	"github.com/lightninglabs/lightning-node-connect/gbn"
)

// dataEmits returns the (len:final) descriptions of the DATA packets that
// endpoint ep put on the wire, in order (no pings).
func dataEmits(res *GbnResult, ep int) []string {
	var out []string
	for _, e := range res.Events {
		if e.Kind != "emit" || e.EP != ep {
			continue
		}
		m, err := gbn.Deserialize(e.Pkt)
		if err != nil {
			continue
		}
		if d, ok := m.(*gbn.PacketData); ok && !d.IsPing {
			out = append(out, fmt.Sprintf("%d:%s", len(d.Payload), b01(d.FinalChunk)))
		}
	}
	return out
}

func c14Case(t *testing.T, r *Recorder, maxChunk int, lens []int, class string) {
	sc := &GbnScenario{Name: fmt.Sprintf("%s-m%d-%v", class, maxChunk, lens), N: 20, MaxChunk: maxChunk,
		Msgs: [2][]int{lens, nil}, Latency: time.Millisecond, RunFor: 50 * time.Second, Static: 60 * time.Second}
	res := RunGbn(t, sc, nil)
	if res.Panic != "" || res.HsErr[0] != "" || res.HsErr[1] != "" {
		r.Violate("C14/run-failed", res.Panic+res.HsErr[0]+res.HsErr[1], sc)
		return
	}
	emits := dataEmits(res, 0)
	// model comparison: the packets of each message as Send produced them
	pos := 0
	for i, l := range lens {
		start := pos
		for pos < len(emits) && !strings.HasSuffix(emits[pos], ":1") {
			pos++
		}
		if pos < len(emits) {
			pos++
		}
		r.Emit(fmt.Sprintf("chunk.split %d %s", maxChunk, hx(payloadFor(0, i, l))), strings.Join(emits[start:pos], ","))
	}
	if pos != len(emits) {
		r.Emit(fmt.Sprintf("chunk.split %d -", maxChunk), "extra:"+strings.Join(emits[pos:], ","))
	}
	r.Emit(fmt.Sprintf("chunk.roundtrip %d %s", maxChunk, msgsField(res.Sent[0])), msgsField(res.Recvd[1]))
	// oracle on the API: every successful Send = exactly one Recv result, same bytes, same order
	bad := len(res.Sent[0]) != len(lens) || len(res.Recvd[1]) != len(res.Sent[0])
	if !bad {
		for i := range res.Sent[0] {
			if !bytes.Equal(res.Sent[0][i], res.Recvd[1][i]) {
				bad = true
			}
		}
	}
	if bad {
		sig := "C14/boundaries"
		for _, l := range lens {
			if l == 0 && maxChunk > 0 {
				sig = "C14/empty-with-chunking"
			}
		}
		r.Violate(sig, fmt.Sprintf("maxChunk=%d lens=%v: %d Sends succeeded, Recv results %s", maxChunk, lens,
			len(res.Sent[0]), msgsField(res.Recvd[1])), sc)
	}
	nontrivial := maxChunk > 0
	r.Case(sc.Name, nontrivial, fmt.Sprintf("%s/m=%d", class, maxChunk))
}

// c14AsymCase: the maximum send size is a local setting, it is not negotiated: only the sender of
// the direction under test splits (the other endpoint is created without WithMaxSendSize), and
// still every Send is exactly one Recv result. dir 0: client -> server, dir 1: server -> client.
func c14AsymCase(t *testing.T, r *Recorder, maxChunk int, lens []int, dir int) {
	sc := &GbnScenario{Name: fmt.Sprintf("only-sender-splits-dir%d-m%d-%v", dir, maxChunk, lens), N: 20, MaxChunk: maxChunk,
		Latency: time.Millisecond, RunFor: 50 * time.Second, Static: 60 * time.Second}
	sc.Msgs[dir] = lens
	sc.NoChunkEP[1-dir] = true
	res := RunGbn(t, sc, nil)
	if res.Panic != "" || res.HsErr[0] != "" || res.HsErr[1] != "" {
		r.Violate("C14/run-failed", res.Panic+res.HsErr[0]+res.HsErr[1], sc)
		return
	}
	bad := len(res.Sent[dir]) != len(lens) || len(res.Recvd[1-dir]) != len(res.Sent[dir])
	if !bad {
		for i := range res.Sent[dir] {
			if !bytes.Equal(res.Sent[dir][i], res.Recvd[1-dir][i]) {
				bad = true
			}
		}
	}
	if bad {
		r.Violate("C14/boundaries", fmt.Sprintf("only the sending endpoint has a maximum send size (%d), lens=%v: %d Sends succeeded, Recv results %s", maxChunk, lens,
			len(res.Sent[dir]), msgsField(res.Recvd[1-dir])), sc)
	}
	r.Case(sc.Name, true, fmt.Sprintf("only-sender-splits/m=%d", maxChunk))
}

// recvDeadlineCase: the Recv deadline expires after `j` chunks of a c-chunk
// message have arrived; the call is retried.
func recvDeadlineCase(t *testing.T, r *Recorder, c, j int) {
	m := 2
	l := 2*c - 1
	faults := make([]Fault, 2+c+2)
	faults[2+j] = Fault{Delay: 10 * time.Second}
	sc := &GbnScenario{Name: fmt.Sprintf("recv-deadline-c%d-j%d", c, j), N: 20, MaxChunk: m,
		Faults: [2][]Fault{faults, nil}, Latency: time.Millisecond, Static: 60 * time.Second}
	msgs := [][]byte{payloadFor(0, 0, l), payloadFor(0, 1, 3)}
	var got [][]byte
	var budgets []string
	res := RunGbnBody(t, sc, func(sim *Sim, conns [2]*gbn.GoBackNConn, res *GbnResult) {
		go func() {
			for _, p := range msgs {
				conns[0].Send(p)
			}
		}()
		conns[1].SetRecvTimeout(5 * time.Second)
		b, err := conns[1].Recv()
		if err == nil {
			got = append(got, b)
		}
		budgets = append(budgets, fmt.Sprint(j))
		conns[1].SetRecvTimeout(time.Hour)
		for len(got) < len(msgs) {
			b, err := conns[1].Recv()
			if err != nil {
				break
			}
			got = append(got, b)
			budgets = append(budgets, "99")
		}
		synctest.Wait()
	})
	if res.Panic != "" || res.HsErr[0] != "" {
		r.Violate("C14/run-failed", res.Panic+res.HsErr[0], sc)
		return
	}
	for len(budgets) < 3 {
		budgets = append(budgets, "99")
	}
	r.Emit(fmt.Sprintf("chunk.recvbudgets %d %s %s", m, strings.Join(budgets, ","), msgsField(msgs)), msgsField(got))
	ok := len(got) == len(msgs)
	for i := 0; ok && i < len(msgs); i++ {
		ok = bytes.Equal(got[i], msgs[i])
	}
	if !ok {
		r.Violate("C14/recv-deadline-mid-message", fmt.Sprintf("Recv deadline after %d of %d chunks, retried: results %s, sent %s",
			j, c, msgsField(got), msgsField(msgs)), sc)
	}
	r.Case(sc.Name, j > 0, "recv-deadline")
}

// sendDeadlineCase: window 1, ACK number j delayed so that Send's deadline
// expires with j+1 chunks handed over; the Send is retried.
func sendDeadlineCase(t *testing.T, r *Recorder, c, j int) {
	m := 2
	l := 2 * c
	faults := make([]Fault, 1+j+1)
	faults[1+j] = Fault{Delay: 10 * time.Second}
	sc := &GbnScenario{Name: fmt.Sprintf("send-deadline-c%d-j%d", c, j), N: 1, MaxChunk: m,
		Faults: [2][]Fault{nil, faults}, Latency: time.Millisecond, Static: 60 * time.Second}
	data := payloadFor(0, 0, l)
	var got [][]byte
	var firstErr, secondErr error
	res := RunGbnBody(t, sc, func(sim *Sim, conns [2]*gbn.GoBackNConn, res *GbnResult) {
		done := make(chan struct{})
		go func() {
			defer close(done)
			conns[1].SetRecvTimeout(30 * time.Second)
			for {
				b, err := conns[1].Recv()
				if err != nil {
					return
				}
				got = append(got, b)
			}
		}()
		conns[0].SetSendTimeout(5 * time.Second)
		firstErr = conns[0].Send(data)
		conns[0].SetSendTimeout(time.Hour)
		secondErr = conns[0].Send(data)
		<-done
	})
	if res.Panic != "" || res.HsErr[0] != "" {
		r.Violate("C14/run-failed", res.Panic+res.HsErr[0], sc)
		return
	}
	if firstErr == nil || secondErr != nil {
		// the deadline did not make the first Send fail: every Send that reported success must then
		// have been delivered as one intact message
		okSends := 0
		for _, e := range []error{firstErr, secondErr} {
			if e == nil {
				okSends++
			}
		}
		bad := len(got) != okSends
		for _, g := range got {
			if !bytes.Equal(g, data) {
				bad = true
			}
		}
		if bad {
			r.Violate("C14/send-reports-success-but-not-delivered",
				fmt.Sprintf("send deadline 5 s, ACK %d of %d chunks delayed by 10 s: Send returned %v then %v, but Recv results are %s (payload %s)",
					j, c, firstErr, secondErr, msgsField(got), hx(data)), sc)
		}
		r.Case(sc.Name, false, "send-deadline/not-triggered")
		return
	}
	// how many chunks had been handed over when the deadline fired
	k := 0
	for _, e := range dataEmits(res, 0) {
		_ = e
		k++
	}
	handed := k - c // emitted chunks minus those of the successful retry
	if handed < 0 {
		handed = 0
	}
	r.Emit(fmt.Sprintf("chunk.sendtimeout %d %d %s", m, handed, hx(data)), msgsField(got))
	if len(got) != 1 || !bytes.Equal(got[0], data) {
		r.Violate("C14/send-deadline-mid-message",
			fmt.Sprintf("Send timed out after %d of %d chunks and was retried successfully: Recv results %s, payload %s",
				handed, c, msgsField(got), hx(data)), sc)
	}
	r.Case(sc.Name, true, "send-deadline")
}

func TestC14(t *testing.T) {
	r := NewRecorder(t, "C14")
	defer r.Close(t)
	// the same at the level of the mailbox's control messages: consecutive messages received into one
	// message object are not merged into or written over each other
	msgDestAliasCases(r, "C14")
	L, M := pick(12, 24), pick(6, 9)
	for m := 0; m <= M; m++ {
		for l := 0; l <= L; l++ {
			c14Case(t, r, m, []int{l}, "single")
		}
	}
	for m := 0; m <= pick(4, 6); m++ {
		set := []int{0, 1, m, m + 1, 2 * m, 2*m + 1}
		if m > 1 {
			set = append(set, m-1)
		}
		for _, a := range set {
			for _, b := range set {
				for _, c := range set {
					if thorough() {
						for _, d := range []int{0, m, 2*m + 1} {
							c14Case(t, r, m, []int{a, b, c, d}, "seq4")
						}
					} else {
						c14Case(t, r, m, []int{a, b, c}, "seq3")
					}
				}
			}
		}
	}
	for _, m := range []int{1, 2, 4, 7} {
		for dir := 0; dir < 2; dir++ {
			c14AsymCase(t, r, m, []int{2*m + 2, 2, m, 0, 3*m + 1, 1}, dir)
			c14AsymCase(t, r, m, []int{m + 1}, dir)
		}
	}
	rng := newRand(14)
	for i := 0; i < pick(6, 40); i++ {
		m := []int{0, 1, 7, 1000, 4096, 65535}[rng.Intn(6)]
		lens := []int{rng.Intn(1 << 20), rng.Intn(3), rng.Intn(70000)}
		if m == 1 || m == 7 {
			// keep the number of chunks (and of simulated packets) moderate
			lens = []int{rng.Intn(300 * m), 0, rng.Intn(5 * m)}
		}
		c14Case(t, r, m, lens, "large")
	}
	for c := 1; c <= pick(4, 7); c++ {
		for j := 0; j < c; j++ {
			recvDeadlineCase(t, r, c, j)
			sendDeadlineCase(t, r, c, j)
		}
	}
	// chunked messages under transport faults, receive deadlines and frequent keepalive pings
	// (C14_with_C01 on real connections): what Recv returns is a prefix of what Send accepted
	var chunked []*GbnScenario
	for _, sc := range c01Scenarios() {
		if strings.HasPrefix(sc.Name, "chunked-") {
			chunked = append(chunked, sc)
		}
	}
	forEachScenario(t, chunked, func(sc *GbnScenario, res *GbnResult) {
		if res.Panic != "" || res.HsErr[0] != "" || res.HsErr[1] != "" {
			return
		}
		r.Case("faulty-"+sc.Name, true, "chunked-under-faults")
		if ok, why := prefixOracle(res); !ok {
			r.Violate("C14/message-corrupted-under-faults", why, sc)
		}
	})
	r.Sample(map[string]interface{}{"maxChunk": 4, "lens": []int{9, 0, 4}, "model": "chunk.split 4 <payload> -> 4:0,4:0,1:1"})
}
