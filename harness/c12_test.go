package harness

import (
	"context"
	"fmt"
	"net"
	"sync"
	"testing"
	"testing/synctest"
	"time"

	"github.com/lightninglabs/lightning-node-connect/gbn"
	"github.com/lightninglabs/lightning-node-connect/mailbox"
)

type closeCase struct {
	At        time.Duration // after the handshake
	Who       int           // 0 client, 1 server, 2 both at the same instant
	Times     int           // sequential calls per closer goroutine
	Callers   int           // goroutines calling Close concurrently per closing side
	Transport string        // working | silent | blocking
	Load      string        // idle | burst | full-window | lossy | recv-backlog
	N         uint8
	Keepalive bool
}

type closeResult struct {
	MaxCloseTook time.Duration
	CloseHung    string
	EarlyReturn  string
	BlockedSend  string // result of the Send that was blocked / in flight when Close ran
	BlockedRecv  string
	LaterSend    bool // Send after Close fails
	LaterRecv    bool
	PeerFailed   time.Duration // time until the peer's blocked Recv fails, -1 = not within the horizon
	FinSeen      bool
	Leaked       string
	Panic        string
}

func closeScenario(t *testing.T, c closeCase) closeResult {
	// A hung transport makes Close wait for the FIN context's timeout while other
	// callers queue up on sync.Once's mutex; a mutex wait is not "durably blocked"
	// for synctest, so virtual time could not advance: those cases use the wall clock.
	// wall clock: a hung transport, and the receive-backlog cases (a Close that never returns has
	// further Close callers queueing on sync.Once's mutex, which stops a bubble's clock, so the
	// watchdog below needs real time)
	real := c.Transport == "blocking" || c.Load == "recv-backlog"
	settle := func() {
		if real {
			time.Sleep(30 * time.Millisecond)
		} else {
			synctest.Wait()
		}
	}
	sc := &GbnScenario{Name: fmt.Sprintf("close-%+v", c), N: c.N, Latency: 10 * time.Millisecond, Static: time.Second, RealTime: real}
	if c.Keepalive {
		sc.PingNs, sc.PongNs = int64(5*time.Second), int64(3*time.Second)
	}
	if c.Load == "lossy" {
		sc.RandFault = &RandFault{DropPct: 40, DupPct: 10, DelayPct: 10, MaxDelay: 800 * time.Millisecond}
		// the property is about connections that exist: the handshake packets pass unharmed
		sc.Faults = [2][]Fault{cleanHS(0, nil), cleanHS(1, nil)}
	}
	out := closeResult{PeerFailed: -1}
	res := RunGbnBody(t, sc, func(sim *Sim, conns [2]*gbn.GoBackNConn, res *GbnResult) {
		var mu sync.Mutex
		closers := []int{c.Who}
		if c.Who == 2 {
			closers = []int{0, 1}
		}
		isCloser := map[int]bool{}
		for _, ep := range closers {
			isCloser[ep] = true
		}
		// blocked receivers on both sides
		recvErrAt := [2]time.Duration{-1, -1}
		recvErr := [2]string{}
		for ep := 0; ep < 2; ep++ {
			ep := ep
			if c.Load == "recv-backlog" && ep == 1 {
				continue // the server application is not reading: received packets pile up in its buffer
			}
			res.tw.Add(1)
			go func() {
				defer res.tw.Done()
				for {
					_, err := conns[ep].Recv()
					if err != nil {
						mu.Lock()
						recvErrAt[ep] = sim.now()
						recvErr[ep] = err.Error()
						mu.Unlock()
						return
					}
				}
			}()
		}
		// load
		sendRes := make(chan error, 64)
		nSend := 0
		switch c.Load {
		case "burst", "lossy":
			nSend = 12
		case "recv-backlog":
			nSend = int(c.N) + 3 // more than the receive buffer of the idle reader holds
		case "full-window":
			sim.pipes[1].Hold(true) // no ACK reaches the client: its window fills and Send blocks
			nSend = int(c.N) + 2
		}
		for i := 0; i < nSend; i++ {
			i := i
			res.tw.Add(1)
			go func() {
				defer res.tw.Done()
				time.Sleep(time.Duration(i) * 30 * time.Millisecond)
				sendRes <- conns[0].Send(payloadFor(0, i, 4))
			}()
		}
		time.Sleep(c.At)
		switch c.Transport {
		case "silent":
			sim.SetSilent(true)
		case "blocking":
			sim.SetBlockTx(true)
		}
		t0 := sim.now()
		tClose := time.Now()
		firstRet := map[int][]time.Duration{}
		var cw sync.WaitGroup
		for _, ep := range closers {
			for k := 0; k < c.Callers; k++ {
				ep := ep
				cw.Add(1)
				go func() {
					defer cw.Done()
					for j := 0; j < c.Times; j++ {
						s := time.Now()
						sim.log(Event{EP: ep, Kind: "close"})
						conns[ep].Close()
						sim.log(Event{EP: ep, Kind: "close-ret"})
						d := time.Since(s)
						mu.Lock()
						if d > out.MaxCloseTook {
							out.MaxCloseTook = d
						}
						if j == 0 {
							// first call of this caller: callers that overlap the shutdown all return when it is over
							firstRet[ep] = append(firstRet[ep], time.Since(tClose))
						}
						mu.Unlock()
					}
				}()
			}
		}
		closeDone := make(chan struct{})
		go func() { cw.Wait(); close(closeDone) }()
		limit := 120 * time.Second
		if real {
			limit = 10 * time.Second
		}
		select {
		case <-closeDone:
		case <-time.After(limit):
			// Close does not return: record it and leave the wedged connection behind
			mu.Lock()
			out.MaxCloseTook = limit
			out.CloseHung = fmt.Sprintf("a Close call had not returned after %v", limit)
			mu.Unlock()
			if real {
				res.Abandon = true
				return
			}
			<-closeDone
		}
		// every Close call that overlapped the shutdown returns when the shutdown is over, not before:
		// with a hung transport the shutdown takes the FIN timeout, and no caller may be back earlier
		mu.Lock()
		for ep, rets := range firstRet {
			if len(rets) < 2 || c.Transport != "blocking" {
				continue
			}
			lo, hi := rets[0], rets[0]
			for _, d := range rets {
				if d < lo {
					lo = d
				}
				if d > hi {
					hi = d
				}
			}
			if hi-lo > 300*time.Millisecond {
				out.EarlyReturn = fmt.Sprintf("endpoint %d, hung transport, %d concurrent Close calls: one returned after %v while the shutdown (another call) took %v", ep, len(rets), lo, hi)
			}
		}
		mu.Unlock()
		settle()
		// calls after Close
		for _, ep := range closers {
			if conns[ep].Send([]byte{9}) == nil {
				out.LaterSend = true
			}
			if _, err := conns[ep].Recv(); err == nil {
				out.LaterRecv = true
			}
		}
		if c.Load == "recv-backlog" {
			// the idle reader wakes up only now: it may drain what was buffered, then must see the failure
			res.tw.Add(1)
			go func() {
				defer res.tw.Done()
				for {
					if _, err := conns[1].Recv(); err != nil {
						mu.Lock()
						recvErrAt[1] = sim.now()
						recvErr[1] = err.Error()
						mu.Unlock()
						return
					}
				}
			}()
			settle()
		}
		// the closers' blocked calls must have failed by now
		mu.Lock()
		for _, ep := range closers {
			if recvErrAt[ep] < 0 {
				out.BlockedRecv = fmt.Sprintf("endpoint %d: Recv still blocked after Close returned", ep)
			}
		}
		mu.Unlock()
		// the peer learns about it (FIN) when the transport works
		if real {
			time.Sleep(100 * time.Millisecond)
		} else {
			time.Sleep(20 * time.Second)
		}
		settle()
		mu.Lock()
		if c.Who != 2 {
			peer := 1 - c.Who
			if recvErrAt[peer] >= 0 {
				out.PeerFailed = recvErrAt[peer] - t0
			}
		}
		mu.Unlock()
		// sends that were blocked on the full window must have been released with an error
		if c.Load == "full-window" && isCloser[0] {
			pendingErr := 0
			for len(sendRes) > 0 {
				if e := <-sendRes; e != nil {
					pendingErr++
				}
			}
			if pendingErr == 0 {
				out.BlockedSend = "no Send blocked on the full window returned an error after Close"
			}
		}
		sim.SetBlockTx(false)
		sim.pipes[1].Hold(false)
	})
	for _, e := range res.Events {
		if e.Kind == "emit" && e.By == "close" {
			out.FinSeen = true
		}
	}
	out.Leaked, out.Panic = res.Leaked, res.Panic
	return out
}

// keepaliveCloseTellsPeer: the connection closes itself (keepalive: nothing arrives from the peer any
// more) while the other direction of the transport still works. That Close, too, must tell the peer
// with a FIN, so that the peer's blocked Recv fails right away instead of waiting for its own
// keepalive. Returns how long after the local closure the peer's Recv failed (-1: not within 30 s).
func keepaliveCloseTellsPeer(t *testing.T, n uint8) (after time.Duration, closedLocally bool, bad string) {
	sc := &GbnScenario{Name: fmt.Sprintf("keepalive-close-tells-peer-n%d", n), N: n, Latency: 20 * time.Millisecond,
		PingNs: int64(5 * time.Second), PongNs: int64(3 * time.Second), Static: time.Second}
	after = -1
	res := RunGbnBody(t, sc, func(sim *Sim, conns [2]*gbn.GoBackNConn, res *GbnResult) {
		peerFailed := make(chan time.Time, 1)
		res.tw.Add(2)
		go func() {
			defer res.tw.Done()
			for {
				if _, err := conns[1].Recv(); err != nil {
					peerFailed <- time.Now()
					return
				}
			}
		}()
		go func() {
			defer res.tw.Done()
			for {
				if _, err := conns[0].Recv(); err != nil {
					return
				}
			}
		}()
		time.Sleep(1300 * time.Millisecond)
		// from now on nothing the peer (endpoint 1) sends arrives; what endpoint 0 sends still does
		sim.pipes[1].mu.Lock()
		sim.pipes[1].silent = true
		sim.pipes[1].mu.Unlock()
		var closedAt time.Time
		for i := 0; i < 1200 && closedAt.IsZero(); i++ {
			time.Sleep(50 * time.Millisecond)
			if conns[0].VClosed() {
				closedAt = time.Now()
			}
		}
		if closedAt.IsZero() {
			return
		}
		closedLocally = true
		select {
		case at := <-peerFailed:
			after = at.Sub(closedAt)
			if after < 0 {
				after = 0
			}
		case <-time.After(30 * time.Second):
		}
	})
	return after, closedLocally, res.Panic
}

func TestC12(t *testing.T) {
	r := NewRecorder(t, "C12")
	defer r.Close(t)
	for _, n := range []uint8{1, 20} {
		after, closed, bad := keepaliveCloseTellsPeer(t, n)
		name := fmt.Sprintf("keepalive-close-tells-peer:n=%d", n)
		switch {
		case bad != "":
			r.Violate("C12/panic", bad, name)
		case closed && (after < 0 || after > 2*time.Second):
			r.Violate("C12/peer-not-told", fmt.Sprintf("window %d, keepalive 5 s / 3 s: nothing arrives from the peer any more, the connection closes itself while its own sending direction still works; the peer's blocked Recv failed %v after that closure (-1ns: not within 30 s) - no FIN reached it", n, after), name)
		}
		r.Case(name, true, "keepalive-close")
	}
	var cases []closeCase
	grid := []time.Duration{0, 5 * time.Millisecond, 40 * time.Millisecond, 150 * time.Millisecond, 400 * time.Millisecond,
		1100 * time.Millisecond, 2500 * time.Millisecond, 6 * time.Second}
	if thorough() {
		for k := 0; k < 40; k++ {
			grid = append(grid, time.Duration(k)*137*time.Millisecond+time.Millisecond)
		}
	}
	for _, at := range grid {
		for _, who := range []int{0, 1, 2} {
			for _, tr := range []string{"working", "silent", "blocking"} {
				if tr == "blocking" && (at > 400*time.Millisecond || (!thorough() && at != 40*time.Millisecond)) {
					continue // wall-clock cases: each costs a real second
				}
				for _, load := range []string{"idle", "burst", "full-window", "lossy", "recv-backlog"} {
					for _, ka := range []bool{false, true} {
						n := uint8(3)
						if load == "burst" && who == 1 {
							n = 20
						}
						cc := closeCase{At: at, Who: who, Times: 1 + len(cases)%3, Callers: 1 + len(cases)%4,
							Transport: tr, Load: load, N: n, Keepalive: ka}
						if load == "recv-backlog" && (at > 400*time.Millisecond || (!thorough() && at != 40*time.Millisecond && at != 400*time.Millisecond)) {
							continue // wall-clock cases
						}
						if load == "recv-backlog" {
							// a single Close call per endpoint: further callers would queue on sync.Once's
							// mutex, which is not a durable block, and the bubble's clock (hence the
							// watchdog for a Close that never returns) could not advance
							cc.Times, cc.Callers = 1, 1
						}
						cases = append(cases, cc)
					}
				}
			}
		}
	}
	var mu sync.Mutex
	idx := 0
	t.Run("close", func(t *testing.T) {
		for w := 0; w < 16; w++ {
			t.Run(fmt.Sprint(w), func(t *testing.T) {
				t.Parallel()
				for {
					mu.Lock()
					i := idx
					idx++
					mu.Unlock()
					if i >= len(cases) {
						return
					}
					c := cases[i]
					res := closeScenario(t, c)
					mu.Lock()
					r.Case(fmt.Sprintf("%+v", c), true, fmt.Sprintf("%s/%s/who=%d", c.Transport, c.Load, c.Who))
					switch {
					case res.Panic != "":
						r.Violate("C12/panic", res.Panic, c)
					case res.Leaked != "":
						r.Violate("C12/leak", "goroutines of the connection are still blocked after both ends were closed: "+res.Leaked[:min(len(res.Leaked), 300)], c)
					case res.CloseHung != "":
						r.Violate("C12/close-does-not-return", res.CloseHung, c)
					case res.EarlyReturn != "":
						r.Violate("C12/close-returns-before-shutdown-is-over", res.EarlyReturn, c)
					case res.MaxCloseTook > 1100*time.Millisecond && c.Transport != "blocking" || res.MaxCloseTook > 2500*time.Millisecond:
						r.Violate("C12/close-slow", fmt.Sprintf("a Close call took %v (FIN send timeout is 1 s)", res.MaxCloseTook), c)
					case res.LaterSend || res.LaterRecv:
						r.Violate("C12/call-after-close-succeeds", fmt.Sprintf("after Close: Send succeeded=%v Recv succeeded=%v", res.LaterSend, res.LaterRecv), c)
					case res.BlockedRecv != "" || res.BlockedSend != "":
						r.Violate("C12/blocked-caller-not-woken", res.BlockedRecv+res.BlockedSend, c)
					case c.Load == "full-window" && c.Who == 1:
						// the harness itself withholds everything the server sends (to fill the
						// client's window), so the peer cannot be told in this combination
					case c.Transport == "working" && c.Who != 2 && c.Load != "lossy" && !res.FinSeen:
						r.Violate("C12/no-fin", "Close with a working transport did not emit a FIN", c)
					case c.Transport == "working" && c.Who != 2 && c.Load != "lossy" && (res.PeerFailed < 0 || res.PeerFailed > 2*time.Second):
						r.Violate("C12/peer-not-told", fmt.Sprintf("working transport, peer's blocked Recv failed after %v", res.PeerFailed), c)
					}
					if len(r.Samples) < 3 {
						r.Samples = append(r.Samples, map[string]interface{}{"case": c, "close_took": res.MaxCloseTook.String(), "peer_failed_after": res.PeerFailed.String()})
					}
					mu.Unlock()
				}
			})
		}
	})
	// the mailbox connections (ClientConn / ServerConn around a GoBackNConn) closed while the relay
	// is unreachable, working, or has forgotten the mailboxes; wall clock (the mailbox layer waits on
	// mutexes, see DESIGN.md)
	type mbCase struct {
		Relay  string        // working | outage | boxes-deleted
		After  time.Duration // how long the relay condition lasts before Close
		First  string        // which side calls Close first
		Repeat int
	}
	var mbs []mbCase
	for _, rel := range []string{"working", "outage", "boxes-deleted"} {
		for _, after := range []time.Duration{0, 300 * time.Millisecond, 2500 * time.Millisecond} {
			if !thorough() && after == 300*time.Millisecond && rel != "outage" {
				continue
			}
			for _, first := range []string{"client", "server"} {
				mbs = append(mbs, mbCase{rel, after, first, 1 + len(mbs)%2})
			}
		}
	}
	idx = 0
	t.Run("mailbox-close", func(t *testing.T) {
		for w := 0; w < 16; w++ {
			t.Run(fmt.Sprint(w), func(t *testing.T) {
				t.Parallel()
				for {
					mu.Lock()
					i := idx
					idx++
					mu.Unlock()
					if i >= len(mbs) {
						return
					}
					c := mbs[i]
					relay := NewFakeRelay()
					st, err := NewStack(relay, 300+i)
					if err != nil {
						mu.Lock()
						r.Violate("C12/setup", err.Error(), c)
						mu.Unlock()
						continue
					}
					srv, cli := st.Connect()
					if srv.Err != nil || cli.Err != nil {
						mu.Lock()
						r.Violate("C12/setup", fmt.Sprintf("no connection: %v %v", srv.Err, cli.Err), c)
						mu.Unlock()
						st.Shutdown()
						continue
					}
					switch c.Relay {
					case "outage":
						relay.SetDown(true)
					case "boxes-deleted":
						sid := st.CurSID // the rendezvous the connection runs on
						a, b := mailbox.GetSID(sid, true), mailbox.GetSID(sid, false)
						relay.DeleteBox(sidKey(a[:]))
						relay.DeleteBox(sidKey(b[:]))
					}
					time.Sleep(c.After)
					order := []net.Conn{cli.Mailbox, srv.Mailbox}
					if c.First == "server" {
						order = []net.Conn{srv.Mailbox, cli.Mailbox}
					}
					var worst time.Duration
					hung := ""
					for k, m := range order {
						for rep := 0; rep < c.Repeat && hung == ""; rep++ {
							done := make(chan struct{})
							t0 := time.Now()
							go func() { m.Close(); close(done) }()
							select {
							case <-done:
								if d := time.Since(t0); d > worst {
									worst = d
								}
							case <-time.After(20 * time.Second):
								hung = fmt.Sprintf("Close of the %s side's mailbox connection (call %d, relay %s for %v) had not returned after 20 s",
									map[bool]string{true: c.First, false: "other"}[k == 0], rep+1, c.Relay, c.After)
							}
						}
					}
					relay.SetDown(false)
					mu.Lock()
					r.Case(fmt.Sprintf("mailbox:%+v", c), true, "mailbox/"+c.Relay)
					switch {
					case hung != "":
						r.Violate("C12/mailbox-close-does-not-return", hung, c)
					case worst > 8*time.Second:
						r.Violate("C12/close-slow", fmt.Sprintf("a mailbox connection's Close took %v with the relay %s", worst, c.Relay), c)
					default:
						for _, m := range order {
							if !isDone(m) {
								r.Violate("C12/closed-connection-not-done", "Close returned but Done() is not signalled", c)
							}
						}
					}
					mu.Unlock()
					if hung == "" {
						st.Shutdown()
					}
				}
			})
		}
	})
	// endpoints that never reached the relay (it is down from the start) and are shut down while
	// they keep retrying: Accept and Dial return, nothing crashes
	for i, after := range []time.Duration{300 * time.Millisecond, 2500 * time.Millisecond, 5 * time.Second}[:pick(2, 3)] {
		relay := NewFakeRelay()
		relay.SetDown(true)
		name := fmt.Sprintf("never-reached-relay:shutdown-after=%v", after)
		st, err := NewStack(relay, 700+i)
		if err != nil {
			// a client that cannot be created without the relay is a visible failure, not a hang
			r.Case(name, false, "mailbox/never-reached")
			continue
		}
		ret := make(chan string, 2)
		go func() {
			c, _ := st.Srv.Accept()
			if c != nil {
				c.Close()
			}
			ret <- "Accept"
		}()
		go func() {
			c, _ := st.Cli.Dial(st.Ctx, "")
			if c != nil {
				c.Close()
			}
			ret <- "Dial"
		}()
		time.Sleep(after)
		down := make(chan struct{})
		go func() { st.Shutdown(); close(down) }()
		hung := ""
		select {
		case <-down:
		case <-time.After(20 * time.Second):
			hung = "Server.Close / context cancellation"
		}
		for k := 0; k < 2 && hung == ""; k++ {
			select {
			case <-ret:
			case <-time.After(20 * time.Second):
				hung = "Accept or Dial"
			}
		}
		if hung != "" {
			r.Violate("C12/mailbox-close-does-not-return", fmt.Sprintf("relay unreachable from the start, shutdown after %v: %s had not returned after 20 s", after, hung), name)
		}
		r.Case(name, true, "mailbox/never-reached")
	}
	// a handshake that waits for a peer that never shows up, abandoned by cancelling its context at
	// several instants: the handshake returns and nothing - in particular not its reader
	// goroutine, which sees the cancellation as a transport error - stays behind
	for _, side := range []string{"server", "client"} {
		for _, at := range []time.Duration{0, 10 * time.Millisecond, 700 * time.Millisecond, 1200 * time.Millisecond, 5 * time.Second} {
			side, at := side, at
			leaked, panicked := inBubble(t, func() {
				sim := NewSim(t, nil, time.Millisecond)
				ctx, cancel := context.WithCancel(context.Background())
				done := make(chan struct{})
				go func() {
					defer close(done)
					var conn *gbn.GoBackNConn
					if side == "server" {
						conn, _ = gbn.NewServerConn(ctx, sim.sendFunc(1), sim.recvFunc(1))
					} else {
						conn, _ = gbn.NewClientConn(ctx, 5, sim.sendFunc(0), sim.recvFunc(0))
					}
					if conn != nil {
						conn.Close()
					}
				}()
				time.Sleep(at)
				cancel()
				<-done
				time.Sleep(10 * time.Second)
				synctest.Wait()
			})
			r.Case(fmt.Sprintf("lonely-hs-cancel:%s:%v", side, at), true, "handshake-cancelled")
			if leaked != "" || panicked != "" {
				r.Violate("C12/leak", fmt.Sprintf("a %s handshake with no peer, context cancelled after %v: %s%s", side, at, leaked[:min(len(leaked), 200)], panicked), map[string]interface{}{"side": side, "at": at})
			}
		}
	}
	// context cancelled during the handshake: nothing may be left behind
	for _, d := range []time.Duration{0, 300 * time.Millisecond, 1500 * time.Millisecond} {
		sc := &HsScenario{N: 20, Faults: [2][]Fault{{{Drop: true}, {Drop: true}, {Drop: true}, {Drop: true}}, nil}, ClientDelay: d}
		res := RunHs(t, sc)
		r.Case(fmt.Sprintf("hs-cancel:%v", d), true, "handshake-cancelled")
		if res.Leaked != "" || res.Panic != "" {
			r.Violate("C12/leak", "after a handshake that never completes (context cancelled): "+res.Leaked+res.Panic, sc)
		}
	}
}
