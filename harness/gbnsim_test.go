package harness

import (
	"context"
	"encoding/json"
	"errors"
	"fmt"
	"runtime"
	"strings"
	"sync"
	"testing"
	"testing/synctest"
	"time"

	"github.com/lightninglabs/lightning-node-connect/gbn"
)

// ---- fault-injecting in-memory transport -------------------------------------

// Fault is the decision taken for one packet entering a pipe.
type Fault struct {
	Drop  bool          `json:"drop,omitempty"`
	Dup   bool          `json:"dup,omitempty"`
	Delay time.Duration `json:"delay,omitempty"`
}

// FaultPlan yields the decision for the idx-th packet entering direction dir.
type FaultPlan func(dir, idx int, pkt []byte, now time.Duration) Fault

// Event is one entry of the totally ordered scenario log.
type Event struct {
	At     time.Duration `json:"at"`
	EP     int           `json:"ep"`   // 0 = client, 1 = server
	Kind   string        `json:"kind"` // emit | deliver | send | send-ret | recv-ret | close | close-ret | hs-ret
	Pkt    []byte        `json:"pkt,omitempty"`
	Copies int           `json:"copies,omitempty"`
	By     string        `json:"by,omitempty"` // recvloop | sendloop | hs | close | other
	Err    string        `json:"err,omitempty"`
	Msg    int           `json:"msg,omitempty"`
}

type pipeItem struct {
	b       []byte
	readyAt time.Time
}

type Pipe struct {
	mu      sync.Mutex
	q       []pipeItem
	notify  chan struct{}
	dir     int
	count   int
	silent  bool // black hole: everything entering is dropped, nothing leaves
	blockTx bool // sends block until their context is cancelled (a hung relay)
	hold    bool // deliveries are paused (packets stay queued) unless allow > 0
	allow   int
	lastRdy time.Time
}

// Hold pauses (true) or resumes (false) deliveries from this pipe.
func (p *Pipe) Hold(v bool) {
	p.mu.Lock()
	p.hold = v
	p.allow = 0
	p.mu.Unlock()
	select {
	case p.notify <- struct{}{}:
	default:
	}
}

// Release lets k held packets through.
func (p *Pipe) Release(k int) {
	p.mu.Lock()
	p.allow += k
	p.mu.Unlock()
	select {
	case p.notify <- struct{}{}:
	default:
	}
}

// Inject puts raw bytes at the tail of the pipe as if the peer had sent them.
func (s *Sim) Inject(dir int, b []byte) {
	p := s.pipes[dir]
	p.mu.Lock()
	p.q = append(p.q, pipeItem{append([]byte(nil), b...), time.Now()})
	s.log(Event{EP: dir, Kind: "inject", Pkt: b})
	p.mu.Unlock()
	select {
	case p.notify <- struct{}{}:
	default:
	}
}

type Sim struct {
	t       *testing.T
	start   time.Time
	mu      sync.Mutex
	events  []Event
	pipes   [2]*Pipe // pipes[0]: client -> server, pipes[1]: server -> client
	plan    FaultPlan
	latency time.Duration
	// OnEmit, when set, runs synchronously inside the transport's send function after the packet
	// has been queued and before the call returns to the connection: a relay that times its
	// deliveries against the sender's progress
	OnEmit func(ep int, pkt []byte, by string)
}

func NewSim(t *testing.T, plan FaultPlan, latency time.Duration) *Sim {
	s := &Sim{t: t, start: time.Now(), plan: plan, latency: latency}
	for i := range s.pipes {
		s.pipes[i] = &Pipe{notify: make(chan struct{}, 1), dir: i}
	}
	return s
}

func (s *Sim) now() time.Duration { return time.Since(s.start) }

func (s *Sim) log(e Event) {
	e.At = s.now()
	s.mu.Lock()
	s.events = append(s.events, e)
	s.mu.Unlock()
}

// caller classifies the goroutine that is calling into the transport.
func caller() string {
	pcs := make([]uintptr, 32)
	n := runtime.Callers(3, pcs)
	frames := runtime.CallersFrames(pcs[:n])
	for {
		f, more := frames.Next()
		switch {
		case strings.Contains(f.Function, "receivePacketsForever"):
			return "recvloop"
		case strings.Contains(f.Function, "sendPacketsForever"):
			return "sendloop"
		case strings.Contains(f.Function, "Handshake"):
			return "hs"
		case strings.HasSuffix(f.Function, ".Close") || strings.Contains(f.Function, ".Close.func"):
			return "close"
		}
		if !more {
			break
		}
	}
	return "other"
}

// SetBlockTx makes every send hang until its context is cancelled.
func (s *Sim) SetBlockTx(v bool) {
	for _, p := range s.pipes {
		p.mu.Lock()
		p.blockTx = v
		p.mu.Unlock()
	}
}

// SetSilent turns the transport into a black hole in both directions.
func (s *Sim) SetSilent(v bool) {
	for _, p := range s.pipes {
		p.mu.Lock()
		p.silent = v
		if v {
			p.q = nil
		}
		p.mu.Unlock()
	}
}

func (s *Sim) sendFunc(ep int) func(ctx context.Context, b []byte) error {
	p := s.pipes[ep]
	return func(ctx context.Context, b []byte) error {
		if err := ctx.Err(); err != nil {
			return err
		}
		by := caller()
		cp := append([]byte(nil), b...)
		p.mu.Lock()
		if p.blockTx {
			p.mu.Unlock()
			s.log(Event{EP: ep, Kind: "emit-blocked", Pkt: cp, By: by})
			<-ctx.Done()
			return ctx.Err()
		}
		idx := p.count
		p.count++
		f := Fault{}
		if s.plan != nil {
			f = s.plan(p.dir, idx, cp, s.now())
		}
		copies := 1
		if f.Drop || p.silent {
			copies = 0
		} else if f.Dup {
			copies = 2
		}
		rdy := time.Now().Add(s.latency + f.Delay)
		if rdy.Before(p.lastRdy) {
			rdy = p.lastRdy // per-direction order is kept
		}
		if copies > 0 {
			p.lastRdy = rdy
		}
		for i := 0; i < copies; i++ {
			p.q = append(p.q, pipeItem{cp, rdy})
		}
		// logged inside the critical section: log order = channel order
		s.log(Event{EP: ep, Kind: "emit", Pkt: cp, Copies: copies, By: by})
		p.mu.Unlock()
		select {
		case p.notify <- struct{}{}:
		default:
		}
		if h := s.OnEmit; h != nil {
			h(ep, cp, by)
		}
		return nil
	}
}

func (s *Sim) recvFunc(ep int) func(ctx context.Context) ([]byte, error) {
	p := s.pipes[1-ep]
	return func(ctx context.Context) ([]byte, error) {
		by := caller()
		for {
			if err := ctx.Err(); err != nil {
				return nil, err
			}
			p.mu.Lock()
			if len(p.q) > 0 && !p.silent && (!p.hold || p.allow > 0) {
				it := p.q[0]
				if wait := time.Until(it.readyAt); wait > 0 {
					p.mu.Unlock()
					tm := time.NewTimer(wait)
					select {
					case <-tm.C:
					case <-ctx.Done():
						tm.Stop()
						return nil, ctx.Err()
					}
					continue
				}
				p.q = p.q[1:]
				if p.hold {
					p.allow--
				}
				s.log(Event{EP: ep, Kind: "deliver", Pkt: it.b, By: by})
				more := len(p.q) > 0
				p.mu.Unlock()
				if more {
					select {
					case p.notify <- struct{}{}:
					default:
					}
				}
				return it.b, nil
			}
			p.mu.Unlock()
			select {
			case <-p.notify:
			case <-ctx.Done():
				return nil, ctx.Err()
			}
		}
	}
}

// ---- scenario ----------------------------------------------------------------

type GbnScenario struct {
	Name       string           `json:"name"`
	N          uint8            `json:"n"`
	MaxChunk   int              `json:"max_chunk"`
	NoChunkEP  [2]bool          `json:"no_chunk_ep"` // that endpoint is created without WithMaxSendSize (asymmetric configuration)
	Msgs       [2][]int         `json:"msgs"` // payload sizes, client->server and server->client
	Faults     [2][]Fault       `json:"faults"`
	RandFault  *RandFault       `json:"rand_fault,omitempty"`
	Latency    time.Duration    `json:"latency"`
	SendGap    [2]time.Duration `json:"send_gap"`
	Static     time.Duration    `json:"static_timeout"` // 0 = adaptive
	HsTimeout  time.Duration    `json:"handshake_timeout,omitempty"`
	Ping, Pong time.Duration    `json:"-"`
	PingNs     int64            `json:"ping"`
	PongNs     int64            `json:"pong"`
	RunFor     time.Duration    `json:"run_for"` // virtual time budget after handshake
	Seed       int64            `json:"seed"`
	RealTime   bool             `json:"real_time,omitempty"` // run outside a synctest bubble (wall clock)
	// per-endpoint static resend timeout (client, server); overrides Static for that endpoint when > 0
	StaticEP [2]time.Duration `json:"static_per_endpoint,omitempty"`
	// receivers call Recv with this deadline and simply call again when it expires
	RecvTimeout time.Duration `json:"recv_timeout,omitempty"`
	// TmFreq > 0: WithTimeoutUpdateFrequency (after how many round-trip samples the adaptive resend
	// timeout is recomputed)
	TmFreq int `json:"tm_freq,omitempty"`
}

type RandFault struct {
	DropPct, DupPct, DelayPct int
	MaxDelay                  time.Duration
	Until                     time.Duration // faults cease after this virtual time
}

type GbnResult struct {
	Events    []Event
	HsErr     [2]string
	Sent      [2][][]byte // messages whose Send returned nil
	Recvd     [2][][]byte // messages returned by Recv on endpoint i (sent by 1-i)
	SendErrs  [2]string
	RecvErrs  [2]string
	Leaked    string
	Panic     string
	States    [2]gbn.VConnState
	Conns     [2]*gbn.GoBackNConn
	Duration  time.Duration
	CloseTook [2]time.Duration
	Abandon   bool // wall-clock runs only: the body found the connection wedged; leave its goroutines behind
	tw        sync.WaitGroup
	rmu       sync.Mutex
}

func payloadFor(dir, i, size int) []byte {
	b := make([]byte, size)
	for k := range b {
		b[k] = byte(31*dir + 7*i + 13*k + 1)
	}
	if size >= 2 {
		b[0] = byte(dir + 1)
		b[1] = byte(i)
	}
	return b
}

func (sc *GbnScenario) plan() FaultPlan {
	var rng = newRand(sc.Seed)
	var mu sync.Mutex
	return func(dir, idx int, pkt []byte, now time.Duration) Fault {
		if idx < len(sc.Faults[dir]) {
			return sc.Faults[dir][idx]
		}
		if rf := sc.RandFault; rf != nil && (rf.Until == 0 || now < rf.Until) {
			mu.Lock()
			defer mu.Unlock()
			x := rng.Intn(100)
			switch {
			case x < rf.DropPct:
				return Fault{Drop: true}
			case x < rf.DropPct+rf.DupPct:
				return Fault{Dup: true}
			case x < rf.DropPct+rf.DupPct+rf.DelayPct && rf.MaxDelay > 0:
				return Fault{Delay: time.Duration(rng.Int63n(int64(rf.MaxDelay)))}
			}
		}
		return Fault{}
	}
}

func (sc *GbnScenario) opts() []gbn.Option { return sc.optsFor(-1) }

func (sc *GbnScenario) optsFor(ep int) []gbn.Option {
	var to []gbn.TimeoutOptions
	static := sc.Static
	if ep >= 0 && sc.StaticEP[ep] > 0 {
		static = sc.StaticEP[ep]
	}
	if static > 0 {
		to = append(to, gbn.WithStaticResendTimeout(static))
	}
	if sc.HsTimeout > 0 {
		to = append(to, gbn.WithHandshakeTimeout(sc.HsTimeout))
	}
	if sc.PingNs > 0 {
		to = append(to, gbn.WithKeepalivePing(time.Duration(sc.PingNs), time.Duration(sc.PongNs)))
	}
	if sc.TmFreq > 0 {
		to = append(to, gbn.WithTimeoutUpdateFrequency(sc.TmFreq))
	}
	o := []gbn.Option{gbn.WithTimeoutOptions(to...)}
	if sc.MaxChunk > 0 && !(ep >= 0 && sc.NoChunkEP[ep]) {
		o = append(o, gbn.WithMaxSendSize(sc.MaxChunk))
	}
	return o
}

// Body drives the API of a connected pair inside the bubble.
type Body func(sim *Sim, conns [2]*gbn.GoBackNConn, res *GbnResult)

// RunGbn runs one scenario with two real GoBackNConn endpoints in a synctest
// bubble (virtual time) and returns the event log and API-level results.
func RunGbn(t *testing.T, sc *GbnScenario, hook func(sim *Sim, res *GbnResult, phase string)) *GbnResult {
	return RunGbnBody(t, sc, func(sim *Sim, conns [2]*gbn.GoBackNConn, res *GbnResult) {
		if hook != nil {
			hook(sim, res, "connected")
		}
		defaultTraffic(sc, sim, conns, res, hook)
	})
}

// RunGbnBody: handshake, then body, then close of whatever is still open.
func RunGbnBody(t *testing.T, sc *GbnScenario, body Body) *GbnResult {
	res := &GbnResult{}
	func() {
		defer func() {
			if r := recover(); r != nil {
				msg := fmt.Sprint(r)
				if strings.Contains(msg, "blocked goroutines remain") || strings.Contains(msg, "deadlock") {
					res.Leaked = msg
				} else {
					res.Panic = msg
				}
			}
		}()
		// a real-time watchdog outside the bubble: a wedged connection (for instance a Close that
		// waits for ever while other callers queue on its sync.Once) stops the bubble's clock, so
		// nothing inside the bubble can time out; end the run with a message that names the scenario
		wd := time.AfterFunc(4*time.Minute, func() {
			js, _ := json.Marshal(sc)
			panic(fmt.Sprintf("harness watchdog: scenario still running after 4 minutes of real time, a goroutine of the connection is wedged: %s", js))
		})
		defer wd.Stop()
		runner := func(f func(t *testing.T)) { synctest.Test(t, f) }
		if sc.RealTime {
			runner = func(f func(t *testing.T)) { f(t) }
		}
		runner(func(t *testing.T) {
			sim := NewSim(t, sc.plan(), sc.Latency)
			ctx, cancel := context.WithCancel(context.Background())
			defer cancel()
			var conns [2]*gbn.GoBackNConn
			var errs [2]error
			var wg sync.WaitGroup
			wg.Add(2)
			go func() {
				defer wg.Done()
				conns[1], errs[1] = gbn.NewServerConn(ctx, sim.sendFunc(1), sim.recvFunc(1), sc.optsFor(1)...)
				sim.log(Event{EP: 1, Kind: "hs-ret", Err: errStr(errs[1])})
			}()
			go func() {
				defer wg.Done()
				conns[0], errs[0] = gbn.NewClientConn(ctx, sc.N, sim.sendFunc(0), sim.recvFunc(0), sc.optsFor(0)...)
				sim.log(Event{EP: 0, Kind: "hs-ret", Err: errStr(errs[0])})
			}()
			// A handshake packet lost for good (say the SYNACK, under a random fault plan that
			// does not spare the handshake) leaves the server waiting for a SYN for ever while the
			// client believes it is connected: by design, and outside every property here (they
			// quantify over faults after a clean handshake). Bound the wait so that such a
			// scenario ends as "handshake failed" instead of wedging the run.
			hsDone := make(chan struct{})
			go func() { wg.Wait(); close(hsDone) }()
			hsLimit := 10 * time.Minute // virtual
			if sc.RealTime {
				hsLimit = 90 * time.Second
			}
			select {
			case <-hsDone:
			case <-time.After(hsLimit):
				cancel()
				<-hsDone
				if errs[0] == nil && errs[1] == nil {
					errs[1] = fmt.Errorf("harness: handshake did not complete within %v", hsLimit)
				}
			}
			res.HsErr = [2]string{errStr(errs[0]), errStr(errs[1])}
			res.Conns = conns
			if errs[0] == nil && errs[1] == nil {
				body(sim, conns, res)
			}
			for ep := 0; ep < 2 && !res.Abandon; ep++ {
				if conns[ep] == nil {
					continue
				}
				t0 := time.Now()
				sim.log(Event{EP: ep, Kind: "close"})
				conns[ep].Close()
				sim.log(Event{EP: ep, Kind: "close-ret"})
				res.CloseTook[ep] = time.Since(t0)
			}
			if !res.Abandon {
				res.wait()
			}
			cancel()
			if sc.RealTime {
				time.Sleep(50 * time.Millisecond)
			} else {
				synctest.Wait()
			}
			sim.mu.Lock()
			res.Events = sim.events
			sim.mu.Unlock()
		})
	}()
	return res
}

func (res *GbnResult) wait() { res.tw.Wait() }

func defaultTraffic(sc *GbnScenario, sim *Sim, conns [2]*gbn.GoBackNConn, res *GbnResult,
	hook func(sim *Sim, res *GbnResult, phase string)) {

	for ep := 0; ep < 2; ep++ {
		ep := ep
		res.tw.Add(2)
		go func() { // sender
			defer res.tw.Done()
			for i, size := range sc.Msgs[ep] {
				p := payloadFor(ep, i, size)
				sim.log(Event{EP: ep, Kind: "send", Pkt: p, Msg: i})
				err := conns[ep].Send(p)
				sim.log(Event{EP: ep, Kind: "send-ret", Msg: i, Err: errStr(err)})
				if err != nil {
					res.rmu.Lock()
					res.SendErrs[ep] = err.Error()
					res.rmu.Unlock()
					return
				}
				res.rmu.Lock()
				res.Sent[ep] = append(res.Sent[ep], p)
				res.rmu.Unlock()
				if sc.SendGap[ep] > 0 {
					time.Sleep(sc.SendGap[ep])
				}
			}
		}()
		go func() { // receiver
			defer res.tw.Done()
			if sc.RecvTimeout > 0 {
				conns[ep].SetRecvTimeout(sc.RecvTimeout)
			}
			for {
				b, err := conns[ep].Recv()
				if err != nil && sc.RecvTimeout > 0 && strings.Contains(err.Error(), "timeout") {
					continue // the deadline expired: ask again
				}
				sim.log(Event{EP: ep, Kind: "recv-ret", Pkt: b, Err: errStr(err)})
				if err != nil {
					res.rmu.Lock()
					res.RecvErrs[ep] = err.Error()
					res.rmu.Unlock()
					return
				}
				res.rmu.Lock()
				res.Recvd[ep] = append(res.Recvd[ep], append([]byte{}, b...))
				res.rmu.Unlock()
			}
		}()
	}
	runFor := sc.RunFor
	if runFor == 0 {
		runFor = 60 * time.Second
	}
	time.Sleep(runFor)
	synctest.Wait()
	if hook != nil {
		hook(sim, res, "before-close")
	}
	res.Duration = sim.now()
	for ep := 0; ep < 2; ep++ {
		res.States[ep] = conns[ep].VState()
	}
}

func errStr(err error) string {
	if err == nil {
		return ""
	}
	if errors.Is(err, context.Canceled) {
		return "context canceled"
	}
	return err.Error()
}
