package harness

import (
	"fmt"
	"strings"
	"sync"
	"testing"
	"testing/synctest"
	"time"

	"github.com/lightninglabs/lightning-node-connect/gbn"
)

type kaCase struct {
	Ping, Pong time.Duration
	N          uint8
	Queued     int
	SilenceAt  time.Duration // after the handshake
	Adaptive   bool
	// SlowGap > 0: after the transport went silent the application keeps sending, one message per
	// SlowGap (slower than the window fills, faster than the ping interval)
	SlowGap time.Duration
}

type kaResult struct {
	Detected   time.Duration // time from silence to local close; -1 = never (within the horizon)
	SendFailed bool
	RecvFailed bool
	FinTried   bool
	Leaked     string
	Panic      string
	Traces     []string // ka.trace lines, one per endpoint whose keepalive behaviour is fully observable
}

// deadPeerCase: the transport goes silent at SilenceAt with `Queued` sends issued at that moment.
func deadPeerCase(t *testing.T, c kaCase, horizon time.Duration) kaResult {
	sc := &GbnScenario{Name: fmt.Sprintf("dead-peer-%+v", c), N: c.N, Latency: 5 * time.Millisecond,
		PingNs: int64(c.Ping), PongNs: int64(c.Pong)}
	if !c.Adaptive {
		sc.Static = time.Second
	}
	out := kaResult{Detected: -1}
	res := RunGbnBody(t, sc, func(sim *Sim, conns [2]*gbn.GoBackNConn, res *GbnResult) {
		var mu sync.Mutex
		res.tw.Add(2)
		go func() { // peer reader
			defer res.tw.Done()
			for {
				if _, err := conns[1].Recv(); err != nil {
					return
				}
			}
		}()
		recvFailed := make(chan struct{})
		go func() { // local reader: must be woken with an error when the connection dies
			defer res.tw.Done()
			for {
				if _, err := conns[0].Recv(); err != nil {
					close(recvFailed)
					return
				}
			}
		}()
		time.Sleep(c.SilenceAt)
		sim.SetSilent(true)
		t0 := time.Now()
		sendErr := make(chan error, c.Queued+1)
		for i := 0; i < c.Queued; i++ {
			i := i
			res.tw.Add(1)
			go func() {
				defer res.tw.Done()
				sendErr <- conns[0].Send(payloadFor(0, i, 3))
			}()
		}
		if c.SlowGap > 0 {
			res.tw.Add(1)
			go func() {
				defer res.tw.Done()
				for i := 0; ; i++ {
					if conns[0].Send(payloadFor(0, 1000+i, 3)) != nil {
						return
					}
					time.Sleep(c.SlowGap)
				}
			}()
		}
		deadline := time.After(horizon)
		tick := time.NewTicker(50 * time.Millisecond)
		defer tick.Stop()
	wait:
		for {
			select {
			case <-tick.C:
				if conns[0].VClosed() {
					mu.Lock()
					out.Detected = time.Since(t0)
					mu.Unlock()
					break wait
				}
			case <-deadline:
				break wait
			}
		}
		if out.Detected >= 0 {
			time.Sleep(2 * time.Second)
			synctest.Wait()
			select {
			case <-recvFailed:
				out.RecvFailed = true
			default:
			}
			out.SendFailed = conns[0].Send([]byte{1}) != nil
		}
	})
	for _, e := range res.Events {
		if e.EP == 0 && e.Kind == "emit" && e.By == "close" {
			out.FinTried = true
		}
	}
	out.Leaked, out.Panic = res.Leaked, res.Panic
	for ep := 0; ep < 2; ep++ {
		if ep == 0 && c.Queued >= int(c.N) {
			// with a full window a due ping arms the pong timer without emitting anything:
			// not observable from outside, the oracles above judge these cases
			continue
		}
		if l, ok := kaTrace(res, ep, c.N, c.Ping, c.Pong, false); ok {
			out.Traces = append(out.Traces, l)
		}
	}
	return out
}

// healthyIdleCase: nothing but keepalive traffic for `idle`; the peer answers with the given latency.
func healthyIdleCase(t *testing.T, ping, pong, latency, idle time.Duration) (closed bool, leaked string, traces []string) {
	sc := &GbnScenario{Name: "healthy-idle", N: 20, Latency: latency, PingNs: int64(ping), PongNs: int64(pong),
		HsTimeout: 4*latency + time.Second}
	res := RunGbnBody(t, sc, func(sim *Sim, conns [2]*gbn.GoBackNConn, res *GbnResult) {
		for ep := 0; ep < 2; ep++ {
			ep := ep
			res.tw.Add(1)
			go func() {
				defer res.tw.Done()
				for {
					if _, err := conns[ep].Recv(); err != nil {
						return
					}
				}
			}()
		}
		time.Sleep(idle)
		synctest.Wait()
		closed = conns[0].VClosed() || conns[1].VClosed()
	})
	for ep := 0; ep < 2; ep++ {
		// an idle connection without loss: the send loop rests in its select all the time, so
		// the strict reading applies (every ping at the instant it is due, nothing overdue)
		if l, ok := kaTrace(res, ep, 20, ping, pong, true); ok {
			traces = append(traces, l)
		}
	}
	return closed, res.Leaked + res.Panic, traces
}

// healthyIdleLossCase: as healthyIdleCase, but the relay loses exactly one packet of the keepalive
// exchange (the k-th data-phase packet travelling in direction dir). The peer is alive and answers
// the retransmission well inside the pong timeout, so the connection must be kept.
func healthyIdleLossCase(t *testing.T, ping, pong, latency time.Duration, dir, k int, idle time.Duration) (closed bool, leaked string, traces []string) {
	faults := make([]Fault, k+1)
	faults[k] = Fault{Drop: true}
	sc := &GbnScenario{Name: fmt.Sprintf("healthy-idle-loss-d%d-k%d", dir, k), N: 20, Latency: latency, PingNs: int64(ping), PongNs: int64(pong),
		HsTimeout: 4*latency + time.Second, Static: time.Second}
	sc.Faults[dir] = cleanHS(dir, faults)
	res := RunGbnBody(t, sc, func(sim *Sim, conns [2]*gbn.GoBackNConn, res *GbnResult) {
		for ep := 0; ep < 2; ep++ {
			ep := ep
			res.tw.Add(1)
			go func() {
				defer res.tw.Done()
				for {
					if _, err := conns[ep].Recv(); err != nil {
						return
					}
				}
			}()
		}
		time.Sleep(idle)
		synctest.Wait()
		closed = conns[0].VClosed() || conns[1].VClosed()
	})
	for ep := 0; ep < 2; ep++ {
		if l, ok := kaTrace(res, ep, 20, ping, pong, false); ok {
			traces = append(traces, l)
		}
	}
	return closed, res.Leaked + res.Panic, traces
}

// kaTrace turns what one endpoint of a finished run did into a line for the keepalive trace
// validator of the model (LncModel/KaTrace.lean): packets handed to its receive loop (k), pings its
// send loop emitted (p), a close of its own making (c), end of the observation (e), each with its
// virtual time in ns. The real connection did what it did, so the implementation's answer is "ok";
// the model answers "ok" iff the sequence is a run of KA.step.
func kaTrace(res *GbnResult, ep int, n uint8, ping, pong time.Duration, strict bool) (string, bool) {
	const maxObs = 3000
	nextSeq := uint8(0) // a DATA packet with this sequence number is a first transmission, any other a resend
	var t0 time.Duration = -1
	var obs []string
	end := time.Duration(-1)
	for _, e := range res.Events {
		if e.Kind == "hs-ret" && e.EP == ep {
			if e.Err != "" {
				return "", false
			}
			t0 = e.At
		}
	}
	if t0 < 0 {
		return "", false
	}
	for _, e := range res.Events {
		if e.At < t0 {
			continue
		}
		if e.Kind == "close" { // the harness ends the observation (either endpoint: a FIN follows)
			end = e.At
			break
		}
		if e.EP != ep {
			continue
		}
		if len(obs) >= maxObs {
			end = e.At
			break
		}
		switch {
		case e.Kind == "deliver" && e.By == "recvloop":
			obs = append(obs, fmt.Sprintf("k%d", int64(e.At)))
		case e.Kind == "emit" && e.By == "sendloop":
			if m, err := gbn.Deserialize(e.Pkt); err == nil {
				if d, ok := m.(*gbn.PacketData); ok && d.Seq == nextSeq {
					nextSeq = uint8((int(nextSeq) + 1) % (int(n) + 1))
					if d.IsPing {
						obs = append(obs, fmt.Sprintf("p%d", int64(e.At)))
					}
				}
			}
		case e.Kind == "emit" && e.By == "close":
			// the connection closed itself (nobody has called Close yet and, in these scenario
			// families, no FIN or garbage has arrived): the keepalive timeout
			obs = append(obs, fmt.Sprintf("c%d", int64(e.At)))
			return fmt.Sprintf("ka.trace %s %d %d %d %s", b01(strict), int64(ping), int64(pong), int64(t0), strings.Join(obs, " ")), true
		}
	}
	if end >= 0 {
		obs = append(obs, fmt.Sprintf("e%d", int64(end)))
	}
	return fmt.Sprintf("ka.trace %s %d %d %d %s", b01(strict), int64(ping), int64(pong), int64(t0), strings.Join(obs, " ")), true
}

// bound on the time from silence to closure: of the order of ping + pong, plus
// resend rounds during which the timers are not serviced (3 x resend timeout,
// boosted by 50% per round)
func kaBound(c kaCase) time.Duration {
	return 3*(c.Ping+c.Pong) + 14*time.Second
}

// mailboxDeadPeerCase: real Client/Server mailbox connections (the configuration the product runs
// with: client ping 7 s, server ping 5 s, pong 3 s) over the fake relay. After `reconnects`
// close-and-reconnect rounds (the later connections are created by RefreshClientConn /
// RefreshServerConn) the relay silently drops everything; both sides must notice.
func mailboxDeadPeerCase(reconnects, seed int) (detect [2]time.Duration, setupErr string) {
	relay := NewFakeRelay()
	st, err := NewStack(relay, seed)
	if err != nil {
		return detect, err.Error()
	}
	defer st.Shutdown()
	srv, cli := st.Connect()
	for i := 0; i < reconnects && srv.Err == nil && cli.Err == nil; i++ {
		cli.Mailbox.Close()
		srv.Mailbox.Close()
		srv, cli = st.Connect()
	}
	if srv.Err != nil || cli.Err != nil {
		return detect, fmt.Sprintf("no connection: %v / %v", srv.Err, cli.Err)
	}
	relay.mu.Lock()
	relay.Fault = func(op, sid string, n int) RelayFault {
		if op == "send" {
			return RelayFault{Drop: true}
		}
		return RelayFault{}
	}
	relay.mu.Unlock()
	t0 := time.Now()
	var wg sync.WaitGroup
	for i, c := range []SecureConn{cli, srv} {
		i, c := i, c
		detect[i] = -1
		wg.Add(1)
		go func() {
			defer wg.Done()
			c.Mailbox.SetReadDeadline(time.Now().Add(60 * time.Second))
			if _, err := c.Conn.Read(make([]byte, 16)); err != nil && !strings.Contains(err.Error(), "timeout") {
				detect[i] = time.Since(t0)
			}
		}()
	}
	wg.Wait()
	cli.Mailbox.Close()
	srv.Mailbox.Close()
	return detect, ""
}

func TestC13(t *testing.T) {
	r := NewRecorder(t, "C13")
	defer r.Close(t)
	settings := [][2]time.Duration{{5 * time.Second, 3 * time.Second}, {7 * time.Second, 3 * time.Second},
		{time.Second, time.Second}, {100 * time.Millisecond, 50 * time.Millisecond},
		{time.Second, 3 * time.Second}, {500 * time.Millisecond, 5 * time.Second}}
	var cases []kaCase
	for _, pp := range settings {
		for _, n := range []uint8{1, 3, 20} {
			qs := map[int]bool{0: true, 1: true, int(n) - 1: true, int(n): true, int(n) + 3: true}
			for q := range qs {
				if q < 0 {
					continue
				}
				steps := pick(4, 20)
				for k := 0; k < steps; k++ {
					cases = append(cases, kaCase{Ping: pp[0], Pong: pp[1], N: n, Queued: q,
						SilenceAt: time.Duration(k)*pp[0]/time.Duration(steps) + 3*time.Millisecond, Adaptive: (k+q)%2 == 0})
				}
			}
		}
	}
	// the application goes on sending slowly into the silence (sitting neither idle nor on a full window)
	for _, pp := range settings[:2] {
		for _, n := range []uint8{20, 200} {
			for _, div := range []time.Duration{2, 5} {
				cases = append(cases, kaCase{Ping: pp[0], Pong: pp[1], N: n, Queued: 0, SilenceAt: pp[0]/3 + 3*time.Millisecond,
					Adaptive: div == 2, SlowGap: pp[0]/div - 7*time.Millisecond})
			}
		}
	}
	var mu sync.Mutex
	idx := 0
	t.Run("dead-peer", func(t *testing.T) {
		for w := 0; w < 16; w++ {
			t.Run(fmt.Sprint(w), func(t *testing.T) {
				t.Parallel()
				for {
					mu.Lock()
					i := idx
					idx++
					mu.Unlock()
					if i >= len(cases) {
						return
					}
					c := cases[i]
					res := deadPeerCase(t, c, 10*time.Minute)
					mu.Lock()
					full := "room"
					if c.Queued >= int(c.N) {
						full = "full-window"
					}
					if c.SlowGap > 0 {
						full = "slow-sender"
					}
					r.Case(fmt.Sprintf("%+v", c), true, fmt.Sprintf("dead-peer/%v-%v/%s", c.Ping, c.Pong, full))
					switch {
					case res.Panic != "":
						r.Violate("C13/panic", res.Panic, c)
					case res.Detected < 0:
						sig := "C13/dead-peer-not-detected"
						if c.Queued >= int(c.N) {
							sig = "C13/full-window-no-keepalive"
						}
						r.Violate(sig, fmt.Sprintf("transport silent, %d sends queued (window %d), application sending every %v, ping %v pong %v: not closed within 10 minutes",
							c.Queued, c.N, c.SlowGap, c.Ping, c.Pong), c)
					case res.Detected > kaBound(c):
						r.Violate("C13/dead-peer-detected-late", fmt.Sprintf("closed %v after the transport went silent (bound %v)", res.Detected, kaBound(c)), c)
					case !res.SendFailed || !res.RecvFailed:
						r.Violate("C13/calls-do-not-fail", fmt.Sprintf("after keepalive closure: Send failed=%v, blocked Recv woken=%v", res.SendFailed, res.RecvFailed), c)
					case !res.FinTried:
						r.Violate("C13/no-fin-attempt", "keepalive closure without a FIN attempt", c)
					}
					if len(r.Samples) < 3 {
						r.Samples = append(r.Samples, map[string]interface{}{"case": c, "detected_after": res.Detected.String()})
					}
					for _, l := range res.Traces {
						r.Emit(l, "ok")
					}
					mu.Unlock()
				}
			})
		}
	})
	// the mailbox layer's own connections, first and refreshed ones (wall clock)
	{
		var wg sync.WaitGroup
		var mmu sync.Mutex
		for _, rc := range []int{0, 2, 1}[:pick(2, 3)] { // 2: the third connection is a refreshed one (the second is the first on the key-derived rendezvous)
			rc := rc
			wg.Add(1)
			go func() {
				defer wg.Done()
				d, bad := mailboxDeadPeerCase(rc, 400+rc)
				mmu.Lock()
				defer mmu.Unlock()
				r.Case(fmt.Sprintf("mailbox-dead-peer:reconnects=%d", rc), true, "mailbox-dead-peer")
				if bad != "" {
					r.Violate("C13/mailbox-setup", bad, rc)
					return
				}
				for i, who := range []string{"client", "server"} {
					if d[i] < 0 || d[i] > 45*time.Second {
						r.Violate("C13/dead-peer-not-detected", fmt.Sprintf("mailbox connection number %d of the session (%s side, keepalive %s): the relay went silent and a blocked Read had not failed after %v",
							rc+1, who, map[bool]string{true: "7 s / 3 s", false: "5 s / 3 s"}[i == 0], map[bool]interface{}{true: "60 s", false: d[i]}[d[i] < 0]),
							map[string]interface{}{"reconnects": rc, "side": who})
					}
				}
			}()
		}
		wg.Wait()
	}
	// a live peer survives the loss of any single keepalive packet (ping, its ACK, ...): the
	// retransmission after 1 s is answered inside the 3 s pong timeout
	for _, pp := range [][2]time.Duration{{5 * time.Second, 3 * time.Second}, {7 * time.Second, 3 * time.Second}} {
		for dir := 0; dir < 2; dir++ {
			for k := 0; k < pick(4, 10); k++ {
				closed, bad, traces := healthyIdleLossCase(t, pp[0], pp[1], 50*time.Millisecond, dir, k, 3*time.Minute)
				for _, l := range traces {
					r.Emit(l, "ok")
				}
				r.Case(fmt.Sprintf("idle-loss:%v:%d:%d", pp, dir, k), true, "healthy-idle-one-loss")
				if closed {
					r.Violate("C13/live-peer-closed", fmt.Sprintf("idle connection (ping %v, pong %v, latency 50 ms, resend timeout 1 s): the %d-th keepalive packet travelling in direction %d was lost once; the live peer answered the retransmission, yet the connection was closed",
						pp[0], pp[1], k, dir), map[string]interface{}{"ping": pp[0], "pong": pp[1], "dir": dir, "k": k})
				}
				if bad != "" {
					r.Violate("C13/idle-run-failed", bad, k)
				}
			}
		}
	}
	// healthy idle peers are never closed
	type idle struct {
		pp  [2]time.Duration
		lat time.Duration
	}
	var idles []idle
	for _, pp := range settings {
		for _, f := range []int{0, 50, 99} {
			idles = append(idles, idle{pp, pp[1] / 2 * time.Duration(f) / 100})
		}
	}
	idx2 := 0
	t.Run("healthy", func(t *testing.T) {
		for w := 0; w < 16; w++ {
			t.Run(fmt.Sprint(w), func(t *testing.T) {
				t.Parallel()
				for {
					mu.Lock()
					i := idx2
					idx2++
					mu.Unlock()
					if i >= len(idles) {
						return
					}
					c := idles[i]
					dur := time.Duration(pick(6, 24)) * time.Hour
					if c.pp[0] < time.Second {
						dur = dur / 10 // same number of keepalive rounds, fewer simulated events
					}
					closed, bad, traces := healthyIdleCase(t, c.pp[0], c.pp[1], c.lat, dur)
					mu.Lock()
					for _, l := range traces {
						r.Emit(l, "ok")
					}
					r.Case(fmt.Sprintf("idle:%v:%v", c.pp, c.lat), true, fmt.Sprintf("healthy-idle/%v-%v", c.pp[0], c.pp[1]))
					if closed {
						r.Violate("C13/live-peer-closed", fmt.Sprintf("idle connection with one-way latency %v (ping %v, pong %v) was closed within %v",
							c.lat, c.pp[0], c.pp[1], dur), map[string]interface{}{"ping": c.pp[0], "pong": c.pp[1], "latency": c.lat})
					}
					if bad != "" {
						r.Violate("C13/idle-run-failed", bad, c.lat)
					}
					mu.Unlock()
				}
			})
		}
	})
}
