package harness

import (
	"fmt"
	"runtime"
	"strings"
	"sync"
	"testing"
	"time"

	"github.com/lightninglabs/lightning-node-connect/gbn"
)

// waitOrDeadlock waits for wg; when it does not finish within d the goroutines
// involved are stuck on each other: their stacks are the witness. The stuck
// goroutines are left behind.
func waitOrDeadlock(r *Recorder, wg *sync.WaitGroup, d time.Duration, what string, replay interface{}) bool {
	done := make(chan struct{})
	go func() { wg.Wait(); close(done) }()
	select {
	case <-done:
		return true
	case <-time.After(d):
		buf := make([]byte, 1<<20)
		buf = buf[:runtime.Stack(buf, true)]
		var stuck []string
		for _, g := range strings.Split(string(buf), "\n\n") {
			if strings.Contains(g, "sync.(*RWMutex)") || strings.Contains(g, "sync.(*Mutex)") || strings.Contains(g, "semacquire") {
				lines := strings.Split(g, "\n")
				var fr []string
				for _, l := range lines {
					if strings.Contains(l, "/gbn.") || strings.Contains(l, "/mailbox.") {
						fr = append(fr, strings.TrimSpace(l))
					}
				}
				if len(fr) > 0 {
					stuck = append(stuck, strings.Join(fr, " <- "))
				}
			}
		}
		r.Violate("C18/deadlock", fmt.Sprintf("%s: not finished after %v; goroutines waiting for a lock: %s", what, d, strings.Join(stuck, " || ")),
			map[string]interface{}{"what": what, "replay": replay})
		return false
	}
}

// TestC18 is run with the race detector (GORACE log_path, halt_on_error=0):
// the check reads the race reports; this test only has to exercise the
// concurrent paths. It runs on the wall clock with short intervals.
func TestC18(t *testing.T) {
	r := NewRecorder(t, "C18")
	defer r.Close(t)

	// (1) the ticker with the call mix the connection uses: two goroutines
	// calling Reset (send loop's ping branch, receive loop), one toggling
	// Pause/Resume, one consuming ticks; then Stop.
	tickerDeadlock := false
	for round := 0; round < pick(6, 40) && !tickerDeadlock; round++ {
		func() {
			defer func() {
				if rec := recover(); rec != nil {
					r.Violate("C18/ticker-panic", fmt.Sprint(rec), round)
				}
			}()
			tk := gbn.NewIntervalAwareForceTicker(time.Duration(200+50*round) * time.Microsecond)
			tk.Resume()
			stop := make(chan struct{})
			var wg sync.WaitGroup
			for g := 0; g < 2; g++ {
				wg.Add(1)
				go func() {
					defer wg.Done()
					for i := 0; i < 300; i++ {
						tk.Reset()
					}
				}()
			}
			wg.Add(1)
			go func() {
				defer wg.Done()
				for i := 0; i < 300; i++ {
					if tk.IsActive() {
						tk.Pause()
					} else {
						tk.Resume()
					}
				}
			}()
			go func() {
				for {
					select {
					case <-tk.Ticks():
					case <-stop:
						return
					}
				}
			}()
			if !waitOrDeadlock(r, &wg, 60*time.Second, "ticker: Reset x2, Pause/Resume", round) {
				tickerDeadlock = true
				return
			}
			close(stop)
			tk.Stop()
			r.Case(fmt.Sprintf("ticker:%d", round), true, "ticker-stress")
		}()
	}

	// (2) the timeout manager from several goroutines
	for round := 0; round < pick(4, 20); round++ {
		tm := gbn.NewTimeOutManager(nil, gbn.WithTimeoutUpdateFrequency(2), gbn.WithResendMultiplier(3))
		var wg sync.WaitGroup
		for g := 0; g < 4; g++ {
			g := g
			wg.Add(1)
			go func() {
				defer wg.Done()
				for i := 0; i < 400; i++ {
					seq := uint8((i + g) % 5)
					switch (i + g) % 6 {
					case 0:
						tm.Sent(&gbn.PacketData{Seq: seq}, false)
					case 1:
						tm.Sent(&gbn.PacketData{Seq: seq}, true)
					case 2:
						tm.Received(&gbn.PacketACK{Seq: seq})
					case 3:
						tm.Sent(&gbn.PacketSYN{N: 3}, i%2 == 0)
					case 4:
						tm.Received(&gbn.PacketSYN{N: 3})
					case 5:
						_ = tm.GetResendTimeout() + tm.GetHandshakeTimeout()
						tm.SetSendTimeout(time.Second)
						tm.SetRecvTimeout(time.Second)
					}
				}
			}()
		}
		if !waitOrDeadlock(r, &wg, 60*time.Second, "timeout manager: Sent/Received/getters/setters from 4 goroutines", round) {
			break
		}
		r.Case(fmt.Sprintf("tm:%d", round), true, "timeout-manager-stress")
	}

	// (3) whole connections with keepalive whose ping interval coincides with the
	// packet period, API calls from several goroutines, then concurrent Close
	for round := 0; round < pick(6, 30); round++ {
		period := time.Duration(2+round%3) * time.Millisecond
		sc := &GbnScenario{Name: fmt.Sprintf("race-conn-%d", round), N: uint8(1 + round%4), Latency: 0,
			PingNs: int64(period), PongNs: int64(40 * time.Millisecond), Static: 20 * time.Millisecond, RealTime: true}
		if round%2 == 1 {
			sc.Static = 0
			sc.RandFault = &RandFault{DropPct: 10, DupPct: 10}
			sc.Faults = [2][]Fault{cleanHS(0, nil), cleanHS(1, nil)}
		}
		res := RunGbnBody(t, sc, func(sim *Sim, conns [2]*gbn.GoBackNConn, res *GbnResult) {
			var wg sync.WaitGroup
			for ep := 0; ep < 2; ep++ {
				ep := ep
				for g := 0; g < 2; g++ {
					wg.Add(1)
					go func() { // senders: a packet exactly every ping interval
						defer wg.Done()
						for i := 0; i < 40; i++ {
							if conns[ep].Send(payloadFor(ep, i, 3)) != nil {
								return
							}
							time.Sleep(period)
						}
					}()
				}
				wg.Add(2)
				go func() {
					defer wg.Done()
					for i := 0; i < 60; i++ {
						conns[ep].SetRecvTimeout(50 * time.Millisecond)
						if _, err := conns[ep].Recv(); err != nil && conns[ep].VClosed() {
							return
						}
					}
				}()
				go func() {
					defer wg.Done()
					for i := 0; i < 50; i++ {
						conns[ep].SetSendTimeout(time.Duration(1+i%3) * 100 * time.Millisecond)
						conns[ep].SetRecvTimeout(time.Duration(1+i%3) * 50 * time.Millisecond)
						time.Sleep(time.Millisecond)
					}
				}()
			}
			time.Sleep(120 * time.Millisecond)
			var cw sync.WaitGroup
			for k := 0; k < 3; k++ {
				k := k
				cw.Add(1)
				go func() { defer cw.Done(); conns[k%2].Close() }()
			}
			if !waitOrDeadlock(r, &cw, 60*time.Second, "connection: 3 concurrent Close calls", sc) {
				res.Abandon = true // wedged: leave it behind, the teardown's own Close would hang too
				return
			}
			if !waitOrDeadlock(r, &wg, 60*time.Second, "connection: API callers after Close", sc) {
				res.Abandon = true
			}
		})
		if res.Panic != "" {
			r.Violate("C18/connection-panic", res.Panic, sc)
		}
		r.Case(sc.Name, true, "connection-stress")
		if res.Abandon {
			break // the deadlock is reported; further rounds would only repeat it
		}
	}
	r.Sample(map[string]string{"ticker": "2 goroutines x 300 Reset, 1 goroutine Pause/Resume, ticks consumed, then Stop",
		"connection": "keepalive ping interval = packet period, Send/Recv/SetTimeout from several goroutines, 3 concurrent Close"})
}
