package harness

import (
	"context"
	"fmt"
	"sync"
	"testing"
	"testing/synctest"
	"time"

	"github.com/lightninglabs/lightning-node-connect/gbn"
	"github.com/lightninglabs/lightning-node-connect/mailbox"
)

// synCase: a raw client presents SYN N to a real server handshake.
func synCase(t *testing.T, r *Recorder, n int) { synCaseAfter(t, r, nil, n) }

// synCaseAfter: the SYN with window n reaches the server after the packets
// `pre` (earlier SYNs: the server is then already waiting for a SYNACK and
// takes the re-SYN path).
func synCaseAfter(t *testing.T, r *Recorder, pre [][]byte, n int) {
	var srvErr error
	var st gbn.VConnState
	var panicMsg string
	func() {
		defer func() {
			if rec := recover(); rec != nil {
				panicMsg = fmt.Sprint(rec)
			}
		}()
		synctest.Test(t, func(t *testing.T) {
			sim := NewSim(t, nil, time.Millisecond)
			ctx, cancel := context.WithCancel(context.Background())
			defer cancel()
			var conn *gbn.GoBackNConn
			done := make(chan struct{})
			go func() {
				defer close(done)
				conn, srvErr = gbn.NewServerConn(ctx, sim.sendFunc(1), sim.recvFunc(1))
			}()
			for _, p := range pre {
				sim.Inject(0, p)
				time.Sleep(100 * time.Millisecond)
			}
			sim.Inject(0, []byte{gbn.SYN, byte(n)})
			time.Sleep(100 * time.Millisecond)
			sim.Inject(0, []byte{gbn.SYNACK})
			time.Sleep(100 * time.Millisecond)
			synctest.Wait()
			select {
			case <-done:
			default:
				cancel()
				<-done
			}
			if conn != nil {
				st = conn.VState()
				// one data packet through the adopted configuration
				sim.Inject(0, []byte{gbn.DATA, 0, 1, 0, 0xAB})
				time.Sleep(100 * time.Millisecond)
				synctest.Wait()
				st = conn.VState()
				conn.Close()
			}
			cancel()
			synctest.Wait()
		})
	}()
	out := "err invalid window size"
	if panicMsg != "" {
		out = "panic"
		r.Violate("C07/syn-window-panic", fmt.Sprintf("server handshake with SYN N=%d after %d earlier packets: %s", n, len(pre), panicMsg), map[string]interface{}{"n": n, "pre": pre})
	} else if srvErr == nil {
		out = fmt.Sprintf("ok %d", st.S)
		if int(st.S) != n+1 || st.QueueLen != n+1 || n == 0 {
			r.Violate("C07/server-adopts-unrepresentable-window",
				fmt.Sprintf("server entered the data phase with N=%d (after %d earlier packets): s=%d len(content)=%d", n, len(pre), st.S, st.QueueLen), map[string]interface{}{"n": n, "pre": pre})
		}
	}
	r.Emit(fmt.Sprintf("ep.adopt %d", n), out)
	r.Case(fmt.Sprintf("syn:%d/pre=%d", n, len(pre)), true, fmt.Sprintf("syn-window/pre=%d", len(pre)))
}

type epSetup struct{ acked, pending, peer int }

// liveInjectCase: a real endpoint (the client side, n=3, s=4) in a chosen
// window state receives the raw bytes b from the "relay".
func liveInjectCase(t *testing.T, r *Recorder, su epSetup, b []byte) {
	sc := &GbnScenario{Name: fmt.Sprintf("inject-%d-%d-%x", su.acked, su.pending, b), N: 3,
		Latency: time.Millisecond, Static: 600 * time.Second}
	var before, after gbn.VConnState
	var closed bool
	var delivered [][]byte
	var mark int
	res := RunGbnBody(t, sc, func(sim *Sim, conns [2]*gbn.GoBackNConn, res *GbnResult) {
		var mu sync.Mutex
		res.tw.Add(2)
		go func() { // peer consumes what we send
			defer res.tw.Done()
			for {
				if _, err := conns[1].Recv(); err != nil {
					return
				}
			}
		}()
		go func() { // what the endpoint under test hands to the application
			defer res.tw.Done()
			for {
				p, err := conns[0].Recv()
				if err != nil {
					return
				}
				mu.Lock()
				delivered = append(delivered, p)
				mu.Unlock()
			}
		}()
		for i := 0; i < su.peer; i++ {
			conns[1].Send(payloadFor(1, i, 2))
		}
		for i := 0; i < su.acked; i++ {
			conns[0].Send(payloadFor(0, i, 2))
		}
		time.Sleep(100 * time.Millisecond)
		synctest.Wait()
		sim.pipes[1].Hold(true)
		for i := 0; i < su.pending; i++ {
			conns[0].Send(payloadFor(0, 100+i, 2))
		}
		time.Sleep(100 * time.Millisecond)
		synctest.Wait()
		before = conns[0].VState()
		sim.mu.Lock()
		mark = len(sim.events)
		sim.mu.Unlock()
		// the held ACKs stay behind; the injected packet is let through alone
		p := sim.pipes[1]
		p.mu.Lock()
		p.q = append([]pipeItem{{append([]byte(nil), b...), time.Now()}}, p.q...)
		p.allow = 1
		p.mu.Unlock()
		select {
		case p.notify <- struct{}{}:
		default:
		}
		time.Sleep(100 * time.Millisecond)
		synctest.Wait()
		after = conns[0].VState()
		closed = conns[0].VClosed()
		mu.Lock()
		mu.Unlock()
		sim.pipes[1].Hold(false)
	})
	if res.Panic != "" {
		r.Violate("C07/live-endpoint-panic", res.Panic, map[string]interface{}{"setup": su, "bytes": hx(b)})
		r.Emit(fmt.Sprintf("ep.step %d %d %d %d %s", before.S, before.Base, before.Top, before.RecvSeq, hx(b)), "panic")
		return
	}
	if res.HsErr[0] != "" || res.HsErr[1] != "" {
		return
	}
	out := "closed"
	if !closed {
		reply := "none"
		for _, e := range res.Events[mark:] {
			if e.EP == 0 && e.Kind == "emit" && e.By == "recvloop" && reply == "none" {
				if m, err := gbn.Deserialize(e.Pkt); err == nil {
					switch a := m.(type) {
					case *gbn.PacketACK:
						reply = fmt.Sprintf("ack:%d", a.Seq)
					case *gbn.PacketNACK:
						reply = fmt.Sprintf("nack:%d", a.Seq)
					}
				}
			}
		}
		d := "none"
		if len(delivered) > su.peer {
			d = hx(delivered[len(delivered)-1])
			if len(delivered) > su.peer+1 {
				d = "many"
			}
		}
		out = fmt.Sprintf("cont %d %d %d %s %s", after.Base, after.Top, after.RecvSeq, reply, d)
		if after.Base >= after.S || after.Top >= after.S || after.RecvSeq >= after.S || after.Size > after.N {
			r.Violate("C07/queue-out-of-range", fmt.Sprintf("bytes %x moved the bookkeeping to %+v", b, after),
				map[string]interface{}{"setup": su, "bytes": hx(b)})
		}
	}
	r.Emit(fmt.Sprintf("ep.step %d %d %d %d %s", before.S, before.Base, before.Top, before.RecvSeq, hx(b)), out)
	r.Case(sc.Name, len(b) > 0, fmt.Sprintf("live/%d+%d+%d", su.acked, su.pending, su.peer))
}

// ackDuringResendCase: the relay delivers perfectly valid ACKs, but times them against the sender:
// `pending` packets are outstanding (delivered to the peer, their ACKs held back); when the
// sender's resend round re-emits its `at`-th packet the held ACKs are let through and processed
// before the transport's send call returns. Valid packets at a chosen moment must not crash the
// endpoint, and the connection must go on working.
func ackDuringResendCase(t *testing.T, r *Recorder, n, pending, at int) {
	sc := &GbnScenario{Name: fmt.Sprintf("ack-during-resend-n%d-p%d-at%d", n, pending, at), N: uint8(n),
		Latency: time.Millisecond, Static: time.Second}
	delivered := 0
	res := RunGbnBody(t, sc, func(sim *Sim, conns [2]*gbn.GoBackNConn, res *GbnResult) {
		var mu sync.Mutex
		res.tw.Add(1)
		go func() {
			defer res.tw.Done()
			for {
				if _, err := conns[1].Recv(); err != nil {
					return
				}
				mu.Lock()
				delivered++
				mu.Unlock()
			}
		}()
		sim.pipes[1].Hold(true)
		seen := map[byte]int{}
		re := 0
		sim.OnEmit = func(ep int, pkt []byte, by string) {
			if ep != 0 || len(pkt) < 2 || pkt[0] != gbn.DATA {
				return
			}
			seen[pkt[1]]++
			if seen[pkt[1]] == 2 {
				re++
				if re == at {
					sim.pipes[1].Hold(false)
					synctest.Wait()
				}
			}
		}
		for i := 0; i < pending; i++ {
			conns[0].Send(payloadFor(0, i, 2))
		}
		time.Sleep(5 * time.Second)
		synctest.Wait()
		sim.OnEmit = nil
		sim.pipes[1].Hold(false)
		conns[0].Send(payloadFor(0, 99, 2))
		time.Sleep(5 * time.Second)
		synctest.Wait()
		mu.Lock()
		mu.Unlock()
	})
	if res.Panic != "" {
		r.Violate("C07/live-endpoint-panic", res.Panic, sc)
		return
	}
	if res.HsErr[0] != "" || res.HsErr[1] != "" {
		return
	}
	if delivered != pending+1 {
		r.Violate("C07/endpoint-disabled-by-valid-packets", fmt.Sprintf("ACKs of %d outstanding packets delivered while the sender re-emitted its packet #%d of a resend round: afterwards %d of %d messages arrived",
			pending, at, delivered, pending+1), sc)
	}
	r.Case(sc.Name, true, "ack-during-resend")
}

func TestC07(t *testing.T) {
	r := NewRecorder(t, "C07")
	defer r.Close(t)
	rng := newRand(7)
	// decoders: exhaustive short strings, edge strings, random garbage
	maxLen := pick(2, 3)
	for n := 0; n <= maxLen; n++ {
		allStrings(n, func(b []byte) { gbnBytesCase(r, b, fmt.Sprintf("gbn-exh%d", n)) })
	}
	for t0 := 0; t0 <= 8; t0++ {
		for _, a := range edgeBytes {
			for _, b := range edgeBytes {
				gbnBytesCase(r, []byte{byte(t0), a, b}, "gbn-edge3")
				for _, c := range edgeBytes {
					gbnBytesCase(r, []byte{byte(t0), a, b, c}, "gbn-edge4")
				}
			}
		}
	}
	for i := 0; i < pick(20000, 300000); i++ {
		b := randBytes(rng, rng.Intn(10))
		if len(b) > 0 && rng.Intn(3) > 0 {
			b[0] = byte(rng.Intn(8))
		}
		gbnBytesCase(r, b, "gbn-random")
	}
	for n := 0; n <= 2; n++ {
		allStrings(n, func(b []byte) { msgBytesCase(r, 0, nil, b, "msg-exh") })
	}
	for i := 0; i < pick(20000, 200000); i++ {
		actual := rng.Intn(9)
		claimed := actual + rng.Intn(3) - 1
		if rng.Intn(6) == 0 {
			claimed = rng.Intn(1 << 32)
		}
		if claimed < 0 {
			claimed = 0
		}
		b := []byte{byte(rng.Intn(256)), byte(claimed >> 24), byte(claimed >> 16), byte(claimed >> 8), byte(claimed)}
		b = append(b, randBytes(rng, actual)...)
		if rng.Intn(6) == 0 {
			b = b[:rng.Intn(len(b)+1)]
		}
		msgBytesCase(r, 0, nil, b, "msg-random")
	}
	// the JSON envelope of the websocket transport: every string of up to five tokens over an
	// alphabet of the envelope's own building blocks (so also "}" in front of an opening and no "}" behind it)
	toks := []string{`{"result":`, `{"error":`, `}`, `{`, `"`, `x`, ` `, `}}`, `{"result":{"msg":"QUJD"}}`}
	var walk func(prefix string, depth int)
	walk = func(prefix string, depth int) {
		var out string
		p, msg := safely(func() {
			res, err := mailbox.VStripJSONWrapper(prefix)
			out = fmt.Sprintf("%q/%v", res, err != nil)
		})
		if p {
			r.Violate("C07/json-wrapper-panic", fmt.Sprintf("stripJSONWrapper(%q) panicked: %s", prefix, msg), prefix)
			out = "panic"
		}
		r.Case("json:"+prefix, depth > 0, "json-wrapper/"+out[len(out)-4:])
		if depth == pick(4, 5) {
			return
		}
		for _, tk := range toks {
			walk(prefix+tk, depth+1)
		}
	}
	walk("", 0)
	// every length prefix around the boundaries of the integer types the length check could be done in
	var claims []uint64
	for _, c := range []uint64{0, 0xff, 0x100, 0xffff, 0x10000, 0xffffff, 0x1000000, 0x7fffffff, 0x80000000, 0xffffffff} {
		for d := -18; d <= 18; d++ {
			if v := int64(c) + int64(d); v >= 0 && v <= 0xffffffff {
				claims = append(claims, uint64(v))
			}
		}
	}
	for _, claimed := range claims {
		for actual := 0; actual <= 9; actual++ {
			b := []byte{0, byte(claimed >> 24), byte(claimed >> 16), byte(claimed >> 8), byte(claimed)}
			b = append(b, randBytes(rng, actual)...)
			msgBytesCase(r, 0, nil, b, "msg-length-boundary")
		}
	}
	// window bookkeeping: all 256 ACK/NACK values against every window state
	queueDiff(r, 2, pick(8, 16), allSeqs(), "queue-exh")
	queueLarge(r, "queue-large")
	queueMisc(r)
	for _, c := range [][3]int{{3, 3, 1}, {3, 3, 2}, {3, 2, 1}, {5, 5, 1}, {5, 5, 3}, {5, 4, 2}, {20, 20, 1}, {20, 20, 10}} {
		ackDuringResendCase(t, r, c[0], c[1], c[2])
	}
	// all 256 values of the SYN window field on a real server handshake
	for n := 0; n < 256; n++ {
		synCase(t, r, n)
	}
	// ... and when it is not the first SYN the server sees (re-SYN while waiting for the SYNACK)
	for _, n := range []int{0, 1, 2, 20, 127, 128, 253, 254, 255} {
		synCaseAfter(t, r, [][]byte{{gbn.SYN, 20}}, n)
		synCaseAfter(t, r, [][]byte{{gbn.SYN, 20}, {gbn.SYN, 7}}, n)
	}
	// live endpoints in the data phase
	setups := []epSetup{{0, 0, 0}, {1, 2, 1}, {3, 3, 2}, {2, 0, 3}}
	var cases [][]byte
	for t0 := 0; t0 <= 7; t0++ {
		cases = append(cases, []byte{byte(t0)})
		for v := 0; v < 256; v++ {
			if !thorough() && v > 8 && v < 250 && v%16 != 0 {
				continue
			}
			cases = append(cases, []byte{byte(t0), byte(v)})
			cases = append(cases, []byte{byte(t0), byte(v), 1})
			cases = append(cases, []byte{byte(t0), byte(v), 1, 0, 0x5A})
			cases = append(cases, []byte{byte(t0), byte(v), 0, 1})
		}
	}
	cases = append(cases, []byte{}, []byte{0xFF, 0xFF, 0xFF}, []byte{2, 0, 1})
	type job struct {
		su epSetup
		b  []byte
	}
	var jobs []job
	for _, su := range setups {
		for _, b := range cases {
			jobs = append(jobs, job{su, b})
		}
	}
	var mu sync.Mutex
	idx := 0
	t.Run("live", func(t *testing.T) {
		for w := 0; w < 16; w++ {
			t.Run(fmt.Sprint(w), func(t *testing.T) {
				t.Parallel()
				for {
					mu.Lock()
					i := idx
					idx++
					mu.Unlock()
					if i >= len(jobs) {
						return
					}
					liveInjectCase(t, r, jobs[i].su, jobs[i].b)
				}
			})
		}
	})
	r.Sample(map[string]string{"op": "ep.step 4 1 3 2 03c8", "meaning": "ACK 200 injected into a client with s=4 base=1 top=3 recvSeq=2"})
}
