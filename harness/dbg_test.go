package harness

import (
	"fmt"
	"os"
	"strings"
	"testing"
	"time"

	"github.com/lightninglabs/lightning-node-connect/gbn"
)

// TestDbgScenario replays one named C06 scenario and prints its event log
// (VERIF_DBG=<name>, VERIF_DBG_FROM=<seconds>).
func TestDbgScenario(t *testing.T) {
	name := os.Getenv("VERIF_DBG")
	if name == "" {
		t.Skip()
	}
	from := time.Duration(0)
	fmt.Sscan(os.Getenv("VERIF_DBG_FROM"), &from)
	for _, sc := range c06Scenarios() {
		if sc.Name != name {
			continue
		}
		res := RunGbn(t, sc, nil)
		fmt.Printf("scenario %+v\nrandfault %+v\n", *sc, sc.RandFault)
		fmt.Printf("states %+v\nsenderrs %v recverrs %v recvd %d/%d\n", res.States, res.SendErrs, res.RecvErrs, len(res.Recvd[0]), len(res.Recvd[1]))
		n := 0
		for _, e := range res.Events {
			if e.At < from*time.Second {
				continue
			}
			d := ""
			if len(e.Pkt) > 0 {
				if m, err := gbn.Deserialize(e.Pkt); err == nil {
					d = fmt.Sprintf("%T %+v", m, m)
				}
			}
			fmt.Printf("%12v ep%d %-9s %-8s %s %s msg=%d\n", e.At, e.EP, e.Kind, e.By, d, e.Err, e.Msg)
			n++
			if n > 400 {
				break
			}
		}
	}
}

// TestDbgC05 replays one named C05 scenario (VERIF_DBG=<name>, VERIF_DBG_N=<repetitions>).
func TestDbgC05(t *testing.T) {
	name := os.Getenv("VERIF_DBG")
	if name == "" {
		t.Skip()
	}
	n := 1
	fmt.Sscan(os.Getenv("VERIF_DBG_N"), &n)
	for _, sc := range c05Scenarios() {
		if sc.Name != name {
			continue
		}
		for i := 0; i < n; i++ {
			res := runC05(sc)
			fmt.Printf("run %d: connectErr=%q tries=%d took=%v got=%d/%d,%d/%d readErr=%v writeErr=%v\n", i, res.ConnectErr, res.Tries, res.Took,
				len(res.Got[1]), len(res.Sent[0]), len(res.Got[0]), len(res.Sent[1]), res.ReadErr, res.WriteErr)
		}
	}
}

// TestDbgNextMsg: does an unread remainder of a record survive into the next connection when the
// same NoiseGrpcConn object performs the next handshake (as a gRPC credentials object does)?
func TestDbgNextMsg(t *testing.T) {
	if os.Getenv("VERIF_DBG") != "nextmsg" {
		t.Skip()
	}
	relay := NewFakeRelay()
	st, err := NewStack(relay, 77)
	if err != nil {
		t.Fatal(err)
	}
	defer st.Shutdown()
	st.ReuseNoise = true
	srv, cli := st.Connect()
	if srv.Err != nil || cli.Err != nil {
		t.Fatal(srv.Err, cli.Err)
	}
	msg := patterned(100, 1)
	go cli.Conn.Write(msg)
	buf := make([]byte, 10)
	n, err := srv.Conn.Read(buf)
	fmt.Printf("first connection: read %d bytes err=%v\n", n, err)
	cli.Mailbox.Close()
	srv.Mailbox.Close()
	srv, cli = st.Connect()
	if srv.Err != nil || cli.Err != nil {
		t.Fatal(srv.Err, cli.Err)
	}
	go cli.Conn.Write([]byte("hello"))
	big := make([]byte, 1000)
	n, err = srv.Conn.Read(big)
	fmt.Printf("second connection: read %d bytes err=%v first bytes %x (stale remainder would be %x)\n", n, err, big[:min(n, 8)], msg[10:18])
}

// TestDbgC11 runs one C11 sequence (VERIF_DBG="op,op,...", VERIF_DBG_SEED).
func TestDbgC11(t *testing.T) {
	ops := os.Getenv("VERIF_DBG")
	if ops == "" || os.Getenv("VERIF_DBG_KIND") != "c11" {
		t.Skip()
	}
	seed := 207
	fmt.Sscan(os.Getenv("VERIF_DBG_SEED"), &seed)
	lines, viols, info := c11Run(strings.Split(ops, ","), seed)
	fmt.Println("lines:", lines)
	fmt.Println("info:", info)
	for _, v := range viols {
		fmt.Println("VIOL:", v.Signature, v.What)
	}
}

func TestDbgHs(t *testing.T) {
	if os.Getenv("VERIF_DBG_KIND") != "hs" {
		t.Skip()
	}
	sc := &HsScenario{N: 3, Stale: [2][]string{{"0107"}, nil}, Retry: true}
	res := RunHs(t, sc)
	fmt.Printf("delivered=%v lastN=%v cli=%q/%d srv=%q/%d attempts=%v panic=%q\n", res.Delivered, res.LastN, res.CliErr, res.CliN, res.SrvErr, res.SrvN, res.Attempts, res.Panic)
	for _, e := range res.Events {
		if e.Kind == "hs-start" || e.Kind == "hs-ret" || (e.Kind == "deliver" && len(e.Pkt) > 0 && (e.Pkt[0] == 1 || e.Pkt[0] == 6)) {
			fmt.Printf("%10v ep%d %-8s %x %s n=%d\n", e.At, e.EP, e.Kind, e.Pkt, e.Err, e.Msg)
		}
	}
}
