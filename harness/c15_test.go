package harness

import (
	"bytes"
	"fmt"
	"strings"
	"testing"
	"time"

	"github.com/lightninglabs/lightning-node-connect/mailbox"
)

type streamEnd interface {
	Read(b []byte) (int, error)
	Write(b []byte) (int, error)
}

// fakeControl is a controlConn that carries MsgData payloads in memory.
type fakeControl struct{ msgs [][]byte }

func (f *fakeControl) ReceiveControlMsg(m mailbox.ControlMsg) error {
	if len(f.msgs) == 0 {
		return fmt.Errorf("would block")
	}
	b := f.msgs[0]
	f.msgs = f.msgs[1:]
	return m.Deserialize(b)
}
func (f *fakeControl) SendControlMsg(m mailbox.ControlMsg) error {
	b, err := m.Serialize()
	if err != nil {
		return err
	}
	f.msgs = append(f.msgs, b)
	return nil
}
func (f *fakeControl) SetRecvTimeout(timeoutDur) {}
func (f *fakeControl) SetSendTimeout(timeoutDur) {}

func patterned(n, seed int) []byte {
	b := make([]byte, n)
	for i := range b {
		b[i] = byte((i + seed) % 251)
	}
	return b
}

func ints(l []int) string {
	s := make([]string, len(l))
	for i, v := range l {
		s[i] = fmt.Sprint(v)
	}
	return strings.Join(s, ",")
}

// kinds whose connection was abandoned because a Read blocked for good
var c15Dead = map[string]bool{}

// readTimed performs rd.Read under a watchdog: all data has been written before
// the reads start, so a Read that does not return while bytes are owed means
// bytes were lost.
func readTimed(rd streamEnd, buf []byte) (n int, err error, panicked bool, msg string, timedOut bool) {
	type res struct {
		n   int
		err error
		p   bool
		msg string
	}
	ch := make(chan res, 1)
	go func() {
		var x res
		x.p, x.msg = safely(func() { x.n, x.err = rd.Read(buf) })
		ch <- x
	}()
	select {
	case x := <-ch:
		return x.n, x.err, x.p, x.msg, false
	case <-time.After(20 * time.Second):
		return 0, nil, false, "", true
	}
}

// streamCase: the writer end performs the writes, then the reader end reads
// with the given buffer sizes as long as data is owed.
func streamCase(r *Recorder, kind string, w, rd streamEnd, writes, ks []int, class string) {
	if c15Dead[kind] {
		return
	}
	var sent []byte
	var accepted []int
	if len(writes) == 0 || writes[len(writes)-1] == 0 {
		writes = append(append([]int{}, writes...), 1) // no trailing empty record left behind
	}
	for _, n := range writes {
		p := patterned(n, 7*len(accepted))
		m, err := w.Write(p)
		if err != nil {
			if kind == "grpc" && n > 65535 && m == 0 {
				r.Case(fmt.Sprintf("%s:reject:%d", kind, n), true, class+"/oversize-rejected")
				continue // rejected, nothing sent: fine
			}
			r.Violate("C15/write-error", fmt.Sprintf("%s Write(%d) = %d, %v", kind, n, m, err), map[string]interface{}{"kind": kind, "writes": writes})
			return
		}
		if m != n {
			r.Violate("C15/write-truncated", fmt.Sprintf("%s Write(%d) returned %d without error", kind, n, m), map[string]interface{}{"kind": kind, "writes": writes})
			return
		}
		if kind == "grpc" && n > 65535 {
			r.Violate("C15/oversize-accepted", fmt.Sprintf("grpc Write(%d) accepted", n), writes)
		}
		sent = append(sent, p...)
		accepted = append(accepted, n)
	}
	if len(accepted) == 0 || accepted[len(accepted)-1] == 0 {
		p := patterned(1, 7*len(accepted))
		if _, err := w.Write(p); err == nil {
			sent = append(sent, p...)
			accepted = append(accepted, 1)
		}
	}
	var got []byte
	var lens []string
	for _, k := range ks {
		if len(got) >= len(sent) {
			break
		}
		buf := make([]byte, k)
		n, err, p, msg, timedOut := readTimed(rd, buf)
		if timedOut {
			c15Dead[kind] = true
			r.Violate("C15/bytes-lost", fmt.Sprintf("%s Read(buf[%d]) blocks although %d of the %d bytes written were never handed out (writes %v, buffers %v)",
				kind, k, len(sent)-len(got), len(sent), writes, ks), map[string]interface{}{"kind": kind, "writes": writes, "ks": ks})
			return
		}
		if p {
			r.Violate("C15/read-panic", fmt.Sprintf("%s Read(buf[%d]) panicked: %s", kind, k, msg), map[string]interface{}{"kind": kind, "writes": writes, "ks": ks})
			return
		}
		if err != nil {
			r.Violate("C15/spurious-read-error", fmt.Sprintf("%s Read(buf[%d]) = %d, %v with %d bytes still owed", kind, k, n, err, len(sent)-len(got)),
				map[string]interface{}{"kind": kind, "writes": writes, "ks": ks})
			return
		}
		if n > k {
			r.Violate("C15/read-n-exceeds-buffer", fmt.Sprintf("%s Read(buf[%d]) returned n=%d", kind, k, n),
				map[string]interface{}{"kind": kind, "writes": writes, "ks": ks})
			return
		}
		got = append(got, buf[:n]...)
		lens = append(lens, fmt.Sprint(n))
	}
	if !bytes.HasPrefix(sent, got) {
		r.Violate("C15/stream-corrupted", fmt.Sprintf("%s: bytes read are not a prefix of bytes written (writes %v, buffers %v)", kind, writes, ks),
			map[string]interface{}{"kind": kind, "writes": writes, "ks": ks})
	}
	// drain what the listed buffers did not reach so the next case starts clean
	rest := len(sent) - len(got)
	for len(got) < len(sent) {
		buf := make([]byte, 70000)
		n, err, _, _, timedOut := readTimed(rd, buf)
		if timedOut {
			c15Dead[kind] = true
			r.Violate("C15/bytes-lost", fmt.Sprintf("%s: draining Read blocks although %d of the %d bytes written were never handed out (writes %v, buffers %v)",
				kind, len(sent)-len(got), len(sent), writes, ks), map[string]interface{}{"kind": kind, "writes": writes, "ks": ks})
			return
		}
		if err != nil || n > len(buf) {
			r.Violate("C15/drain-failed", fmt.Sprintf("%s: %v", kind, err), writes)
			return
		}
		got = append(got, buf[:n]...)
	}
	if !bytes.Equal(sent, got) {
		r.Violate("C15/stream-corrupted", fmt.Sprintf("%s: drained stream differs from what was written", kind), map[string]interface{}{"kind": kind, "writes": writes, "ks": ks})
	}
	if len(accepted) > 0 {
		r.Emit(fmt.Sprintf("st.read %s %s %s", kind, ints(accepted), ints(ks)), strings.Join(lens, ",")+fmt.Sprintf(" rest=%d", rest))
	}
	small := false
	for _, k := range ks {
		for _, n := range writes {
			if k < n {
				small = true
			}
		}
	}
	r.Case(fmt.Sprintf("%s:%v:%v", kind, writes, ks), small, class)
}

func TestC15(t *testing.T) {
	r := NewRecorder(t, "C15")
	defer r.Close(t)
	rng := newRand(15)
	cli, srv, cc, sc := quickPair()
	if cli.Err != nil || srv.Err != nil {
		t.Fatalf("handshake failed: %v %v", cli.Err, srv.Err)
	}
	grpcW := mailbox.VNewNoiseGrpcConn(cli.Data, cc, cli.Machine)
	grpcR := mailbox.VNewNoiseGrpcConn(srv.Data, sc, srv.Machine)
	cli2, srv2, cc2, sc2 := quickPair()
	tcpW := mailbox.VNewNoiseConn(cc2, cli2.Machine)
	tcpR := mailbox.VNewNoiseConn(sc2, srv2.Machine)
	fc := &fakeControl{}
	kit := mailbox.VNewConnKit(fc)
	ends := map[string][2]streamEnd{"grpc": {grpcW, grpcR}, "tcp": {tcpW, tcpR}, "kit": {kit, kit}}
	kinds := []string{"grpc", "tcp", "kit"}

	// exhaustive: up to 3 writes of sizes 0..3, buffer sizes 1..5 (all sequences of 3)
	sizes := []int{0, 1, 2, 3}
	for _, kind := range kinds {
		e := ends[kind]
		for _, a := range sizes {
			for _, b := range sizes {
				for _, c := range sizes {
					if a+b+c == 0 {
						continue
					}
					for k1 := 1; k1 <= 5; k1++ {
						for k2 := 1; k2 <= 5; k2 += 2 {
							ks := []int{k1, k2, k1, k2, k1, k2, 9, 9, 9}
							streamCase(r, kind, e[0], e[1], []int{a, b, c}, ks, "exh-small")
						}
					}
				}
			}
		}
		// boundary sizes around the 32 KiB cap and the record limit
		for _, n := range []int{32767, 32768, 32769, 65535, 65536, 70000, 200000} {
			for _, k := range []int{1000, 32768, 40000, 70000} {
				streamCase(r, kind, e[0], e[1], []int{n, 5}, []int{k, k, k, k, k, k, k, k, k, k}, "boundary")
			}
		}
		for i := 0; i < pick(2000, 100000); i++ {
			nw := 1 + rng.Intn(4)
			writes := make([]int, nw)
			for j := range writes {
				switch rng.Intn(6) {
				case 0:
					writes[j] = 0
				case 1:
					writes[j] = 30000 + rng.Intn(40000)
				default:
					writes[j] = rng.Intn(300)
				}
				if kind == "grpc" && writes[j] > 65535 && rng.Intn(4) > 0 {
					writes[j] = 65535 - rng.Intn(100)
				}
			}
			ks := make([]int, 3+rng.Intn(12))
			for j := range ks {
				switch rng.Intn(4) {
				case 0:
					ks[j] = 1 + rng.Intn(8)
				case 1:
					ks[j] = 1 + rng.Intn(70000)
				default:
					ks[j] = 1 + rng.Intn(400)
				}
			}
			streamCase(r, kind, e[0], e[1], writes, ks, "random")
		}
	}
	r.Sample(map[string]string{"op": "st.read grpc 10,1 4,4,4,4", "go": "4,4,2,1 rest=0"})
}
