package harness

import (
	"bytes"
	"context"
	"errors"
	"fmt"
	"github.com/lightningnetwork/lnd/keychain"
	"net"
	"strings"
	"sync"
	"testing"
	"time"

	"github.com/lightninglabs/lightning-node-connect/mailbox"
)

type streamEnd interface {
	Read(b []byte) (int, error)
	Write(b []byte) (int, error)
}

// fakeControl is a controlConn that carries MsgData payloads in memory.
type fakeControl struct{ msgs [][]byte }

func (f *fakeControl) ReceiveControlMsg(m mailbox.ControlMsg) error {
	if len(f.msgs) == 0 {
		return fmt.Errorf("would block")
	}
	b := f.msgs[0]
	f.msgs = f.msgs[1:]
	return m.Deserialize(b)
}
func (f *fakeControl) SendControlMsg(m mailbox.ControlMsg) error {
	b, err := m.Serialize()
	if err != nil {
		return err
	}
	f.msgs = append(f.msgs, b)
	return nil
}
func (f *fakeControl) SetRecvTimeout(timeoutDur) {}
func (f *fakeControl) SetSendTimeout(timeoutDur) {}

func patterned(n, seed int) []byte {
	b := make([]byte, n)
	for i := range b {
		b[i] = byte((i + seed) % 251)
	}
	return b
}

func ints(l []int) string {
	s := make([]string, len(l))
	for i, v := range l {
		s[i] = fmt.Sprint(v)
	}
	return strings.Join(s, ",")
}

// kinds whose connection was abandoned because a Read blocked for good
var c15Dead = map[string]bool{}

// readTimed performs rd.Read under a watchdog: all data has been written before
// the reads start, so a Read that does not return while bytes are owed means
// bytes were lost.
func readTimed(rd streamEnd, buf []byte) (n int, err error, panicked bool, msg string, timedOut bool) {
	type res struct {
		n   int
		err error
		p   bool
		msg string
	}
	ch := make(chan res, 1)
	go func() {
		var x res
		x.p, x.msg = safely(func() { x.n, x.err = rd.Read(buf) })
		ch <- x
	}()
	select {
	case x := <-ch:
		return x.n, x.err, x.p, x.msg, false
	case <-time.After(20 * time.Second):
		return 0, nil, false, "", true
	}
}

// streamCase: the writer end performs the writes, then the reader end reads
// with the given buffer sizes as long as data is owed.
func streamCase(r *Recorder, kind string, w, rd streamEnd, writes, ks []int, class string) {
	if c15Dead[kind] {
		return
	}
	var sent []byte
	var accepted []int
	if len(writes) == 0 || writes[len(writes)-1] == 0 {
		writes = append(append([]int{}, writes...), 1) // no trailing empty record left behind
	}
	for _, n := range writes {
		p := patterned(n, 7*len(accepted))
		m, err := w.Write(p)
		if err != nil {
			if kind == "grpc" && n > 65535 && m == 0 {
				r.Case(fmt.Sprintf("%s:reject:%d", kind, n), true, class+"/oversize-rejected")
				continue // rejected, nothing sent: fine
			}
			r.Violate("C15/write-error", fmt.Sprintf("%s Write(%d) = %d, %v", kind, n, m, err), map[string]interface{}{"kind": kind, "writes": writes})
			return
		}
		if m != n {
			r.Violate("C15/write-truncated", fmt.Sprintf("%s Write(%d) returned %d without error", kind, n, m), map[string]interface{}{"kind": kind, "writes": writes})
			return
		}
		if kind == "grpc" && n > 65535 {
			r.Violate("C15/oversize-accepted", fmt.Sprintf("grpc Write(%d) accepted", n), writes)
		}
		sent = append(sent, p...)
		accepted = append(accepted, n)
	}
	if len(accepted) == 0 || accepted[len(accepted)-1] == 0 {
		p := patterned(1, 7*len(accepted))
		if _, err := w.Write(p); err == nil {
			sent = append(sent, p...)
			accepted = append(accepted, 1)
		}
	}
	var got []byte
	var lens []string
	for _, k := range ks {
		if len(got) >= len(sent) {
			break
		}
		buf := make([]byte, k)
		n, err, p, msg, timedOut := readTimed(rd, buf)
		if timedOut {
			c15Dead[kind] = true
			r.Violate("C15/bytes-lost", fmt.Sprintf("%s Read(buf[%d]) blocks although %d of the %d bytes written were never handed out (writes %v, buffers %v)",
				kind, k, len(sent)-len(got), len(sent), writes, ks), map[string]interface{}{"kind": kind, "writes": writes, "ks": ks})
			return
		}
		if p {
			r.Violate("C15/read-panic", fmt.Sprintf("%s Read(buf[%d]) panicked: %s", kind, k, msg), map[string]interface{}{"kind": kind, "writes": writes, "ks": ks})
			return
		}
		if err != nil {
			r.Violate("C15/spurious-read-error", fmt.Sprintf("%s Read(buf[%d]) = %d, %v with %d bytes still owed", kind, k, n, err, len(sent)-len(got)),
				map[string]interface{}{"kind": kind, "writes": writes, "ks": ks})
			return
		}
		if n > k {
			r.Violate("C15/read-n-exceeds-buffer", fmt.Sprintf("%s Read(buf[%d]) returned n=%d", kind, k, n),
				map[string]interface{}{"kind": kind, "writes": writes, "ks": ks})
			return
		}
		got = append(got, buf[:n]...)
		lens = append(lens, fmt.Sprint(n))
	}
	if !bytes.HasPrefix(sent, got) {
		r.Violate("C15/stream-corrupted", fmt.Sprintf("%s: bytes read are not a prefix of bytes written (writes %v, buffers %v)", kind, writes, ks),
			map[string]interface{}{"kind": kind, "writes": writes, "ks": ks})
	}
	// drain what the listed buffers did not reach so the next case starts clean
	rest := len(sent) - len(got)
	for len(got) < len(sent) {
		buf := make([]byte, 70000)
		n, err, _, _, timedOut := readTimed(rd, buf)
		if timedOut {
			c15Dead[kind] = true
			r.Violate("C15/bytes-lost", fmt.Sprintf("%s: draining Read blocks although %d of the %d bytes written were never handed out (writes %v, buffers %v)",
				kind, len(sent)-len(got), len(sent), writes, ks), map[string]interface{}{"kind": kind, "writes": writes, "ks": ks})
			return
		}
		if err != nil || n > len(buf) {
			r.Violate("C15/drain-failed", fmt.Sprintf("%s: %v", kind, err), writes)
			return
		}
		got = append(got, buf[:n]...)
	}
	if !bytes.Equal(sent, got) {
		r.Violate("C15/stream-corrupted", fmt.Sprintf("%s: drained stream differs from what was written", kind), map[string]interface{}{"kind": kind, "writes": writes, "ks": ks})
	}
	if len(accepted) > 0 {
		r.Emit(fmt.Sprintf("st.read %s %s %s", kind, ints(accepted), ints(ks)), strings.Join(lens, ",")+fmt.Sprintf(" rest=%d", rest))
	}
	small := false
	for _, k := range ks {
		for _, n := range writes {
			if k < n {
				small = true
			}
		}
	}
	r.Case(fmt.Sprintf("%s:%v:%v", kind, writes, ks), small, class)
}

// grpcReuseCase: one NoiseGrpcConn object serves two connections in a row (it is the gRPC
// credentials object). On the first connection a record larger than the reader's buffer is read
// partially (sequential variant), or a Read is still in flight when the second handshake is
// started and completes afterwards with such a record (overlap variant). The second connection's
// reads must return exactly what was written on the second connection.
// With sameTransport the second handshake runs over the very transport object of the first (the
// exported API allows it; the repo's own TestHandshake does so for its XX -> KK step).
func grpcReuseCase(r *Recorder, pid string, overlap, sameTransport bool, recLen, bufLen int) {
	name := fmt.Sprintf("grpc-reuse:overlap=%v:same-transport=%v:rec=%d:buf=%d", overlap, sameTransport, recLen, bufLen)
	pass := []byte("pairing-phrase-entropy")
	cliData := mailbox.NewConnData(&keychain.PrivKeyECDH{PrivKey: key(8101)}, nil, pass, nil, nil, nil)
	srvData := mailbox.NewConnData(&keychain.PrivKeyECDH{PrivKey: key(8102)}, nil, pass, []byte("auth"), nil, nil)
	cliNG, srvNG := mailbox.NewNoiseGrpcConn(cliData), mailbox.NewNoiseGrpcConn(srvData)
	var pcc, psc *memConn
	connect := func() (net.Conn, net.Conn, error) {
		cc, sc := newMemPair()
		if sameTransport && pcc != nil {
			cc, sc = pcc, psc
		}
		pcc, psc = cc, sc
		var c, s net.Conn
		var ce, se error
		var wg sync.WaitGroup
		wg.Add(2)
		ng := cliNG
		if overlap {
			// the old connection's client end must stay able to write while the next handshake is in
			// progress, so the client side of every connection gets its own object here; the object
			// under test is the server's, which serves both connections
			ng = mailbox.NewNoiseGrpcConn(cliData)
		}
		go func() { defer wg.Done(); c, _, ce = ng.ClientHandshake(context.Background(), "", cc) }()
		go func() { defer wg.Done(); s, _, se = srvNG.ServerHandshake(sc) }()
		done := make(chan struct{})
		go func() { wg.Wait(); close(done) }()
		select {
		case <-done:
		case <-time.After(30 * time.Second):
			return nil, nil, errors.New("handshake did not finish within 30 s")
		}
		if ce != nil || se != nil {
			return nil, nil, fmt.Errorf("client %v, server %v", ce, se)
		}
		return c, s, nil
	}
	c1, s1, err := connect()
	if err != nil {
		r.Violate(pid+"/setup", "first connection: "+err.Error(), name)
		return
	}
	old := patterned(recLen, 31)
	readDone := make(chan int, 1)
	if overlap {
		// the old connection's Read is in flight (nothing to read yet) when the second handshake starts
		go func() { n, _ := s1.Read(make([]byte, bufLen)); readDone <- n }()
		time.Sleep(100 * time.Millisecond)
	} else {
		c1.Write(old)
		n, _ := s1.Read(make([]byte, bufLen))
		readDone <- n
	}
	type res struct {
		c, s net.Conn
		err  error
	}
	second := make(chan res, 1)
	go func() { c, s, err := connect(); second <- res{c, s, err} }()
	var r2 res
	have2 := false
	if overlap {
		// The second handshake has started. The unchanged code makes it wait for the Read in flight
		// (Read holds the connection lock while it blocks), so it cannot finish before the old
		// record is delivered. Should it not wait, let it finish first: the old connection's late
		// record then arrives after the new connection has been set up, and whatever the old Read
		// leaves behind must not show up on the new connection.
		select {
		case r2 = <-second:
			have2 = true
		case <-time.After(2 * time.Second):
		}
		c1.Write(old) // ... now the in-flight Read gets its record
	}
	<-readDone
	if !have2 {
		r2 = <-second
	}
	if r2.err != nil {
		r.Violate(pid+"/setup", "second connection: "+r2.err.Error(), name)
		return
	}
	fresh := patterned(50, 77)
	go r2.c.Write(fresh)
	got := make([]byte, 4096)
	rd := make(chan int, 1)
	go func() { n, _ := r2.s.Read(got); rd <- n }()
	n := 0
	select {
	case n = <-rd:
	case <-time.After(20 * time.Second):
	}
	if !bytes.Equal(got[:n], fresh) {
		r.Violate(pid+"/bytes-of-previous-connection", fmt.Sprintf("second connection on the same NoiseGrpcConn (first one: %d byte record read with a %d byte buffer, Read in flight during the second handshake: %v, same transport object: %v): wrote 50 bytes, first Read returned %d bytes, equal: false; starts with the old record's tail: %v",
			recLen, bufLen, overlap, sameTransport, n, n > 0 && bytes.HasPrefix(old[bufLen:], got[:min(n, len(old)-bufLen)])), name)
	}
	r.Case(name, true, "grpc-object-reuse")
}

// grpcWriteErrorCase: the gRPC variant has no Flush of its own; a Write whose record could not be
// put on the transport (the header write or the body write fails) reports an error, and whatever
// the application does next - write the same bytes again, or go on with the next message - the
// reader must be handed exactly the bytes whose Write was acknowledged.
func grpcWriteErrorCase(r *Recorder, pid string, failWrite int, mode string) {
	name := fmt.Sprintf("grpc-write-error:transport-write=%d:%s", failWrite, mode)
	cli, srv, cc, sc := quickPair()
	if cli.Err != nil || srv.Err != nil {
		r.Violate(pid+"/setup", fmt.Sprint(cli.Err, srv.Err), name)
		return
	}
	w := mailbox.VNewNoiseGrpcConn(cli.Data, cc, cli.Machine)
	count := 0
	cc.accept = func(n int) (int, error) {
		count++
		if count == failWrite {
			return 0, errShortWrite
		}
		return n, nil
	}
	a, b, c := patterned(300, 1), patterned(500, 2), patterned(200, 3)
	var acked []byte
	var steps []string
	write := func(tag string, p []byte) {
		n, err := w.Write(p)
		steps = append(steps, fmt.Sprintf("Write(%s)=%d,%v", tag, n, err))
		if n > 0 && n <= len(p) {
			acked = append(acked, p[:n]...)
		}
	}
	write("A", a)
	write("B", b)
	if mode == "retry" {
		write("B again", b)
	}
	write("C", c)
	cc.wr.close()
	var got []byte
	for {
		m, rerr := srv.Machine.ReadMessage(sc)
		if rerr != nil {
			break
		}
		got = append(got, m...)
	}
	if !bytes.Equal(got, acked) {
		r.Violate(pid+"/write-error-delivers-unacknowledged", fmt.Sprintf("transport write #%d failed; application: %v; Write acknowledged %d bytes in all, the reader was handed %d bytes (acknowledged is a prefix of delivered: %v)",
			failWrite, steps, len(acked), len(got), bytes.HasPrefix(got, acked)), name)
	}
	r.Case(name, true, "grpc-write-error")
}

func TestC15(t *testing.T) {
	r := NewRecorder(t, "C15")
	defer r.Close(t)
	// a Write on the TCP variant interrupted by a transport timeout at every interesting cut, then
	// the application's retry (Flush as documented, or Write again with the rest): no byte lost,
	// duplicated or reordered, and the stream goes on
	for _, l := range []int{1, 12, 300} {
		for _, cut := range []int{0, 1, 5, 17, 18, 19, 18 + l, 18 + l + 15} {
			for _, mode := range []string{"flush", "rewrite"} {
				writeRetryCase(r, "C15", l, cut, mode)
			}
		}
	}
	// the TCP variant's transparent chunking across a write timeout (what Write and Flush report is
	// what reaches the peer)
	for _, tc := range [][2]int{{70000, 65535 + 34 + 18 + 1000}, {150000, 2*(65535+34) + 18 + 7}} {
		chunkedWriteResumeCase(r, "C15", tc[0], tc[1])
	}
	for _, overlap := range []bool{false, true} {
		for _, sz := range [][2]int{{1000, 100}, {40000, 4096}, {10, 1}} {
			grpcReuseCase(r, "C15", overlap, false, sz[0], sz[1])
		}
	}
	for _, sz := range [][2]int{{1000, 100}, {10, 1}} {
		grpcReuseCase(r, "C15", false, true, sz[0], sz[1])
	}
	for _, fw := range []int{3, 4} {
		for _, mode := range []string{"retry", "skip"} {
			grpcWriteErrorCase(r, "C15", fw, mode)
		}
	}
	rng := newRand(15)
	cli, srv, cc, sc := quickPair()
	if cli.Err != nil || srv.Err != nil {
		t.Fatalf("handshake failed: %v %v", cli.Err, srv.Err)
	}
	grpcW := mailbox.VNewNoiseGrpcConn(cli.Data, cc, cli.Machine)
	grpcR := mailbox.VNewNoiseGrpcConn(srv.Data, sc, srv.Machine)
	cli2, srv2, cc2, sc2 := quickPair()
	tcpW := mailbox.VNewNoiseConn(cc2, cli2.Machine)
	tcpR := mailbox.VNewNoiseConn(sc2, srv2.Machine)
	fc := &fakeControl{}
	kit := mailbox.VNewConnKit(fc)
	ends := map[string][2]streamEnd{"grpc": {grpcW, grpcR}, "tcp": {tcpW, tcpR}, "kit": {kit, kit}}
	kinds := []string{"grpc", "tcp", "kit"}

	// exhaustive: up to 3 writes of sizes 0..3, buffer sizes 1..5 (all sequences of 3)
	sizes := []int{0, 1, 2, 3}
	for _, kind := range kinds {
		e := ends[kind]
		for _, a := range sizes {
			for _, b := range sizes {
				for _, c := range sizes {
					if a+b+c == 0 {
						continue
					}
					for k1 := 1; k1 <= 5; k1++ {
						for k2 := 1; k2 <= 5; k2 += 2 {
							ks := []int{k1, k2, k1, k2, k1, k2, 9, 9, 9}
							streamCase(r, kind, e[0], e[1], []int{a, b, c}, ks, "exh-small")
						}
					}
				}
			}
		}
		// boundary sizes around the 32 KiB cap and the record limit
		for _, n := range []int{32767, 32768, 32769, 65535, 65536, 70000, 200000} {
			for _, k := range []int{1000, 32768, 40000, 70000} {
				streamCase(r, kind, e[0], e[1], []int{n, 5}, []int{k, k, k, k, k, k, k, k, k, k}, "boundary")
			}
		}
		for i := 0; i < pick(2000, 100000); i++ {
			nw := 1 + rng.Intn(4)
			writes := make([]int, nw)
			for j := range writes {
				switch rng.Intn(6) {
				case 0:
					writes[j] = 0
				case 1:
					writes[j] = 30000 + rng.Intn(40000)
				default:
					writes[j] = rng.Intn(300)
				}
				if kind == "grpc" && writes[j] > 65535 && rng.Intn(4) > 0 {
					writes[j] = 65535 - rng.Intn(100)
				}
			}
			ks := make([]int, 3+rng.Intn(12))
			for j := range ks {
				switch rng.Intn(4) {
				case 0:
					ks[j] = 1 + rng.Intn(8)
				case 1:
					ks[j] = 1 + rng.Intn(70000)
				default:
					ks[j] = 1 + rng.Intn(400)
				}
			}
			streamCase(r, kind, e[0], e[1], writes, ks, "random")
		}
	}
	r.Sample(map[string]string{"op": "st.read grpc 10,1 4,4,4,4", "go": "4,4,2,1 rest=0"})
}
