package harness

import (
	"bufio"
	"encoding/hex"
	"encoding/json"
	"fmt"
	"math/rand"
	"os"
	"path/filepath"
	"sort"
	"strconv"
	"sync"
	"testing"
)

// ---- environment -----------------------------------------------------------

func envSeed() int64 {
	if s := os.Getenv("VERIF_SEED"); s != "" {
		if v, err := strconv.ParseInt(s, 10, 64); err == nil {
			return v
		}
	}
	return 1
}

func thorough() bool { return os.Getenv("VERIF_TIER") == "thorough" }

func pick(quick, thor int) int {
	if thorough() {
		return thor
	}
	return quick
}

func outDir(t *testing.T) string {
	d := os.Getenv("VERIF_OUT")
	if d == "" {
		d = t.TempDir()
	}
	if err := os.MkdirAll(d, 0o755); err != nil {
		t.Fatal(err)
	}
	return d
}

// ---- recorder ---------------------------------------------------------------

// Violation is an oracle failure observed on the real code: the property text
// itself is contradicted by this execution.
type Violation struct {
	Signature string      `json:"signature"`
	What      string      `json:"what"`
	Replay    interface{} `json:"replay"`
}

// Recorder collects the operation lines sent to the Lean model, the results
// of the real code for the same lines, oracle violations and statistics about
// the generated inputs.
type Recorder struct {
	mu         sync.Mutex
	id         string
	dir        string
	ops, outs  *bufio.Writer
	fo, fg     *os.File
	Lines      int
	Evals      int
	distinct   map[string]struct{}
	Dist       map[string]int
	Samples    []interface{}
	Violations []Violation
	Notes      map[string]interface{}
}

func NewRecorder(t *testing.T, id string) *Recorder {
	dir := outDir(t)
	fo, err := os.Create(filepath.Join(dir, id+".ops"))
	if err != nil {
		t.Fatal(err)
	}
	fg, err := os.Create(filepath.Join(dir, id+".go.out"))
	if err != nil {
		t.Fatal(err)
	}
	return &Recorder{
		id: id, dir: dir, fo: fo, fg: fg,
		ops:      bufio.NewWriterSize(fo, 1<<20),
		outs:     bufio.NewWriterSize(fg, 1<<20),
		distinct: map[string]struct{}{},
		Dist:     map[string]int{},
		Notes:    map[string]interface{}{},
	}
}

// Emit records one operation line for the model and the implementation's
// canonical result for it.
func (r *Recorder) Emit(op, out string) {
	r.mu.Lock()
	defer r.mu.Unlock()
	r.ops.WriteString(op)
	r.ops.WriteByte('\n')
	r.outs.WriteString(out)
	r.outs.WriteByte('\n')
	r.Lines++
}

// Case counts one evaluated case; key identifies it for distinctness, and
// nontrivial says whether it counts as non-trivial by the check's rule.
func (r *Recorder) Case(key string, nontrivial bool, class string) {
	r.mu.Lock()
	defer r.mu.Unlock()
	r.Evals++
	r.Dist[class]++
	if nontrivial {
		r.distinct[key] = struct{}{}
	}
}

func (r *Recorder) Sample(s interface{}) {
	r.mu.Lock()
	defer r.mu.Unlock()
	if len(r.Samples) < 12 {
		r.Samples = append(r.Samples, s)
	}
}

func (r *Recorder) Violate(sig, what string, replay interface{}) {
	r.mu.Lock()
	defer r.mu.Unlock()
	// keep at most a few per signature
	n := 0
	for _, v := range r.Violations {
		if v.Signature == sig {
			n++
		}
	}
	if n >= 3 {
		return
	}
	r.Violations = append(r.Violations, Violation{sig, what, replay})
}

func (r *Recorder) Close(t *testing.T) {
	r.ops.Flush()
	r.outs.Flush()
	r.fo.Close()
	r.fg.Close()
	classes := make([]string, 0, len(r.Dist))
	for k := range r.Dist {
		classes = append(classes, k)
	}
	sort.Strings(classes)
	meta := map[string]interface{}{
		"id":                  r.id,
		"seed":                envSeed(),
		"tier":                map[bool]string{true: "thorough", false: "quick"}[thorough()],
		"lines":               r.Lines,
		"evaluations":         r.Evals,
		"distinct_nontrivial": len(r.distinct),
		"distribution":        r.Dist,
		"samples":             r.Samples,
		"violations":          r.Violations,
		"notes":               r.Notes,
	}
	b, err := json.MarshalIndent(meta, "", " ")
	if err != nil {
		t.Fatal(err)
	}
	if err := os.WriteFile(filepath.Join(r.dir, r.id+".meta.json"), b, 0o644); err != nil {
		t.Fatal(err)
	}
}

// ---- helpers ----------------------------------------------------------------

func hx(b []byte) string {
	if len(b) == 0 {
		return "-"
	}
	return hex.EncodeToString(b)
}

func b01(b bool) string {
	if b {
		return "1"
	}
	return "0"
}

// safely runs f and reports whether it panicked.
func safely(f func()) (panicked bool, msg string) {
	defer func() {
		if r := recover(); r != nil {
			panicked = true
			msg = fmt.Sprint(r)
		}
	}()
	f()
	return
}

func newRand(salt int64) *rand.Rand {
	return rand.New(rand.NewSource(envSeed()*1000003 + salt))
}

func randBytes(r *rand.Rand, n int) []byte {
	b := make([]byte, n)
	r.Read(b)
	return b
}
