package harness

import (
	"context"
	"fmt"
	"io"
	"net"
	"os"
	"strings"
	"sync"
	"testing"
	"testing/synctest"
	"time"

	"github.com/btcsuite/btcd/btcec/v2"
	"github.com/lightninglabs/lightning-node-connect/mailbox"
	"github.com/lightningnetwork/lnd/keychain"
)

// Stack is the full LNC stack over the fake relay: mailbox Server/Client
// (GoBackN inside), Noise on top.
type Stack struct {
	Relay    *FakeRelay
	Srv      *mailbox.Server
	Cli      *mailbox.Client
	SrvData  *mailbox.ConnData
	CliData  *mailbox.ConnData
	Ctx      context.Context
	Cancel   func()
	SrvKey   *btcec.PrivateKey
	CliKey   *btcec.PrivateKey
	Entropy  []byte
	AuthData []byte

	// a connection request that was started early (while the previous
	// connection was still open) and is consumed by the next ConnectRetry
	PendingAccept chan PendingConn
	PendingDial   chan PendingConn
	// EagerAccept: like gRPC's Serve loop, ask for the next connection as soon as Accept has
	// returned one, i.e. while the handshake on that one is still running
	EagerAccept bool
	// CutClientWritesAfter > 0: on the first attempt of the next ConnectRetry everything the client
	// writes to its mailbox connection beyond that many bytes is swallowed (the relay loses it):
	// with 50, act 1 of the XX handshake arrives and act 3 does not.
	CutClientWritesAfter int
	// ReuseNoise: one NoiseGrpcConn per side for all connections of the session, as the product does
	// (it is the gRPC transport-credentials object); otherwise a fresh one per attempt
	// CurSID: the rendezvous the connection handed out last is running on (a pairing handshake
	// changes what ConnData.SID() returns, but only the next connection moves)
	CurSID             [64]byte
	ReuseNoise         bool
	noiseSrv, noiseCli *mailbox.NoiseGrpcConn
	closeOnce          sync.Once
}

// cutConn passes the first `left` bytes written and pretends to write the rest.
type cutConn struct {
	mailbox.ProxyConn
	left int
}

func (c *cutConn) Write(b []byte) (int, error) {
	n := len(b)
	if c.left <= 0 {
		return n, nil
	}
	if len(b) > c.left {
		b = b[:c.left]
	}
	c.left -= len(b)
	if _, err := c.ProxyConn.Write(b); err != nil {
		return 0, err
	}
	return n, nil
}

type PendingConn struct {
	Conn net.Conn
	Err  error
}

func NewStack(relay *FakeRelay, seed int) (*Stack, error) {
	s := &Stack{Relay: relay, SrvKey: key(6000 + seed), CliKey: key(7000 + seed),
		Entropy: patterned(14, seed), AuthData: []byte("macaroon: 0201036c6e6402f801030a10")}
	s.Ctx, s.Cancel = context.WithCancel(context.Background())
	s.SrvData = mailbox.NewConnData(&keychain.PrivKeyECDH{PrivKey: s.SrvKey}, nil, s.Entropy, s.AuthData, nil, nil)
	s.CliData = mailbox.NewConnData(&keychain.PrivKeyECDH{PrivKey: s.CliKey}, nil, s.Entropy, nil, nil, nil)
	var err error
	s.Srv, err = mailbox.VNewServer("fake-relay", s.SrvData, relay, func(mailbox.ServerStatus) {}, nil)
	if err != nil {
		return nil, err
	}
	s.Cli, err = mailbox.NewClient(s.Ctx, "fake-relay", s.CliData, mailbox.VWithHashMailClient(relay))
	return s, err
}

type SecureConn struct {
	Conn    net.Conn // the noise connection
	Mailbox net.Conn // the mailbox connection underneath
	Err     error
}

// Connect lets both sides behave like gRPC does: each keeps asking for a
// connection (Accept / Dial block until the previous one is done) and runs
// the noise handshake on it; a failed attempt is closed and retried. The call
// returns when both sides hold a secured connection or the deadline passes.
func (s *Stack) Connect() (srv, cli SecureConn) {
	srv, cli, _ = s.ConnectRetry(6)
	return
}

func (s *Stack) ConnectRetry(attempts int) (srv, cli SecureConn, tries int) {
	deadline := time.Now().Add(50 * time.Second)
	var wg sync.WaitGroup
	var mu sync.Mutex
	stop := make(chan struct{})
	stopped := func() bool {
		select {
		case <-stop:
			return true
		default:
			return time.Now().After(deadline)
		}
	}
	t00 := time.Now()
	dbg := func(isServer bool, f string, a ...interface{}) {
		if os.Getenv("VERIF_DBG_STACK") != "" {
			fmt.Printf("  [%8v %s] %s\n", time.Since(t00).Round(time.Millisecond), map[bool]string{true: "srv", false: "cli"}[isServer], fmt.Sprintf(f, a...))
		}
	}
	side := func(isServer bool) {
		defer wg.Done()
		for a := 0; a < attempts && !stopped(); a++ {
			var c net.Conn
			var err error
			switch {
			case isServer && s.PendingAccept != nil:
				select {
				case p := <-s.PendingAccept:
					c, err = p.Conn, p.Err
				case <-time.After(60 * time.Second):
					err = fmt.Errorf("the pending Accept did not return within 60 s")
					a = attempts
				}
				s.PendingAccept = nil
			case !isServer && s.PendingDial != nil:
				select {
				case p := <-s.PendingDial:
					c, err = p.Conn, p.Err
				case <-time.After(60 * time.Second):
					err = fmt.Errorf("the pending Dial did not return within 60 s")
					a = attempts
				}
				s.PendingDial = nil
			default:
				// Accept / Dial under a watchdog: a call that never returns is reported, not waited for
				ch := make(chan PendingConn, 1)
				go func() {
					var p PendingConn
					if isServer {
						p.Conn, p.Err = s.Srv.Accept()
					} else {
						p.Conn, p.Err = s.Cli.Dial(s.Ctx, "")
					}
					ch <- p
				}()
				select {
				case p := <-ch:
					c, err = p.Conn, p.Err
				case <-time.After(60 * time.Second):
					mu.Lock()
					e := fmt.Errorf("%s did not return within 60 s", map[bool]string{true: "Accept", false: "Dial"}[isServer])
					if isServer {
						srv = SecureConn{Err: e}
					} else {
						cli = SecureConn{Err: e}
					}
					mu.Unlock()
					return
				}
			}
			mu.Lock()
			if !isServer {
				tries++
			}
			mu.Unlock()
			dbg(isServer, "attempt %d: accept/dial returned err=%v", a, err)
			if err != nil {
				mu.Lock()
				if isServer {
					srv = SecureConn{Err: fmt.Errorf("accept: %w", err)}
				} else {
					cli = SecureConn{Err: fmt.Errorf("dial: %w", err)}
				}
				mu.Unlock()
				time.Sleep(100 * time.Millisecond)
				continue
			}
			if isServer {
				if sid, e := s.SrvData.SID(); e == nil {
					mu.Lock()
					s.CurSID = sid
					mu.Unlock()
				}
			}
			if isServer && s.EagerAccept && s.PendingAccept == nil {
				ch := make(chan PendingConn, 1)
				s.PendingAccept = ch
				go func() {
					nc, err := s.Srv.Accept()
					ch <- PendingConn{nc, err}
				}()
				time.Sleep(50 * time.Millisecond) // let it reach its wait before the handshake starts
			}
			var nc net.Conn
			if isServer {
				ng := mailbox.NewNoiseGrpcConn(s.SrvData)
				if s.ReuseNoise {
					if s.noiseSrv == nil {
						s.noiseSrv = ng
					}
					ng = s.noiseSrv
				}
				nc, _, err = ng.ServerHandshake(c)
			} else {
				var hc net.Conn = c
				if a == 0 && s.CutClientWritesAfter > 0 {
					if pc, ok := c.(mailbox.ProxyConn); ok {
						hc = &cutConn{ProxyConn: pc, left: s.CutClientWritesAfter}
					}
					s.CutClientWritesAfter = 0
				}
				ng := mailbox.NewNoiseGrpcConn(s.CliData)
				if s.ReuseNoise {
					if s.noiseCli == nil {
						s.noiseCli = ng
					}
					ng = s.noiseCli
				}
				nc, _, err = ng.ClientHandshake(s.Ctx, "", hc)
			}
			if err == nil {
				// like gRPC's connection preface: the two ends confirm to each other that
				// this very connection is usable before it is handed to the application
				c.SetReadDeadline(time.Now().Add(8 * time.Second))
				one := make([]byte, 1)
				if isServer {
					if _, err = io.ReadFull(nc, one); err == nil && one[0] == 'H' {
						_, err = nc.Write([]byte{'A'})
					} else if err == nil {
						err = fmt.Errorf("bad preface %q", one)
					}
				} else {
					if _, err = nc.Write([]byte{'H'}); err == nil {
						if _, err = io.ReadFull(nc, one); err == nil && one[0] != 'A' {
							err = fmt.Errorf("bad preface reply %q", one)
						}
					}
				}
				c.SetReadDeadline(time.Time{})
				if err != nil {
					err = fmt.Errorf("preface: %w", err)
				}
			}
			dbg(isServer, "attempt %d: handshake+preface err=%v", a, err)
			mu.Lock()
			if err != nil {
				c.Close()
				dbg(isServer, "attempt %d: closed", a)
				if isServer {
					srv = SecureConn{Err: fmt.Errorf("server handshake: %w", err)}
				} else {
					cli = SecureConn{Err: fmt.Errorf("client handshake: %w", err)}
				}
				mu.Unlock()
				continue
			}
			if isServer {
				srv = SecureConn{Conn: nc, Mailbox: c}
			} else {
				cli = SecureConn{Conn: nc, Mailbox: c}
			}
			mu.Unlock()
			return
		}
	}
	wg.Add(2)
	go side(true)
	go side(false)
	done := make(chan struct{})
	go func() { wg.Wait(); close(done) }()
	select {
	case <-done:
	case <-time.After(time.Until(deadline) + 5*time.Second):
		// a side is stuck waiting for its peer: give up on this stack
		close(stop)
		s.Shutdown()
		<-done
		mu.Lock()
		if srv.Err == nil && srv.Conn == nil {
			srv.Err = fmt.Errorf("accept did not return")
		}
		if cli.Err == nil && cli.Conn == nil {
			cli.Err = fmt.Errorf("dial did not return")
		}
		mu.Unlock()
	}
	// a side that succeeded while the other gave up is of no use
	if (srv.Err != nil || cli.Err != nil) && !(srv.Err != nil && cli.Err != nil) {
		if srv.Mailbox != nil {
			srv.Mailbox.Close()
			srv = SecureConn{Err: fmt.Errorf("peer did not connect")}
		}
		if cli.Mailbox != nil {
			cli.Mailbox.Close()
			cli = SecureConn{Err: fmt.Errorf("peer did not connect")}
		}
	}
	return
}

func (s *Stack) Shutdown() {
	s.closeOnce.Do(func() {
		s.Srv.Close()
		s.Cancel()
	})
}

// inBubble runs f in a synctest bubble and reports leaked goroutines / panics.
func inBubble(t *testing.T, f func()) (leaked, panicked string) {
	func() {
		defer func() {
			if r := recover(); r != nil {
				msg := fmt.Sprint(r)
				if strings.Contains(msg, "blocked goroutines remain") || strings.Contains(msg, "deadlock") {
					leaked = msg
				} else {
					panicked = msg
				}
			}
		}()
		synctest.Test(t, func(t *testing.T) {
			f()
			synctest.Wait()
		})
	}()
	return
}

func TestStackSmoke(t *testing.T) {
	t0 := time.Now()
	relay := NewFakeRelay()
	st, err := NewStack(relay, 1)
	if err != nil {
		t.Fatal(err)
	}
	srv, cli, tries := st.ConnectRetry(4)
	fmt.Println("connect:", srv.Err, cli.Err, "tries", tries, "at", time.Since(t0))
	if srv.Err == nil && cli.Err == nil {
		go func() { cli.Conn.Write([]byte("hello over the relay")) }()
		buf := make([]byte, 100)
		n, err := srv.Conn.Read(buf)
		fmt.Println("read:", string(buf[:n]), err, "at", time.Since(t0))
		cli.Mailbox.Close()
		srv.Mailbox.Close()
	}
	st.Shutdown()
	fmt.Println("done at", time.Since(t0), "relay events:", len(relay.Log))
	for _, e := range relay.Log {
		fmt.Printf("%10v %-10s %s.. %x\n", e.At, e.Op, e.SID[len(e.SID)-4:], e.Data[:min(len(e.Data), 12)])
	}
}
