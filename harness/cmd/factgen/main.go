// factgen reads the current /repo sources and re-emits
// lean/LncModel/Facts/Generated.lean: plain data about the code (constants,
// guards, select tables, stop/close lists, read modes, lock nesting) that the
// parametric Lean models are instantiated with on every run.  Standard library
// only.  Anything that cannot be found is emitted as `none` / an empty list so
// that the corresponding proof obligation fails instead of being assumed.
package main

import (
	_ "embed"
	"fmt"
	"go/ast"
	"go/constant"
	"go/parser"
	"go/token"
	"go/types"
	"os"
	"path/filepath"
	"sort"
	"strings"
)

type pkg struct {
	fset  *token.FileSet
	files map[string]*ast.File
	dir   string
	info  *types.Info // lazily built by resolved()
}

// The vocabulary: every function, method and named closure of gbn/ and mailbox/ that existed when
// the models and obligations were written (vocabulary.txt, regenerated with `factgen -vocab`).
// The control skeletons, call lists and event lists name calls of these. A call of a package-local
// function or local closure that is NOT in the vocabulary - a helper introduced later, for
// instance by an extract-method refactoring - is expanded in place: the facts then describe what
// the function does, whichever way it is cut into helpers.
//
//go:embed vocabulary.txt
var vocabText string

var vocab = func() map[string]bool {
	m := map[string]bool{}
	for _, l := range strings.Split(vocabText, "\n") {
		if l = strings.TrimSpace(l); l != "" && !strings.HasPrefix(l, "#") {
			m[l] = true
		}
	}
	return m
}()

func (p *pkg) pkgName() string {
	for _, f := range p.files {
		return f.Name.Name
	}
	return ""
}

func (p *pkg) resolved() *types.Info {
	if p.info == nil {
		p.info = p.typeInfo()
		aliasTypes = append(aliasTypes, p.info)
	}
	return p.info
}

func declKey(p *pkg, fd *ast.FuncDecl) string {
	k := p.pkgName() + "."
	if fd.Recv != nil && len(fd.Recv.List) == 1 {
		k += recvName(fd.Recv.List[0].Type) + "."
	}
	return k + fd.Name.Name
}

// localClosures lists `name := func(...) {...}` / `var name = func...` definitions directly in fd.
func localClosures(fd *ast.FuncDecl) map[string]*ast.FuncLit {
	res := map[string]*ast.FuncLit{}
	if fd == nil || fd.Body == nil {
		return res
	}
	ast.Inspect(fd.Body, func(n ast.Node) bool {
		switch x := n.(type) {
		case *ast.AssignStmt:
			if len(x.Lhs) == 1 && len(x.Rhs) == 1 {
				if id, ok := x.Lhs[0].(*ast.Ident); ok {
					if fl, ok := x.Rhs[0].(*ast.FuncLit); ok {
						res[id.Name] = fl
					}
				}
			}
		case *ast.ValueSpec:
			if len(x.Names) == 1 && len(x.Values) == 1 {
				if fl, ok := x.Values[0].(*ast.FuncLit); ok {
					res[x.Names[0].Name] = fl
				}
			}
		}
		return true
	})
	return res
}

// unknownClosureLits: the literals of fd's named closures that are not in the vocabulary; they
// are expanded where they are called, so walkers skip them where they are defined.
func (p *pkg) unknownClosureLits(fd *ast.FuncDecl) map[*ast.FuncLit]bool {
	res := map[*ast.FuncLit]bool{}
	if fd == nil {
		return res
	}
	for n, fl := range localClosures(fd) {
		if !vocab[declKey(p, fd)+"."+n] {
			res[fl] = true
		}
	}
	return res
}

// expansion returns the body to expand in place of the call ce made inside fd, or nil when the
// callee is in the vocabulary, not package-local, or recursion would result.
func (p *pkg) expansion(fd *ast.FuncDecl, closures map[string]*ast.FuncLit, ce *ast.CallExpr, stack map[ast.Node]bool) ast.Node {
	if id, ok := ce.Fun.(*ast.Ident); ok && fd != nil {
		if fl, ok := closures[id.Name]; ok && !vocab[declKey(p, fd)+"."+id.Name] && !stack[fl.Body] {
			return fl.Body
		}
	}
	key := calleeKey(p.resolved(), ce)
	if key == "" || vocab[p.pkgName()+"."+key] {
		return nil
	}
	recv, name := "", key
	if i := strings.Index(key, "."); i >= 0 {
		recv, name = key[:i], key[i+1:]
	}
	if callee := p.anyFunc(recv, name); callee != nil && callee.Body != nil && !stack[callee.Body] {
		return callee.Body
	}
	return nil
}

// vocabulary lists every function, method and named closure of the package.
func (p *pkg) vocabulary() []string {
	var res []string
	for _, f := range p.files {
		for _, d := range f.Decls {
			if fd, ok := d.(*ast.FuncDecl); ok {
				res = append(res, declKey(p, fd))
				for n := range localClosures(fd) {
					res = append(res, declKey(p, fd)+"."+n)
				}
			}
		}
	}
	sort.Strings(res)
	return res
}

func load(dir string) *pkg {
	fset := token.NewFileSet()
	p := &pkg{fset: fset, files: map[string]*ast.File{}, dir: dir}
	ents, err := os.ReadDir(dir)
	if err != nil {
		fatal(err)
	}
	for _, e := range ents {
		n := e.Name()
		if !strings.HasSuffix(n, ".go") || strings.HasSuffix(n, "_test.go") ||
			strings.HasPrefix(n, "verif_") {
			continue
		}
		f, err := parser.ParseFile(fset, filepath.Join(dir, n), nil, parser.ParseComments)
		if err != nil {
			fatal(err)
		}
		p.files[n] = f
	}
	return p
}

func fatal(err error) {
	fmt.Fprintln(os.Stderr, "factgen:", err)
	os.Exit(2)
}

func (p *pkg) funcDecl(file, recv, name string) *ast.FuncDecl {
	f := p.files[file]
	if f == nil {
		return nil
	}
	for _, d := range f.Decls {
		fd, ok := d.(*ast.FuncDecl)
		if !ok || fd.Name.Name != name {
			continue
		}
		if recv == "" && fd.Recv == nil {
			return fd
		}
		if recv != "" && fd.Recv != nil && len(fd.Recv.List) == 1 {
			if recvName(fd.Recv.List[0].Type) == recv {
				return fd
			}
		}
	}
	return nil
}

func recvName(e ast.Expr) string {
	switch t := e.(type) {
	case *ast.StarExpr:
		return recvName(t.X)
	case *ast.Ident:
		return t.Name
	}
	return ""
}

// anyFunc finds a function by receiver+name in any file of the package.
func (p *pkg) anyFunc(recv, name string) *ast.FuncDecl {
	for n := range p.files {
		if fd := p.funcDecl(n, recv, name); fd != nil {
			return fd
		}
	}
	return nil
}

// curAlias: local names that merely abbreviate a field path (`prev := s.mailboxConn`, never
// assigned again) inside the function or expanded helper being described; expressions are
// printed with the path, so that hoisting a repeated expression into a local leaves the facts
// unchanged. Set by withAliases around every walk.
var curAlias map[string]string

func exprStr(fset *token.FileSet, e ast.Expr) string {
	s := types.ExprString(e)
	for name, path := range curAlias {
		s = substIdent(s, name, path)
	}
	return s
}

func isIdentByte(c byte) bool {
	return c == '_' || c >= '0' && c <= '9' || c >= 'a' && c <= 'z' || c >= 'A' && c <= 'Z'
}

// substIdent replaces the free-standing identifier `name` (not a field selector, not part of a
// longer identifier) in s.
func substIdent(s, name, by string) string {
	var b strings.Builder
	for i := 0; i < len(s); {
		if strings.HasPrefix(s[i:], name) &&
			(i == 0 || !(isIdentByte(s[i-1]) || s[i-1] == '.')) &&
			(i+len(name) == len(s) || !isIdentByte(s[i+len(name)])) {
			b.WriteString(by)
			i += len(name)
			continue
		}
		b.WriteByte(s[i])
		i++
	}
	return b.String()
}

// aliasesOf finds `id := a.b.c` definitions in body whose left side is never written again.
func aliasesOf(body ast.Node) map[string]string {
	res := map[string]string{}
	if body == nil {
		return res
	}
	writes := map[string]int{}
	ast.Inspect(body, func(n ast.Node) bool {
		switch x := n.(type) {
		case *ast.AssignStmt:
			for _, l := range x.Lhs {
				if id, ok := l.(*ast.Ident); ok {
					writes[id.Name]++
				}
			}
			if x.Tok == token.DEFINE && len(x.Lhs) == 1 && len(x.Rhs) == 1 {
				if id, ok := x.Lhs[0].(*ast.Ident); ok && isFieldPath(x.Rhs[0]) && refLike(x.Rhs[0]) {
					res[id.Name] = types.ExprString(x.Rhs[0])
				}
			}
			// `x, cancel := context.WithTimeout(...)` / WithDeadline: whatever the local is called,
			// it is the function's timeout context
			if x.Tok == token.DEFINE && len(x.Lhs) == 2 && len(x.Rhs) == 1 {
				if ce, ok := x.Rhs[0].(*ast.CallExpr); ok {
					if fn := types.ExprString(ce.Fun); fn == "context.WithTimeout" || fn == "context.WithDeadline" {
						if id, ok := x.Lhs[0].(*ast.Ident); ok && id.Name != "_" {
							res[id.Name] = "timeoutCtx"
						}
					}
				}
			}
		case *ast.IncDecStmt:
			if id, ok := x.X.(*ast.Ident); ok {
				writes[id.Name]++
			}
		case *ast.UnaryExpr:
			if id, ok := x.X.(*ast.Ident); ok && x.Op == token.AND {
				writes[id.Name]++
			}
		case *ast.RangeStmt:
			for _, e := range []ast.Expr{x.Key, x.Value} {
				if id, ok := e.(*ast.Ident); ok {
					writes[id.Name]++
				}
			}
		}
		return true
	})
	for name := range res {
		if writes[name] != 1 {
			delete(res, name)
		}
	}
	return res
}

// aliasTypes: the type tables of the packages loaded so far (an alias must be reference-like:
// a copy of an array, struct or number is a snapshot, not another name for the field).
var aliasTypes []*types.Info

func refLike(e ast.Expr) bool {
	for _, info := range aliasTypes {
		if tv, ok := info.Types[e]; ok && tv.Type != nil {
			switch tv.Type.Underlying().(type) {
			case *types.Pointer, *types.Interface, *types.Chan, *types.Map, *types.Signature:
				return true
			}
			return false
		}
	}
	return false
}

func isFieldPath(e ast.Expr) bool {
	sel, ok := e.(*ast.SelectorExpr)
	if !ok {
		return false
	}
	switch x := sel.X.(type) {
	case *ast.Ident:
		return true
	case *ast.SelectorExpr:
		return isFieldPath(x)
	}
	return false
}

// withAliases runs f with the aliases of body added to the current ones.
func withAliases(body ast.Node, f func()) {
	old := curAlias
	merged := map[string]string{}
	for k, v := range old {
		merged[k] = v
	}
	for k, v := range aliasesOf(body) {
		merged[k] = v
	}
	curAlias = merged
	defer func() { curAlias = old }()
	f()
}

// constants evaluates package-level untyped/typed constant declarations with
// go/types (tolerant of unresolved imports).
func (p *pkg) constants() map[string]constant.Value {
	var files []*ast.File
	names := make([]string, 0, len(p.files))
	for n := range p.files {
		names = append(names, n)
	}
	sort.Strings(names)
	for _, n := range names {
		files = append(files, p.files[n])
	}
	conf := types.Config{
		Importer:                 fakeImporter{},
		Error:                    func(error) {},
		DisableUnusedImportCheck: true,
		FakeImportC:              true,
	}
	tp, _ := conf.Check(p.dir, p.fset, files, nil)
	out := map[string]constant.Value{}
	if tp == nil {
		return out
	}
	sc := tp.Scope()
	for _, n := range sc.Names() {
		if c, ok := sc.Lookup(n).(*types.Const); ok && c.Val() != nil {
			out[n] = c.Val()
		}
	}
	return out
}

// typeInfo type-checks the package tolerantly (unresolved imports are faked)
// and returns the resolution tables for package-local identifiers.
func (p *pkg) typeInfo() *types.Info {
	var files []*ast.File
	names := make([]string, 0, len(p.files))
	for n := range p.files {
		names = append(names, n)
	}
	sort.Strings(names)
	for _, n := range names {
		files = append(files, p.files[n])
	}
	info := &types.Info{
		Uses:       map[*ast.Ident]types.Object{},
		Selections: map[*ast.SelectorExpr]*types.Selection{},
		Types:      map[ast.Expr]types.TypeAndValue{},
	}
	conf := types.Config{Importer: fakeImporter{}, Error: func(error) {}, DisableUnusedImportCheck: true, FakeImportC: true}
	_, _ = conf.Check(p.dir, p.fset, files, info)
	return info
}

// calleeKey resolves a call to "Type.method" / "func" for package-local callees.
func calleeKey(info *types.Info, ce *ast.CallExpr) string {
	var obj types.Object
	switch f := ce.Fun.(type) {
	case *ast.SelectorExpr:
		if sel, ok := info.Selections[f]; ok {
			obj = sel.Obj()
		} else {
			obj = info.Uses[f.Sel]
		}
	case *ast.Ident:
		obj = info.Uses[f]
	}
	fn, ok := obj.(*types.Func)
	if !ok {
		return ""
	}
	sig := fn.Type().(*types.Signature)
	if r := sig.Recv(); r != nil {
		t := r.Type()
		if pt, ok := t.(*types.Pointer); ok {
			t = pt.Elem()
		}
		if nt, ok := t.(*types.Named); ok {
			return nt.Obj().Name() + "." + fn.Name()
		}
	}
	return fn.Name()
}

type fakeImporter struct{}

func (fakeImporter) Import(path string) (*types.Package, error) {
	name := path[strings.LastIndex(path, "/")+1:]
	if name == "v2" || name == "v4" {
		s := strings.Split(path, "/")
		name = s[len(s)-2]
	}
	pk := types.NewPackage(path, name)
	if path == "time" {
		// time.Duration constants are needed to evaluate timeouts.
		dur := types.NewNamed(types.NewTypeName(token.NoPos, pk, "Duration", nil),
			types.Typ[types.Int64], nil)
		add := func(n string, v int64) {
			pk.Scope().Insert(types.NewConst(token.NoPos, pk, n, dur, constant.MakeInt64(v)))
		}
		pk.Scope().Insert(dur.Obj())
		add("Nanosecond", 1)
		add("Microsecond", 1000)
		add("Millisecond", 1000000)
		add("Second", 1000000000)
		add("Minute", 60000000000)
		add("Hour", 3600000000000)
	}
	if path == "math" {
		pk.Scope().Insert(types.NewConst(token.NoPos, pk, "MaxInt64",
			types.Typ[types.UntypedInt], constant.MakeInt64(1<<63-1)))
		pk.Scope().Insert(types.NewConst(token.NoPos, pk, "MaxUint8",
			types.Typ[types.UntypedInt], constant.MakeInt64(255)))
		pk.Scope().Insert(types.NewConst(token.NoPos, pk, "MaxUint16",
			types.Typ[types.UntypedInt], constant.MakeInt64(65535)))
		pk.Scope().Insert(types.NewConst(token.NoPos, pk, "MaxInt32",
			types.Typ[types.UntypedInt], constant.MakeInt64(1<<31-1)))
	}
	pk.MarkComplete()
	return pk, nil
}

// ---- emitters ----------------------------------------------------------------

type out struct{ sb strings.Builder }

func (o *out) f(format string, a ...interface{}) { fmt.Fprintf(&o.sb, format, a...) }

func optNat(v constant.Value) string {
	if v == nil {
		return "none"
	}
	if v.Kind() == constant.Float {
		return "none"
	}
	if i, ok := constant.Int64Val(constant.ToInt(v)); ok && i >= 0 {
		return fmt.Sprintf("some %d", i)
	}
	return "none"
}

func leanStr(s string) string { return `"` + strings.ReplaceAll(s, `"`, `\"`) + `"` }

func leanStrList(l []string) string {
	q := make([]string, len(l))
	for i, s := range l {
		q[i] = leanStr(s)
	}
	return "[" + strings.Join(q, ", ") + "]"
}

// lenGuard finds, in `case <caseConst>:` of the type switch on b[0] inside
// Deserialize, the constant K of the first statement `if len(b) < K`.
func lenGuards(p *pkg) map[string]string {
	res := map[string]string{}
	fd := p.funcDecl("messages.go", "", "Deserialize")
	if fd == nil {
		return res
	}
	// names that hold len(b) (`msgLen := len(b)`): the guard may be written on them
	isLen := map[string]bool{"len(b)": true}
	ast.Inspect(fd.Body, func(n ast.Node) bool {
		if as, ok := n.(*ast.AssignStmt); ok && len(as.Lhs) == 1 && len(as.Rhs) == 1 && exprStr(p.fset, as.Rhs[0]) == "len(b)" {
			if id, ok := as.Lhs[0].(*ast.Ident); ok {
				isLen[id.Name] = true
			}
		}
		return true
	})
	info := p.resolved()
	ast.Inspect(fd.Body, func(n ast.Node) bool {
		sw, ok := n.(*ast.SwitchStmt)
		if !ok {
			return true
		}
		for _, c := range sw.Body.List {
			cc := c.(*ast.CaseClause)
			if len(cc.List) != 1 || len(cc.Body) == 0 {
				continue
			}
			id, ok := cc.List[0].(*ast.Ident)
			if !ok {
				continue
			}
			ifs, ok := cc.Body[0].(*ast.IfStmt)
			if !ok {
				res[id.Name] = "some 0"
				continue
			}
			be, ok := ifs.Cond.(*ast.BinaryExpr)
			if !ok || be.Op != token.LSS || !isLen[exprStr(p.fset, be.X)] {
				continue
			}
			if lit, ok := be.Y.(*ast.BasicLit); ok && lit.Kind == token.INT {
				res[id.Name] = "some " + lit.Value
			} else if tv, ok := info.Types[be.Y]; ok && tv.Value != nil && tv.Value.Kind() == constant.Int {
				// a named constant (or constant expression) instead of the literal
				res[id.Name] = "some " + tv.Value.ExactString()
			}
		}
		return false
	})
	return res
}

// selectTable lists, for every select statement in fn (in source order), the
// channel expressions of its cases, whether it has a default, and the nesting
// depth of enclosing for-loops.
type selInfo struct {
	cases      []string
	hasDefault bool
	loopDepth  int
}

func selects(p *pkg, fd *ast.FuncDecl) []selInfo {
	if fd == nil {
		return nil
	}
	return selectsNode(p, fd, fd.Body)
}

// onceBody returns the body of the function literal passed to <x>.Do(...) in fd
// (the pattern `c.closeOnce.Do(func() { ... })`), or nil.
func onceBody(p *pkg, fd *ast.FuncDecl) ast.Node {
	var body ast.Node
	if fd == nil {
		return nil
	}
	ast.Inspect(fd.Body, func(n ast.Node) bool {
		if ce, ok := n.(*ast.CallExpr); ok && body == nil && strings.HasSuffix(exprStr(p.fset, ce.Fun), "Once.Do") && len(ce.Args) == 1 {
			if fl, ok := ce.Args[0].(*ast.FuncLit); ok {
				body = fl.Body
			}
		}
		return body == nil
	})
	return body
}

func selectsNode(p *pkg, fd *ast.FuncDecl, root ast.Node) []selInfo {
	var res []selInfo
	if root == nil {
		return res
	}
	closures := localClosures(fd)
	stack := map[ast.Node]bool{root: true}
	var walk func(n ast.Node, depth int)
	walk = func(n ast.Node, depth int) {
		ast.Inspect(n, func(m ast.Node) bool {
			switch s := m.(type) {
			case *ast.CallExpr:
				// selects inside a helper that is not in the vocabulary belong to this function
				if body := p.expansion(fd, closures, s, stack); body != nil {
					stack[body] = true
					withAliases(body, func() { walk(body, depth) })
					delete(stack, body)
				}
			case *ast.FuncLit:
				// do not descend into closures defined in the function:
				// they are separate control flow (handled by name elsewhere)
				if m != n {
					return false
				}
			case *ast.ForStmt:
				if m != n {
					walk(s.Body, depth+1)
					return false
				}
			case *ast.RangeStmt:
				if m != n {
					walk(s.Body, depth+1)
					return false
				}
			case *ast.SelectStmt:
				si := selInfo{loopDepth: depth}
				for _, c := range s.Body.List {
					cc := c.(*ast.CommClause)
					if cc.Comm == nil {
						si.hasDefault = true
						continue
					}
					si.cases = append(si.cases, commStr(p, cc.Comm))
				}
				res = append(res, si)
			}
			return true
		})
	}
	withAliases(root, func() { walk(root, 0) })
	return res
}

func commStr(p *pkg, s ast.Stmt) string {
	switch c := s.(type) {
	case *ast.ExprStmt:
		if u, ok := c.X.(*ast.UnaryExpr); ok && u.Op == token.ARROW {
			return "recv " + exprStr(p.fset, u.X)
		}
	case *ast.AssignStmt:
		if len(c.Rhs) == 1 {
			if u, ok := c.Rhs[0].(*ast.UnaryExpr); ok && u.Op == token.ARROW {
				return "recv " + exprStr(p.fset, u.X)
			}
		}
	case *ast.SendStmt:
		return "send " + exprStr(p.fset, c.Chan)
	}
	return "other"
}

func emitSelects(o *out, name string, sels []selInfo) {
	o.f("def %s : List SelectFact := [\n", name)
	for i, s := range sels {
		sep := ","
		if i == len(sels)-1 {
			sep = ""
		}
		hasTimer := false
		for _, c := range s.cases {
			if strings.HasPrefix(c, "recv time.After(") {
				hasTimer = true
			}
		}
		o.f("  { cases := %s, hasDefault := %v, loopDepth := %d, hasTimer := %v }%s\n",
			leanStrList(s.cases), s.hasDefault, s.loopDepth, hasTimer, sep)
	}
	o.f("]\n\n")
}

// calls lists selector-call expressions `x.y.z(...)` textually, in order,
// appearing in the body of fd (closures included).
func calls(p *pkg, fd *ast.FuncDecl) []string {
	var res []string
	if fd == nil {
		return res
	}
	closures := localClosures(fd)
	stack := map[ast.Node]bool{fd.Body: true}
	var visit func(n ast.Node) bool
	skipLit := p.unknownClosureLits(fd)
	visit = func(n ast.Node) bool {
		if fl, ok := n.(*ast.FuncLit); ok && skipLit[fl] {
			return false
		}
		if ce, ok := n.(*ast.CallExpr); ok {
			if body := p.expansion(fd, closures, ce, stack); body != nil {
				stack[body] = true
				withAliases(body, func() { ast.Inspect(body, visit) })
				delete(stack, body)
				return true
			}
			if fn := exprStr(p.fset, ce.Fun); !isLogCall(fn) {
				res = append(res, fn)
			}
		}
		return true
	}
	withAliases(fd.Body, func() { ast.Inspect(fd.Body, visit) })
	return res
}

// skeleton lists, in source order, the control skeleton of fd: calls ("call:<fun>"), branch
// statements ("continue", "break", "return", "goto", each followed by "label:<name>" when
// labelled), loops ("for"), conditions ("if", "cond:<cond>") and selects with their cases ("select", "case:<comm>" / "default").
// Function literals are not entered.
func skeleton(p *pkg, fd *ast.FuncDecl) []string {
	var res []string
	if fd == nil {
		return res
	}
	deferred := map[*ast.FuncLit]bool{}
	closures := localClosures(fd)
	stack := map[ast.Node]bool{fd.Body: true}
	var visit func(n ast.Node) bool
	visit = func(n ast.Node) bool {
		switch x := n.(type) {
		case *ast.DeferStmt:
			if fl, ok := x.Call.Fun.(*ast.FuncLit); ok {
				deferred[fl] = true // the body of `defer func() {...}()` belongs to the function
				res = append(res, "defer")
			} else if p.expansion(fd, closures, x.Call, stack) != nil {
				res = append(res, "defer") // `defer helper()` with a helper outside the vocabulary
			}
		case *ast.GoStmt:
			if fl, ok := x.Call.Fun.(*ast.FuncLit); ok {
				deferred[fl] = true // so does, for our purposes, the body of `go func() {...}()`
				res = append(res, "go")
			} else if p.expansion(fd, closures, x.Call, stack) != nil {
				res = append(res, "go")
			}
		case *ast.FuncLit:
			return deferred[x]
		case *ast.IncDecStmt:
			res = append(res, "incdec:"+exprStr(p.fset, x.X))
		case *ast.CallExpr:
			fn := exprStr(p.fset, x.Fun)
			if isLogCall(fn) {
				// logging is not part of the skeleton: adding or removing a log line must not
				// disturb an obligation (the arguments are still visited)
				return true
			}
			if body := p.expansion(fd, closures, x, stack); body != nil {
				// a helper that is not in the vocabulary: what it does is part of this function
				stack[body] = true
				withAliases(body, func() { ast.Inspect(body, visit) })
				delete(stack, body)
				return true
			}
			if _, lit := x.Fun.(*ast.FuncLit); lit {
				// `defer func() {...}()` / `go func() {...}()`: the "defer" / "go" token and the
				// literal's body say it all
				return true
			}
			res = append(res, "call:"+fn)
			if strings.HasSuffix(fn, "Once.Do") && len(x.Args) == 1 {
				if fl, ok := x.Args[0].(*ast.FuncLit); ok {
					deferred[fl] = true // the body run once is the function's real body
				}
			}
			if fn == "hkdf.New" {
				for _, a := range x.Args {
					res = append(res, "arg:"+exprStr(p.fset, a))
				}
			}
		case *ast.BranchStmt:
			res = append(res, strings.ToLower(x.Tok.String()))
			if x.Label != nil {
				res = append(res, "label:"+x.Label.Name)
			}
		case *ast.ReturnStmt:
			res = append(res, "return")
		case *ast.ForStmt:
			res = append(res, "for")
			if x.Cond != nil {
				res = append(res, "forcond:"+exprStr(p.fset, x.Cond))
			}
			if x.Post != nil {
				res = append(res, "forpost")
			}
		case *ast.RangeStmt:
			res = append(res, "for")
		case *ast.IfStmt:
			res = append(res, "if", "cond:"+exprStr(p.fset, x.Cond))
		case *ast.AssignStmt:
			for _, l := range x.Lhs {
				if _, ok := l.(*ast.SelectorExpr); ok {
					res = append(res, "assign:"+exprStr(p.fset, l))
				}
			}
		case *ast.SendStmt:
			res = append(res, "send:"+exprStr(p.fset, x.Chan))
		case *ast.LabeledStmt:
			res = append(res, "labeldef:"+x.Label.Name)
		case *ast.SelectStmt:
			res = append(res, "select")
		case *ast.CommClause:
			if x.Comm == nil {
				res = append(res, "default")
			} else {
				res = append(res, "case:"+commStr(p, x.Comm))
			}
		}
		return true
	}
	withAliases(fd.Body, func() { ast.Inspect(fd.Body, visit) })
	return res
}

// isLogCall recognises calls of the btclog style loggers (x.log.Debugf, log.Tracef, ...).
func isLogCall(fn string) bool {
	i := strings.LastIndex(fn, ".")
	if i < 0 {
		return false
	}
	switch fn[i+1:] {
	case "Tracef", "Debugf", "Infof", "Warnf", "Errorf", "Criticalf", "Trace", "Debug", "Info", "Warn", "Error", "Critical":
		recv := fn[:i]
		return recv == "log" || strings.HasSuffix(recv, ".log")
	}
	return false
}

// typeCasesOf reports, for every call of `callee` inside fd, the type list of
// the innermost enclosing type-switch case clause ("" when there is none).
func typeCasesOf(p *pkg, fd *ast.FuncDecl, callee string) []string {
	var res []string
	if fd == nil {
		return res
	}
	var walk func(n ast.Node, cur string)
	walk = func(n ast.Node, cur string) {
		ast.Inspect(n, func(m ast.Node) bool {
			if m == n {
				return true
			}
			switch x := m.(type) {
			case *ast.TypeSwitchStmt:
				for _, st := range x.Body.List {
					cc := st.(*ast.CaseClause)
					var tl []string
					for _, e := range cc.List {
						tl = append(tl, exprStr(p.fset, e))
					}
					label := strings.Join(tl, ",")
					if cc.List == nil {
						label = "default"
					}
					for _, b := range cc.Body {
						walk(b, label)
					}
				}
				return false
			case *ast.CallExpr:
				if exprStr(p.fset, x.Fun) == callee {
					res = append(res, cur)
				}
			}
			return true
		})
	}
	walk(fd.Body, "")
	return res
}

// events lists, in source order, the channel receives ("recv:<expr>") and
// calls ("call:<fun>") of fd.
func events(p *pkg, fd *ast.FuncDecl) []string {
	var res []string
	if fd == nil {
		return res
	}
	closures := localClosures(fd)
	stack := map[ast.Node]bool{fd.Body: true}
	var visit func(n ast.Node) bool
	visit = func(n ast.Node) bool {
		switch x := n.(type) {
		case *ast.UnaryExpr:
			if x.Op == token.ARROW {
				res = append(res, "recv:"+exprStr(p.fset, x.X))
			}
		case *ast.CallExpr:
			if body := p.expansion(fd, closures, x, stack); body != nil {
				stack[body] = true
				withAliases(body, func() { ast.Inspect(body, visit) })
				delete(stack, body)
				return true
			}
			if fn := exprStr(p.fset, x.Fun); !isLogCall(fn) {
				res = append(res, "call:"+fn)
			}
		}
		return true
	}
	withAliases(fd.Body, func() { ast.Inspect(fd.Body, visit) })
	return res
}

// readCalls reports for each call on the reader `r` in fd whether it is
// io.ReadFull(r, ..) ("full") or r.Read(..) ("bare").
func readCalls(p *pkg, fd *ast.FuncDecl) []string {
	var res []string
	if fd == nil {
		return res
	}
	// a helper that is not in the vocabulary (extract-method) is part of this function: its read
	// calls on its own io.Reader parameter count as this function's
	closures := localClosures(fd)
	stack := map[ast.Node]bool{fd.Body: true}
	var walk func(body ast.Node, reader string)
	walk = func(body ast.Node, reader string) {
		ast.Inspect(body, func(n ast.Node) bool {
			ce, ok := n.(*ast.CallExpr)
			if !ok {
				return true
			}
			switch exprStr(p.fset, ce.Fun) {
			case "io.ReadFull":
				if len(ce.Args) > 0 && exprStr(p.fset, ce.Args[0]) == reader {
					res = append(res, "full")
				}
				return true
			case reader + ".Read":
				res = append(res, "bare")
				return true
			}
			if exp := p.expansion(fd, closures, ce, stack); exp != nil {
				// which parameter of the helper receives our reader?
				inner := reader
				if key := calleeKey(p.resolved(), ce); key != "" {
					recv, name := "", key
					if i := strings.Index(key, "."); i >= 0 {
						recv, name = key[:i], key[i+1:]
					}
					if callee := p.anyFunc(recv, name); callee != nil && callee.Type.Params != nil {
						idx := 0
						for _, f := range callee.Type.Params.List {
							for _, nm := range f.Names {
								if idx < len(ce.Args) && exprStr(p.fset, ce.Args[idx]) == reader {
									inner = nm.Name
								}
								idx++
							}
						}
					}
				}
				stack[exp] = true
				walk(exp, inner)
				delete(stack, exp)
			}
			return true
		})
	}
	walk(fd.Body, "r")
	return res
}

// guardedCalls reports, for every call of `callee` inside fd, whether it is
// enclosed by an if statement whose condition is textually `cond`.
func guardedCalls(p *pkg, fd *ast.FuncDecl, callee, cond string) []bool {
	var res []bool
	if fd == nil {
		return res
	}
	closures := localClosures(fd)
	skipLit := p.unknownClosureLits(fd)
	stack := map[ast.Node]bool{fd.Body: true}
	var walk func(n ast.Node, guarded bool)
	var block func(x *ast.BlockStmt, guarded bool)
	block = func(x *ast.BlockStmt, guarded bool) {
		// `if <not cond> { ...; return }` guards the rest of the block as `if cond {...}` would
		g := guarded
		for _, st := range x.List {
			walk(st, g)
			if is, ok := st.(*ast.IfStmt); ok && is.Else == nil && len(is.Body.List) > 0 &&
				exprStr(p.fset, is.Cond) == negCond(cond) {
				if _, ret := is.Body.List[len(is.Body.List)-1].(*ast.ReturnStmt); ret {
					g = true
				}
			}
		}
	}
	walk = func(n ast.Node, guarded bool) {
		if b, ok := n.(*ast.BlockStmt); ok {
			block(b, guarded)
			return
		}
		if is, ok := n.(*ast.IfStmt); ok {
			g := guarded || exprStr(p.fset, is.Cond) == cond
			if is.Init != nil {
				walk(is.Init, guarded)
			}
			walk(is.Cond, guarded)
			walk(is.Body, g)
			if is.Else != nil {
				walk(is.Else, guarded)
			}
			return
		}
		ast.Inspect(n, func(m ast.Node) bool {
			if m == n {
				if ce, ok := m.(*ast.CallExpr); ok {
					_ = ce // a call that is itself the root is handled below
				} else {
					return true
				}
			}
			switch x := m.(type) {
			case *ast.FuncLit:
				if skipLit[x] {
					return false
				}
			case *ast.BlockStmt:
				block(x, guarded)
				return false
			case *ast.IfStmt:
				g := guarded || exprStr(p.fset, x.Cond) == cond
				if x.Init != nil {
					walk(x.Init, guarded)
				}
				walk(x.Cond, guarded)
				walk(x.Body, g)
				if x.Else != nil {
					walk(x.Else, guarded)
				}
				return false
			case *ast.CallExpr:
				if exprStr(p.fset, x.Fun) == callee {
					res = append(res, guarded)
				} else if body := p.expansion(fd, closures, x, stack); body != nil {
					stack[body] = true
					withAliases(body, func() { walk(body, guarded) })
					delete(stack, body)
				}
			}
			return true
		})
	}
	withAliases(fd.Body, func() { walk(fd.Body, false) })
	return res
}

// negCond: "a != b" <-> "a == b", "!x" <-> "x".
func negCond(c string) string {
	switch {
	case strings.Contains(c, " != "):
		return strings.Replace(c, " != ", " == ", 1)
	case strings.Contains(c, " == "):
		return strings.Replace(c, " == ", " != ", 1)
	case strings.HasPrefix(c, "!"):
		return c[1:]
	}
	return "!" + c
}

// assignedFrom lists the left-hand sides of assignments in fd whose right-hand
// side is a call to one of the given constructors.
func assignedFrom(p *pkg, fd *ast.FuncDecl, ctors ...string) []string {
	var res []string
	if fd == nil {
		return res
	}
	ast.Inspect(fd.Body, func(n ast.Node) bool {
		as, ok := n.(*ast.AssignStmt)
		if !ok || len(as.Lhs) != 1 || len(as.Rhs) != 1 {
			return true
		}
		ce, ok := as.Rhs[0].(*ast.CallExpr)
		if !ok {
			return true
		}
		fn := exprStr(p.fset, ce.Fun)
		for _, c := range ctors {
			if fn == c {
				res = append(res, exprStr(p.fset, as.Lhs[0]))
			}
		}
		return true
	})
	return res
}

// firstArgs lists the first argument (as text) of every call of callee in fd.
func firstArgs(p *pkg, fd *ast.FuncDecl, callee string) []string {
	var res []string
	if fd == nil {
		return res
	}
	ast.Inspect(fd.Body, func(n ast.Node) bool {
		if ce, ok := n.(*ast.CallExpr); ok && exprStr(p.fset, ce.Fun) == callee && len(ce.Args) > 0 {
			res = append(res, exprStr(p.fset, ce.Args[0]))
		}
		return true
	})
	return res
}

// goStmts lists the functions started with `go` in fd.
func goStmts(p *pkg, fd *ast.FuncDecl) []string {
	var res []string
	if fd == nil {
		return res
	}
	ast.Inspect(fd.Body, func(n ast.Node) bool {
		if gs, ok := n.(*ast.GoStmt); ok {
			res = append(res, exprStr(p.fset, gs.Call.Fun))
		}
		return true
	})
	return res
}

// ---- lock nesting --------------------------------------------------------------

type lockInfo struct {
	acquires []string    // locks taken directly (normalised names)
	edges    [][2]string // (held, acquired) pairs inside the function
	calls    []struct {
		held []string
		name string
	}
}

// lockGraph extracts, for every function of the package, the mutexes it locks
// and what it locks or calls while holding them, and closes the relation over
// same-package calls (resolved by function/method name).
func lockGraph(p *pkg) [][2]string {
	tinfo := p.typeInfo()
	infos := map[string]*lockInfo{}
	var names []string
	for _, f := range p.files {
		for _, d := range f.Decls {
			fd, ok := d.(*ast.FuncDecl)
			if !ok || fd.Body == nil {
				continue
			}
			recvVar, recvType := "", ""
			if fd.Recv != nil && len(fd.Recv.List) == 1 {
				recvType = recvName(fd.Recv.List[0].Type)
				if len(fd.Recv.List[0].Names) == 1 {
					recvVar = fd.Recv.List[0].Names[0].Name
				}
			}
			norm := func(e string) string {
				if recvVar != "" && strings.HasPrefix(e, recvVar+".") {
					return recvType + "." + strings.TrimPrefix(e, recvVar+".")
				}
				return e
			}
			li := &lockInfo{}
			var held []string
			var walk func(n ast.Node)
			walk = func(n ast.Node) {
				ast.Inspect(n, func(m ast.Node) bool {
					switch x := m.(type) {
					case *ast.FuncLit:
						return false // separate goroutine / deferred closure: not this function's lock scope
					case *ast.GoStmt:
						return false // runs in another goroutine: not nested in this one's locks
					case *ast.DeferStmt:
						return false // defer X.Unlock(): the lock stays held to the end
					case *ast.CallExpr:
						fn := exprStr(p.fset, x.Fun)
						switch {
						case strings.HasSuffix(fn, ".Lock") || strings.HasSuffix(fn, ".RLock"):
							l := norm(strings.TrimSuffix(strings.TrimSuffix(fn, ".Lock"), ".RLock"))
							for _, h := range held {
								li.edges = append(li.edges, [2]string{h, l})
							}
							li.acquires = append(li.acquires, l)
							held = append(held, l)
						case strings.HasSuffix(fn, ".Unlock") || strings.HasSuffix(fn, ".RUnlock"):
							l := norm(strings.TrimSuffix(strings.TrimSuffix(fn, ".Unlock"), ".RUnlock"))
							for i := len(held) - 1; i >= 0; i-- {
								if held[i] == l {
									held = append(held[:i], held[i+1:]...)
									break
								}
							}
						default:
							if key := calleeKey(tinfo, x); key != "" {
								li.calls = append(li.calls, struct {
									held []string
									name string
								}{append([]string(nil), held...), key})
							}
						}
					}
					return true
				})
			}
			walk(fd.Body)
			key := fd.Name.Name
			if recvType != "" {
				key = recvType + "." + key
			}
			if old, ok := infos[key]; ok {
				old.acquires = append(old.acquires, li.acquires...)
				old.edges = append(old.edges, li.edges...)
				old.calls = append(old.calls, li.calls...)
			} else {
				infos[key] = li
				names = append(names, key)
			}
		}
	}
	sort.Strings(names)
	// transitive set of locks acquired by a function
	var acq func(name string, seen map[string]bool) []string
	acq = func(name string, seen map[string]bool) []string {
		li, ok := infos[name]
		if !ok || seen[name] {
			return nil
		}
		seen[name] = true
		res := append([]string(nil), li.acquires...)
		for _, c := range li.calls {
			res = append(res, acq(c.name, seen)...)
		}
		return res
	}
	set := map[[2]string]bool{}
	for _, n := range names {
		li := infos[n]
		for _, e := range li.edges {
			set[e] = true
		}
		for _, c := range li.calls {
			if len(c.held) == 0 {
				continue
			}
			for _, l := range acq(c.name, map[string]bool{}) {
				for _, h := range c.held {
					set[[2]string{h, l}] = true
				}
			}
		}
	}
	var edges [][2]string
	for e := range set {
		edges = append(edges, e)
	}
	sort.Slice(edges, func(i, j int) bool { return edges[i][0]+"|"+edges[i][1] < edges[j][0]+"|"+edges[j][1] })
	return edges
}

func leanBoolList(l []bool) string {
	q := make([]string, len(l))
	for i, b := range l {
		q[i] = fmt.Sprint(b)
	}
	return "[" + strings.Join(q, ", ") + "]"
}

// holdsMutex reports whether the function body starts by locking some mutex
// (`x.Lock()` as one of the first two statements).
func lockedFirst(p *pkg, fd *ast.FuncDecl) string {
	if fd == nil {
		return ""
	}
	for i, st := range fd.Body.List {
		if i > 1 {
			break
		}
		if es, ok := st.(*ast.ExprStmt); ok {
			if ce, ok := es.X.(*ast.CallExpr); ok {
				s := exprStr(p.fset, ce.Fun)
				if strings.HasSuffix(s, ".Lock") || strings.HasSuffix(s, ".RLock") {
					return s
				}
			}
		}
	}
	return ""
}

func main() {
	repo := "/repo"
	outPath := "/verif/lean/LncModel/Facts/Generated.lean"
	if len(os.Args) > 2 && os.Args[1] == "-vocab" {
		// print the vocabulary of the given tree (to be committed as vocabulary.txt)
		fmt.Println("# functions, methods and named closures of gbn/ and mailbox/ known to the models (factgen -vocab)")
		for _, d := range []string{"gbn", "mailbox"} {
			for _, k := range load(filepath.Join(os.Args[2], d)).vocabulary() {
				fmt.Println(k)
			}
		}
		return
	}
	if len(os.Args) > 1 {
		repo = os.Args[1]
	}
	if len(os.Args) > 2 {
		outPath = os.Args[2]
	}
	g := load(filepath.Join(repo, "gbn"))
	m := load(filepath.Join(repo, "mailbox"))
	g.resolved()
	m.resolved()
	gc := g.constants()
	mc := m.constants()

	o := &out{}
	o.f("/- GENERATED by /verif/harness/cmd/factgen from the current /repo sources. Do not edit. -/\n")
	o.f("import LncModel.Facts.Types\nnamespace Lnc.Facts\n\n")

	// --- gbn constants
	for _, n := range []string{"SYN", "DATA", "ACK", "NACK", "FIN", "SYNACK", "TRUE", "FALSE", "DefaultN",
		"awaitingTimeoutMultiplier", "defaultResendMultiplier", "defaultTimeoutUpdateFrequency"} {
		o.f("def gbn_%s : Option Nat := %s\n", n, optNat(gc[n]))
	}
	for _, n := range []string{"minimumResendTimeout", "defaultResendTimeout", "defaultHandshakeTimeout",
		"defaultFinSendTimeout"} {
		o.f("def gbn_%s : Option Nat := %s\n", n, optNat(gc[n]))
	}
	// --- mailbox constants
	for _, n := range []string{"macSize", "lengthHeaderSize", "encHeaderSize", "keyRotationInterval",
		"ActTwoPayloadSize", "defaultGrpcWriteBufSize", "NumPassphraseWords", "NumPassphraseEntropyBytes",
		"HandshakeVersion0", "HandshakeVersion1", "HandshakeVersion2", "MinHandshakeVersion",
		"MaxHandshakeVersion", "gbnN", "ProtocolVersion"} {
		o.f("def mb_%s : Option Nat := %s\n", n, optNat(mc[n]))
	}
	for _, n := range []string{"gbnTimeout", "gbnHandshakeTimeout", "gbnClientPingTimeout",
		"gbnServerPingTimeout", "gbnPongTimeout", "retryWait", "handshakeReadTimeout"} {
		o.f("def mb_%s : Option Nat := %s\n", n, optNat(mc[n]))
	}
	o.f("\n")

	// --- Deserialize guards
	lg := lenGuards(g)
	for _, n := range []string{"DATA", "ACK", "NACK", "SYN", "FIN", "SYNACK"} {
		v, ok := lg[n]
		if !ok {
			v = "none"
		}
		o.f("def guard_%s : Option Nat := %s\n", n, v)
	}
	o.f("\n")

	// --- select tables
	emitSelects(o, "sel_sendPacketsForever", selects(g, g.anyFunc("GoBackNConn", "sendPacketsForever")))
	emitSelects(o, "sel_receivePacketsForever", selects(g, g.anyFunc("GoBackNConn", "receivePacketsForever")))
	emitSelects(o, "sel_Send", selects(g, g.anyFunc("GoBackNConn", "Send")))
	emitSelects(o, "sel_Recv", selects(g, g.anyFunc("GoBackNConn", "Recv")))
	emitSelects(o, "sel_clientHandshake", selects(g, g.anyFunc("GoBackNConn", "clientHandshake")))
	emitSelects(o, "sel_serverHandshake", selects(g, g.anyFunc("GoBackNConn", "serverHandshake")))
	emitSelects(o, "sel_Close", selectsNode(g, g.anyFunc("GoBackNConn", "Close"), onceBody(g, g.anyFunc("GoBackNConn", "Close"))))
	emitSelects(o, "sel_waitForSync", selects(g, g.anyFunc("syncer", "waitForSync")))
	emitSelects(o, "sel_proceedAfterTime", selects(g, g.anyFunc("syncer", "proceedAfterTime")))

	// --- calls made by Close / start / receive loop prologue / ticker methods
	o.f("def calls_Close : List String := %s\n", leanStrList(calls(g, g.anyFunc("GoBackNConn", "Close"))))
	o.f("def calls_start : List String := %s\n", leanStrList(calls(g, g.anyFunc("GoBackNConn", "start"))))
	o.f("def calls_receivePacketsForever : List String := %s\n",
		leanStrList(calls(g, g.anyFunc("GoBackNConn", "receivePacketsForever"))))
	o.f("def calls_sendPacketsForever : List String := %s\n",
		leanStrList(calls(g, g.anyFunc("GoBackNConn", "sendPacketsForever"))))
	o.f("def calls_tickerStop : List String := %s\n",
		leanStrList(calls(g, g.anyFunc("IntervalAwareForceTicker", "Stop"))))
	o.f("def calls_tickerResetWithInterval : List String := %s\n",
		leanStrList(calls(g, g.anyFunc("IntervalAwareForceTicker", "ResetWithInterval"))))
	o.f("def calls_tickerResetBody : List String := %s\n",
		leanStrList(calls(g, g.anyFunc("IntervalAwareForceTicker", "resetWithIntervalUnsafe"))))
	o.f("def calls_tickerReset : List String := %s\n",
		leanStrList(calls(g, g.anyFunc("IntervalAwareForceTicker", "Reset"))))
	o.f("def lock_tickerReset : String := %s\n",
		leanStr(lockedFirst(g, g.anyFunc("IntervalAwareForceTicker", "Reset"))))
	{
		edges := lockGraph(g)
		parts := make([]string, len(edges))
		for i, e := range edges {
			parts[i] = fmt.Sprintf("(%s, %s)", leanStr(e[0]), leanStr(e[1]))
		}
		o.f("def lockEdges_gbn : List (String × String) := [%s]\n", strings.Join(parts, ", "))
		medges := lockGraph(m)
		mparts := make([]string, len(medges))
		for i, e := range medges {
			mparts[i] = fmt.Sprintf("(%s, %s)", leanStr(e[0]), leanStr(e[1]))
		}
		o.f("def lockEdges_mailbox : List (String × String) := [%s]\n", strings.Join(mparts, ", "))
	}
	o.f("def created_start : List String := %s\n", leanStrList(assignedFrom(g,
		g.anyFunc("GoBackNConn", "start"), "NewIntervalAwareForceTicker", "time.NewTicker")))
	var stopped []string
	for _, c := range calls(g, g.anyFunc("GoBackNConn", "Close")) {
		if strings.HasSuffix(c, ".Stop") {
			stopped = append(stopped, strings.TrimSuffix(c, ".Stop"))
		}
	}
	o.f("def stopped_Close : List String := %s\n", leanStrList(stopped))
	o.f("def ctxarg_recvFromStream : List String := %s\n", leanStrList(firstArgs(g,
		g.anyFunc("GoBackNConn", "receivePacketsForever"), "g.cfg.recvFromStream")))
	o.f("def ctxarg_sendPacket_recvLoop : List String := %s\n", leanStrList(firstArgs(g,
		g.anyFunc("GoBackNConn", "receivePacketsForever"), "g.sendPacket")))
	o.f("def ctxarg_sendPacket_sendLoop : List String := %s\n", leanStrList(firstArgs(g,
		g.anyFunc("GoBackNConn", "sendPacketsForever"), "g.sendPacket")))
	o.f("def go_start : List String := %s\n", leanStrList(goStmts(g, g.anyFunc("GoBackNConn", "start"))))
	o.f("def go_Close : List String := %s\n", leanStrList(goStmts(g, g.anyFunc("GoBackNConn", "Close"))))
	o.f("def go_syncerProcessACK : List String := %s\n", leanStrList(goStmts(g, g.anyFunc("syncer", "processACK"))))
	o.f("def calls_queueResend : List String := %s\n", leanStrList(calls(g, g.anyFunc("queue", "resend"))))
	o.f("def calls_queueStop : List String := %s\n", leanStrList(calls(g, g.anyFunc("queue", "stop"))))
	o.f("def guarded_pongReset : List Bool := %s\n", leanBoolList(guardedCalls(g,
		g.anyFunc("GoBackNConn", "sendPacketsForever"), "g.pongTicker.Reset", "!g.pongTicker.IsActive()")))
	o.f("def skel_sendPacketsForever : List String := %s\n", leanStrList(skeleton(g, g.anyFunc("GoBackNConn", "sendPacketsForever"))))
	o.f("def skel_receivePacketsForever : List String := %s\n", leanStrList(skeleton(g, g.anyFunc("GoBackNConn", "receivePacketsForever"))))
	o.f("def skel_serverHandshake : List String := %s\n", leanStrList(skeleton(g, g.anyFunc("GoBackNConn", "serverHandshake"))))
	o.f("def skel_clientHandshake : List String := %s\n", leanStrList(skeleton(g, g.anyFunc("GoBackNConn", "clientHandshake"))))
	o.f("def skel_start : List String := %s\n", leanStrList(skeleton(g, g.anyFunc("GoBackNConn", "start"))))
	o.f("def skel_Send : List String := %s\n", leanStrList(skeleton(g, g.anyFunc("GoBackNConn", "Send"))))
	recvSkel := skeleton(g, g.anyFunc("GoBackNConn", "Recv"))
	o.f("def skel_Recv : List String := %s\n", leanStrList(recvSkel))
	// the three steps of Recv's reassembly in source order, whatever the locals are called and
	// whichever way the final-chunk test is written: taking a packet from recvDataChan, appending
	// to the reassembly buffer, testing FinalChunk
	var recvOrder []string
	for _, tok := range recvSkel {
		switch {
		case tok == "case:recv g.recvDataChan":
			recvOrder = append(recvOrder, "recv")
		case tok == "call:append":
			recvOrder = append(recvOrder, "append")
		case strings.HasPrefix(tok, "cond:") && strings.Contains(tok, ".FinalChunk"):
			recvOrder = append(recvOrder, "final-test")
		}
	}
	o.f("def order_Recv : List String := %s\n", leanStrList(recvOrder))
	o.f("def typecases_resendReset_recvLoop : List String := %s\n", leanStrList(typeCasesOf(g,
		g.anyFunc("GoBackNConn", "receivePacketsForever"), "g.resendTicker.Reset")))
	o.f("def lock_tickerResetWithInterval : String := %s\n",
		leanStr(lockedFirst(g, g.anyFunc("IntervalAwareForceTicker", "ResetWithInterval"))))
	o.f("def lock_tickerStop : String := %s\n",
		leanStr(lockedFirst(g, g.anyFunc("IntervalAwareForceTicker", "Stop"))))
	o.f("def lock_processACK : String := %s\n", leanStr(lockedFirst(g, g.anyFunc("queue", "processACK"))))
	o.f("def lock_processNACK : String := %s\n", leanStr(lockedFirst(g, g.anyFunc("queue", "processNACK"))))
	o.f("def lock_addPacket : String := %s\n", leanStr(lockedFirst(g, g.anyFunc("queue", "addPacket"))))
	o.f("def lock_size : String := %s\n", leanStr(lockedFirst(g, g.anyFunc("queue", "size"))))
	o.f("\n")

	// --- read modes of the noise handshake / record layer
	o.f("def reads_readMsgPattern : List String := %s\n",
		leanStrList(readCalls(m, m.anyFunc("handshakeState", "readMsgPattern"))))
	o.f("def reads_readTokens : List String := %s\n",
		leanStrList(readCalls(m, m.anyFunc("handshakeState", "readTokens"))))
	o.f("def reads_ReadHeader : List String := %s\n",
		leanStrList(readCalls(m, m.anyFunc("Machine", "ReadHeader"))))
	o.f("def reads_ReadBody : List String := %s\n",
		leanStrList(readCalls(m, m.anyFunc("Machine", "ReadBody"))))

	// --- session exclusivity: Accept / Dial wait for the previous connection
	o.f("def events_Accept : List String := %s\n", leanStrList(events(m, m.anyFunc("Server", "Accept"))))
	o.f("def events_Dial : List String := %s\n", leanStrList(events(m, m.anyFunc("Client", "Dial"))))
	o.f("def guarded_AcceptWait : List Bool := %s\n", leanBoolList(guardedCalls(m,
		m.anyFunc("Server", "Accept"), "s.mailboxConn.Done", "s.mailboxConn != nil")))
	o.f("def guarded_DialWait : List Bool := %s\n", leanBoolList(guardedCalls(m,
		m.anyFunc("Client", "Dial"), "c.mailboxConn.Done", "c.mailboxConn != nil")))
	o.f("def events_ServerConnClose : List String := %s\n", leanStrList(events(m, m.anyFunc("ServerConn", "Close"))))
	o.f("def events_ClientConnClose : List String := %s\n", leanStrList(events(m, m.anyFunc("ClientConn", "Close"))))

	// --- stack composition: how the layers are plugged together
	o.f("def events_kitRead : List String := %s\n", leanStrList(events(m, m.anyFunc("connKit", "Read"))))
	o.f("def events_kitWrite : List String := %s\n", leanStrList(events(m, m.anyFunc("connKit", "Write"))))
	o.f("def events_cliRecvCtl : List String := %s\n", leanStrList(events(m, m.anyFunc("ClientConn", "ReceiveControlMsg"))))
	o.f("def events_cliSendCtl : List String := %s\n", leanStrList(events(m, m.anyFunc("ClientConn", "SendControlMsg"))))
	o.f("def events_srvRecvCtl : List String := %s\n", leanStrList(events(m, m.anyFunc("ServerConn", "ReceiveControlMsg"))))
	o.f("def events_srvSendCtl : List String := %s\n", leanStrList(events(m, m.anyFunc("ServerConn", "SendControlMsg"))))
	{
		// every gbn option the mailbox package passes to the GBN constructors
		seen := map[string]bool{}
		var opts []string
		for _, f := range m.files {
			ast.Inspect(f, func(n ast.Node) bool {
				if ce, ok := n.(*ast.CallExpr); ok {
					fn := exprStr(m.fset, ce.Fun)
					if strings.HasPrefix(fn, "gbn.With") && !seen[fn] {
						seen[fn] = true
						opts = append(opts, fn)
					}
				}
				return true
			})
		}
		sort.Strings(opts)
		o.f("def gbnOptions_mailbox : List String := %s\n", leanStrList(opts))
	}

	o.f("def skel_ClientConnClose : List String := %s\n", leanStrList(skeleton(m, m.anyFunc("ClientConn", "Close"))))
	o.f("def skel_ServerConnClose : List String := %s\n", leanStrList(skeleton(m, m.anyFunc("ServerConn", "Close"))))
	// --- control skeletons of the record layer
	for _, fn := range [][2]string{{"cipherState", "Encrypt"}, {"cipherState", "Decrypt"}, {"cipherState", "rotateKey"},
		{"cipherState", "InitializeKey"}, {"Machine", "ReadHeader"}, {"Machine", "ReadBody"}, {"Machine", "ReadMessage"}, {"Machine", "WriteMessage"}} {
		o.f("def skel_%s_%s : List String := %s\n", fn[0], fn[1], leanStrList(skeleton(m, m.anyFunc(fn[0], fn[1]))))
	}

	o.f("\nend Lnc.Facts\n")

	newB := []byte(o.sb.String())
	old, _ := os.ReadFile(outPath)
	if string(old) == string(newB) {
		return
	}
	if err := os.MkdirAll(filepath.Dir(outPath), 0o755); err != nil {
		fatal(err)
	}
	tmp := outPath + ".tmp"
	if err := os.WriteFile(tmp, newB, 0o644); err != nil {
		fatal(err)
	}
	if err := os.Rename(tmp, outPath); err != nil {
		fatal(err)
	}
}
