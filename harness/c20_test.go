package harness

import (
	"fmt"
	"math"
	"testing"
	"testing/synctest"
	"time"

	"github.com/lightninglabs/lightning-node-connect/gbn"
)

type tmCfg struct {
	Static    bool
	Resend    time.Duration
	Handshake time.Duration
	Mult      int
	Freq      int
	Pct       float32
}

type tmEvent struct {
	Sent   bool
	Kind   string
	Seq    uint8
	Resent bool
	Gap    time.Duration
}

func tmMsg(kind string, seq uint8) gbn.Message {
	switch kind {
	case "syn":
		return &gbn.PacketSYN{N: seq}
	case "synack":
		return &gbn.PacketSYNACK{}
	case "data":
		return &gbn.PacketData{Seq: seq}
	case "ack":
		return &gbn.PacketACK{Seq: seq}
	case "nack":
		return &gbn.PacketNACK{Seq: seq}
	}
	return &gbn.PacketFIN{}
}

func tmShow(m *gbn.TimeoutManager) string {
	st := m.VState()
	return fmt.Sprintf("%d %d %d %d %d %s", int64(m.GetResendTimeout()), int64(m.GetHandshakeTimeout()),
		st.ResendBoostCount, st.HandshakeBoostCount, st.ResponseCounter, b01(st.HasSetDynamic))
}

// tmHistory drives a real TimeoutManager inside a bubble (exact control of
// time.Now) and evaluates the C20 oracles directly on its getters.
func tmHistory(t *testing.T, r *Recorder, cfg tmCfg, evs []tmEvent, class string) {
	var ops, outs []string
	synctest.Test(t, func(t *testing.T) {
		start := time.Now()
		var opts []gbn.TimeoutOptions
		if cfg.Static {
			opts = append(opts, gbn.WithStaticResendTimeout(cfg.Resend))
		}
		opts = append(opts, gbn.WithHandshakeTimeout(cfg.Handshake), gbn.WithResendMultiplier(cfg.Mult),
			gbn.WithTimeoutUpdateFrequency(cfg.Freq), gbn.WithBoostPercent(cfg.Pct))
		m := gbn.NewTimeOutManager(nil, opts...)
		resend := cfg.Resend
		if !cfg.Static {
			resend = time.Second
		}
		ops = append(ops, fmt.Sprintf("tm.new %s %d %d %d %d %d", b01(cfg.Static), int64(resend),
			int64(cfg.Handshake), cfg.Mult, cfg.Freq, math.Float32bits(cfg.Pct)))
		outs = append(outs, tmShow(m))
		// independent bookkeeping for the oracle
		clean := map[uint8]bool{}
		cleanSYN := false
		var lastBoostAt time.Duration = -1
		for i, e := range evs {
			time.Sleep(e.Gap)
			now := time.Since(start)
			before := m.VState()
			beforeTimeout := m.GetResendTimeout()
			msg := tmMsg(e.Kind, e.Seq)
			if e.Sent {
				m.Sent(msg, e.Resent)
				ops = append(ops, fmt.Sprintf("tm.sent %s %d %s %d", e.Kind, e.Seq, b01(e.Resent), int64(now)))
			} else {
				m.Received(msg)
				ops = append(ops, fmt.Sprintf("tm.recv %s %d %d", e.Kind, e.Seq, int64(now)))
			}
			outs = append(outs, tmShow(m))
			after := m.VState()
			cur := m.GetResendTimeout()
			where := map[string]interface{}{"cfg": cfg, "events": evs[:i+1]}
			if cfg.Static {
				if cur != cfg.Resend || after != before {
					r.Violate("C20/static-timeout-changed", fmt.Sprintf("static %v became %v / state changed at event %d", cfg.Resend, cur, i), where)
				}
				continue
			}
			if cur < time.Second {
				r.Violate("C20/below-floor", fmt.Sprintf("adaptive resend timeout %v below 1s after event %d", cur, i), where)
			}
			// base timeout recomputed only from a clean sample
			if after.ResendTimeout != before.ResendTimeout || (after.HasSetDynamic && !before.HasSetDynamic) {
				okSample := !e.Sent && ((e.Kind == "ack" && clean[e.Seq]) || ((e.Kind == "syn" || e.Kind == "synack") && cleanSYN))
				if !okSample {
					r.Violate("C20/recompute-from-dirty-sample", fmt.Sprintf("base timeout %v -> %v at event %d (%+v) without a clean sample",
						before.ResendTimeout, after.ResendTimeout, i, e), where)
				}
				if after.ResendBoostCount != 0 || cur != after.ResendTimeout {
					r.Violate("C20/fresh-sample-keeps-boost", fmt.Sprintf("after recompute boostCount=%d timeout=%v measured=%v", after.ResendBoostCount, cur, after.ResendTimeout), where)
				}
				lastBoostAt = now
			}
			// grows only through boosts, one step per base interval
			if cur > beforeTimeout && after.ResendTimeout == before.ResendTimeout {
				if !(e.Sent && e.Kind == "data" && e.Resent) || after.ResendBoostCount != before.ResendBoostCount+1 {
					r.Violate("C20/grew-without-retransmission", fmt.Sprintf("timeout %v -> %v at event %d (%+v)", beforeTimeout, cur, i, e), where)
				}
				if lastBoostAt >= 0 && now-lastBoostAt < before.ResendOriginal {
					r.Violate("C20/boost-too-frequent", fmt.Sprintf("boost at %v, previous boost/recompute at %v, base %v", now, lastBoostAt, before.ResendOriginal), where)
				}
				lastBoostAt = now
			}
			// maintain the clean-sample bookkeeping
			switch {
			case e.Sent && e.Kind == "data":
				clean[e.Seq] = !e.Resent
			case e.Sent && e.Kind == "syn":
				cleanSYN = !e.Resent
			case !e.Sent && e.Kind == "ack":
				clean[e.Seq] = false
			case !e.Sent && (e.Kind == "syn" || e.Kind == "synack"):
				cleanSYN = false
			}
		}
	})
	r.mu.Lock()
	for i := range ops {
		r.ops.WriteString(ops[i] + "\n")
		r.outs.WriteString(outs[i] + "\n")
		r.Lines++
	}
	r.mu.Unlock()
	resent := 0
	for _, e := range evs {
		if e.Resent {
			resent++
		}
	}
	r.Case(fmt.Sprintf("%+v|%d|%v", cfg, len(evs), evs[:min(len(evs), 6)]), resent > 0 && len(evs) > 3, class)
}

func TestC20(t *testing.T) {
	r := NewRecorder(t, "C20")
	defer r.Close(t)
	rng := newRand(20)
	gaps := []time.Duration{0, 1, time.Millisecond, 17 * time.Millisecond, 300 * time.Millisecond, time.Second,
		1500 * time.Millisecond, 7 * time.Second, 3 * time.Minute}
	kinds := []string{"data", "data", "data", "ack", "ack", "ack", "syn", "synack", "nack", "fin"}
	for i := 0; i < pick(3000, 100000); i++ {
		cfg := tmCfg{
			Static: rng.Intn(5) == 0, Resend: []time.Duration{time.Second, 300 * time.Millisecond, 4 * time.Second}[rng.Intn(3)],
			Handshake: []time.Duration{time.Second, 2 * time.Second}[rng.Intn(2)],
			Mult:      []int{1, 2, 5, 1000, 1 << 40}[rng.Intn(5)],
			Freq:      []int{1, 2, 3, 100}[rng.Intn(4)],
			Pct:       []float32{0.01, 0.5, 3}[rng.Intn(3)],
		}
		n := 10 + rng.Intn(pick(60, 390))
		nseq := 1 + rng.Intn(4)
		evs := make([]tmEvent, n)
		for k := range evs {
			kind := kinds[rng.Intn(len(kinds))]
			sent := rng.Intn(2) == 0
			switch kind {
			case "data":
				sent = rng.Intn(4) > 0
			case "ack":
				sent = rng.Intn(6) == 0
			}
			evs[k] = tmEvent{Sent: sent, Kind: kind, Seq: uint8(rng.Intn(nseq)), Resent: rng.Intn(3) == 0,
				Gap: gaps[rng.Intn(len(gaps))]}
		}
		class := "adaptive"
		if cfg.Static {
			class = "static"
		}
		tmHistory(t, r, cfg, evs, class)
	}
	// directed: boost spacing, reuse of a sequence number after a resend
	tmHistory(t, r, tmCfg{Resend: time.Second, Handshake: time.Second, Mult: 5, Freq: 1, Pct: 0.5}, []tmEvent{
		{true, "data", 0, false, 0}, {false, "ack", 0, false, 300 * time.Millisecond},
		{true, "data", 1, false, 100 * time.Millisecond}, {true, "data", 1, true, 1600 * time.Millisecond},
		{false, "ack", 1, false, 100 * time.Millisecond}, {true, "data", 2, false, 100 * time.Millisecond},
		{true, "data", 2, true, 100 * time.Millisecond}, {true, "data", 2, true, 1500 * time.Millisecond},
		{true, "data", 1, false, 10 * time.Millisecond}, {false, "ack", 1, false, 2 * time.Second},
	}, "directed")
	r.Sample(map[string]string{"history": "sent DATA0@0 recv ACK0@300ms sent DATA1@400ms resent DATA1@2s ...", "model": "tm.sent/tm.recv lines"})
}
