package harness

import (
	"fmt"
	"math"
	"testing"
	"testing/synctest"
	"time"

	"github.com/lightninglabs/lightning-node-connect/gbn"
)

type tmCfg struct {
	Static    bool
	Resend    time.Duration
	Handshake time.Duration
	Mult      int
	Freq      int
	Pct       float32
}

type tmEvent struct {
	Sent   bool
	Kind   string
	Seq    uint8
	Resent bool
	Gap    time.Duration
}

func tmMsg(kind string, seq uint8) gbn.Message {
	switch kind {
	case "syn":
		return &gbn.PacketSYN{N: seq}
	case "synack":
		return &gbn.PacketSYNACK{}
	case "data":
		return &gbn.PacketData{Seq: seq}
	case "ack":
		return &gbn.PacketACK{Seq: seq}
	case "nack":
		return &gbn.PacketNACK{Seq: seq}
	}
	return &gbn.PacketFIN{}
}

func tmShow(m *gbn.TimeoutManager) string {
	st := m.VState()
	return fmt.Sprintf("%d %d %d %d %d %s", int64(m.GetResendTimeout()), int64(m.GetHandshakeTimeout()),
		st.ResendBoostCount, st.HandshakeBoostCount, st.ResponseCounter, b01(st.HasSetDynamic))
}

// tmHistory drives a real TimeoutManager inside a bubble (exact control of
// time.Now) and evaluates the C20 oracles directly on its getters.
func tmHistory(t *testing.T, r *Recorder, cfg tmCfg, evs []tmEvent, class string) {
	var ops, outs []string
	synctest.Test(t, func(t *testing.T) {
		start := time.Now()
		var opts []gbn.TimeoutOptions
		if cfg.Static {
			opts = append(opts, gbn.WithStaticResendTimeout(cfg.Resend))
		}
		opts = append(opts, gbn.WithHandshakeTimeout(cfg.Handshake), gbn.WithResendMultiplier(cfg.Mult),
			gbn.WithTimeoutUpdateFrequency(cfg.Freq), gbn.WithBoostPercent(cfg.Pct))
		m := gbn.NewTimeOutManager(nil, opts...)
		resend := cfg.Resend
		if !cfg.Static {
			resend = time.Second
		}
		ops = append(ops, fmt.Sprintf("tm.new %s %d %d %d %d %d", b01(cfg.Static), int64(resend),
			int64(cfg.Handshake), cfg.Mult, cfg.Freq, math.Float32bits(cfg.Pct)))
		outs = append(outs, tmShow(m))
		// independent bookkeeping for the oracle
		clean := map[uint8]bool{}
		cleanSYN := false
		var lastBoostAt time.Duration = -1
		for i, e := range evs {
			time.Sleep(e.Gap)
			now := time.Since(start)
			before := m.VState()
			beforeTimeout := m.GetResendTimeout()
			msg := tmMsg(e.Kind, e.Seq)
			if e.Sent {
				m.Sent(msg, e.Resent)
				ops = append(ops, fmt.Sprintf("tm.sent %s %d %s %d", e.Kind, e.Seq, b01(e.Resent), int64(now)))
			} else {
				m.Received(msg)
				ops = append(ops, fmt.Sprintf("tm.recv %s %d %d", e.Kind, e.Seq, int64(now)))
			}
			outs = append(outs, tmShow(m))
			after := m.VState()
			cur := m.GetResendTimeout()
			where := map[string]interface{}{"cfg": cfg, "events": evs[:i+1]}
			if cfg.Static {
				if cur != cfg.Resend || after != before {
					r.Violate("C20/static-timeout-changed", fmt.Sprintf("static %v became %v / state changed at event %d", cfg.Resend, cur, i), where)
				}
				continue
			}
			if cur < time.Second {
				r.Violate("C20/below-floor", fmt.Sprintf("adaptive resend timeout %v below 1s after event %d", cur, i), where)
			}
			// base timeout recomputed only from a clean sample
			if after.ResendTimeout != before.ResendTimeout || (after.HasSetDynamic && !before.HasSetDynamic) {
				okSample := !e.Sent && ((e.Kind == "ack" && clean[e.Seq]) || ((e.Kind == "syn" || e.Kind == "synack") && cleanSYN))
				if !okSample {
					r.Violate("C20/recompute-from-dirty-sample", fmt.Sprintf("base timeout %v -> %v at event %d (%+v) without a clean sample",
						before.ResendTimeout, after.ResendTimeout, i, e), where)
				}
				if after.ResendBoostCount != 0 || cur != after.ResendTimeout {
					r.Violate("C20/fresh-sample-keeps-boost", fmt.Sprintf("after recompute boostCount=%d timeout=%v measured=%v", after.ResendBoostCount, cur, after.ResendTimeout), where)
				}
				lastBoostAt = now
			}
			// grows only through boosts, one step per base interval
			if cur > beforeTimeout && after.ResendTimeout == before.ResendTimeout {
				if !(e.Sent && e.Kind == "data" && e.Resent) || after.ResendBoostCount != before.ResendBoostCount+1 {
					r.Violate("C20/grew-without-retransmission", fmt.Sprintf("timeout %v -> %v at event %d (%+v)", beforeTimeout, cur, i, e), where)
				}
				if lastBoostAt >= 0 && now-lastBoostAt < before.ResendOriginal {
					r.Violate("C20/boost-too-frequent", fmt.Sprintf("boost at %v, previous boost/recompute at %v, base %v", now, lastBoostAt, before.ResendOriginal), where)
				}
				lastBoostAt = now
			}
			// maintain the clean-sample bookkeeping
			switch {
			case e.Sent && e.Kind == "data":
				clean[e.Seq] = !e.Resent
			case e.Sent && e.Kind == "syn":
				cleanSYN = !e.Resent
			case !e.Sent && e.Kind == "ack":
				clean[e.Seq] = false
			case !e.Sent && (e.Kind == "syn" || e.Kind == "synack"):
				cleanSYN = false
			}
		}
	})
	r.mu.Lock()
	for i := range ops {
		r.ops.WriteString(ops[i] + "\n")
		r.outs.WriteString(outs[i] + "\n")
		r.Lines++
	}
	r.mu.Unlock()
	resent := 0
	for _, e := range evs {
		if e.Resent {
			resent++
		}
	}
	r.Case(fmt.Sprintf("%+v|%d|%v", cfg, len(evs), evs[:min(len(evs), 6)]), resent > 0 && len(evs) > 3, class)
}

// tmConnTrace: the timeout manager inside a real connection. A client/server pair runs in a bubble
// (keepalive on, a few messages with pauses long enough for pings, one data-phase packet of one
// direction lost once); afterwards every packet an endpoint emitted and every packet handed to its
// handshake or receive loop is replayed, with its virtual time stamp, through the timeout-manager
// model (tmq.* lines): the state the model ends in must be the state the connection's own manager
// ended in (tm.show). Whether an emission was a retransmission is told from the event log (a DATA
// packet whose sequence number is not the next new one; a second SYN), not taken from the code.
// Oracle on the real run: the manager counted no more round-trip samples than there were
// acknowledgements of packets that had not been retransmitted.
func tmConnTrace(t *testing.T, r *Recorder, n uint8, freq, dir, k int) {
	tmConnTraceHS(t, r, n, freq, dir, k, false)
}

// With dupSYN the transport duplicates the client's SYN: the server answers both copies, so its own
// SYN goes out twice and the SYNACK that follows is no round-trip sample.
func tmConnTraceHS(t *testing.T, r *Recorder, n uint8, freq, dir, k int, dupSYN bool) {
	const lat = 150 * time.Millisecond
	faults := make([]Fault, k+1)
	faults[k] = Fault{Drop: true}
	sc := &GbnScenario{Name: fmt.Sprintf("tm-conn-trace:n=%d:freq=%d:lost=%d/%d", n, freq, dir, k), N: n, Latency: lat,
		PingNs: int64(4 * time.Second), PongNs: int64(6 * time.Second), HsTimeout: 2 * time.Second, TmFreq: freq,
		Msgs: [2][]int{{3, 5, 2, 9}, {4, 1}}, SendGap: [2]time.Duration{9 * time.Second, 13 * time.Second}, RunFor: 50 * time.Second}
	sc.Faults[dir] = cleanHS(dir, faults)
	if dupSYN {
		sc.Name += ":dup-syn"
		if len(sc.Faults[0]) == 0 {
			sc.Faults[0] = make([]Fault, 1)
		}
		sc.Faults[0][0] = Fault{Dup: true}
	}
	var dynAtConnect [2]bool
	var final [2]string
	var counter [2]int
	res := RunGbn(t, sc, func(sim *Sim, res *GbnResult, phase string) {
		if phase == "connected" {
			for ep := 0; ep < 2; ep++ {
				dynAtConnect[ep] = res.Conns[ep].VTimeouts().VState().HasSetDynamic
			}
		}
		if phase == "before-close" {
			for ep := 0; ep < 2; ep++ {
				final[ep] = tmShow(res.Conns[ep].VTimeouts())
				counter[ep] = res.Conns[ep].VTimeouts().VState().ResponseCounter
			}
		}
	})
	r.Case(sc.Name, true, "conn-trace")
	if res.Panic != "" || res.HsErr[0] != "" || res.HsErr[1] != "" || final[0] == "" {
		if res.Panic != "" {
			r.Violate("C20/conn-run-failed", res.Panic, sc)
		}
		return
	}
	for ep := 0; ep < 2; ep++ {
		ops := []string{fmt.Sprintf("tmq.new 0 %d %d 5 %d %d", int64(time.Second), int64(2*time.Second), freq, math.Float32bits(0.5))}
		nextSeq := uint8(0)
		syns := 0
		clean := map[uint8]bool{}
		cleanAcks := 0
		for _, e := range res.Events {
			if e.EP != ep || e.At > res.Duration {
				continue
			}
			if e.Kind != "emit" && !(e.Kind == "deliver" && (e.By == "hs" || e.By == "recvloop")) {
				continue
			}
			m, err := gbn.Deserialize(e.Pkt)
			if err != nil {
				continue
			}
			kind, seq := "fin", uint8(0)
			switch p := m.(type) {
			case *gbn.PacketData:
				kind, seq = "data", p.Seq
			case *gbn.PacketACK:
				kind, seq = "ack", p.Seq
			case *gbn.PacketNACK:
				kind, seq = "nack", p.Seq
			case *gbn.PacketSYN:
				kind = "syn"
			case *gbn.PacketSYNACK:
				kind = "synack"
			}
			if e.Kind == "emit" {
				resent := false
				switch kind {
				case "data":
					if seq == nextSeq {
						nextSeq = uint8((int(nextSeq) + 1) % (int(n) + 1))
					} else {
						resent = true
					}
					clean[seq] = !resent
				case "syn":
					resent = syns > 0
					syns++
				}
				ops = append(ops, fmt.Sprintf("tmq.sent %s %d %s %d", kind, seq, b01(resent), int64(e.At)))
			} else {
				if kind == "ack" && clean[seq] {
					cleanAcks++
					clean[seq] = false
				}
				ops = append(ops, fmt.Sprintf("tmq.recv %s %d %d", kind, seq, int64(e.At)))
			}
		}
		if syns > 1 && dynAtConnect[ep] {
			r.Violate("C20/sample-from-retransmitted-syn", fmt.Sprintf("endpoint %d transmitted its SYN %d times during the handshake, yet the adaptive timeout had been set from a handshake sample when the handshake returned", ep, syns), sc)
		}
		if freq > 500 && counter[ep] > cleanAcks {
			r.Violate("C20/sample-from-retransmitted-packet", fmt.Sprintf("endpoint %d counted %d round-trip samples, but only %d acknowledgements were for packets that had not been retransmitted (window %d, keepalive 4 s / 6 s, packet %d of direction %d lost once)",
				ep, counter[ep], cleanAcks, n, k, dir), sc)
		}
		if dupSYN {
			// which of the packets read during a restarted handshake the handshake code reports to
			// the manager is not visible from outside: this scenario is judged by the oracle only
			continue
		}
		r.EmitOKBlock(ops)
		r.Emit("tm.show", final[ep])
	}
}

func TestC20(t *testing.T) {
	r := NewRecorder(t, "C20")
	defer r.Close(t)
	for _, freq := range []int{1000, 1, 3} {
		for dir := 0; dir < 2; dir++ {
			for k := 0; k < pick(5, 9); k++ {
				tmConnTrace(t, r, []uint8{5, 1, 20}[k%3], freq, dir, k)
			}
		}
		tmConnTraceHS(t, r, 5, freq, 1, 3, true)
	}
	rng := newRand(20)
	gaps := []time.Duration{0, 1, time.Millisecond, 17 * time.Millisecond, 300 * time.Millisecond, time.Second,
		1500 * time.Millisecond, 7 * time.Second, 3 * time.Minute}
	kinds := []string{"data", "data", "data", "ack", "ack", "ack", "syn", "synack", "nack", "fin"}
	for i := 0; i < pick(3000, 100000); i++ {
		cfg := tmCfg{
			Static: rng.Intn(5) == 0, Resend: []time.Duration{time.Second, 300 * time.Millisecond, 4 * time.Second}[rng.Intn(3)],
			Handshake: []time.Duration{time.Second, 2 * time.Second}[rng.Intn(2)],
			Mult:      []int{1, 2, 5, 1000, 1 << 40}[rng.Intn(5)],
			Freq:      []int{1, 2, 3, 100}[rng.Intn(4)],
			Pct:       []float32{0.01, 0.5, 3}[rng.Intn(3)],
		}
		n := 10 + rng.Intn(pick(60, 390))
		nseq := 1 + rng.Intn(4)
		evs := make([]tmEvent, n)
		for k := range evs {
			kind := kinds[rng.Intn(len(kinds))]
			sent := rng.Intn(2) == 0
			switch kind {
			case "data":
				sent = rng.Intn(4) > 0
			case "ack":
				sent = rng.Intn(6) == 0
			}
			evs[k] = tmEvent{Sent: sent, Kind: kind, Seq: uint8(rng.Intn(nseq)), Resent: rng.Intn(3) == 0,
				Gap: gaps[rng.Intn(len(gaps))]}
		}
		class := "adaptive"
		if cfg.Static {
			class = "static"
		}
		tmHistory(t, r, cfg, evs, class)
	}
	// directed: boost spacing, reuse of a sequence number after a resend
	tmHistory(t, r, tmCfg{Resend: time.Second, Handshake: time.Second, Mult: 5, Freq: 1, Pct: 0.5}, []tmEvent{
		{true, "data", 0, false, 0}, {false, "ack", 0, false, 300 * time.Millisecond},
		{true, "data", 1, false, 100 * time.Millisecond}, {true, "data", 1, true, 1600 * time.Millisecond},
		{false, "ack", 1, false, 100 * time.Millisecond}, {true, "data", 2, false, 100 * time.Millisecond},
		{true, "data", 2, true, 100 * time.Millisecond}, {true, "data", 2, true, 1500 * time.Millisecond},
		{true, "data", 1, false, 10 * time.Millisecond}, {false, "ack", 1, false, 2 * time.Second},
	}, "directed")
	r.Sample(map[string]string{"history": "sent DATA0@0 recv ACK0@300ms sent DATA1@400ms resent DATA1@2s ...", "model": "tm.sent/tm.recv lines"})
}
