package harness

import (
	"bytes"
	"fmt"
	"testing"
)

func TestC04(t *testing.T) {
	r := NewRecorder(t, "C04")
	defer r.Close(t)
	var cases []*noiseCase
	// every version-byte substitution 0..3 of each act, in all combinations, all version ranges
	for _, vr := range versionRanges() {
		for _, kk := range []bool{false, true} {
			acts := 3
			if kk {
				acts = 2
			}
			n := 1
			for i := 0; i < acts; i++ {
				n *= 5
			}
			for code := 0; code < n; code++ {
				var rules []noiseRule
				c := code
				for a := 1; a <= acts; a++ {
					d := c % 5
					c /= 5
					if d < 4 {
						rules = append(rules, noiseRule{a, 0, fmt.Sprintf("v%d", d)})
					}
				}
				nc := &noiseCase{KK: kk, IMin: vr[0], IMax: vr[1], RMin: vr[2], RMax: vr[3], PwSame: true,
					IExp: "-", RExp: "-", PayloadLen: 40, Rules: rules}
				if kk {
					nc.IExp, nc.RExp = "1", "1"
				}
				if !thorough() && (vr[0] > vr[1] || vr[2] > vr[3]) && code%7 != 0 {
					continue
				}
				cases = append(cases, nc)
			}
		}
	}
	// honest runs over the auth payload sizes around every buffer boundary, all version ranges:
	// agreement on the payload is a clause of C04 also without an adversary
	payloads := []int{-1, 0, 1, 497, 498, 499, 500, 501, 1000, 65535, 65536}
	if thorough() {
		payloads = append(payloads, 2, 255, 256, 496, 502, 514, 516, 517, 4096, 65534, 70000, 3<<20)
	}
	for _, vr := range versionRanges() {
		for _, pl := range payloads {
			cases = append(cases, &noiseCase{IMin: vr[0], IMax: vr[1], RMin: vr[2], RMax: vr[3], PwSame: true,
				IExp: "-", RExp: "-", PayloadLen: pl})
			cases = append(cases, &noiseCase{KK: true, IMin: vr[0], IMax: vr[1], RMin: vr[2], RMax: vr[3], PwSame: true,
				IExp: "1", RExp: "1", PayloadLen: pl})
		}
	}
	// every single-bit flip of every byte of every act
	flipCfgs := [][5]int{{0, 2, 0, 2, 40}, {0, 0, 0, 0, 40}, {1, 1, 1, 1, 0}}
	if thorough() {
		flipCfgs = append(flipCfgs, [5]int{0, 2, 0, 2, 300}, [5]int{0, 1, 0, 1, 40}, [5]int{2, 2, 2, 2, 40}, [5]int{0, 2, 1, 1, 7}, [5]int{0, 0, 0, 2, 498})
	}
	for _, fc := range flipCfgs {
		for _, kk := range []bool{false, true} {
			if kk && fc[1] < 2 {
				continue
			}
			lens := map[int]int{1: 50, 2: 1 + 33 + 49 + 20 + fc[4] + 16, 3: 66}
			if fc[3] == 0 {
				lens[2] = 1 + 33 + 49 + 516
			}
			if kk {
				lens = map[int]int{1: 50, 2: 1 + 33 + 20 + fc[4] + 16}
			}
			for act, l := range lens {
				for bit := 0; bit < l*8; bit++ {
					nc := &noiseCase{KK: kk, IMin: byte(fc[0]), IMax: byte(fc[1]), RMin: byte(fc[2]), RMax: byte(fc[3]), PwSame: true,
						IExp: "-", RExp: "-", PayloadLen: fc[4], BitFlip: &[2]int{act, bit}}
					if kk {
						nc.IExp, nc.RExp = "1", "1"
					}
					cases = append(cases, nc)
				}
			}
		}
	}
	// field-level rewrites, singly and in pairs, on the full-range configuration
	var single []noiseRule
	for _, fr := range []struct {
		a, f int
		rw   string
	}{{1, 1, "pinv"}, {1, 1, "poth"}, {1, 2, "cgarb"}, {2, 1, "pinv"}, {2, 1, "poth"}, {2, 2, "cgarb"}, {2, 3, "cgarb"}, {2, 4, "cgarb"},
		{3, 1, "cgarb"}, {3, 2, "cgarb"}} {
		single = append(single, noiseRule{fr.a, fr.f, fr.rw})
	}
	for i, a := range single {
		cases = append(cases, &noiseCase{IMin: 0, IMax: 2, RMin: 0, RMax: 2, PwSame: true, IExp: "-", RExp: "-", PayloadLen: 9, Rules: []noiseRule{a}})
		for _, b := range single[i+1:] {
			if b.act != a.act || b.field != a.field {
				cases = append(cases, &noiseCase{IMin: 0, IMax: 2, RMin: 0, RMax: 2, PwSame: true, IExp: "-", RExp: "-", PayloadLen: 9, Rules: []noiseRule{a, b}})
			}
		}
	}
	noiseRunAll(t, r, cases, func(nc *noiseCase) string {
		switch {
		case nc.BitFlip == nil && len(nc.Rules) == 0:
			return fmt.Sprintf("honest/kk=%v/payload=%s", nc.KK, map[bool]string{true: "<=498", false: ">498"}[nc.PayloadLen <= 498])
		case nc.BitFlip != nil:
			return fmt.Sprintf("bit-flip/kk=%v/act%d", nc.KK, nc.BitFlip[0])
		case len(nc.Rules) > 0 && nc.Rules[0].field == 0:
			return fmt.Sprintf("version-subst/kk=%v", nc.KK)
		}
		return "field-rewrite"
	})
	c04Histories(r)
}

// c04Histories: the same ConnData objects through several handshakes (first pairing, reconnects,
// a responder whose auth payload changes or disappears); after every completed handshake the
// initiator must hold exactly the payload the responder was configured with at that time.
func c04Histories(r *Recorder) {
	pass := []byte("pairing-phrase-entropy")
	builders := map[string]func(n int) []byte{
		"exact": func(n int) []byte { return patterned(n, 9) },
		"spare-capacity": func(n int) []byte {
			return append(make([]byte, 0, n+64), patterned(n, 9)...)
		},
		"sub-slice": func(n int) []byte {
			big := patterned(n+300, 9)
			return big[:n]
		},
	}
	for _, vr := range [][2]byte{{0, 2}, {1, 1}, {2, 2}, {0, 0}} {
		for bname, mk := range builders {
			for _, n := range []int{5, 300} {
				want := append([]byte(nil), mk(n)...)
				cli := &hsSide{Priv: key(5001), Passphrase: pass, Min: vr[0], Max: vr[1]}
				srv := &hsSide{Priv: key(5002), Passphrase: pass, AuthData: mk(n), Min: vr[0], Max: vr[1]}
				hist := []string{}
				check := func(round string, expect []byte) bool {
					hist = append(hist, round)
					replay := map[string]interface{}{"versions": vr, "payload": bname, "len": n, "history": append([]string(nil), hist...)}
					if cli.Err != nil || srv.Err != nil {
						r.Violate("C04/honest-handshake-failed", fmt.Sprintf("%s: client %v, server %v", round, cli.Err, srv.Err), replay)
						return false
					}
					got := cli.Data.AuthData()
					if !bytes.Equal(got, expect) {
						r.Violate("C04/auth-payload-differs", fmt.Sprintf("%s: both sides completed, the initiator holds %d bytes of auth data (%.24x…) but the responder's payload is %d bytes (%.24x…)",
							round, len(got), got, len(expect), expect), replay)
						return false
					}
					if !cli.gotAuth || !bytes.Equal(cli.OnAuth, expect) {
						r.Violate("C04/auth-callback", fmt.Sprintf("%s: the initiator's auth-data callback was called=%v with %d bytes, the responder's payload has %d", round, cli.gotAuth, len(cli.OnAuth), len(expect)), replay)
						return false
					}
					return true
				}
				cc, sc := newMemPair()
				runHandshakeReuse(cli, srv, cc, sc)
				ok := check("first pairing", want)
				for k := 0; ok && k < 2; k++ {
					cc, sc = newMemPair()
					runHandshakeReuse(cli, srv, cc, sc)
					ok = check(fmt.Sprintf("reconnect %d, same ConnData on both sides", k+1), want)
				}
				if ok && vr[1] >= 2 {
					// the responder restarts without auth data (same key, paired)
					srv2 := &hsSide{Priv: srv.Priv, Remote: cli.Priv.PubKey(), Passphrase: pass, Min: vr[0], Max: vr[1]}
					cc, sc = newMemPair()
					runHandshakeReuse(cli, srv2, cc, sc)
					ok = check("reconnect to a responder without auth data", nil)
					if ok {
						srv3 := &hsSide{Priv: srv.Priv, Remote: cli.Priv.PubKey(), Passphrase: pass, AuthData: mk(n + 1), Min: vr[0], Max: vr[1]}
						cc, sc = newMemPair()
						runHandshakeReuse(cli, srv3, cc, sc)
						check("reconnect to a responder with a new auth payload", append([]byte(nil), mk(n+1)...))
					}
				}
				r.Case(fmt.Sprintf("history:%v:%s:%d", vr, bname, n), true, "history/"+bname)
			}
		}
	}
}
