package harness

import (
	"bytes"
	"context"
	"fmt"
	"github.com/lightninglabs/lightning-node-connect/hashmailrpc"
	"github.com/lightninglabs/lightning-node-connect/mailbox"
	"io"
	"math/rand"
	"strings"
	"sync"
	"testing"
	"testing/synctest"
	"time"
)

type c05Scenario struct {
	Name       string
	Seed       int
	Writes     [2][]int // client->server, server->client write sizes
	ReadBuf    [2]int   // read buffer size used by server / client
	DropPct    int
	DelayMs    int
	StreamErrs []int // message indices (per relay op counter) at which a stream op fails
	FaultUntil time.Duration
	Idle       time.Duration // both writers pause this long half-way (keepalive pings flow meanwhile)
	IdleAfter  int           // > 0: the pause comes after exactly that many writes (of the longer direction) instead
	// PartialFirst > 0: a first connection on which the client writes one record of that many bytes,
	// the server reads only 10 of them, both sides close; the transfer then runs on the next connection
	PartialFirst int
	// RestartAfter > 0: that long after the connection is up the relay forgets both mailboxes
	// (a relay restart); the endpoints must re-create them and carry on
	RestartAfter time.Duration
	// WriteDeadline > 0: every Write gets this deadline; a Write that fails with a timeout is
	// retried with the same bytes up to 5 times (a stalled relay makes the first attempts time out)
	WriteDeadline time.Duration
	// FaultsAfterConnect: the fault plan (and FaultUntil) starts when the secured connection is up
	FaultsAfterConnect bool
	// SkipOnTimeout (with WriteDeadline): a Write that times out is not repeated; the application
	// goes on with its next message. What the peer reads must be exactly the acknowledged writes
	SkipOnTimeout bool
	// HeldSendFirst: a first connection on which the relay exerts back pressure on the server's
	// send stream; the server closes that connection while one of its relay sends is pending. Close
	// must return, and the transfer then runs on the next connection
	HeldSendFirst bool
}

type c05Result struct {
	ConnectErr string
	Stuck      string
	HalfPaired bool // the first handshake completed on the client only: the known C11 finding, not a C05 matter
	Tries      int
	Got        [2][]byte // bytes read by server / by client
	Sent       [2][]byte // bytes written by client / by server
	WriteErr   [2]string
	ReadErr    [2]string
	Took       time.Duration
	ReadSizes  [2][]int // sizes returned by the successive Read calls of server / client
	Plaintext  string   // non-empty: a plaintext window or the auth payload was seen by the relay
	RelayMsgs  int
}

func runC05(sc *c05Scenario) *c05Result {
	res := &c05Result{}
	relay := NewFakeRelay()
	rng := rand.New(rand.NewSource(int64(sc.Seed)))
	var fmu sync.Mutex
	start := time.Now()
	errAt := map[int]bool{}
	for _, k := range sc.StreamErrs {
		errAt[k] = true
	}
	total := 0
	armed := false
	relay.Fault = func(op, sid string, n int) RelayFault {
		fmu.Lock()
		defer fmu.Unlock()
		total++
		if sc.FaultsAfterConnect && !armed {
			return RelayFault{}
		}
		if time.Since(start) > sc.FaultUntil {
			return RelayFault{}
		}
		f := RelayFault{}
		if errAt[total] {
			f.StreamErr = true
			return f
		}
		if op == "send" {
			if rng.Intn(100) < sc.DropPct {
				f.Drop = true
			}
			if sc.DelayMs > 0 && rng.Intn(4) == 0 {
				f.Delay = time.Duration(rng.Intn(sc.DelayMs)) * time.Millisecond
			}
		}
		return f
	}
	st, err := NewStack(relay, sc.Seed)
	if err != nil {
		res.ConnectErr = err.Error()
		return res
	}
	abandon := false
	defer func() {
		if !abandon {
			st.Shutdown()
		}
	}()
	st.ReuseNoise = true // one NoiseGrpcConn per side for the whole session, as with gRPC credentials
	if sc.PartialFirst > 0 {
		s0, c0, _ := st.ConnectRetry(5)
		if s0.Err == nil && c0.Err == nil {
			go c0.Conn.Write(highEntropy(sc.PartialFirst, sc.Seed+5))
			s0.Mailbox.SetReadDeadline(time.Now().Add(20 * time.Second))
			s0.Conn.Read(make([]byte, 10))
			c0.Mailbox.Close()
			s0.Mailbox.Close()
		}
	}
	if sc.HeldSendFirst {
		s0, c0, _ := st.ConnectRetry(5)
		if s0.Err == nil && c0.Err == nil {
			a := mailbox.GetSID(st.CurSID, true)
			relay.Hold(sidKey(a[:]))
			go s0.Conn.Write(highEntropy(300, sc.Seed+6))
			for i := 0; i < 200 && relay.Held() == 0; i++ {
				time.Sleep(10 * time.Millisecond)
			}
			pending := relay.Held()
			done := make(chan struct{})
			go func() { s0.Mailbox.Close(); close(done) }()
			select {
			case <-done:
			case <-time.After(20 * time.Second):
				res.Stuck = fmt.Sprintf("the server's Close of a connection with %d relay send(s) pending (back pressure) has not returned after 20 s", pending)
				abandon = true
				relay.Hold("")
				return res
			}
			relay.Hold("")
			c0.Mailbox.Close()
		}
	}
	srv, cli, tries := st.ConnectRetry(5)
	res.Tries = tries
	if srv.Err != nil || cli.Err != nil {
		res.ConnectErr = fmt.Sprintf("server: %v; client: %v", srv.Err, cli.Err)
		res.HalfPaired = st.CliData.HandshakePattern().Name == mailbox.KK && st.SrvData.HandshakePattern().Name != mailbox.KK
		return res
	}
	if sc.RestartAfter > 0 {
		sid := st.CurSID
		a, b := mailbox.GetSID(sid, true), mailbox.GetSID(sid, false)
		time.AfterFunc(sc.RestartAfter, func() {
			relay.DeleteBox(sidKey(a[:]))
			relay.DeleteBox(sidKey(b[:]))
		})
	}
	fmu.Lock()
	if sc.FaultsAfterConnect {
		armed, start = true, time.Now()
	}
	fmu.Unlock()
	ends := [2]SecureConn{cli, srv} // writer of direction d is ends[d], reader is ends[1-d]
	var wg sync.WaitGroup
	var mu sync.Mutex
	for d := 0; d < 2; d++ {
		d := d
		var all []byte
		for i, n := range sc.Writes[d] {
			all = append(all, highEntropy(n, sc.Seed*100+d*10+i)...)
		}
		res.Sent[d] = all
		wg.Add(2)
		go func() { // writer
			defer wg.Done()
			off := 0
			var acked []byte
			for i, n := range sc.Writes[d] {
				if sc.Idle > 0 && ((sc.IdleAfter == 0 && i == len(sc.Writes[d])/2) || (sc.IdleAfter > 0 && i == sc.IdleAfter)) {
					time.Sleep(sc.Idle)
				}
				var err error
				if sc.SkipOnTimeout {
					ends[d].Mailbox.SetWriteDeadline(time.Now().Add(sc.WriteDeadline))
					var k int
					k, err = ends[d].Conn.Write(all[off : off+n])
					if err == nil && k == n {
						acked = append(acked, all[off:off+n]...)
					}
					mu.Lock()
					res.Sent[d] = acked
					mu.Unlock()
					if err != nil && !strings.Contains(err.Error(), "timeout") {
						mu.Lock()
						res.WriteErr[d] = err.Error()
						mu.Unlock()
						return
					}
					off += n
					continue
				}
				for attempt := 0; attempt < 6; attempt++ {
					if sc.WriteDeadline > 0 {
						ends[d].Mailbox.SetWriteDeadline(time.Now().Add(sc.WriteDeadline))
					}
					_, err = ends[d].Conn.Write(all[off : off+n])
					if err == nil || sc.WriteDeadline == 0 || !strings.Contains(err.Error(), "timeout") {
						break
					}
					time.Sleep(sc.WriteDeadline)
				}
				if err != nil {
					// what the reader may legitimately have is what was written successfully
					mu.Lock()
					res.WriteErr[d] = err.Error()
					res.Sent[d] = all[:off]
					mu.Unlock()
					return
				}
				off += n
			}
		}()
		go func() { // reader
			defer wg.Done()
			buf := make([]byte, sc.ReadBuf[1-d])
			var got []byte
			var sizes []int
			defer func() {
				mu.Lock()
				res.ReadSizes[1-d] = sizes
				mu.Unlock()
			}()
			rdl := 90 * time.Second
			if sc.WriteDeadline > 0 {
				rdl = 35 * time.Second // a writer may give up visibly; do not wait long for what will not come
			}
			ends[1-d].Mailbox.SetReadDeadline(time.Now().Add(rdl))
			for len(got) < len(all) {
				n, err := ends[1-d].Conn.Read(buf)
				if n > len(buf) {
					mu.Lock()
					res.ReadErr[1-d] = fmt.Sprintf("Read returned n=%d for a %d byte buffer", n, len(buf))
					mu.Unlock()
					return
				}
				got = append(got, buf[:n]...)
				if n > 0 || err == nil {
					sizes = append(sizes, n)
				}
				if err != nil {
					mu.Lock()
					if err != io.EOF {
						res.ReadErr[1-d] = err.Error()
					}
					mu.Unlock()
					break
				}
			}
			mu.Lock()
			res.Got[1-d] = got
			mu.Unlock()
		}()
	}
	allDone := make(chan struct{})
	go func() { wg.Wait(); close(allDone) }()
	select {
	case <-allDone:
	case <-time.After(150 * time.Second):
		// a Write (no deadline) or a Read (deadline long past) is blocked for good: the transfer
		// neither completes nor fails; leave the wedged stack behind
		mu.Lock()
		res.Stuck = fmt.Sprintf("after 150 s a Write or Read is still blocked: read %d/%d and %d/%d bytes, read errors %q, write errors %q",
			len(res.Got[1]), len(res.Sent[0]), len(res.Got[0]), len(res.Sent[1]), res.ReadErr, res.WriteErr)
		mu.Unlock()
		res.Took = time.Since(start)
		abandon = true
		return res
	}
	res.Took = time.Since(start)
	cli.Mailbox.Close()
	srv.Mailbox.Close()
	// every message the relay ever saw must be ciphertext
	relay.mu.Lock()
	defer relay.mu.Unlock()
	res.RelayMsgs = len(relay.Log)
	for _, e := range relay.Log {
		if len(e.Data) < 16 {
			continue
		}
		if bytes.Contains(e.Data, st.AuthData[:16]) {
			res.Plaintext = "auth payload"
		}
		for d := 0; d < 2; d++ {
			for off := 0; off+16 <= len(res.Sent[d]); off += 997 {
				if bytes.Contains(e.Data, res.Sent[d][off:off+16]) {
					res.Plaintext = fmt.Sprintf("plaintext of direction %d at offset %d", d, off)
				}
			}
		}
	}
	return res
}

func highEntropy(n, seed int) []byte {
	b := make([]byte, n)
	rand.New(rand.NewSource(int64(seed)*7919 + 13)).Read(b)
	return b
}

func c05Scenarios() []*c05Scenario {
	rng := newRand(5)
	var scs []*c05Scenario
	sizes := func(k int) []int {
		l := make([]int, k)
		for i := range l {
			switch rng.Intn(5) {
			case 0:
				l[i] = 65535 - rng.Intn(3)
			case 1:
				l[i] = 1 + rng.Intn(20)
			case 2:
				l[i] = 32768 + rng.Intn(3) - 1
			default:
				l[i] = 1 + rng.Intn(5000)
			}
		}
		return l
	}
	for i := 0; i < pick(12, 64); i++ {
		sc := &c05Scenario{Name: fmt.Sprintf("stack-%d", i), Seed: 100 + i,
			Writes:     [2][]int{sizes(2 + rng.Intn(5)), sizes(1 + rng.Intn(4))},
			ReadBuf:    [2]int{[]int{32768, 40000, 700, 17}[rng.Intn(4)], []int{32768, 65536, 1000}[rng.Intn(3)]},
			FaultUntil: time.Duration(4+rng.Intn(8)) * time.Second}
		switch i % 4 {
		case 1:
			sc.DropPct = 5 + rng.Intn(20)
		case 2:
			sc.DelayMs = 300 + rng.Intn(900)
			sc.DropPct = rng.Intn(10)
		case 3:
			for k := 0; k < 1+rng.Intn(3); k++ {
				sc.StreamErrs = append(sc.StreamErrs, 8+rng.Intn(40))
			}
		}
		scs = append(scs, sc)
	}
	// a connection that ends with part of a record unread, then the next connection of the session
	for i, n := range []int{100, 40000} {
		scs = append(scs, &c05Scenario{Name: fmt.Sprintf("partial-read-then-reconnect-%d", n), Seed: 950 + i,
			Writes: [2][]int{{50, 3000}, {70, 9}}, ReadBuf: [2]int{32768, 4096}, PartialFirst: n})
	}
	// the server closes a connection while the relay holds back one of its sends; next connection works
	scs = append(scs, &c05Scenario{Name: "close-with-relay-send-pending", Seed: 955,
		Writes: [2][]int{{50, 3000}, {70, 9}}, ReadBuf: [2]int{32768, 4096}, HeldSendFirst: true})
	// the relay restarts (forgets the mailboxes) while a transfer is paused half-way
	for i, d := range []time.Duration{1500 * time.Millisecond, 4 * time.Second}[:pick(1, 2)] {
		scs = append(scs, &c05Scenario{Name: fmt.Sprintf("relay-restart-%v", d), Seed: 960 + i,
			Writes: [2][]int{{100, 5000, 70, 4000}, {300, 17, 6000, 9}}, ReadBuf: [2]int{32768, 4096}, Idle: 2 * d, RestartAfter: d})
	}
	// write deadlines shorter than a relay stall: the first attempts of a Write time out and are retried
	for i, n := range []int{24, 40}[:pick(1, 2)] {
		w := make([]int, n)
		for k := range w {
			w[k] = 1000
		}
		scs = append(scs, &c05Scenario{Name: fmt.Sprintf("write-deadline-%d", n), Seed: 970 + i,
			Writes: [2][]int{w, {9}}, ReadBuf: [2]int{32768, 4096}, DropPct: 100, FaultUntil: 5 * time.Second, FaultsAfterConnect: true, WriteDeadline: time.Second})
	}
	// ... and an application that does not repeat a timed-out Write but goes on with the next message
	{
		w := make([]int, 24)
		for k := range w {
			w[k] = 1000
		}
		scs = append(scs, &c05Scenario{Name: "write-deadline-skip", Seed: 975,
			Writes: [2][]int{w, {9}}, ReadBuf: [2]int{32768, 4096}, DropPct: 100, FaultUntil: 5 * time.Second, FaultsAfterConnect: true,
			WriteDeadline: time.Second, SkipOnTimeout: true})
	}
	// the server's keepalive ping carries every sequence number once (21 consecutive record counts
	// cover every residue of the sequence space): k records written, an idle period longer than the
	// ping interval, then more records
	for i, k := range []int{1, 2, 3, 4, 5, 6, 7, 8, 9, 10, 11, 12, 13, 14, 15, 16, 17, 18, 19, 20, 21} {
		w := make([]int, k+3)
		for j := range w {
			w[j] = 50
		}
		scs = append(scs, &c05Scenario{Name: fmt.Sprintf("ping-after-%d-records", k), Seed: 980 + i,
			Writes: [2][]int{{9}, w}, ReadBuf: [2]int{4096, 32768}, Idle: 6500 * time.Millisecond, IdleAfter: k})
	}
	// idle periods longer than the keepalive interval (server pings after 5 s, client after 7 s) in
	// the middle of a transfer, without relay faults
	for i, idle := range []time.Duration{6500 * time.Millisecond, 9 * time.Second, 16 * time.Second}[:pick(2, 3)] {
		scs = append(scs, &c05Scenario{Name: fmt.Sprintf("idle-%v", idle), Seed: 900 + i,
			Writes: [2][]int{{100, 5000, 70, 40000}, {300, 17, 65535, 9}}, ReadBuf: [2]int{32768, 4096}, Idle: idle})
	}
	return scs
}

// relayLayerCase: the retry loops of the mailbox layer (ServerConn.sendToStream / recvFromStream)
// driven directly over one mailbox of the fake relay, with the outcome of every single stream
// operation scripted: send attempts that succeed, are acknowledged and lost, fail without or with the
// relay having queued the payload; receive attempts that succeed or fail without or with the relay
// having taken the head of the queue. The payloads handed out, in order, are compared with the
// model (Relay.lean: relay.run), and the property's own requirement is evaluated on them: obtained
// from the payloads sent by dropping some and repeating some in place (no reordering, nothing
// altered or invented) - the channel the Go-Back-N theorems assume.
func relayLayerCase(t *testing.T, r *Recorder, seed int) {
	relayLayerCaseMode(t, r, seed, seed%3)
}

// mode 0: ServerConn sends, ServerConn receives; 1: ClientConn sends, ServerConn receives (the
// client -> server mailbox of a session); 2: ServerConn sends, ClientConn receives.
func relayLayerCaseMode(t *testing.T, r *Recorder, seed, mode int) {
	rng := newRand(int64(5500 + seed))
	nmsg := 1 + rng.Intn(7)
	var sendScript []string // per call: its tries
	var flatSend, flatRecv []byte
	for i := 0; i < nmsg; i++ {
		var tries []byte
		for rng.Intn(3) == 0 && len(tries) < 3 {
			tries = append(tries, "qf"[rng.Intn(2)])
		}
		tries = append(tries, "oool"[rng.Intn(4)])
		sendScript = append(sendScript, string(tries))
		flatSend = append(flatSend, tries...)
	}
	for i := 0; i < 3*nmsg+4; i++ {
		flatRecv = append(flatRecv, "ooootf"[rng.Intn(6)])
	}
	var got []int
	var bad string
	func() {
		defer func() {
			if p := recover(); p != nil {
				bad = fmt.Sprint(p)
			}
		}()
		wd := time.AfterFunc(90*time.Second, func() {
			panic("harness watchdog: a relay-layer script is still running after 90 s of real time; a stream function of the mailbox layer is wedged (waiting for a lock it will never get?)")
		})
		defer wd.Stop()
		synctest.Test(t, func(t *testing.T) {
			relay := NewFakeRelay()
			var x, y [64]byte
			x[0], y[0] = 1, 2
			relay.Fault = func(op, sid string, n int) RelayFault {
				var c byte = 'o'
				switch {
				case op == "send" && sid == sidKey(y[:]) && n < len(flatSend):
					c = flatSend[n]
				case op == "recv" && sid == sidKey(y[:]) && n < len(flatRecv):
					c = flatRecv[n]
				}
				switch c {
				case 'l':
					return RelayFault{Drop: true}
				case 'q', 't':
					return RelayFault{StreamErr: true, Ambiguous: true}
				case 'f':
					return RelayFault{StreamErr: true}
				}
				return RelayFault{}
			}
			ctx, cancel := context.WithCancel(context.Background())
			// the server side of a session creates the mailboxes; a client only connects to them
			relay.NewCipherBox(ctx, &hashmailrpc.CipherBoxAuth{Desc: &hashmailrpc.CipherBoxDesc{StreamId: y[:]}})
			var send func(context.Context, []byte) error
			var recv func(context.Context) ([]byte, error)
			var closers []func() error
			if mode == 1 {
				a := mailbox.VBareClientConn(ctx, relay, x, y) // sends into mailbox y
				send, closers = a.VSend, append(closers, a.Close)
			} else {
				a := mailbox.VBareServerConn(ctx, relay, x, y)
				send, closers = a.VSendToStream, append(closers, a.Close)
			}
			if mode == 2 {
				b := mailbox.VBareClientConn(ctx, relay, y, x) // receives from mailbox y
				recv, closers = b.VRecv, append(closers, b.Close)
			} else {
				b := mailbox.VBareServerConn(ctx, relay, y, x)
				recv, closers = b.VRecvFromStream, append(closers, b.Close)
			}
			// In every second script sender and receiver run at the same time. The result does not
			// depend on the interleaving: the relay's mailbox is FIFO and a receive attempt is only
			// made on a non-empty mailbox, so the i-th receive attempt always meets the same message.
			sendAll := func() {
				for i := 0; i < nmsg; i++ {
					if err := send(ctx, []byte{byte(i + 1)}); err != nil {
						bad = "send function: " + err.Error()
						break
					}
				}
			}
			senderDone := make(chan struct{})
			if seed%2 == 1 {
				go func() { defer close(senderDone); sendAll() }()
			} else {
				sendAll()
				close(senderDone)
			}
			for bad == "" {
				rctx, rcancel := context.WithTimeout(ctx, 60*time.Second)
				m, err := recv(rctx)
				rcancel()
				if err != nil || len(m) != 1 {
					break // nothing more in the mailbox
				}
				got = append(got, int(m[0]))
			}
			<-senderDone
			cancel()
			for _, c := range closers {
				c()
			}
			synctest.Wait()
		})
	}()
	name := fmt.Sprintf("relay-layer:mode=%d:%s/%s", mode, strings.Join(sendScript, ","), flatRecv)
	r.Case(name, true, "relay-layer")
	if bad != "" && !strings.Contains(bad, "blocked goroutines remain") {
		r.Violate("C05/relay-layer-failed", bad, name)
		return
	}
	// oracle: got arises from 1..nmsg by dropping and repeating in place
	ok, prev := true, 0
	for _, g := range got {
		if g < prev || g < 1 || g > nmsg {
			ok = false
		}
		prev = g
	}
	if !ok {
		r.Violate("C05/relay-layer-reorders", fmt.Sprintf("payloads 1..%d given to the send function in order (attempt outcomes %v), receive attempts %s: the receive function handed out %v", nmsg, sendScript, flatRecv, got), name)
	}
	out := "none"
	if len(got) > 0 {
		out = ints(got)
	}
	r.Emit(fmt.Sprintf("relay.run %s %s", strings.Join(sendScript, ","), flatRecv), out)
}

// relayLayerCancelCase: the relay creates mailboxes but refuses every stream request. A stream
// function of the mailbox layer that is caught in its retry loop must still return once its context
// is cancelled (that is how GoBackNConn.Close releases its loop goroutines) - otherwise the
// connection can neither complete nor fail. `which`: "server-recv", "server-send", "client-recv",
// "client-send".
func relayLayerCancelCase(t *testing.T, r *Recorder, which string) {
	var returned bool
	var bad string
	func() {
		defer func() {
			if p := recover(); p != nil {
				bad = fmt.Sprint(p)
			}
		}()
		// a goroutine that waits for a mutex for good stops the bubble's clock, so nothing inside can
		// time out: end such a run from outside (the check reports the crash with this message)
		wd := time.AfterFunc(90*time.Second, func() {
			panic("harness watchdog: a relay-layer case is still running after 90 s of real time; a stream function of the mailbox layer is wedged (waiting for a lock it will never get?)")
		})
		defer wd.Stop()
		synctest.Test(t, func(t *testing.T) {
			relay := NewFakeRelay()
			relay.RefuseStreams = true
			var x, y [64]byte
			x[0], y[0] = 3, 4
			ctx, cancel := context.WithCancel(context.Background())
			relay.NewCipherBox(ctx, &hashmailrpc.CipherBoxAuth{Desc: &hashmailrpc.CipherBoxDesc{StreamId: x[:]}})
			relay.NewCipherBox(ctx, &hashmailrpc.CipherBoxAuth{Desc: &hashmailrpc.CipherBoxDesc{StreamId: y[:]}})
			callCtx, callCancel := context.WithCancel(ctx) // the Go-Back-N connection's context
			done := make(chan struct{})
			var closer func() error
			go func() {
				defer close(done)
				switch which {
				case "server-recv":
					c := mailbox.VBareServerConn(ctx, relay, x, y)
					closer = c.Close
					c.VRecvFromStream(callCtx)
				case "server-send":
					c := mailbox.VBareServerConn(ctx, relay, x, y)
					closer = c.Close
					c.VSendToStream(callCtx, []byte{1})
				case "client-recv":
					c := mailbox.VBareClientConn(ctx, relay, x, y)
					closer = c.Close
					c.VRecv(callCtx)
				case "client-send":
					c := mailbox.VBareClientConn(ctx, relay, x, y)
					closer = c.Close
					c.VSend(callCtx, []byte{1})
				}
			}()
			time.Sleep(9 * time.Second) // several refused attempts
			callCancel()
			select {
			case <-done:
				returned = true
			case <-time.After(30 * time.Second):
			}
			cancel()
			if closer != nil && returned {
				closer()
			}
			if returned {
				synctest.Wait()
			}
		})
	}()
	name := "relay-layer-cancel:" + which
	r.Case(name, true, "relay-layer-cancel")
	if !returned {
		r.Violate("C05/relay-layer-ignores-cancel", fmt.Sprintf("%s: the relay refuses stream requests (mailboxes exist); the stream function was still retrying 30 s after its context had been cancelled: a connection closed in this situation never finishes closing, its peer-facing side neither completes nor fails (%s)", which, bad), name)
	}
}

// relayLayerSendWhileRecvIdle: the receive function of a connection is parked on an idle mailbox (as
// it is during the Go-Back-N handshake, and whenever the peer has nothing to say); the first attempt
// of a send fails, the stream is re-created, the payload goes out. The send must not wait for the
// parked receive. Real time (a goroutine waiting for a mutex stops a bubble's clock): one retry wait
// of the mailbox layer, about 2 s.
func relayLayerSendWhileRecvIdle(r *Recorder, client bool) {
	relay := NewFakeRelay()
	var x, y [64]byte
	x[0], y[0] = 5, 6
	ctx, cancel := context.WithCancel(context.Background())
	defer cancel()
	relay.NewCipherBox(ctx, &hashmailrpc.CipherBoxAuth{Desc: &hashmailrpc.CipherBoxDesc{StreamId: x[:]}})
	relay.NewCipherBox(ctx, &hashmailrpc.CipherBoxAuth{Desc: &hashmailrpc.CipherBoxDesc{StreamId: y[:]}})
	relay.Fault = func(op, sid string, n int) RelayFault {
		if op == "send" && sid == sidKey(y[:]) && n == 0 {
			return RelayFault{StreamErr: true}
		}
		return RelayFault{}
	}
	var send func(context.Context, []byte) error
	var recv func(context.Context) ([]byte, error)
	if client {
		c := mailbox.VBareClientConn(ctx, relay, x, y)
		send, recv = c.VSend, c.VRecv
	} else {
		c := mailbox.VBareServerConn(ctx, relay, x, y)
		send, recv = c.VSendToStream, c.VRecvFromStream
	}
	go recv(ctx) // parks: nothing ever arrives in mailbox x
	time.Sleep(300 * time.Millisecond)
	done := make(chan error, 1)
	go func() { done <- send(ctx, []byte{7}) }()
	name := fmt.Sprintf("relay-layer-send-while-recv-idle:client=%v", client)
	r.Case(name, true, "relay-layer-cancel")
	select {
	case err := <-done:
		if err != nil {
			r.Violate("C05/relay-layer-failed", "send function: "+err.Error(), name)
		}
	case <-time.After(20 * time.Second):
		r.Violate("C05/relay-layer-send-waits-for-receive", fmt.Sprintf("client side: %v; the receive function is parked on an idle mailbox, the first attempt of a send fails: the send function had not returned 20 s later (one retry wait is 2 s) - with the peer silent, as during the Go-Back-N handshake, nothing will ever release it", client), name)
	}
}

func TestC05(t *testing.T) {
	r := NewRecorder(t, "C05")
	defer r.Close(t)
	for i := 0; i < pick(150, 3000); i++ {
		relayLayerCase(t, r, i)
	}
	for _, which := range []string{"server-recv", "server-send", "client-recv", "client-send"} {
		relayLayerCancelCase(t, r, which)
	}
	relayLayerSendWhileRecvIdle(r, true)
	relayLayerSendWhileRecvIdle(r, false)
	scs := c05Scenarios()
	var mu sync.Mutex
	idx := 0
	t.Run("stack", func(t *testing.T) {
		for w := 0; w < 16; w++ {
			t.Run(fmt.Sprint(w), func(t *testing.T) {
				t.Parallel()
				for {
					mu.Lock()
					i := idx
					idx++
					mu.Unlock()
					if i >= len(scs) {
						return
					}
					sc := scs[i]
					var res *c05Result
					p, msg := safely(func() { res = runC05(sc) })
					mu.Lock()
					faulty := sc.DropPct > 0 || sc.DelayMs > 0 || len(sc.StreamErrs) > 0 || sc.Idle > 0 || sc.PartialFirst > 0 || sc.RestartAfter > 0 || sc.WriteDeadline > 0
					r.Case(sc.Name, faulty, fmt.Sprintf("drop=%v/delay=%v/stream-errs=%v/idle=%v/second-connection=%v", sc.DropPct > 0, sc.DelayMs > 0, len(sc.StreamErrs) > 0, sc.Idle > 0, sc.PartialFirst > 0))
					switch {
					case p:
						r.Violate("C05/panic", msg, sc)
					case res.Stuck != "":
						r.Violate("C05/transfer-neither-completes-nor-fails", res.Stuck, sc)
					case res.ConnectErr != "" && res.HalfPaired:
						// one defect, one alarm: the pairing handshake lost its last message (relay fault) and the two
						// sides are now at different rendezvous; that is C11's finding half-paired-after-lost-act3
						r.Notes["half_paired_not_connected"] = fmt.Sprint(r.Notes["half_paired_not_connected"], " ", sc.Name)
					case res.ConnectErr != "":
						r.Violate("C05/no-connection", fmt.Sprintf("no secured connection after %d attempts: %s", res.Tries, res.ConnectErr), sc)
					default:
						for d := 0; d < 2; d++ {
							got, sent := res.Got[1-d], res.Sent[d]
							if !bytes.HasPrefix(sent, got) {
								r.Violate("C05/stream-corrupted", fmt.Sprintf("direction %d: the %d bytes read are not a prefix of the %d bytes written", d, len(got), len(sent)), sc)
							} else if len(got) < len(sent) && res.ReadErr[1-d] == "" && res.WriteErr[d] == "" {
								r.Violate("C05/silent-truncation", fmt.Sprintf("direction %d: %d of %d bytes arrived and neither side saw an error", d, len(got), len(sent)), sc)
							} else if len(got) < len(sent) {
								r.Violate("C05/transfer-incomplete", fmt.Sprintf("direction %d: %d of %d bytes after %v (faults ceased at %v); read error %q, write error %q",
									d, len(got), len(sent), res.Took, sc.FaultUntil, res.ReadErr[1-d], res.WriteErr[d]), sc)
							}
						}
						// the framing of the byte stream into Read results is the model's
						for d := 0; d < 2; d++ {
							if len(res.Got[1-d]) == len(res.Sent[d]) && res.ReadErr[1-d] == "" && res.WriteErr[d] == "" {
								r.Emit(fmt.Sprintf("stk.reads %d %s", sc.ReadBuf[1-d], joinInts(sc.Writes[d])), rleInts(res.ReadSizes[1-d]))
							}
						}
						if res.Plaintext != "" {
							r.Violate("C05/relay-sees-plaintext", res.Plaintext, sc)
						}
					}
					if res != nil && len(r.Samples) < 3 {
						r.Samples = append(r.Samples, map[string]interface{}{"scenario": sc, "took": res.Took.String(), "connect_tries": res.Tries, "relay_events": res.RelayMsgs})
					}
					mu.Unlock()
				}
			})
		}
	})
}

func joinInts(l []int) string {
	var sb strings.Builder
	for i, v := range l {
		if i > 0 {
			sb.WriteByte(',')
		}
		fmt.Fprint(&sb, v)
	}
	return sb.String()
}

// rleInts renders a list as value x count runs
func rleInts(l []int) string {
	var sb strings.Builder
	for i := 0; i < len(l); {
		j := i
		for j < len(l) && l[j] == l[i] {
			j++
		}
		if i > 0 {
			sb.WriteByte(',')
		}
		fmt.Fprintf(&sb, "%dx%d", l[i], j-i)
		i = j
	}
	return sb.String()
}
