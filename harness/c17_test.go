package harness

import (
	"bytes"
	"fmt"
	"strings"
	"testing"

	"github.com/btcsuite/btcd/btcec/v2"
	"github.com/lightninglabs/lightning-node-connect/mailbox"
	"github.com/lightningnetwork/lnd/aezeed"
	"github.com/lightningnetwork/lnd/keychain"
)

func wordIdx(words [mailbox.NumPassphraseWords]string) ([]string, bool) {
	out := make([]string, len(words))
	ok := true
	for i, w := range words {
		idx, found := aezeed.ReverseWordMap[w]
		if !found {
			ok = false
		}
		out[i] = fmt.Sprint(idx)
	}
	return out, ok
}

func entropyCase(r *Recorder, e [mailbox.NumPassphraseEntropyBytes]byte, class string) {
	words, err := mailbox.PassphraseEntropyToMnemonic(e)
	if err != nil {
		r.Violate("C17/mnemonic-error", err.Error(), hx(e[:]))
		return
	}
	idx, ok := wordIdx(words)
	if !ok {
		r.Violate("C17/word-not-in-list", strings.Join(words[:], " "), hx(e[:]))
		return
	}
	r.Emit("mn.towords "+hx(e[:]), strings.Join(idx, " "))
	back := mailbox.PassphraseMnemonicToEntropy(words)
	r.Emit("mn.toentropy "+strings.Join(idx, " "), hx(back[:]))
	// oracle: exact inverse on the 110 significant bits, the last two bits zero
	want := e
	want[13] &^= 0x03
	if back != want {
		r.Violate("C17/entropy-roundtrip", fmt.Sprintf("entropy %x -> words -> %x, expected %x", e, back, want), hx(e[:]))
	}
	words2, _ := mailbox.PassphraseEntropyToMnemonic(back)
	if words2 != words {
		r.Violate("C17/words-roundtrip", fmt.Sprintf("phrase %v -> entropy %x -> %v", words, back, words2), hx(e[:]))
	}
	r.Case("e:"+hx(e[:]), true, class)
}

func key(i int) *btcec.PrivateKey {
	var b [32]byte
	b[31] = byte(i)
	b[30] = byte(i >> 8)
	b[0] = 1
	k, _ := btcec.PrivKeyFromBytes(b[:])
	return k
}

// c17StackCase: real Client and Server over the fake relay; first connection (pairing), close,
// second connection. On both connections the streams the two endpoints actually use must cross-match
// and be the ones their ConnData derives at that moment; with `eager` the server asks for its next
// connection as soon as Accept has returned (as gRPC's Serve loop does), i.e. before the pairing
// handshake has stored the remote key.
func c17StackCase(r *Recorder, eager bool, seed int) { c17StackCaseMode(r, eager, false, seed) }

// c17DelFails > 0 (set by the caller around a case): the relay answers that many mailbox deletions
// with a transient error when the first connection is closed - the moment the server leaves the
// rendezvous derived from the pairing phrase
var c17DelFails int

// With preset the application hands the stored static keys to the ConnData of both sides after it
// has constructed Client and Server and before the first Dial / Accept (restoring a paired session).
func c17StackCaseMode(r *Recorder, eager, preset bool, seed int) {
	name := fmt.Sprintf("stack-streams:eager-accept=%v:keys-set-before-first-dial=%v:%d", eager, preset, seed)
	relay := NewFakeRelay()
	st, err := NewStack(relay, seed)
	if err != nil {
		r.Violate("C17/setup", err.Error(), name)
		return
	}
	defer st.Shutdown()
	st.EagerAccept = eager
	if preset {
		if e1, e2 := st.SrvData.SetRemote(st.CliKey.PubKey()), st.CliData.SetRemote(st.SrvKey.PubKey()); e1 != nil || e2 != nil {
			r.Violate("C17/setup", fmt.Sprint(e1, e2), name)
			return
		}
	}
	for conn := 1; conn <= 3; conn++ {
		want, _ := st.CliData.SID()
		s, c, _ := st.ConnectRetry(4)
		if s.Err != nil || c.Err != nil {
			r.Violate("C17/streams-do-not-meet", fmt.Sprintf("connection %d of a session (eager accept: %v; the relay loses nothing) was not established: server %v, client %v",
				conn, eager, s.Err, c.Err), name)
			return
		}
		sc, ok1 := s.Mailbox.(*mailbox.ServerConn)
		cc, ok2 := c.Mailbox.(*mailbox.ClientConn)
		if ok1 && ok2 {
			sr, ss := sc.VAddrs()
			cr, cs := cc.VAddrs()
			a, b := mailbox.GetSID(want, true), mailbox.GetSID(want, false)
			switch {
			case sr != cs || ss != cr:
				r.Violate("C17/streams-do-not-meet", fmt.Sprintf("connection %d: the client's send stream is not the server's receive stream (or vice versa)", conn), name)
			case sr == ss:
				r.Violate("C17/directions-share-a-stream", fmt.Sprintf("connection %d: one stream for both directions", conn), name)
			case !(sr == a && ss == b) && !(sr == b && ss == a):
				r.Violate("C17/streams-not-derived-from-current-secret", fmt.Sprintf("connection %d runs on streams that are not derived from the identifier the client's ConnData yields", conn), name)
			}
		}
		// what an application may do at any time: ask both ends for their address (logging)
		_ = st.Srv.Addr()
		if conn == 1 && c17DelFails > 0 {
			relay.mu.Lock()
			relay.FailDel = c17DelFails
			relay.mu.Unlock()
		}
		c.Mailbox.Close()
		s.Mailbox.Close()
		_ = st.Srv.Addr()
	}
	r.Case(name, true, "stack-streams")
}

func TestC17(t *testing.T) {
	r := NewRecorder(t, "C17")
	defer r.Close(t)
	for i, eager := range []bool{false, true} {
		c17StackCase(r, eager, 1700+i)
		c17StackCaseMode(r, eager, true, 1750+i)
		c17DelFails = 1
		c17StackCaseMode(r, eager, false, 1770+i)
		c17DelFails = 0
	}
	rng := newRand(17)
	// word list: injective, and the reverse map inverts it (all 2048)
	seen := map[string]int{}
	for i, w := range aezeed.DefaultWordList {
		if j, dup := seen[w]; dup {
			r.Violate("C17/wordlist-not-injective", fmt.Sprintf("word %q at %d and %d", w, j, i), w)
		}
		seen[w] = i
		if aezeed.ReverseWordMap[w] != i {
			r.Violate("C17/reverse-map", fmt.Sprintf("ReverseWordMap[%q]=%d, index %d", w, aezeed.ReverseWordMap[w], i), w)
		}
	}
	r.Notes["wordlist_len"] = len(aezeed.DefaultWordList)
	var e [mailbox.NumPassphraseEntropyBytes]byte
	entropyCase(r, e, "zero")
	for i := range e {
		e[i] = 0xFF
	}
	entropyCase(r, e, "ones")
	for bit := 0; bit < 112; bit++ {
		var s [mailbox.NumPassphraseEntropyBytes]byte
		s[bit/8] = 0x80 >> (bit % 8)
		entropyCase(r, s, "single-bit")
		for i := range s {
			s[i] = ^s[i]
		}
		entropyCase(r, s, "single-zero")
	}
	for i := 0; i < pick(10000, 1000000); i++ {
		rng.Read(e[:])
		entropyCase(r, e, "random")
	}
	// phrases: every word index at every position, random phrases
	for pos := 0; pos < 10; pos++ {
		for w := 0; w < 2048; w += pick(7, 1) {
			var words [mailbox.NumPassphraseWords]string
			idx := make([]string, 10)
			for k := range words {
				v := 0
				if k == pos {
					v = w
				}
				words[k] = aezeed.DefaultWordList[v]
				idx[k] = fmt.Sprint(v)
			}
			en := mailbox.PassphraseMnemonicToEntropy(words)
			r.Emit("mn.toentropy "+strings.Join(idx, " "), hx(en[:]))
			back, _ := mailbox.PassphraseEntropyToMnemonic(en)
			if back != words {
				r.Violate("C17/words-roundtrip", fmt.Sprintf("phrase with word %d at %d -> %x -> %v", w, pos, en, back), idx)
			}
			r.Case(fmt.Sprintf("w:%d:%d", pos, w), true, "phrase-sweep")
		}
	}

	// session identifiers: equality pattern over a family of configurations
	type cfg struct {
		local, remote int // remote 0 = none
		entropy       []byte
	}
	mk := func(c cfg) *mailbox.ConnData {
		var remote *btcec.PublicKey
		if c.remote != 0 {
			remote = key(c.remote).PubKey()
		}
		return mailbox.NewConnData(&keychain.PrivKeyECDH{PrivKey: key(c.local)}, remote, c.entropy, nil, nil, nil)
	}
	for round := 0; round < pick(40, 400); round++ {
		ea, eb := randBytes(rng, 14), randBytes(rng, 14)
		if round%5 == 0 {
			eb = append([]byte{}, ea...)
			eb[13] ^= 1 // differs in one bit
		}
		k := 1 + rng.Intn(1000)
		cfgs := []cfg{
			{k, 0, ea}, {k + 1, 0, ea}, {k, 0, eb}, // passphrase-derived: same secret / other secret
			{k, k + 1, ea}, {k + 1, k, eb}, // paired: client and server views
			{k, k + 2, ea}, {k + 2, k + 1, ea}, // other pairs
			{k + 1, 0, eb},
		}
		var sids [][64]byte
		var fields []string
		for _, c := range cfgs {
			sid, err := mk(c).SID()
			if err != nil {
				r.Violate("C17/sid-error", err.Error(), fmt.Sprint(c))
				return
			}
			sids = append(sids, sid)
			rem := "-"
			if c.remote != 0 {
				rem = fmt.Sprint(c.remote)
			}
			fields = append(fields, fmt.Sprintf("%d,%s,%s", c.local, rem, hx(c.entropy)))
		}
		var uniq [][64]byte
		var labels []string
		for _, s := range sids {
			found := -1
			for i, u := range uniq {
				if u == s {
					found = i
				}
			}
			if found < 0 {
				uniq = append(uniq, s)
				found = len(uniq) - 1
			}
			labels = append(labels, fmt.Sprint(found))
		}
		r.Emit("sid.pattern "+strings.Join(fields, " "), strings.Join(labels, " "))
		// oracle: client and server of a pair agree; directions are complementary and distinct
		if sids[3] != sids[4] {
			r.Violate("C17/paired-sid-mismatch", "client and server derive different identifiers from the same key pair", fields)
		}
		if sids[0] != sids[1] {
			r.Violate("C17/passphrase-sid-mismatch", "same passphrase, different identifiers", fields)
		}
		if sids[0] == sids[2] || sids[3] == sids[0] || sids[3] == sids[5] || sids[5] == sids[6] {
			r.Violate("C17/sid-collision", "different secrets give the same identifier", fields)
		}
		// a remote key the application's callback refuses is not adopted: identifier, handshake
		// pattern and stored key stay what they were
		{
			refuse := true
			live := mailbox.NewConnData(&keychain.PrivKeyECDH{PrivKey: key(k)}, nil, ea, nil,
				func(*btcec.PublicKey) error {
					if refuse {
						return fmt.Errorf("key refused")
					}
					return nil
				}, nil)
			before, _ := live.SID()
			patBefore := live.HandshakePattern().Name
			err := live.SetRemote(key(k + 1).PubKey())
			after, _ := live.SID()
			if err == nil || after != before || live.RemoteKey() != nil || live.HandshakePattern().Name != patBefore {
				r.Violate("C17/refused-key-adopted", fmt.Sprintf("local key %d: the remote-key callback refused key %d (SetRemote returned %v); afterwards SID changed: %v, RemoteKey set: %v, pattern %s -> %s",
					k, k+1, err, after != before, live.RemoteKey() != nil, patBefore, live.HandshakePattern().Name), map[string]int{"local": k, "remote": k + 1})
			}
			refuse = false
			if err := live.SetRemote(key(k + 1).PubKey()); err == nil {
				got, _ := live.SID()
				want, _ := mk(cfg{k, k + 1, ea}).SID()
				if got != want {
					r.Violate("C17/stale-sid-after-key-change", "a key accepted after an earlier refusal does not yield the identifier a fresh ConnData derives", map[string]int{"local": k, "remote": k + 1})
				}
			}
			r.Case(fmt.Sprintf("refused-key:%d", round), true, "refused-key")
		}
		// one long-lived ConnData through a history of key changes: after every SetRemote the
		// identifier is the one a fresh ConnData with that remote key derives
		{
			live := mk(cfg{k, 0, ea})
			hist := []int{0, k + 1, k + 1, k + 2, k + 1, k + 3}
			var hf, hl []string
			var seen [][64]byte
			for step, rem := range hist {
				if rem != 0 {
					if err := live.SetRemote(key(rem).PubKey()); err != nil {
						r.Violate("C17/sid-error", err.Error(), hist)
						break
					}
				}
				got, err1 := live.SID()
				if step%2 == 1 {
					got, err1 = live.SID() // asked twice: the answer may not depend on having been asked
				}
				want, err2 := mk(cfg{k, rem, ea}).SID()
				if err1 != nil || err2 != nil {
					r.Violate("C17/sid-error", fmt.Sprint(err1, err2), hist)
					break
				}
				if got != want {
					r.Violate("C17/stale-sid-after-key-change", fmt.Sprintf("after the remote-key history %v (local key %d) SID() differs from the identifier a fresh ConnData derives for remote key %d",
						hist[:step+1], k, rem), map[string]interface{}{"local": k, "history": hist[:step+1]})
				}
				remS := "-"
				if rem != 0 {
					remS = fmt.Sprint(rem)
				}
				hf = append(hf, fmt.Sprintf("%d,%s,%s", k, remS, hx(ea)))
				found := -1
				for i, u := range seen {
					if u == got {
						found = i
					}
				}
				if found < 0 {
					seen = append(seen, got)
					found = len(seen) - 1
				}
				hl = append(hl, fmt.Sprint(found))
			}
			if len(hl) == len(hist) {
				r.Emit("sid.pattern "+strings.Join(hf, " "), strings.Join(hl, " "))
			}
		}
		// ... and when the application asks for the identifier from inside its "remote key stored"
		// callback (which runs while SetRemote is in progress), later answers are still right
		{
			var live *mailbox.ConnData
			var inCallback [][64]byte
			live = mailbox.NewConnData(&keychain.PrivKeyECDH{PrivKey: key(k)}, nil, ea, nil,
				func(*btcec.PublicKey) error {
					if sid, err := live.SID(); err == nil {
						inCallback = append(inCallback, sid)
					}
					return nil
				}, nil)
			before, _ := live.SID()
			_ = before
			for step, rem := range []int{k + 1, k + 2} {
				if err := live.SetRemote(key(rem).PubKey()); err != nil {
					r.Violate("C17/sid-error", err.Error(), rem)
					break
				}
				got, err1 := live.SID()
				want, err2 := mk(cfg{k, rem, ea}).SID()
				if err1 != nil || err2 != nil || got != want {
					r.Violate("C17/stale-sid-after-key-change", fmt.Sprintf("local key %d, SID() called from the remote-key callback: after SetRemote(%d) (step %d) SID() differs from the identifier a fresh ConnData derives (%v %v)",
						k, rem, step+1, err1, err2), map[string]interface{}{"local": k, "remote": rem, "sid_in_callback": true})
				}
			}
			r.Case(fmt.Sprintf("sid-in-callback:%d", k), true, "sid-history")
		}
		for _, s := range sids[:2] {
			c2s, s2c := mailbox.GetSID(s, false), mailbox.GetSID(s, true)
			r.Emit(fmt.Sprintf("sid.getsid %s 0", hx(s[:])), hx(c2s[:]))
			r.Emit(fmt.Sprintf("sid.getsid %s 1", hx(s[:])), hx(s2c[:]))
			diff := 0
			for i := range c2s {
				if c2s[i] != s2c[i] {
					diff++
				}
			}
			if diff != 1 || c2s[63]^s2c[63] != 1 || !bytes.Equal(s2c[:], s[:]) {
				r.Violate("C17/direction", fmt.Sprintf("GetSID directions: %x vs %x", c2s, s2c), hx(s[:]))
			}
		}
		r.Case(fmt.Sprintf("sid:%d", round), true, "sid-pattern")
	}
	r.Sample(map[string]string{"op": "mn.towords ffe0000000000000000000000007", "go": "2047 0 0 0 0 0 0 0 0 1"})
}
