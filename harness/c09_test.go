package harness

import (
	"fmt"
	"sync/atomic"
	"testing"
	"testing/synctest"
	"time"

	"github.com/lightninglabs/lightning-node-connect/gbn"
)

// blockingCase: with ACKs withheld exactly n Sends return, the next one is
// durably blocked, and one ACK lets exactly one more return.
func blockingCase(t *testing.T, r *Recorder, n uint8) {
	sc := &GbnScenario{Name: fmt.Sprintf("blocking-n%d", n), N: n, Latency: time.Millisecond,
		Static: 600 * time.Second}
	var c1, c2, c3 int64
	var st [2]gbn.VConnState
	res := RunGbnBody(t, sc, func(sim *Sim, conns [2]*gbn.GoBackNConn, res *GbnResult) {
		st[0], st[1] = conns[0].VState(), conns[1].VState()
		sim.pipes[1].Hold(true)
		var count int64
		total := int(n) + 3
		res.tw.Add(2)
		go func() {
			defer res.tw.Done()
			for i := 0; i < total; i++ {
				p := payloadFor(0, i, 3)
				sim.log(Event{EP: 0, Kind: "send", Pkt: p, Msg: i})
				if err := conns[0].Send(p); err != nil {
					return
				}
				atomic.AddInt64(&count, 1)
			}
		}()
		go func() {
			defer res.tw.Done()
			for {
				b, err := conns[1].Recv()
				if err != nil {
					return
				}
				res.rmu.Lock()
				res.Recvd[1] = append(res.Recvd[1], b)
				res.rmu.Unlock()
			}
		}()
		time.Sleep(300 * time.Millisecond)
		synctest.Wait()
		c1 = atomic.LoadInt64(&count)
		sim.pipes[1].Release(1)
		time.Sleep(300 * time.Millisecond)
		synctest.Wait()
		c2 = atomic.LoadInt64(&count)
		sim.pipes[1].Hold(false)
		time.Sleep(20 * time.Second)
		synctest.Wait()
		c3 = atomic.LoadInt64(&count)
	})
	if res.Panic != "" || res.HsErr[0] != "" || res.HsErr[1] != "" {
		r.Violate("C09/run-failed", res.Panic+res.HsErr[0]+res.HsErr[1], sc)
		return
	}
	r.Emit(fmt.Sprintf("q.mks %d", n), fmt.Sprint(st[0].S))
	r.Emit(fmt.Sprintf("q.mks %d", n), fmt.Sprint(st[1].S))
	for ep := 0; ep < 2; ep++ {
		if st[ep].N != n || int(st[ep].S) <= int(st[ep].N) || st[ep].QueueLen != int(st[ep].S) {
			r.Violate("C09/sequence-space", fmt.Sprintf("endpoint %d after handshake: n=%d s=%d len(content)=%d (client proposed %d)",
				ep, st[ep].N, st[ep].S, st[ep].QueueLen, n), sc)
		}
	}
	switch {
	case c1 > int64(n):
		r.Violate("C09/window-exceeded", fmt.Sprintf("n=%d: %d Sends returned with no ACK delivered", n, c1), sc)
	case c1 < int64(n):
		r.Violate("C09/send-blocks-early", fmt.Sprintf("n=%d: only %d Sends returned with no ACK delivered", n, c1), sc)
	case c2 != int64(n)+1:
		r.Violate("C09/ack-does-not-free-one-slot", fmt.Sprintf("n=%d: after one ACK %d Sends had returned", n, c2), sc)
	case c3 != int64(n)+3:
		r.Violate("C09/send-stuck", fmt.Sprintf("n=%d: %d of %d Sends returned after ACKs flowed again", n, c3, n+3), sc)
	}
	r.EmitOKBlock(uniLines(sc, res))
	r.Case(sc.Name, true, "blocking")
}

func TestC09(t *testing.T) {
	r := NewRecorder(t, "C09")
	defer r.Close(t)
	queueDiff(r, 2, pick(8, 16), allSeqs(), "queue-exh")
	rng := newRand(9)
	for i := 0; i < pick(100, 400); i++ { // larger sequence spaces, sampled
		s := 17 + rng.Intn(239)
		q := gbn.VNewQueue(uint8(s))
		for k := 0; k < 40; k++ {
			queueCase(r, q, s, rng.Intn(s), rng.Intn(s), rng.Intn(256), "queue-rand")
		}
		q.Stop()
	}
	queueMisc(r)
	for n := 1; n <= 254; n++ {
		if !thorough() && n > 24 && n%7 != 0 && n < 250 {
			continue
		}
		blockingCase(t, r, uint8(n))
	}
	// window discipline under faults: the C01 scenario family, replayed
	// through the model (a new packet must find room in the model's window)
	scs := c01Scenarios()
	if !thorough() {
		scs = scs[:len(scs)/3]
	}
	traces := 0
	forEachScenario(t, scs, func(sc *GbnScenario, res *GbnResult) {
		if res.Panic != "" || res.HsErr[0] != "" || res.HsErr[1] != "" {
			return
		}
		r.EmitOKBlock(uniLines(sc, res))
		traces++
		r.Case(sc.Name, true, fmt.Sprintf("trace/n=%d", sc.N))
		for ep := 0; ep < 2; ep++ {
			st := res.States[ep]
			if st.Base >= st.S || st.Top >= st.S || st.Size > st.N || st.RecvSeq >= st.S {
				r.Violate("C09/bookkeeping-out-of-range", fmt.Sprintf("endpoint %d ended with %+v", ep, st), sc)
			}
		}
	})
	r.Notes["traces_validated"] = traces
	r.Sample(map[string]interface{}{"blocking": "n=3: 3 Sends return with ACKs withheld, 4th blocks, one ACK frees one"})
}
