package harness

import (
	"fmt"
	"sync/atomic"
	"testing"
	"testing/synctest"
	"time"

	"github.com/lightninglabs/lightning-node-connect/gbn"
)

// blockingCase: with ACKs withheld exactly n Sends return, the next one is
// durably blocked, and one ACK lets exactly one more return.
func blockingCase(t *testing.T, r *Recorder, n uint8) { blockingCaseHS(t, r, n, 0) }

// blockingCaseHS: synackDelay > 0 delays the client's SYNACK beyond the server's handshake timeout,
// so that the server completes through its "handshake restarted" path.
func blockingCaseHS(t *testing.T, r *Recorder, n uint8, synackDelay time.Duration) {
	sc := &GbnScenario{Name: fmt.Sprintf("blocking-n%d-synack+%v", n, synackDelay), N: n, Latency: time.Millisecond,
		Static: 600 * time.Second}
	if synackDelay > 0 {
		sc.Faults[0] = []Fault{{}, {Delay: synackDelay}}
	}
	var c1, c2, c3 int64
	var st [2]gbn.VConnState
	res := RunGbnBody(t, sc, func(sim *Sim, conns [2]*gbn.GoBackNConn, res *GbnResult) {
		st[0], st[1] = conns[0].VState(), conns[1].VState()
		sim.pipes[1].Hold(true)
		var count int64
		total := int(n) + 3
		res.tw.Add(2)
		go func() {
			defer res.tw.Done()
			for i := 0; i < total; i++ {
				p := payloadFor(0, i, 3)
				sim.log(Event{EP: 0, Kind: "send", Pkt: p, Msg: i})
				if err := conns[0].Send(p); err != nil {
					return
				}
				atomic.AddInt64(&count, 1)
			}
		}()
		go func() {
			defer res.tw.Done()
			for {
				b, err := conns[1].Recv()
				if err != nil {
					return
				}
				res.rmu.Lock()
				res.Recvd[1] = append(res.Recvd[1], b)
				res.rmu.Unlock()
			}
		}()
		time.Sleep(300 * time.Millisecond)
		synctest.Wait()
		c1 = atomic.LoadInt64(&count)
		sim.pipes[1].Release(1)
		time.Sleep(300 * time.Millisecond)
		synctest.Wait()
		c2 = atomic.LoadInt64(&count)
		sim.pipes[1].Hold(false)
		time.Sleep(20 * time.Second)
		synctest.Wait()
		c3 = atomic.LoadInt64(&count)
	})
	if res.Panic != "" || res.HsErr[0] != "" || res.HsErr[1] != "" {
		r.Violate("C09/run-failed", res.Panic+res.HsErr[0]+res.HsErr[1], sc)
		return
	}
	r.Emit(fmt.Sprintf("q.mks %d", n), fmt.Sprint(st[0].S))
	r.Emit(fmt.Sprintf("q.mks %d", n), fmt.Sprint(st[1].S))
	for ep := 0; ep < 2; ep++ {
		if st[ep].N != n || int(st[ep].S) <= int(st[ep].N) || st[ep].QueueLen != int(st[ep].S) {
			r.Violate("C09/sequence-space", fmt.Sprintf("endpoint %d after handshake: n=%d s=%d len(content)=%d (client proposed %d)",
				ep, st[ep].N, st[ep].S, st[ep].QueueLen, n), sc)
		}
	}
	switch {
	case synackDelay > 0:
		// the packet that completes a restarted server handshake (the late SYNACK or the first DATA
		// packet) is consumed by the handshake; with the 600 s resend timeout of this scenario the
		// Send counts below would measure that, not the window. Only the adopted window is judged.
		if c1 > int64(n) {
			r.Violate("C09/window-exceeded", fmt.Sprintf("n=%d (late SYNACK): %d Sends returned with no ACK delivered", n, c1), sc)
		}
	case c1 > int64(n):
		r.Violate("C09/window-exceeded", fmt.Sprintf("n=%d: %d Sends returned with no ACK delivered", n, c1), sc)
	case c1 < int64(n):
		r.Violate("C09/send-blocks-early", fmt.Sprintf("n=%d: only %d Sends returned with no ACK delivered", n, c1), sc)
	case c2 != int64(n)+1:
		r.Violate("C09/ack-does-not-free-one-slot", fmt.Sprintf("n=%d: after one ACK %d Sends had returned", n, c2), sc)
	case c3 != int64(n)+3:
		r.Violate("C09/send-stuck", fmt.Sprintf("n=%d: %d of %d Sends returned after ACKs flowed again", n, c3, n+3), sc)
	}
	r.EmitOKBlock(uniLines(sc, res))
	r.Case(sc.Name, true, "blocking")
}

// nackFreesWindowCase: "Send blocks on the next one until an acknowledgement frees a slot" - also
// when the acknowledgement is a NACK. The window is full; every ACK is lost; the transport
// duplicates the last DATA packet, so the receiver, which has everything, answers the copy with a
// NACK naming the sequence number it expects next (the top of the sender's queue). That NACK empties
// the sender's queue. The blocked Send must return when the NACK has been processed, not only when
// the resend timer (3 s here) fires.
func nackFreesWindowCase(t *testing.T, r *Recorder, n uint8) {
	sc := &GbnScenario{Name: fmt.Sprintf("nack-frees-window-n%d", n), N: n, Latency: 10 * time.Millisecond, Static: 3 * time.Second}
	f0 := make([]Fault, int(n))
	f0[int(n)-1] = Fault{Dup: true} // the last DATA packet of the first window arrives twice
	sc.Faults[0] = cleanHS(0, f0)
	f1 := make([]Fault, int(n))
	for i := range f1 {
		f1[i] = Fault{Drop: true} // the n ACKs are lost; the NACK that follows gets through
	}
	sc.Faults[1] = cleanHS(1, f1)
	var unblockedAfter time.Duration = -1
	var nackAt time.Duration = -1
	res := RunGbnBody(t, sc, func(sim *Sim, conns [2]*gbn.GoBackNConn, res *GbnResult) {
		res.tw.Add(1)
		go func() {
			defer res.tw.Done()
			for {
				if _, err := conns[1].Recv(); err != nil {
					return
				}
			}
		}()
		for i := 0; i < int(n); i++ {
			if conns[0].Send(payloadFor(0, i, 3)) != nil {
				return
			}
		}
		t0 := time.Now()
		done := make(chan struct{})
		res.tw.Add(1)
		go func() {
			defer res.tw.Done()
			conns[0].Send(payloadFor(0, int(n), 3))
			close(done)
		}()
		select {
		case <-done:
			unblockedAfter = time.Since(t0)
		case <-time.After(20 * time.Second):
		}
	})
	if res.Panic != "" || res.HsErr[0] != "" || res.HsErr[1] != "" {
		r.Violate("C09/run-failed", res.Panic+res.HsErr[0]+res.HsErr[1], sc)
		return
	}
	for _, e := range res.Events {
		if e.EP == 0 && e.Kind == "deliver" && e.By == "recvloop" && nackAt < 0 {
			if m, err := gbn.Deserialize(e.Pkt); err == nil {
				if k, ok := m.(*gbn.PacketNACK); ok && int(k.Seq) == int(n)%(int(n)+1) {
					nackAt = e.At
				}
			}
		}
	}
	r.Case(sc.Name, true, "nack-frees-window")
	if nackAt < 0 {
		return // the scenario did not produce the NACK (nothing to judge)
	}
	if unblockedAfter < 0 || unblockedAfter > 500*time.Millisecond {
		r.Violate("C09/send-stays-blocked-after-window-freed", fmt.Sprintf("window %d full, all ACKs lost, a NACK naming the top of the queue (everything received) was processed: the blocked Send returned after %v (-1ns: not within 20 s); the resend timeout is 3 s, the round trip 20 ms", n, unblockedAfter), sc)
	}
}

// pingWindowCase: keepalive pings are DATA packets and take window slots. With
// ACKs withheld and n-1 messages outstanding, the ping that becomes due fills
// the window: later Sends must block and no more than n DATA packets may be
// outstanding, however many ping periods pass.
func pingWindowCase(t *testing.T, r *Recorder, n uint8) {
	sc := &GbnScenario{Name: fmt.Sprintf("ping-fills-window-n%d", n), N: n, Latency: time.Millisecond,
		Static: 600 * time.Second, PingNs: int64(5 * time.Second), PongNs: int64(500 * time.Second)}
	var c1, c2, c3 int64
	res := RunGbnBody(t, sc, func(sim *Sim, conns [2]*gbn.GoBackNConn, res *GbnResult) {
		sim.pipes[1].Hold(true)
		var count int64
		first, total := int(n)-1, int(n)+2
		gate := make(chan struct{})
		res.tw.Add(2)
		go func() {
			defer res.tw.Done()
			for i := 0; i < total; i++ {
				if i == first {
					<-gate
				}
				p := payloadFor(0, i, 3)
				sim.log(Event{EP: 0, Kind: "send", Pkt: p, Msg: i})
				if err := conns[0].Send(p); err != nil {
					return
				}
				atomic.AddInt64(&count, 1)
			}
		}()
		go func() {
			defer res.tw.Done()
			for {
				b, err := conns[1].Recv()
				if err != nil {
					return
				}
				res.rmu.Lock()
				res.Recvd[1] = append(res.Recvd[1], b)
				res.rmu.Unlock()
			}
		}()
		time.Sleep(300 * time.Millisecond)
		synctest.Wait()
		c1 = atomic.LoadInt64(&count)
		time.Sleep(6 * time.Second) // the first ping becomes due and takes the last slot
		close(gate)
		time.Sleep(17 * time.Second) // three more ping periods
		synctest.Wait()
		c2 = atomic.LoadInt64(&count)
		sim.log(Event{EP: 0, Kind: "mark"})
		sim.pipes[1].Hold(false)
		time.Sleep(30 * time.Second)
		synctest.Wait()
		c3 = atomic.LoadInt64(&count)
	})
	if res.Panic != "" || res.HsErr[0] != "" || res.HsErr[1] != "" {
		r.Violate("C09/run-failed", res.Panic+res.HsErr[0]+res.HsErr[1], sc)
		return
	}
	outstanding := map[uint8]bool{}
	emitted := 0
	for _, e := range res.Events {
		if e.Kind == "mark" {
			break
		}
		if e.Kind == "emit" && e.EP == 0 {
			if m, err := gbn.Deserialize(e.Pkt); err == nil {
				if d, ok := m.(*gbn.PacketData); ok {
					emitted++
					outstanding[d.Seq] = true
				}
			}
		}
	}
	switch {
	case c1 != int64(n)-1:
		r.Violate("C09/send-blocks-early", fmt.Sprintf("n=%d: %d of %d Sends returned on an open window", n, c1, int(n)-1), sc)
	case c2 > c1 || emitted > int(n):
		r.Violate("C09/window-exceeded", fmt.Sprintf("n=%d, keepalive ping due with %d packets unacknowledged: %d more Sends returned and %d DATA packets (pings included) were emitted with no ACK delivered",
			n, c1, c2-c1, emitted), sc)
	case c3 != int64(n)+2:
		r.Violate("C09/send-stuck", fmt.Sprintf("n=%d: %d of %d Sends returned after ACKs flowed again", n, c3, int(n)+2), sc)
	}
	r.EmitOKBlock(uniLines(sc, res))
	r.Case(sc.Name, true, "ping-fills-window")
}

func TestC09(t *testing.T) {
	r := NewRecorder(t, "C09")
	defer r.Close(t)
	for _, n := range []uint8{1, 2, 5, 20, 254} {
		nackFreesWindowCase(t, r, n)
	}
	queueDiff(r, 2, pick(8, 16), allSeqs(), "queue-exh")
	queueLarge(r, "queue-large")
	rng := newRand(9)
	for i := 0; i < pick(100, 400); i++ { // larger sequence spaces, sampled
		s := 17 + rng.Intn(239)
		q := gbn.VNewQueue(uint8(s))
		for k := 0; k < 40; k++ {
			queueCase(r, q, s, rng.Intn(s), rng.Intn(s), rng.Intn(256), "queue-rand")
		}
		q.Stop()
	}
	queueMisc(r)
	for n := 1; n <= 254; n++ {
		if !thorough() && n > 24 && n%7 != 0 && n < 250 {
			continue
		}
		blockingCase(t, r, uint8(n))
	}
	for _, n := range []int{1, 2, 3, 5, 20, 127, 254} {
		pingWindowCase(t, r, uint8(n))
	}
	// the window both ends use after a handshake that the server had to restart (late SYNACK)
	for _, n := range []int{1, 2, 3, 19, 20, 21, 100, 254} {
		blockingCaseHS(t, r, uint8(n), 1500*time.Millisecond)
	}
	// a SYN with another window (an earlier connection attempt) in front of the client's own: both
	// ends must end up with the window of the SYN that the handshake completed on
	for _, n := range []int{1, 2, 3, 19, 21, 100} {
		for _, stale := range []string{"0107", "0114", "01fe"} {
			for _, dropEcho := range []bool{false, true} {
				sc := &HsScenario{N: uint8(n), Stale: [2][]string{{stale}, nil}, Retry: true}
				if dropEcho {
					// the server's answer to the stale SYN is lost, so the new client never sees it
					sc.Faults[1] = []Fault{{Drop: true}}
				}
				res := RunHs(t, sc)
				r.Case(fmt.Sprintf("stale-syn:%d:%s:%v", n, stale, dropEcho), true, "handshake-stale-syn")
				if res.Panic != "" {
					r.Violate("C09/run-failed", res.Panic, sc)
					continue
				}
				// the attempt on which data got through in both directions: same window on both ends, the client's
				if res.Delivered[0] && res.Delivered[1] && (res.LastN[0] != n || res.LastN[1] != n) {
					r.Violate("C09/sequence-space", fmt.Sprintf("a stale SYN %s preceded the client's SYN(%d): data was exchanged on a connection where the client uses window %d and the server window %d",
						stale, n, res.LastN[0], res.LastN[1]), sc)
				}
			}
		}
	}
	// window discipline under faults: the C01 scenario family, replayed
	// through the model (a new packet must find room in the model's window)
	scs := c01Scenarios()
	if !thorough() {
		scs = scs[:len(scs)/3]
	}
	traces := 0
	forEachScenario(t, scs, func(sc *GbnScenario, res *GbnResult) {
		if res.Panic != "" || res.HsErr[0] != "" || res.HsErr[1] != "" {
			return
		}
		r.EmitOKBlock(uniLines(sc, res))
		traces++
		r.Case(sc.Name, true, fmt.Sprintf("trace/n=%d", sc.N))
		for ep := 0; ep < 2; ep++ {
			st := res.States[ep]
			if st.Base >= st.S || st.Top >= st.S || st.Size > st.N || st.RecvSeq >= st.S {
				r.Violate("C09/bookkeeping-out-of-range", fmt.Sprintf("endpoint %d ended with %+v", ep, st), sc)
			}
		}
	})
	r.Notes["traces_validated"] = traces
	r.Sample(map[string]interface{}{"blocking": "n=3: 3 Sends return with ACKs withheld, 4th blocks, one ACK frees one"})
}
