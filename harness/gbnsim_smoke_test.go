package harness

import (
	"fmt"
	"testing"
	"time"
)

func TestGbnSimSmoke(t *testing.T) {
	sc := &GbnScenario{N: 3, Msgs: [2][]int{{5, 6, 7, 8, 9}, {3, 4}}, Latency: 10 * time.Millisecond,
		Faults: [2][]Fault{{{}, {}, {}, {Drop: true}, {Dup: true}}, {{}, {}, {Drop: true}}}, RunFor: 30 * time.Second}
	res := RunGbn(t, sc, nil)
	fmt.Println("hs", res.HsErr, "leak", res.Leaked != "", "panic", res.Panic, "events", len(res.Events))
	fmt.Println("sent", len(res.Sent[0]), len(res.Sent[1]), "recvd", len(res.Recvd[1]), len(res.Recvd[0]), res.RecvErrs)
	for _, e := range res.Events {
		if e.Kind == "emit" || e.Kind == "deliver" {
			fmt.Printf("%8v ep%d %-8s %-8s c=%d %x\n", e.At, e.EP, e.Kind, e.By, e.Copies, e.Pkt)
		} else {
			fmt.Printf("%8v ep%d %-8s %s\n", e.At, e.EP, e.Kind, e.Err)
		}
	}
}
