package harness

import (
	"context"
	"encoding/hex"
	"errors"
	"fmt"
	"io"
	"sync"
	"time"

	"github.com/lightninglabs/lightning-node-connect/hashmailrpc"
	"google.golang.org/grpc"
	"google.golang.org/grpc/codes"
	"google.golang.org/grpc/metadata"
	"google.golang.org/grpc/status"
)

// FakeRelay is an in-memory hashmail server: FIFO mailboxes keyed by stream id,
// with the error strings the mailbox code reacts to and a fault controller.
type FakeRelay struct {
	mu      sync.Mutex
	boxes   map[string]*relayBox
	Log     []RelayEvent
	start   time.Time
	Fault   func(op string, sid string, n int) RelayFault // consulted for every send / recv
	counts  map[string]int
	Latency time.Duration
	FailDel int // the next FailDel DelCipherBox calls fail with Unavailable
	// HoldKey: sends into this mailbox block (back pressure) until the stream's context ends
	// or the hold is lifted; held counts the sends currently blocked
	HoldKey string
	held    int
	unhold  chan struct{}
	down    bool // outage: every RPC and every operation on an open stream, CloseSend included, fails
	// RefuseStreams: mailboxes can be created and deleted, but every request for a stream is refused
	// (the relay, or a proxy in front of it, sheds streaming RPCs)
	RefuseStreams bool
}

var errRelayDown = status.Error(codes.Unavailable, "relay unreachable")

// SetDown starts / ends an outage of the relay.
func (r *FakeRelay) SetDown(d bool) {
	r.mu.Lock()
	r.down = d
	for _, b := range r.boxes {
		select {
		case b.notify <- struct{}{}:
		default:
		}
	}
	r.mu.Unlock()
}

// Hold makes sends into mailbox k block; Hold("") lifts the hold and releases the blocked sends.
func (r *FakeRelay) Hold(k string) {
	r.mu.Lock()
	r.HoldKey = k
	if k == "" && r.unhold != nil {
		close(r.unhold)
		r.unhold = nil
	}
	r.mu.Unlock()
}

// Held reports how many sends are blocked by the hold right now.
func (r *FakeRelay) Held() int {
	r.mu.Lock()
	defer r.mu.Unlock()
	return r.held
}

func (r *FakeRelay) isDown() bool {
	r.mu.Lock()
	defer r.mu.Unlock()
	return r.down
}

type RelayFault struct {
	Drop      bool          // the message is accepted and lost
	Delay     time.Duration // extra delivery delay
	StreamErr bool          // the stream operation fails (the caller re-establishes the stream)
	// Ambiguous (with StreamErr): the operation fails although the relay has done its part - a
	// send is queued and then reported as failed, a receive takes the head of the queue for this
	// stream and the message is lost with the stream
	Ambiguous bool
}

type RelayEvent struct {
	At   time.Duration
	Op   string // new-box | del-box | send | recv | send-err | recv-err | open-recv | open-send | not-found | occupied
	SID  string
	Data []byte
}

type relayMsg struct {
	data    []byte
	readyAt time.Time
}

type relayBox struct {
	q        []relayMsg
	notify   chan struct{}
	occupied bool
}

func NewFakeRelay() *FakeRelay {
	return &FakeRelay{boxes: map[string]*relayBox{}, start: time.Now(), counts: map[string]int{}, Latency: 5 * time.Millisecond}
}

func (r *FakeRelay) log(op, sid string, data []byte) {
	r.Log = append(r.Log, RelayEvent{At: time.Since(r.start), Op: op, SID: sid, Data: append([]byte(nil), data...)})
}

func (r *FakeRelay) fault(op, sid string) RelayFault {
	key := op + ":" + sid
	n := r.counts[key]
	r.counts[key] = n + 1
	if r.Fault == nil {
		return RelayFault{}
	}
	return r.Fault(op, sid, n)
}

func sidKey(b []byte) string { return hex.EncodeToString(b) }

func (r *FakeRelay) NewCipherBox(ctx context.Context, in *hashmailrpc.CipherBoxAuth, _ ...grpc.CallOption) (*hashmailrpc.CipherInitResp, error) {
	if err := ctx.Err(); err != nil {
		return nil, status.FromContextError(err).Err()
	}
	r.mu.Lock()
	defer r.mu.Unlock()
	if r.down {
		return nil, errRelayDown
	}
	k := sidKey(in.Desc.StreamId)
	if _, ok := r.boxes[k]; ok {
		return nil, status.Error(codes.AlreadyExists, "stream already active")
	}
	r.boxes[k] = &relayBox{notify: make(chan struct{}, 1)}
	r.log("new-box", k, nil)
	return &hashmailrpc.CipherInitResp{}, nil
}

func (r *FakeRelay) DelCipherBox(ctx context.Context, in *hashmailrpc.CipherBoxAuth, _ ...grpc.CallOption) (*hashmailrpc.DelCipherBoxResp, error) {
	if err := ctx.Err(); err != nil {
		return nil, status.FromContextError(err).Err() // as a gRPC client does for a dead context
	}
	r.mu.Lock()
	defer r.mu.Unlock()
	k := sidKey(in.Desc.StreamId)
	if r.FailDel > 0 {
		// a transient relay error: the box stays
		r.FailDel--
		r.log("del-box-err", k, nil)
		return nil, errRelayDown
	}
	if b, ok := r.boxes[k]; ok {
		delete(r.boxes, k)
		close(b.notify)
	}
	r.log("del-box", k, nil)
	return &hashmailrpc.DelCipherBoxResp{}, nil
}

// DeleteBox removes a mailbox behind the endpoints' backs (relay-side expiry).
// Inject puts a message into a mailbox as if somebody had sent it (the relay is open to anybody
// who knows a stream id; stale or foreign bytes in a mailbox are within the relay's power).
func (r *FakeRelay) Inject(k string, data []byte) {
	r.mu.Lock()
	defer r.mu.Unlock()
	b, ok := r.boxes[k]
	if !ok {
		b = &relayBox{notify: make(chan struct{}, 1)}
		r.boxes[k] = b
	}
	b.q = append(b.q, relayMsg{append([]byte(nil), data...), time.Now()})
	r.log("inject", k, data)
	select {
	case b.notify <- struct{}{}:
	default:
	}
}

func (r *FakeRelay) DeleteBox(k string) {
	r.mu.Lock()
	defer r.mu.Unlock()
	if b, ok := r.boxes[k]; ok {
		delete(r.boxes, k)
		close(b.notify)
	}
}

type fakeStream struct {
	ctx context.Context
}

func (s *fakeStream) Header() (metadata.MD, error) { return nil, nil }
func (s *fakeStream) Trailer() metadata.MD         { return nil }
func (s *fakeStream) CloseSend() error             { return nil }
func (s *fakeStream) Context() context.Context     { return s.ctx }
func (s *fakeStream) SendMsg(m interface{}) error  { return errors.New("not used") }
func (s *fakeStream) RecvMsg(m interface{}) error  { return errors.New("not used") }

type fakeSendStream struct {
	fakeStream
	r *FakeRelay
}

func (s *fakeSendStream) CloseSend() error {
	if s.r.isDown() {
		return errRelayDown
	}
	return nil
}

func (s *fakeSendStream) Send(box *hashmailrpc.CipherBox) error {
	if err := s.ctx.Err(); err != nil {
		return err
	}
	if s.r.isDown() {
		return errRelayDown
	}
	r := s.r
	r.mu.Lock()
	k := sidKey(box.Desc.StreamId)
	b, ok := r.boxes[k]
	if !ok {
		r.log("not-found", k, nil)
		r.mu.Unlock()
		return status.Error(codes.NotFound, "stream not found")
	}
	if r.HoldKey != "" && k == r.HoldKey {
		if r.unhold == nil {
			r.unhold = make(chan struct{})
		}
		ch := r.unhold
		r.held++
		r.log("send-held", k, nil)
		r.mu.Unlock()
		select {
		case <-s.ctx.Done():
			r.mu.Lock()
			r.held--
			r.mu.Unlock()
			return status.FromContextError(s.ctx.Err()).Err()
		case <-ch:
		}
		r.mu.Lock()
		r.held--
		if _, still := r.boxes[k]; !still {
			r.mu.Unlock()
			return status.Error(codes.NotFound, "stream not found")
		}
	}
	f := r.fault("send", k)
	if f.StreamErr {
		r.log("send-err", k, nil)
		if f.Ambiguous {
			b.q = append(b.q, relayMsg{append([]byte(nil), box.Msg...), time.Now().Add(r.Latency)})
			select {
			case b.notify <- struct{}{}:
			default:
			}
		}
		r.mu.Unlock()
		return status.Error(codes.Unavailable, "transport is closing")
	}
	r.log("send", k, box.Msg)
	if !f.Drop {
		rdy := time.Now().Add(r.Latency + f.Delay)
		if n := len(b.q); n > 0 && b.q[n-1].readyAt.After(rdy) {
			rdy = b.q[n-1].readyAt
		}
		b.q = append(b.q, relayMsg{append([]byte(nil), box.Msg...), rdy})
	}
	r.mu.Unlock()
	select {
	case b.notify <- struct{}{}:
	default:
	}
	return nil
}

func (s *fakeSendStream) CloseAndRecv() (*hashmailrpc.CipherBoxDesc, error) {
	return &hashmailrpc.CipherBoxDesc{}, nil
}

func (r *FakeRelay) SendStream(ctx context.Context, _ ...grpc.CallOption) (hashmailrpc.HashMail_SendStreamClient, error) {
	if err := ctx.Err(); err != nil {
		return nil, err
	}
	if r.isDown() {
		return nil, errRelayDown
	}
	r.mu.Lock()
	refuse := r.RefuseStreams
	r.mu.Unlock()
	if refuse {
		return nil, status.Error(codes.Unavailable, "stream refused")
	}
	return &fakeSendStream{fakeStream{ctx}, r}, nil
}

type fakeRecvStream struct {
	fakeStream
	r    *FakeRelay
	k    string
	done bool
}

func (s *fakeRecvStream) release() {
	s.r.mu.Lock()
	if b, ok := s.r.boxes[s.k]; ok && !s.done {
		b.occupied = false
	}
	s.done = true
	s.r.mu.Unlock()
}

func (s *fakeRecvStream) CloseSend() error {
	s.release()
	if s.r.isDown() {
		return errRelayDown
	}
	return nil
}

func (s *fakeRecvStream) Recv() (*hashmailrpc.CipherBox, error) {
	r := s.r
	for {
		if err := s.ctx.Err(); err != nil {
			s.release()
			return nil, err
		}
		r.mu.Lock()
		if s.done {
			r.mu.Unlock()
			return nil, io.EOF
		}
		if r.down {
			if b, ok := r.boxes[s.k]; ok {
				b.occupied = false
			}
			s.done = true
			r.mu.Unlock()
			return nil, errRelayDown
		}
		b, ok := r.boxes[s.k]
		if !ok {
			r.log("not-found", s.k, nil)
			r.mu.Unlock()
			s.done = true
			return nil, status.Error(codes.NotFound, "stream not found")
		}
		if len(b.q) > 0 {
			it := b.q[0]
			if wait := time.Until(it.readyAt); wait > 0 {
				r.mu.Unlock()
				tm := time.NewTimer(wait)
				select {
				case <-tm.C:
				case <-s.ctx.Done():
					tm.Stop()
				}
				continue
			}
			f := r.fault("recv", s.k)
			if f.StreamErr {
				r.log("recv-err", s.k, nil)
				if f.Ambiguous {
					b.q = b.q[1:]
				}
				b.occupied = false
				r.mu.Unlock()
				s.done = true
				return nil, status.Error(codes.Unavailable, "transport is closing")
			}
			b.q = b.q[1:]
			r.log("recv", s.k, it.data)
			r.mu.Unlock()
			return &hashmailrpc.CipherBox{Desc: &hashmailrpc.CipherBoxDesc{StreamId: []byte(s.k)}, Msg: it.data}, nil
		}
		notify := b.notify
		r.mu.Unlock()
		select {
		case <-notify:
		case <-s.ctx.Done():
		}
	}
}

func (r *FakeRelay) RecvStream(ctx context.Context, in *hashmailrpc.CipherBoxDesc, _ ...grpc.CallOption) (hashmailrpc.HashMail_RecvStreamClient, error) {
	if err := ctx.Err(); err != nil {
		return nil, status.FromContextError(err).Err()
	}
	r.mu.Lock()
	defer r.mu.Unlock()
	if r.down {
		return nil, errRelayDown
	}
	if r.RefuseStreams {
		return nil, status.Error(codes.Unavailable, "stream refused")
	}
	k := sidKey(in.StreamId)
	s := &fakeRecvStream{fakeStream: fakeStream{ctx}, r: r, k: k}
	b, ok := r.boxes[k]
	switch {
	case !ok:
		// like the real relay, the error surfaces on the first Recv
		r.log("not-found", k, nil)
	case b.occupied:
		r.log("occupied", k, nil)
		return nil, status.Error(codes.Unavailable, fmt.Sprintf("stream occupied"))
	default:
		b.occupied = true
		r.log("open-recv", k, nil)
		go func() { // the read side is released when its context ends
			<-ctx.Done()
			s.release()
		}()
	}
	return s, nil
}

var _ hashmailrpc.HashMailClient = (*FakeRelay)(nil)
