package harness

import (
	"bytes"
	"fmt"
	"io"
	"os"
	"strings"
	"testing"

	"github.com/lightninglabs/lightning-node-connect/mailbox"
)

// writeRecord encrypts p on machine w and returns the wire bytes (header, body).
func writeRecord(w *mailbox.Machine, p []byte) ([]byte, []byte, error) {
	if err := w.WriteMessage(p); err != nil {
		return nil, nil, err
	}
	bw := &chunkWriter{}
	if _, err := w.Flush(bw); err != nil {
		return nil, nil, err
	}
	if len(bw.chunks) != 2 {
		return nil, nil, fmt.Errorf("flush made %d writes", len(bw.chunks))
	}
	return bw.chunks[0], bw.chunks[1], nil
}

type chunkWriter struct{ chunks [][]byte }

func (c *chunkWriter) Write(p []byte) (int, error) {
	c.chunks = append(c.chunks, append([]byte(nil), p...))
	return len(p), nil
}

// pipelinedCase: full-duplex traffic in which each end writes `ahead` records before it reads any of
// the peer's, across the first key rotations: the two ends then perform the send-side and the
// receive-side rotations in different orders, and every record must still decrypt.
func pipelinedCase(r *Recorder, kk bool, ahead, rounds int) {
	pass := []byte("pairing-phrase-entropy")
	cli := &hsSide{Priv: key(3011), Passphrase: pass, Min: 0, Max: 2}
	srv := &hsSide{Priv: key(3012), Passphrase: pass, AuthData: []byte("auth"), Min: 0, Max: 2}
	if kk {
		cli.Remote, srv.Remote = srv.Priv.PubKey(), cli.Priv.PubKey()
		cli.Min, srv.Min = 2, 2
	}
	cc, sc := newMemPair()
	runHandshake(cli, srv, cc, sc)
	if cli.Err != nil || srv.Err != nil {
		r.Violate("C08/setup", fmt.Sprintf("handshake failed: %v %v", cli.Err, srv.Err), kk)
		return
	}
	m := [2]*mailbox.Machine{cli.Machine, srv.Machine}
	total := 0
	for round := 0; round < rounds; round++ {
		var wire [2][][]byte
		var plain [2][][]byte
		for d := 0; d < 2; d++ {
			for i := 0; i < ahead; i++ {
				p := patterned(3+(i+d)%5, total+i)
				h, b, err := writeRecord(m[d], p)
				if err != nil {
					r.Violate("C08/write-failed", err.Error(), total+i)
					return
				}
				wire[d] = append(wire[d], append(append([]byte{}, h...), b...))
				plain[d] = append(plain[d], p)
			}
		}
		for d := 0; d < 2; d++ {
			for i := range wire[d] {
				got, err := m[1-d].ReadMessage(bytes.NewReader(wire[d][i]))
				if err != nil || !bytes.Equal(got, plain[d][i]) {
					r.Violate("C08/keys-out-of-step", fmt.Sprintf("pipelined full-duplex traffic (each end %d records ahead): record %d of direction %d does not decrypt: %v",
						ahead, total+i, d, err), map[string]interface{}{"kk": kk, "ahead": ahead, "record": total + i, "dir": d})
					return
				}
			}
		}
		total += ahead
	}
	r.Case(fmt.Sprintf("pipelined:%v:%d:%d", kk, ahead, rounds), true, "pipelined-rotation")
}

// refusedWriteCase: a record whose Flush was interrupted, a WriteMessage that is refused meanwhile
// (ErrMessageNotFlushed), the Flush completed: nothing of the refused record reached the wire, so it
// must not have consumed a nonce either — the next record still decrypts.
func refusedWriteCase(r *Recorder, kk bool, cut int) {
	pass := []byte("pairing-phrase-entropy")
	cli := &hsSide{Priv: key(3021), Passphrase: pass, Min: 0, Max: 2}
	srv := &hsSide{Priv: key(3022), Passphrase: pass, AuthData: []byte("auth"), Min: 0, Max: 2}
	if kk {
		cli.Remote, srv.Remote = srv.Priv.PubKey(), cli.Priv.PubKey()
		cli.Min, srv.Min = 2, 2
	}
	cc, sc := newMemPair()
	runHandshake(cli, srv, cc, sc)
	name := fmt.Sprintf("refused-write:kk=%v:cut=%d", kk, cut)
	if cli.Err != nil || srv.Err != nil {
		r.Violate("C08/setup", fmt.Sprintf("handshake failed: %v %v", cli.Err, srv.Err), name)
		return
	}
	w, rd := cli.Machine, srv.Machine
	p1, p2, p3 := patterned(40, 1), patterned(7, 2), patterned(23, 3)
	bw := &budgetWriter{budgets: []int{cut}}
	if err := w.WriteMessage(p1); err != nil {
		r.Violate("C08/write-failed", err.Error(), name)
		return
	}
	w.Flush(bw)                   // accepts `cut` bytes, then times out
	refused := w.WriteMessage(p2) // must be refused while p1 is pending
	for i := 0; i < 4; i++ {
		if _, err := w.Flush(bw); err == nil {
			break
		}
	}
	got1, err1 := rd.ReadMessage(bytes.NewReader(bw.out))
	bw2 := &budgetWriter{}
	errW := w.WriteMessage(p3)
	w.Flush(bw2)
	got3, err3 := rd.ReadMessage(bytes.NewReader(bw2.out))
	switch {
	case refused == nil:
		// a second record accepted while the first is pending is C16's subject; nothing to judge here
	case err1 != nil || !bytes.Equal(got1, p1):
		r.Violate("C08/keys-out-of-step", fmt.Sprintf("record flushed in two parts (cut at %d wire bytes) with a refused WriteMessage in between does not decrypt: %v", cut, err1), name)
	case errW != nil || err3 != nil || !bytes.Equal(got3, p3):
		r.Violate("C08/keys-out-of-step", fmt.Sprintf("after a WriteMessage that was refused (%v) while a record was pending (cut at %d wire bytes), the next record does not decrypt: write %v, read %v (sender %d cipher uses, receiver %d)",
			refused, cut, errW, err3, w.VState().SendNonce, rd.VState().RecvNonce), name)
	}
	r.Case(name, true, "refused-write")
}

func TestC08(t *testing.T) {
	r := NewRecorder(t, "C08")
	defer r.Close(t)
	// a record whose transport write is refused or cut short, then the application's retry: both ends
	// must stay in step (the nonces spent on the record are spent on both sides or on neither)
	for _, l := range []int{1, 300} {
		for _, cut := range []int{0, 1, 17, 18, 19, 18 + l + 15} {
			for _, mode := range []string{"flush", "rewrite"} {
				writeRetryCase(r, "C08", l, cut, mode)
			}
		}
	}
	rng := newRand(8)
	for _, kk := range []bool{false, true} {
		for _, cut := range []int{0, 5, 17, 18, 30, 73} {
			refusedWriteCase(r, kk, cut)
		}
	}
	for _, kk := range []bool{false, true} {
		pipelinedCase(r, kk, 520, 3) // every round crosses a rotation in both directions
		pipelinedCase(r, kk, 250, 5) // rotations fall inside a round
		pipelinedCase(r, kk, 1, 1100)
	}
	for _, kk := range []bool{false, true} {
		pass := []byte("pairing-phrase-entropy")
		auth := []byte("macaroon: 0201036c6e640224030a10f1c3ac8f073a7fbfe9ee1bd1a3c1b6")
		cli := &hsSide{Priv: key(3001), Passphrase: pass, Min: 0, Max: 2}
		srv := &hsSide{Priv: key(3002), Passphrase: pass, AuthData: auth, Min: 0, Max: 2}
		if kk {
			cli.Remote, srv.Remote = srv.Priv.PubKey(), cli.Priv.PubKey()
			cli.Min, srv.Min = 2, 2
		}
		cc, sc := newMemPair()
		runHandshake(cli, srv, cc, sc)
		if cli.Err != nil || srv.Err != nil {
			t.Fatalf("handshake failed: %v %v", cli.Err, srv.Err)
		}
		// handshake transcript: the auth payload must not appear in it
		var transcript []byte
		for _, c := range cc.wr.log {
			transcript = append(transcript, c...)
		}
		for _, c := range sc.wr.log {
			transcript = append(transcript, c...)
		}
		if bytes.Contains(transcript, auth[:16]) {
			r.Violate("C08/auth-payload-in-clear", "the handshake transcript contains the auth payload in clear", kk)
		}
		m := [2]*mailbox.Machine{cli.Machine, srv.Machine}
		uses := [2]int{}      // cipher uses per direction (dir 0: client->server)
		epochs := [2][2]int{} // [dir][0 = sender, 1 = receiver] key changes seen
		fp := [2][2][32]byte{}
		for d := 0; d < 2; d++ {
			fp[d][0] = m[d].VState().SendKeyFP
			fp[d][1] = m[1-d].VState().RecvKeyFP
		}
		seenWire := map[string]bool{}
		n := pick(2600, 20000)
		sizes := []int{0, 1, 2, 15, 16, 17, 65535, 40}
		for i := 0; i < 2*n; i++ {
			d := rng.Intn(2)
			size := sizes[rng.Intn(len(sizes))]
			if size == 65535 && rng.Intn(20) > 0 {
				size = 100 + rng.Intn(400)
			}
			p := randBytes(rng, size)
			if rng.Intn(4) == 0 {
				p = bytes.Repeat([]byte{0x42}, 32) // equal plaintexts on purpose
			}
			h, b, err := writeRecord(m[d], p)
			if err != nil {
				r.Violate("C08/write-failed", err.Error(), i)
				return
			}
			for _, u := range [][]byte{h, b} {
				if seenWire[string(u)] {
					r.Violate("C08/ciphertext-repeated", fmt.Sprintf("a %d byte wire unit repeated (direction %d, record %d)", len(u), d, i), i)
				}
				seenWire[string(u)] = true
			}
			if len(p) >= 16 && (bytes.Contains(b, p[:16]) || bytes.Contains(h, p[:16])) {
				r.Violate("C08/plaintext-on-wire", "a 16 byte window of the plaintext appears in the wire bytes", i)
			}
			got, err := m[1-d].ReadMessage(bytes.NewReader(append(append([]byte{}, h...), b...)))
			if err != nil || !bytes.Equal(got, p) {
				r.Violate("C08/decrypt-mismatch", fmt.Sprintf("direction %d record after %d uses: %v", d, uses[d], err), i)
				return
			}
			uses[d] += 2
			// state of both cipher states of this direction vs. the model
			ss, rs := m[d].VState(), m[1-d].VState()
			if ss.SendKeyFP != fp[d][0] {
				epochs[d][0]++
				fp[d][0] = ss.SendKeyFP
			}
			if rs.RecvKeyFP != fp[d][1] {
				epochs[d][1]++
				fp[d][1] = rs.RecvKeyFP
			}
			if ss.SendKeyFP != rs.RecvKeyFP {
				r.Violate("C08/keys-out-of-step", fmt.Sprintf("direction %d after %d uses: sender and receiver hold different keys", d, uses[d]), i)
			}
			if uses[d]%100 == 0 || (uses[d]%1000) < 6 || (uses[d]%1000) > 994 {
				r.Emit(fmt.Sprintf("cs.after 1000 %d", uses[d]), fmt.Sprintf("%d %d", epochs[d][0], ss.SendNonce))
				r.Emit(fmt.Sprintf("cs.after 1000 %d", uses[d]), fmt.Sprintf("%d %d", epochs[d][1], rs.RecvNonce))
			}
			r.Case(fmt.Sprintf("kk=%v:%d", kk, i), true, fmt.Sprintf("kk=%v/dir=%d", kk, d))
		}
		r.Notes[fmt.Sprintf("rotations_kk_%v", kk)] = fmt.Sprint(epochs)
	}
	r.Sample(map[string]string{"op": "cs.after 1000 2001", "go": "2 1"})
}

// ---- C02 -------------------------------------------------------------------------

type seg struct {
	own      bool // honest unit of the reader's direction (false: other direction)
	use      int
	from, to int
	junk     []byte
	// pause: no bytes; at this point of the stream the reader's transport reports a timeout once
	// (a read deadline expiring while the relay holds the rest back), then goes on
	pause bool
}

func (s seg) String() string {
	if s.pause {
		return "p"
	}
	if s.junk != nil {
		return fmt.Sprintf("j%d", len(s.junk))
	}
	c := "h"
	if !s.own {
		c = "o"
	}
	return fmt.Sprintf("%s%d:%d:%d", c, s.use, s.from, s.to)
}

type c02Session struct {
	reader  *mailbox.Machine
	units   [2][][]byte // ciphertext units: [0] reader's direction, [1] the other direction
	plains  [][]byte
	hsBytes []byte
}

// newC02Session: fresh handshake, `lens` records written towards the reader
// and a few in the other direction (material for reflection).
func newC02Session(kk bool, lens []int, seed int) (*c02Session, error) {
	pass := []byte("pairing-phrase-entropy")
	cli := &hsSide{Priv: key(4001), Passphrase: pass, Min: 0, Max: 2}
	srv := &hsSide{Priv: key(4002), Passphrase: pass, AuthData: []byte("auth"), Min: 0, Max: 2}
	if kk {
		cli.Remote, srv.Remote = srv.Priv.PubKey(), cli.Priv.PubKey()
		cli.Min, srv.Min = 2, 2
	}
	cc, sc := newMemPair()
	runHandshake(cli, srv, cc, sc)
	if cli.Err != nil || srv.Err != nil {
		return nil, fmt.Errorf("handshake: %v %v", cli.Err, srv.Err)
	}
	s := &c02Session{reader: srv.Machine}
	for _, c := range cc.wr.log {
		s.hsBytes = append(s.hsBytes, c...)
	}
	for i, l := range lens {
		var p []byte
		if l == craftedLen {
			// a two byte plaintext that reads as the length prefix "2"
			p = []byte{0x00, 0x02}
		} else {
			p = patterned(l, 11*i+seed)
			if l >= 2 {
				p[0], p[1] = byte(i), byte(i>>8) // plaintexts identify their record
			}
		}
		h, b, err := writeRecord(cli.Machine, p)
		if err != nil {
			return nil, err
		}
		s.units[0] = append(s.units[0], h, b)
		s.plains = append(s.plains, p)
	}
	for i := 0; i < len(lens); i++ {
		ol := lens[i]
		if ol == craftedLen {
			ol = 2
		}
		h, b, err := writeRecord(srv.Machine, patterned(ol, 5*i))
		if err != nil {
			return nil, err
		}
		s.units[1] = append(s.units[1], h, b)
	}
	return s, nil
}

// craftedLen in a list of record lengths: a record of two bytes whose plaintext is 00 02
const craftedLen = -2

// pausingReader delivers data and reports a timeout once at each of the given offsets.
type pausingReader struct {
	data   []byte
	pos    int
	pauses map[int]bool
}

func (p *pausingReader) Len() int { return len(p.data) - p.pos }

func (p *pausingReader) Read(b []byte) (int, error) {
	if p.pauses[p.pos] {
		delete(p.pauses, p.pos)
		return 0, os.ErrDeadlineExceeded
	}
	if p.pos >= len(p.data) {
		return 0, io.EOF
	}
	end := len(p.data)
	for o := range p.pauses {
		if o > p.pos && o < end {
			end = o
		}
	}
	n := copy(b, p.data[p.pos:end])
	p.pos += n
	return n, nil
}

func (s *c02Session) pausesOf(segs []seg) map[int]bool {
	out := map[int]bool{}
	pos := 0
	for _, g := range segs {
		switch {
		case g.pause:
			out[pos] = true
		case g.junk != nil:
			pos += len(g.junk)
		default:
			pos += g.to - g.from
		}
	}
	return out
}

func (s *c02Session) bytesOf(segs []seg) []byte {
	var out []byte
	for _, g := range segs {
		if g.pause {
			continue
		}
		if g.junk != nil {
			out = append(out, g.junk...)
			continue
		}
		d := 0
		if !g.own {
			d = 1
		}
		out = append(out, s.units[d][g.use][g.from:g.to]...)
	}
	return out
}

// coincidence reports whether, along the reader's error-free path, some unit-sized window of the
// wire equals the expected honest unit byte for byte although not all of its bytes originate from
// that unit at the same offsets.
func (s *c02Session) coincidence(segs []seg) bool {
	type origin struct {
		own      bool
		use, off int
		junk     bool
	}
	var data []byte
	var org []origin
	for _, g := range segs {
		if g.pause {
			continue
		}
		if g.junk != nil {
			for _, b := range g.junk {
				data = append(data, b)
				org = append(org, origin{junk: true})
			}
			continue
		}
		d := 0
		if !g.own {
			d = 1
		}
		for o := g.from; o < g.to; o++ {
			data = append(data, s.units[d][g.use][o])
			org = append(org, origin{own: g.own, use: g.use, off: o})
		}
	}
	pos := 0
	for u := 0; u < len(s.units[0]); u++ {
		unit := s.units[0][u]
		if pos+len(unit) > len(data) || !bytes.Equal(data[pos:pos+len(unit)], unit) {
			return false // the reader fails here (and latches): values past this point are never accepted
		}
		for k := range unit {
			o := org[pos+k]
			if o.junk || !o.own || o.use != u || o.off != k {
				return true
			}
		}
		pos += len(unit)
	}
	return false
}

// c02Case runs the case twice: the reader uses ReadMessage, and the split API (ReadHeader, then
// ReadBody with a buffer of the announced size), which is what NoiseConn.ReadNextHeader /
// ReadNextBody expose. Both must behave alike; the model line is emitted once.
func c02Case(r *Recorder, kk bool, lens []int, mk func(s *c02Session, honest []seg) []seg, class string, seed int) {
	c02CaseMode(r, kk, lens, mk, class, seed, false)
	c02CaseMode(r, kk, lens, mk, class, seed, true)
}

func c02CaseMode(r *Recorder, kk bool, lens []int, mk func(s *c02Session, honest []seg) []seg, class string, seed int, split bool) {
	s, err := newC02Session(kk, lens, seed)
	if err != nil {
		r.Violate("C02/setup", err.Error(), lens)
		return
	}
	var honest []seg
	for u := range s.units[0] {
		honest = append(honest, seg{own: true, use: u, from: 0, to: len(s.units[0][u])})
	}
	segs := mk(s, honest)
	// the adversary's bytes may happen to equal, value for value, the honest unit the reader expects at
	// that position (a one-byte splice has a 1/256 chance): the symbolic model distinguishes bytes by
	// origin, not value, so model and implementation legitimately differ on such a wire. The oracle is
	// still evaluated on it; only the line for the model is left out.
	coinc := s.coincidence(segs)
	if coinc {
		r.Notes["value_coincidences_not_sent_to_model"] = fmt.Sprint(r.Notes["value_coincidences_not_sent_to_model"], " ", seed)
	}
	wire := &pausingReader{data: s.bytesOf(segs), pauses: s.pausesOf(segs)}
	var results []string
	var returned [][]byte
	errs := 0
	var pendingLen uint32
	havePending := false
	for (wire.Len() > 0 || len(wire.pauses) > 0) && errs < 3 && len(results) < 2000 {
		var got []byte
		var err error
		if split {
			// a user of the split API who got a header keeps its length and asks for the body
			// again after a failed ReadBody (the header is not on the wire a second time)
			if !havePending {
				pendingLen, err = s.reader.ReadHeader(wire)
				havePending = err == nil
			}
			if havePending {
				got, err = s.reader.ReadBody(wire, make([]byte, pendingLen))
				havePending = err != nil
			}
		} else {
			got, err = s.reader.ReadMessage(wire)
		}
		if err != nil {
			results = append(results, "err")
			errs++
			continue
		}
		errs = 0
		idx := -1
		for j, p := range s.plains {
			if bytes.Equal(p, got) && (j >= len(returned) || idx < 0) {
				if j == len(returned) {
					idx = j
					break
				}
				if idx < 0 {
					idx = j
				}
			}
		}
		results = append(results, fmt.Sprintf("ok:%d", idx))
		returned = append(returned, got)
	}
	// oracle, in the property's words: what was returned is a prefix of what was written
	okPrefix := len(returned) <= len(s.plains)
	for i := 0; okPrefix && i < len(returned); i++ {
		okPrefix = bytes.Equal(returned[i], s.plains[i])
	}
	strs := make([]string, len(segs))
	for i, g := range segs {
		strs[i] = g.String()
	}
	desc := map[string]interface{}{"kk": kk, "lens": lens, "wire": strings.Join(strs, ","), "results": results, "split_read_api": split}
	if !okPrefix {
		r.Violate("C02/returned-not-prefix", fmt.Sprintf("reader returned %d records that are not a prefix of the %d written (wire %s)",
			len(returned), len(s.plains), strings.Join(strs, ",")), desc)
	}
	out := strings.Join(results, ",")
	if out == "" {
		out = "none"
	}
	segStr := strings.Join(strs, ",")
	if segStr == "" {
		segStr = "none"
	}
	mlens := append([]int(nil), lens...)
	for i := range mlens {
		if mlens[i] == craftedLen {
			mlens[i] = 2
		}
	}
	lensStr := ints(mlens)
	if lensStr == "" {
		lensStr = "none"
	}
	if !coinc && !split {
		r.Emit(fmt.Sprintf("rec.read 0 %s %s", lensStr, segStr), out)
	}
	edited := len(segs) != len(honest)
	for i := range segs {
		if !edited && segs[i].String() != honest[i].String() {
			edited = true
		}
	}
	r.Case(fmt.Sprintf("%v:%v:%s:split=%v", kk, lens, segStr, split), edited, class)
	if len(r.Samples) < 4 && edited {
		r.Samples = append(r.Samples, desc)
	}
}

func cloneSegs(s []seg) []seg { return append([]seg(nil), s...) }

func TestC02(t *testing.T) {
	r := NewRecorder(t, "C02")
	defer r.Close(t)
	// a second session on the same NoiseGrpcConn object - over a fresh and over the same transport
	// object - must not be handed plaintext left over from the first
	for _, same := range []bool{false, true} {
		grpcReuseCase(r, "C02", false, same, 1000, 100)
		grpcReuseCase(r, "C02", false, same, 10, 1)
	}
	// ... nor the remainder of a record of the first session that its blocked Read receives late
	grpcReuseCase(r, "C02", true, false, 1000, 100)
	rng := newRand(2)
	// honest streams
	for _, kk := range []bool{false, true} {
		c02Case(r, kk, []int{0, 1, 40, 65535, 7}, func(s *c02Session, h []seg) []seg { return h }, "honest", 0)
	}
	// every single-bit flip of one record (header and body), sizes 0, 1, 40
	for _, l := range []int{0, 1, 40} {
		total := 18 + l + 16
		for bit := 0; bit < total*8; bit++ {
			if !thorough() && l == 40 && bit%3 != 0 {
				continue
			}
			bit := bit
			c02Case(r, bit%2 == 0, []int{3, l, 5}, func(s *c02Session, h []seg) []seg {
				// record 1 = units 2 (header) and 3 (body)
				pos := bit / 8
				u, off := 2, pos
				if pos >= 18 {
					u, off = 3, pos-18
				}
				orig := s.units[0][u][off]
				out := cloneSegs(h[:u])
				if off > 0 {
					out = append(out, seg{own: true, use: u, from: 0, to: off})
				}
				out = append(out, seg{junk: []byte{orig ^ (1 << (bit % 8))}})
				if off+1 < len(s.units[0][u]) {
					out = append(out, seg{own: true, use: u, from: off + 1, to: len(s.units[0][u])})
				}
				return append(out, h[u+1:]...)
			}, "bit-flip", bit)
		}
	}
	// random multi-edit scripts
	for i := 0; i < pick(1500, 60000); i++ {
		nrec := 1 + rng.Intn(5)
		lens := make([]int, nrec)
		for j := range lens {
			lens[j] = []int{0, 1, 2, 17, 40, 300}[rng.Intn(6)]
		}
		nedits := 1 + rng.Intn(6)
		script := make([]int, nedits*3)
		for j := range script {
			script[j] = rng.Intn(1 << 20)
		}
		c02Case(r, i%2 == 0, lens, func(s *c02Session, h []seg) []seg {
			w := cloneSegs(h)
			for e := 0; e < nedits; e++ {
				a, b, c := script[3*e], script[3*e+1], script[3*e+2]
				if len(w) == 0 {
					w = append(w, seg{junk: randBytes(newRand(int64(a)), 18)})
					continue
				}
				i := b % len(w)
				switch a % 9 {
				case 0: // drop a unit
					w = append(w[:i], w[i+1:]...)
				case 1: // drop a whole record (header+body) if aligned
					j := i - i%2
					if j+2 <= len(w) {
						w = append(w[:j], w[j+2:]...)
					}
				case 2: // duplicate
					w = append(w[:i+1], append([]seg{w[i]}, w[i+1:]...)...)
				case 3: // swap with neighbour
					if i+1 < len(w) {
						w[i], w[i+1] = w[i+1], w[i]
					}
				case 4: // replay an earlier honest unit here
					u := c % len(h)
					w = append(w[:i], append([]seg{h[u]}, w[i:]...)...)
				case 5: // reflect a unit of the other direction
					u := c % len(s.units[1])
					w = append(w[:i], append([]seg{{own: false, use: u, from: 0, to: len(s.units[1][u])}}, w[i:]...)...)
				case 6: // truncate the stream inside this unit
					if w[i].junk == nil && w[i].to-w[i].from > 1 {
						w[i].to = w[i].from + 1 + c%(w[i].to-w[i].from-1)
						w = w[:i+1]
					}
				case 7: // inject random bytes
					n := []int{1, 17, 18, 19, 34, 100}[c%6]
					w = append(w[:i], append([]seg{{junk: randBytes(newRand(int64(c)), n)}}, w[i:]...)...)
				case 8: // inject handshake bytes
					n := 18 + c%40
					if n > len(s.hsBytes) {
						n = len(s.hsBytes)
					}
					w = append(w[:i], append([]seg{{junk: append([]byte(nil), s.hsBytes[:n]...)}}, w[i:]...)...)
				}
			}
			return w
		}, "random-script", i)
	}
	// across the first key rotation (1000 AEAD operations = 500 records): replays of
	// first-epoch records and reflections of the other direction's first-epoch records,
	// placed just before, at and just after the boundary
	rot := make([]int, 503)
	for j := range rot {
		rot[j] = 2 + j%4
	}
	for _, at := range []int{499, 500, 501, 502} {
		for _, what := range []string{"replay-own-0", "reflect-other-0", "replay-own-last", "reflect-other-1", "reflect-other-same"} {
			at, what := at, what
			c02Case(r, at%2 == 0, rot, func(s *c02Session, h []seg) []seg {
				var ins []seg
				switch what {
				case "replay-own-0":
					ins = []seg{h[0], h[1]}
				case "replay-own-last":
					ins = []seg{h[2*at-2], h[2*at-1]}
				case "reflect-other-0":
					ins = []seg{{own: false, use: 0, from: 0, to: len(s.units[1][0])}, {own: false, use: 1, from: 0, to: len(s.units[1][1])}}
				case "reflect-other-1":
					ins = []seg{{own: false, use: 2, from: 0, to: len(s.units[1][2])}, {own: false, use: 3, from: 0, to: len(s.units[1][3])}}
				case "reflect-other-same":
					// the reader's own record with the same index: sealed under the same key epoch and
					// nonce of the *other* direction, also after both directions have rotated
					ins = []seg{{own: false, use: 2 * at, from: 0, to: len(s.units[1][2*at])}, {own: false, use: 2*at + 1, from: 0, to: len(s.units[1][2*at+1])}}
				}
				w := cloneSegs(h[:2*at])
				w = append(w, ins...)
				return append(w, h[2*at:]...)
			}, "rotation-boundary", at)
		}
	}
	// a failure exactly at the key rotation: one bit flipped in the header / body of the records around
	// record 499 (its body is the 1000th decrypt, the one that triggers the rotation); the reader is
	// asked again afterwards and must stay failed
	for _, unit := range []int{996, 997, 998, 999, 1000, 1001} {
		for _, off := range []int{0, 5} {
			unit, off := unit, off
			c02Case(r, unit%2 == 0, rot, func(s *c02Session, h []seg) []seg {
				orig := s.units[0][unit][off]
				w := cloneSegs(h[:unit])
				if off > 0 {
					w = append(w, seg{own: true, use: unit, from: 0, to: off})
				}
				w = append(w, seg{junk: []byte{orig ^ 0x10}})
				w = append(w, seg{own: true, use: unit, from: off + 1, to: len(s.units[0][unit])})
				return append(w, h[unit+1:]...)
			}, "rotation-boundary-flip", unit*10+off)
		}
	}
	// the relay controls timing too: a read deadline expires at a chosen point of the stream (the
	// transport reports a timeout once and then goes on), the application asks again. Before any
	// byte of a record: the retry must simply work. Inside a record the position is lost: whatever
	// the reader does afterwards, it must not hand out anything but the records written, in order -
	// also when the two byte plaintext of a record reads as a plausible length prefix
	for _, lens := range [][]int{{craftedLen, 5, 3}, {2, 5, 3}, {5, craftedLen, 7, 2}, {0, 1, 40}} {
		for rec := 0; rec < len(lens); rec++ {
			ll := lens[rec]
			if ll == craftedLen {
				ll = 2
			}
			for _, at := range []int{0, 1, 17, 18, 19, 18 + ll + 15} {
				lens, rec, at := lens, rec, at
				if at > 18+ll+15 {
					continue
				}
				c02Case(r, (rec+at)%2 == 0, lens, func(s *c02Session, h []seg) []seg {
					u, off := 2*rec, at
					if at >= 18 {
						u, off = 2*rec+1, at-18
					}
					w := cloneSegs(h[:u])
					if off > 0 {
						w = append(w, seg{own: true, use: u, from: 0, to: off})
					}
					w = append(w, seg{pause: true})
					if off < len(s.units[0][u]) {
						w = append(w, seg{own: true, use: u, from: off, to: len(s.units[0][u])})
					}
					return append(w, h[u+1:]...)
				}, "read-timeout", 1000*rec+at)
			}
		}
	}
	// the resynchronisation attempt that the sticky error must defeat
	c02Case(r, false, []int{2, 3}, func(s *c02Session, h []seg) []seg {
		return []seg{{junk: randBytes(rng, 18)}, {junk: randBytes(rng, 18)}, h[2], h[3]}
	}, "resync", 0)
}
