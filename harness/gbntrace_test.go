package harness

import (
	"bytes"
	"fmt"
	"strings"

	"github.com/lightninglabs/lightning-node-connect/gbn"
)

func msgsField(ms [][]byte) string {
	if len(ms) == 0 {
		return "none"
	}
	parts := make([]string, len(ms))
	for i, m := range ms {
		parts[i] = hx(m)
	}
	return strings.Join(parts, ",")
}

// uniLines turns the event log of a scenario into the operation lines replayed
// through the Lean transition system (one Uni system per data direction).
func uniLines(sc *GbnScenario, res *GbnResult) []string {
	ops := []string{fmt.Sprintf("uni.init %d", sc.N)}
	evs := res.Events
	type dec struct {
		m  gbn.Message
		ok bool
	}
	decs := make([]dec, len(evs))
	for i, e := range evs {
		if e.Kind == "emit" || e.Kind == "deliver" {
			var m gbn.Message
			var err error
			p, _ := safely(func() { m, err = gbn.Deserialize(e.Pkt) })
			decs[i] = dec{m, !p && err == nil}
		}
	}
	for i, e := range evs {
		if !decs[i].ok {
			continue
		}
		switch m := decs[i].m.(type) {
		case *gbn.PacketData:
			if e.Kind == "emit" {
				ops = append(ops, fmt.Sprintf("uni.emitD %d %d %s %s %s %d", e.EP, m.Seq,
					b01(m.FinalChunk), b01(m.IsPing), hx(m.Payload), e.Copies))
				continue
			}
			// deliver: find the receive loop's reaction
			react := "lost"
			if e.By == "recvloop" {
			scan:
				for j := i + 1; j < len(evs); j++ {
					f := evs[j]
					if f.EP != e.EP || !decs[j].ok {
						continue
					}
					switch r := decs[j].m.(type) {
					case *gbn.PacketACK:
						if f.Kind == "emit" {
							react = fmt.Sprintf("ack:%d:%d", r.Seq, f.Copies)
							break scan
						}
					case *gbn.PacketNACK:
						if f.Kind == "emit" {
							react = fmt.Sprintf("nack:%d:%d", r.Seq, f.Copies)
							break scan
						}
					}
					if f.Kind == "deliver" && f.By == "recvloop" {
						react = "none"
						break scan
					}
				}
			}
			ops = append(ops, fmt.Sprintf("uni.delivD %d %d %s %s %s %s", 1-e.EP, m.Seq,
				b01(m.FinalChunk), b01(m.IsPing), hx(m.Payload), react))
		case *gbn.PacketACK:
			if e.Kind == "deliver" {
				ops = append(ops, fmt.Sprintf("uni.delivR %d ack %d %s", e.EP, m.Seq, b01(e.By == "recvloop")))
			}
		case *gbn.PacketNACK:
			if e.Kind == "deliver" {
				ops = append(ops, fmt.Sprintf("uni.delivR %d nack %d %s", e.EP, m.Seq, b01(e.By == "recvloop")))
			}
		}
	}
	for dir := 0; dir < 2; dir++ {
		ops = append(ops, fmt.Sprintf("uni.recvd %d %s", dir, msgsField(res.Recvd[1-dir])))
	}
	return ops
}

// attempted lists, per endpoint, every payload passed to Send, in order.
func attempted(res *GbnResult) [2][][]byte {
	var a [2][][]byte
	for _, e := range res.Events {
		if e.Kind == "send" {
			a[e.EP] = append(a[e.EP], e.Pkt)
		}
	}
	return a
}

// prefixOracle: what each endpoint's Recv returned is a prefix of what the
// peer passed to Send, byte for byte and in order (C01), stated on the API
// only, without reference to the model.
func prefixOracle(res *GbnResult) (bool, string) {
	att := attempted(res)
	for ep := 0; ep < 2; ep++ {
		got, sent := res.Recvd[ep], att[1-ep]
		if len(got) > len(sent) {
			return false, fmt.Sprintf("endpoint %d received %d messages, peer sent only %d", ep, len(got), len(sent))
		}
		for i, m := range got {
			if !bytes.Equal(m, sent[i]) {
				return false, fmt.Sprintf("endpoint %d Recv #%d returned %x, peer's Send #%d was %x", ep, i, m, i, sent[i])
			}
		}
	}
	return true, ""
}
