package harness

import (
	"bytes"
	"context"
	"fmt"
	"strings"
	"sync"
	"testing"
	"testing/synctest"
	"time"

	"github.com/lightninglabs/lightning-node-connect/gbn"
)

type HsScenario struct {
	Name        string        `json:"name"`
	N           uint8         `json:"n"`
	Faults      [2][]Fault    `json:"faults"`
	Stale       [2][]string   `json:"stale"` // hex packets already queued towards server [0] / client [1]
	ClientDelay time.Duration `json:"client_delay"`
	ServerDelay time.Duration `json:"server_delay"`
	Retry       bool          `json:"retry"`
}

type HsResult struct {
	Events           []Event
	CliErr, SrvErr   string
	CliN, SrvN       int
	LastN            [2]int // window of the connection on which each side (client, server) received the peer's message
	CliConn, SrvConn bool
	Panic            string
	Leaked           string
	Delivered        [2]bool // a message went client->server / server->client
	Attempts         [2]int
	StaleOtherN      bool
}

func hsFaultPlan(sc *HsScenario) FaultPlan {
	return func(dir, idx int, pkt []byte, now time.Duration) Fault {
		if idx < len(sc.Faults[dir]) {
			return sc.Faults[dir][idx]
		}
		return Fault{}
	}
}

func unhex(s string) []byte {
	var b []byte
	fmt.Sscanf(s, "%x", &b)
	return b
}

func RunHs(t *testing.T, sc *HsScenario) *HsResult {
	res := &HsResult{}
	func() {
		defer func() {
			if r := recover(); r != nil {
				msg := fmt.Sprint(r)
				if strings.Contains(msg, "blocked goroutines remain") || strings.Contains(msg, "deadlock") {
					res.Leaked = msg
				} else {
					res.Panic = msg
				}
			}
		}()
		synctest.Test(t, func(t *testing.T) {
			sim := NewSim(t, hsFaultPlan(sc), 10*time.Millisecond)
			for dir := 0; dir < 2; dir++ {
				for _, h := range sc.Stale[dir] {
					sim.Inject(dir, unhex(h))
				}
			}
			ctx, cancel := context.WithCancel(context.Background())
			defer cancel()
			opts := []gbn.Option{gbn.WithTimeoutOptions(
				gbn.WithKeepalivePing(5*time.Second, 3*time.Second))}
			var mu sync.Mutex
			var wg sync.WaitGroup
			maxAttempts := 1
			if sc.Retry {
				maxAttempts = 8
			}
			// each side behaves like the mailbox layer above it: connect, use
			// the connection, and on any failure close it and connect again
			side := func(ep int, delay time.Duration) {
				defer wg.Done()
				time.Sleep(delay)
				for a := 0; a < maxAttempts && ctx.Err() == nil; a++ {
					mu.Lock()
					res.Attempts[ep]++
					mu.Unlock()
					var conn *gbn.GoBackNConn
					var err error
					sim.log(Event{EP: ep, Kind: "hs-start"})
					if ep == 0 {
						conn, err = gbn.NewClientConn(ctx, sc.N, sim.sendFunc(0), sim.recvFunc(0), opts...)
					} else {
						conn, err = gbn.NewServerConn(ctx, sim.sendFunc(1), sim.recvFunc(1), opts...)
					}
					n := 0
					if conn != nil {
						n = int(conn.VState().N)
					}
					estr := errStr(err)
					if ctx.Err() != nil {
						estr = "context canceled"
					}
					sim.log(Event{EP: ep, Kind: "hs-ret", Err: estr, Msg: n})
					mu.Lock()
					if a == 0 {
						if ep == 0 {
							res.CliErr, res.CliN, res.CliConn = estr, n, estr == ""
						} else {
							res.SrvErr, res.SrvN, res.SrvConn = estr, n, estr == ""
						}
					}
					mu.Unlock()
					if err != nil || conn == nil {
						if conn != nil {
							conn.Close()
						}
						continue
					}
					sendDone := make(chan error, 1)
					go func() { sendDone <- conn.Send(payloadFor(ep, 0, 5)) }()
					conn.SetRecvTimeout(30 * time.Second)
					b, rerr := conn.Recv()
					ok := rerr == nil && bytes.Equal(b, payloadFor(1-ep, 0, 5))
					if ok {
						mu.Lock()
						res.Delivered[1-ep] = true
						res.LastN[ep] = n // the window of the connection on which the peer's message arrived
						mu.Unlock()
						// stay up until the peer has what we sent
						for k := 0; k < 4000; k++ {
							time.Sleep(10 * time.Millisecond)
							mu.Lock()
							d := res.Delivered[ep]
							mu.Unlock()
							if d || conn.VClosed() {
								break
							}
						}
					}
					sim.log(Event{EP: ep, Kind: "close"})
					conn.Close()
					sim.log(Event{EP: ep, Kind: "close-ret"})
					<-sendDone
					mu.Lock()
					both := res.Delivered[0] && res.Delivered[1]
					mu.Unlock()
					if both {
						return
					}
				}
			}
			wg.Add(2)
			go side(1, sc.ServerDelay)
			go side(0, sc.ClientDelay)
			done := make(chan struct{})
			go func() { wg.Wait(); close(done) }()
			select {
			case <-done:
			case <-time.After(400 * time.Second):
				cancel()
				<-done
			}
			cancel()
			synctest.Wait()
			sim.mu.Lock()
			res.Events = sim.events
			sim.mu.Unlock()
		})
	}()
	return res
}

// reconnectAfterSilentLoss: a connection is up and has carried data; the client then disappears
// without a FIN (its process is gone: nothing it sends reaches the transport any more). A new client
// with the same window size connects over the same transport. The server side behaves like the
// mailbox layer: it uses its connection until that fails, closes it and listens again. The transport
// is fault free throughout, so "once the transport behaves a handshake succeeds and data flows": the
// new client's handshake must complete and its message arrive, within a generous bound.
func reconnectAfterSilentLoss(t *testing.T, n uint8, keepalive bool) (ok bool, what string, panicMsg string) {
	func() {
		defer func() {
			if r := recover(); r != nil {
				panicMsg = fmt.Sprint(r)
			}
		}()
		synctest.Test(t, func(t *testing.T) {
			sim := NewSim(t, func(dir, idx int, pkt []byte, now time.Duration) Fault { return Fault{} }, 10*time.Millisecond)
			ctx, cancel := context.WithCancel(context.Background())
			defer cancel()
			var opts []gbn.Option
			if keepalive {
				opts = append(opts, gbn.WithTimeoutOptions(gbn.WithKeepalivePing(5*time.Second, 3*time.Second)))
			}
			var mu sync.Mutex
			var got []string
			var srvWG sync.WaitGroup
			srvWG.Add(1)
			go func() { // the listener
				defer srvWG.Done()
				for a := 0; a < 8 && ctx.Err() == nil; a++ {
					conn, err := gbn.NewServerConn(ctx, sim.sendFunc(1), sim.recvFunc(1), opts...)
					if err != nil || conn == nil {
						if conn != nil {
							conn.Close()
						}
						continue
					}
					for {
						b, rerr := conn.Recv()
						if rerr != nil {
							break
						}
						mu.Lock()
						got = append(got, string(b))
						mu.Unlock()
					}
					conn.Close()
				}
			}()
			has := func(m string) bool {
				mu.Lock()
				defer mu.Unlock()
				for _, g := range got {
					if g == m {
						return true
					}
				}
				return false
			}
			waitFor := func(m string, limit time.Duration) bool {
				for d := time.Duration(0); d < limit; d += 50 * time.Millisecond {
					if has(m) {
						return true
					}
					time.Sleep(50 * time.Millisecond)
				}
				return has(m)
			}
			var gone sync.Map
			send0 := sim.sendFunc(0)
			c1, err := gbn.NewClientConn(ctx, n, func(c context.Context, b []byte) error {
				if _, dead := gone.Load("c1"); dead {
					return nil // the process is gone: nothing reaches the transport
				}
				return send0(c, b)
			}, sim.recvFunc(0), opts...)
			if err != nil {
				what = "first connection: " + err.Error()
				cancel()
				srvWG.Wait()
				return
			}
			if c1.Send([]byte("one")) != nil || !waitFor("one", 30*time.Second) {
				what = "first connection carried no data"
				c1.Close()
				cancel()
				srvWG.Wait()
				return
			}
			time.Sleep(700 * time.Millisecond)
			gone.Store("c1", true)
			c1.Close() // releases its goroutines; its FIN goes nowhere
			time.Sleep(300 * time.Millisecond)
			hs := make(chan error, 1)
			var c2 *gbn.GoBackNConn
			c2ctx, c2cancel := context.WithCancel(ctx)
			go func() {
				var e error
				c2, e = gbn.NewClientConn(c2ctx, n, sim.sendFunc(0), sim.recvFunc(0), opts...)
				hs <- e
			}()
			select {
			case e := <-hs:
				if e != nil {
					// a failed attempt is an error on the side that cannot proceed; the layer above
					// dials again
					c2, e = gbn.NewClientConn(c2ctx, n, sim.sendFunc(0), sim.recvFunc(0), opts...)
				}
				if e != nil {
					what = "the new client's handshake failed twice: " + e.Error()
				} else if c2.Send([]byte("two")) != nil || !waitFor("two", 60*time.Second) {
					what = "the new client's handshake completed but its message did not arrive within 60 s"
				} else {
					ok = true
				}
			case <-time.After(180 * time.Second):
				what = "the new client's handshake neither completed nor failed within 180 s: its SYNs go unanswered, and the server's old connection neither failed nor answered"
				c2cancel()
				<-hs
			}
			c2cancel()
			if c2 != nil {
				c2.Close()
			}
			cancel()
			srvWG.Wait()
			synctest.Wait()
		})
	}()
	return
}

// hsLines: the handshake-phase events as lines for the Lean automata. Only
// the first attempt of each side is replayed (a retry starts a fresh automaton).
func hsLines(sc *HsScenario, res *HsResult) []string {
	ops := []string{fmt.Sprintf("hs.init %d", sc.N)}
	retSeen := [2]bool{}
	for _, e := range res.Events {
		side := []string{"c", "s"}[e.EP]
		if retSeen[e.EP] {
			continue
		}
		switch {
		case e.Kind == "emit" && e.By == "hs":
			ops = append(ops, fmt.Sprintf("hs.%s.emit %s", side, hx(e.Pkt)))
		case e.Kind == "deliver" && e.By == "hs":
			ops = append(ops, fmt.Sprintf("hs.%s.recv %s", side, hx(e.Pkt)))
		case e.Kind == "hs-ret":
			retSeen[e.EP] = true
			r := "ok"
			if e.Err != "" {
				r = "err"
				if strings.Contains(e.Err, "context canceled") {
					r = "cancelled"
				}
			}
			if e.EP == 0 {
				ops = append(ops, "hs.c.ret "+r)
			} else {
				ops = append(ops, fmt.Sprintf("hs.s.ret %s %d", r, e.Msg))
			}
		}
	}
	return ops
}

var hsFaultKinds = []Fault{{}, {Drop: true}, {Dup: true}, {Delay: 1500 * time.Millisecond}}

func hsPatterns(k int) [][]Fault {
	if k == 0 {
		return [][]Fault{{}}
	}
	var res [][]Fault
	for _, rest := range hsPatterns(k - 1) {
		for _, f := range hsFaultKinds {
			res = append(res, append([]Fault{f}, rest...))
		}
	}
	return res
}

func c10Scenarios() []*HsScenario {
	var scs []*HsScenario
	id := 0
	add := func(sc *HsScenario) {
		id++
		sc.Name = fmt.Sprintf("hs-%d", id)
		scs = append(scs, sc)
	}
	// (a) fault patterns over the first handshake packets, both directions
	k0, k1 := pick(3, 4), pick(2, 3)
	for _, f0 := range hsPatterns(k0) {
		for _, f1 := range hsPatterns(k1) {
			add(&HsScenario{N: 20, Faults: [2][]Fault{f0, f1}, Retry: true})
		}
	}
	// (b) stale packets of an earlier connection, every type, either direction
	stale := []string{"0114", "0107", "06", "0200010055", "0203010055", "0300", "0402", "05", "ff", "02", "0100", "01ff"}
	for _, a := range stale {
		add(&HsScenario{N: 20, Stale: [2][]string{{a}, nil}, Retry: true})
		add(&HsScenario{N: 20, Stale: [2][]string{nil, {a}}, Retry: true})
		for _, b := range stale {
			add(&HsScenario{N: 20, Stale: [2][]string{{a, b}, nil}, Retry: true})
			add(&HsScenario{N: 20, Stale: [2][]string{nil, {a, b}}, Retry: true})
			if thorough() {
				add(&HsScenario{N: 20, Stale: [2][]string{{a}, {b}}, Retry: true})
				for _, c := range []string{"0107", "06", "0114"} {
					add(&HsScenario{N: 20, Stale: [2][]string{{a, b, c}, nil}, Retry: true})
					add(&HsScenario{N: 20, Stale: [2][]string{{c}, {a, b}}, Retry: true})
				}
			}
		}
	}
	// a re-SYN with an unrepresentable window while the server waits for the SYNACK, then a SYNACK
	for _, bad := range []string{"0100", "01ff"} {
		add(&HsScenario{N: 20, Stale: [2][]string{{"0114", bad, "06"}, nil}, Retry: true})
		add(&HsScenario{N: 20, Stale: [2][]string{{"0107", "0114", bad, "06"}, nil}, Retry: true})
	}
	// the model's counterexample to unconditional agreement
	add(&HsScenario{N: 3, Stale: [2][]string{{"0107", "06"}, {"0103"}}})
	// (c) every client window size, relative start orders
	for n := 0; n < 256; n++ {
		if !thorough() && n > 4 && n < 250 && n%25 != 0 {
			continue
		}
		for _, d := range []time.Duration{0, 500 * time.Millisecond, 1500 * time.Millisecond} {
			add(&HsScenario{N: uint8(n), ClientDelay: d})
			add(&HsScenario{N: uint8(n), ServerDelay: d})
		}
	}
	for _, f0 := range hsPatterns(2) {
		for _, d := range []time.Duration{300 * time.Millisecond, 1100 * time.Millisecond, 2500 * time.Millisecond} {
			add(&HsScenario{N: 5, Faults: [2][]Fault{f0, nil}, ClientDelay: d, Retry: true})
			add(&HsScenario{N: 5, Faults: [2][]Fault{nil, f0}, ServerDelay: d, Retry: true})
		}
	}
	return scs
}

func TestC10(t *testing.T) {
	r := NewRecorder(t, "C10")
	defer r.Close(t)
	for _, n := range []uint8{1, 20, 254} {
		for _, ka := range []bool{false, true} {
			ok, what, pm := reconnectAfterSilentLoss(t, n, ka)
			name := fmt.Sprintf("reconnect-after-silent-loss:n=%d:keepalive=%v", n, ka)
			switch {
			case pm != "" && !strings.Contains(pm, "blocked goroutines remain"):
				r.Violate("C10/crash", pm, name)
			case !ok && pm == "":
				r.Violate("C10/no-reconnect-after-silent-loss", fmt.Sprintf("window %d, keepalive %v, fault-free transport; a client vanished without a FIN and a new client with the same window connects: %s", n, ka, what), name)
			}
			r.Case(name, true, "reconnect-after-silent-loss")
		}
	}
	scs := c10Scenarios()
	var mu sync.Mutex
	idx := 0
	traces := 0
	t.Run("hs", func(t *testing.T) {
		for w := 0; w < 16; w++ {
			t.Run(fmt.Sprint(w), func(t *testing.T) {
				t.Parallel()
				for {
					mu.Lock()
					i := idx
					idx++
					mu.Unlock()
					if i >= len(scs) {
						return
					}
					sc := scs[i]
					res := RunHs(t, sc)
					mu.Lock()
					c10Judge(r, sc, res)
					traces++
					mu.Unlock()
				}
			})
		}
	})
	r.Notes["traces_validated"] = traces
}

func c10Judge(r *Recorder, sc *HsScenario, res *HsResult) {
	if res.Panic != "" {
		r.Violate("C10/panic", res.Panic, sc)
		return
	}
	r.EmitOKBlock(hsLines(sc, res))
	faulty := len(sc.Stale[0])+len(sc.Stale[1]) > 0
	for d := 0; d < 2; d++ {
		for _, f := range sc.Faults[d] {
			if f != (Fault{}) {
				faulty = true
			}
		}
	}
	r.Case(sc.Name, faulty || sc.ClientDelay+sc.ServerDelay > 0, fmt.Sprintf("stale=%d+%d/faulty=%v/validN=%v",
		len(sc.Stale[0]), len(sc.Stale[1]), faulty, sc.N >= 1 && sc.N <= 254))
	// which window sizes were ever presented to the server in a SYN
	syns := map[int]bool{}
	for _, e := range res.Events {
		if e.Kind == "deliver" && e.EP == 1 && len(e.Pkt) >= 2 && e.Pkt[0] == gbn.SYN {
			syns[int(e.Pkt[1])] = true
		}
	}
	otherN := false
	for n := range syns {
		if n != int(sc.N) {
			otherN = true
		}
	}
	if res.SrvConn {
		if res.SrvN < 1 || res.SrvN > 254 {
			r.Violate("C10/server-unrepresentable-window", fmt.Sprintf("server entered the data phase with n=%d", res.SrvN), sc)
		}
		if !syns[res.SrvN] {
			r.Violate("C10/server-window-not-proposed", fmt.Sprintf("server uses n=%d, SYNs delivered to it: %v", res.SrvN, syns), sc)
		}
		if !otherN && res.SrvN != int(sc.N) {
			r.Violate("C10/window-disagreement", fmt.Sprintf("client proposed %d, server uses %d", sc.N, res.SrvN), sc)
		}
	}
	if res.CliConn && res.CliN != int(sc.N) {
		r.Violate("C10/client-window-changed", fmt.Sprintf("client proposed %d, uses %d", sc.N, res.CliN), sc)
	}
	if res.CliConn && (sc.N == 0 || sc.N == 255) {
		r.Violate("C10/client-accepts-invalid-window", fmt.Sprintf("NewClientConn accepted n=%d", sc.N), sc)
	}
	// a side that did not proceed must have returned an error
	if !res.CliConn && res.CliErr == "" {
		r.Violate("C10/client-silent-failure", "client has no connection and no error", sc)
	}
	if !res.SrvConn && res.SrvErr == "" {
		r.Violate("C10/server-silent-failure", "server has no connection and no error", sc)
	}
	// convergence: without stale packets, once faults are over, a handshake
	// succeeds (retries allowed) and data flows both ways
	if sc.Retry && len(sc.Stale[0])+len(sc.Stale[1]) == 0 && sc.N >= 1 && sc.N <= 254 {
		if !(res.Delivered[0] && res.Delivered[1]) {
			r.Violate("C10/no-convergence", fmt.Sprintf("after faults ceased: client up=%v (%s) server up=%v (%s) delivered=%v attempts=%v",
				res.CliConn, res.CliErr, res.SrvConn, res.SrvErr, res.Delivered, res.Attempts), sc)
		}
	}
	if res.CliConn && res.SrvConn && res.CliN != res.SrvN {
		// both proceed with different windows: only possible with a stale SYN of another window
		r.Notes["window_split_observed"] = fmt.Sprintf("%s: client %d server %d delivered=%v", sc.Name, res.CliN, res.SrvN, res.Delivered)
	}
	if len(r.Samples) < 3 {
		r.Samples = append(r.Samples, map[string]interface{}{"scenario": sc, "lines": hsLines(sc, res)})
	}
}
