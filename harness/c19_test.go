package harness

import (
	"bytes"
	"fmt"
	"testing"

	"github.com/lightninglabs/lightning-node-connect/gbn"
	"github.com/lightninglabs/lightning-node-connect/mailbox"
)

func showGbnMsg(m gbn.Message) string {
	switch p := m.(type) {
	case *gbn.PacketData:
		return fmt.Sprintf("data %d %s %s %s", p.Seq, b01(p.FinalChunk), b01(p.IsPing), hx(p.Payload))
	case *gbn.PacketACK:
		return fmt.Sprintf("ack %d", p.Seq)
	case *gbn.PacketNACK:
		return fmt.Sprintf("nack %d", p.Seq)
	case *gbn.PacketSYN:
		return fmt.Sprintf("syn %d", p.N)
	case *gbn.PacketFIN:
		return "fin"
	case *gbn.PacketSYNACK:
		return "synack"
	}
	return fmt.Sprintf("unknown %T", m)
}

func gbnDeser(b []byte) (out string, msg gbn.Message) {
	var err error
	p, _ := safely(func() { msg, err = gbn.Deserialize(b) })
	switch {
	case p:
		return "panic", nil
	case err != nil:
		return "err EOF", nil
	}
	return "ok " + showGbnMsg(msg), msg
}

func gbnEqual(a, b gbn.Message) bool { return showGbnMsg(a) == showGbnMsg(b) }

// gbnBytesCase feeds raw bytes to Deserialize, records the model line, and
// evaluates the C19 oracle (re-serialise and re-read gives the same value) and
// the C07 oracle (no panic).
func gbnBytesCase(r *Recorder, b []byte, class string) {
	out, msg := gbnDeser(b)
	r.Emit("gbn.deser "+hx(b), out)
	r.Case("gbn:"+hx(b), len(b) > 0 && out != "err EOF", class+"/"+out[:2])
	if out == "panic" {
		r.Violate("C07/gbn-deserialize-panic", "gbn.Deserialize panicked",
			map[string]string{"bytes": hx(b)})
		return
	}
	if msg != nil {
		s, err := msg.Serialize()
		if err != nil {
			r.Violate("C19/gbn-reserialize-error", err.Error(), map[string]string{"bytes": hx(b)})
			return
		}
		out2, msg2 := gbnDeser(s)
		if msg2 == nil || !gbnEqual(msg, msg2) {
			r.Violate("C19/gbn-not-canonical", "deserialize(serialize(m)) != m: "+out2,
				map[string]string{"bytes": hx(b), "reserialized": hx(s)})
		}
	}
}

func gbnMsgCase(r *Recorder, m gbn.Message, class string) {
	s, err := m.Serialize()
	if err != nil {
		r.Violate("C19/gbn-serialize-error", err.Error(), showGbnMsg(m))
		return
	}
	desc := showGbnMsg(m)
	r.Emit("gbn.ser "+desc, hx(s))
	out, m2 := gbnDeser(s)
	r.Emit("gbn.deser "+hx(s), out)
	r.Case("gbnmsg:"+hx(s), true, class)
	if m2 == nil || !gbnEqual(m, m2) {
		r.Violate("C19/gbn-roundtrip", "deserialize(serialize(m)) = "+out+" for m = "+desc,
			map[string]string{"msg": desc, "bytes": hx(s)})
	}
}

func msgDeser(recvV uint8, recvP []byte, b []byte) (string, *mailbox.MsgData) {
	m := mailbox.NewMsgData(recvV, recvP)
	var err error
	p, _ := safely(func() { err = m.Deserialize(b) })
	switch {
	case p:
		return "panic", nil
	case err != nil:
		return "err EOF", nil
	}
	return fmt.Sprintf("ok %d %s", m.ProtocolVersion(), hx(m.Payload)), m
}

func msgBytesCase(r *Recorder, recvV uint8, recvP, b []byte, class string) {
	out, m := msgDeser(recvV, recvP, b)
	r.Emit(fmt.Sprintf("msg.deser %d %s %s", recvV, hx(recvP), hx(b)), out)
	r.Case("msg:"+hx(recvP)+":"+hx(b), len(b) >= 5, class+"/"+out[:2])
	if out == "panic" {
		r.Violate("C07/msgdata-deserialize-panic", "MsgData.Deserialize panicked",
			map[string]string{"bytes": hx(b)})
		return
	}
	if m != nil && len(recvP) == 0 {
		s, err := m.Serialize()
		if err != nil {
			r.Violate("C19/msgdata-reserialize-error", err.Error(), hx(b))
			return
		}
		out2, _ := msgDeser(0, nil, s)
		if out2 != out {
			r.Violate("C19/msgdata-not-canonical", out+" vs "+out2, map[string]string{"bytes": hx(b)})
		}
	}
}

func msgValueCase(r *Recorder, v uint8, p []byte, class string) {
	m := mailbox.NewMsgData(v, p)
	s, err := m.Serialize()
	if err != nil {
		r.Violate("C19/msgdata-serialize-error", err.Error(), hx(p))
		return
	}
	long := len(p) > 4096
	if !long {
		r.Emit(fmt.Sprintf("msg.ser %d %s", v, hx(p)), hx(s))
	}
	out, m2 := msgDeser(0, nil, s)
	if !long {
		r.Emit(fmt.Sprintf("msg.deser 0 - %s", hx(s)), out)
	}
	r.Case(fmt.Sprintf("msgv:%d:%d:%x", v, len(p), firstN(p, 8)), true, class)
	if m2 == nil || m2.ProtocolVersion() != v || !bytes.Equal(m2.Payload, p) {
		r.Violate("C19/msgdata-roundtrip", "deserialize(serialize(m)) = "+out[:min(len(out), 60)],
			map[string]interface{}{"version": v, "payload_len": len(p)})
	}
}

func firstN(b []byte, n int) []byte {
	if len(b) < n {
		return b
	}
	return b[:n]
}

var edgeBytes = []byte{0, 1, 2, 3, 4, 5, 6, 7, 127, 128, 254, 255}

// allStrings enumerates every byte string of exactly length n.
func allStrings(n int, f func([]byte)) {
	b := make([]byte, n)
	var rec func(i int)
	rec = func(i int) {
		if i == n {
			f(append([]byte(nil), b...))
			return
		}
		for v := 0; v < 256; v++ {
			b[i] = byte(v)
			rec(i + 1)
		}
	}
	rec(0)
}

// msgDestAliasCases: one control message object receives several messages one after another (as a
// caller of ReceiveControlMsg that keeps one MsgData does); what it handed out earlier - the payload
// slices taken from it after each message, and the buffer its creator gave to NewMsgData - must still
// read as the messages that were sent.
func msgDestAliasCases(r *Recorder, pid string) {
	// ... and what Deserialize handed out earlier stays what it was: the payload slices taken from the
	// object after each Deserialize, and the buffer a caller gave to NewMsgData, are not scribbled
	// over when the same object receives the next message
	{
		type held struct {
			slice, want []byte
			step        int
		}
		var helds []held
		callerBuf := patterned(24, 90)
		callerWant := append([]byte(nil), callerBuf...)
		d2 := mailbox.NewMsgData(3, callerBuf)
		for i, l := range []int{16, 16, 9, 20, 0, 5, 24, 24} {
			want := patterned(l, 60+i)
			wire, err := mailbox.NewMsgData(uint8(i), want).Serialize()
			if err != nil || d2.Deserialize(wire) != nil {
				continue
			}
			helds = append(helds, held{d2.Payload, append([]byte(nil), want...), i})
			for _, h := range helds {
				if !bytes.Equal(h.slice, h.want) {
					r.Violate(pid+"/msgdata-earlier-payload-overwritten", fmt.Sprintf("one MsgData object received message #%d (%d bytes); the payload it had handed out for message #%d now reads %s, it was %s",
						i+1, l, h.step+1, hx(h.slice[:min(8, len(h.slice))]), hx(h.want[:min(8, len(h.want))])), map[string]int{"step": i, "earlier": h.step})
					break
				}
			}
			if !bytes.Equal(callerBuf, callerWant) {
				r.Violate(pid+"/msgdata-earlier-payload-overwritten", fmt.Sprintf("the buffer given to NewMsgData was overwritten when the object received message #%d", i+1), map[string]int{"step": i})
				callerWant = append([]byte(nil), callerBuf...)
			}
			r.Case(fmt.Sprintf("msg-dest-alias:%d", i), true, "msg-dest-reuse")
		}
	}
}

func TestC19(t *testing.T) {
	r := NewRecorder(t, "C19")
	defer r.Close(t)
	rng := newRand(19)

	// (i) exhaustive: every byte string up to length 2 (quick) / 3 (thorough)
	maxLen := pick(2, 3)
	for n := 0; n <= maxLen; n++ {
		allStrings(n, func(b []byte) { gbnBytesCase(r, b, fmt.Sprintf("gbn-exh%d", n)) })
	}
	// every type byte x edge values for 4- and 5-byte strings
	for t0 := 0; t0 <= 8; t0++ {
		for _, a := range edgeBytes {
			for _, b := range edgeBytes {
				for _, c := range edgeBytes {
					gbnBytesCase(r, []byte{byte(t0), a, b, c}, "gbn-edge4")
					gbnBytesCase(r, []byte{byte(t0), a, b, c, a ^ c}, "gbn-edge5")
				}
			}
		}
	}
	// (ii) structured: every packet type, all 256 values of the one-byte
	// field, both flags, payload lengths 0..large
	for v := 0; v < 256; v++ {
		gbnMsgCase(r, &gbn.PacketACK{Seq: uint8(v)}, "gbn-msg-ack")
		gbnMsgCase(r, &gbn.PacketNACK{Seq: uint8(v)}, "gbn-msg-nack")
		gbnMsgCase(r, &gbn.PacketSYN{N: uint8(v)}, "gbn-msg-syn")
		for f := 0; f < 4; f++ {
			for _, l := range []int{0, 1, 2, 3} {
				gbnMsgCase(r, &gbn.PacketData{Seq: uint8(v), FinalChunk: f&1 != 0,
					IsPing: f&2 != 0, Payload: randBytes(rng, l)}, "gbn-msg-data")
			}
		}
	}
	// every payload length up to 300 (and around the powers of two above), all four flag combinations
	lens := []int{}
	for l := 0; l <= 300; l++ {
		lens = append(lens, l)
	}
	for _, c := range []int{511, 512, 513, 1023, 1024, 1025, 4095, 4096, 4097, 16383, 16384, 16385} {
		lens = append(lens, c)
	}
	for _, l := range lens {
		for f := 0; f < 4; f++ {
			gbnMsgCase(r, &gbn.PacketData{Seq: uint8(l), FinalChunk: f&1 != 0, IsPing: f&2 != 0, Payload: patterned(l, l)}, "gbn-msg-data-len")
		}
		msgValueCase(r, uint8(l), patterned(l, l+1), "msg-value-len")
	}
	// one MsgData object used for several messages (it is an exported type with an exported Payload):
	// new payload of the same length, of another length, the caller's buffer overwritten in place,
	// and an object that was filled by Deserialize before
	for _, l := range []int{0, 1, 5, 11, 300} {
		buf := patterned(l, 1)
		m := mailbox.NewMsgData(7, buf)
		reuse := func(step string, want []byte) {
			ser, err := m.Serialize()
			out := "err"
			if err == nil {
				back := mailbox.NewMsgData(0, nil)
				if back.Deserialize(ser) == nil {
					out = hx(back.Payload)
				}
			}
			if out != hx(want) {
				r.Violate("C19/msgdata-object-reuse", fmt.Sprintf("one MsgData object, %s: serialised and read back as %s, the payload set was %s", step, out, hx(want)),
					map[string]interface{}{"len": l, "step": step})
			}
			r.Case(fmt.Sprintf("msg-reuse:%d:%s", l, step), true, "msg-object-reuse")
		}
		reuse("first use", buf)
		p2 := patterned(l, 2)
		m.Payload = p2
		reuse("new payload slice of the same length", p2)
		for i := range p2 {
			p2[i] ^= 0xff
		}
		reuse("payload buffer overwritten in place", p2)
		p3 := patterned(l+3, 3)
		m.Payload = p3
		reuse("payload of another length", p3)
		wire, _ := mailbox.NewMsgData(7, patterned(l, 4)).Serialize()
		if m.Deserialize(wire) == nil {
			p5 := patterned(l, 5)
			m.Payload = p5
			reuse("after Deserialize, new payload of the received length", p5)
		}
	}
	// one MsgData object as the destination of several Deserialize calls (ReceiveControlMsg takes the
	// destination from its caller): longer then shorter, shorter then longer, equal lengths, empty
	dst := mailbox.NewMsgData(0, nil)
	for i, l := range []int{16, 3, 12, 12, 0, 300, 1, 0, 0, 7} {
		want := patterned(l, 40+i)
		wire, err := mailbox.NewMsgData(uint8(i), want).Serialize()
		if err != nil {
			continue
		}
		if err := dst.Deserialize(wire); err != nil {
			r.Violate("C19/msgdata-dest-reuse", fmt.Sprintf("Deserialize #%d into a used MsgData object failed: %v", i+1, err), map[string]int{"step": i, "len": l})
			continue
		}
		back, _ := dst.Serialize()
		if !bytes.Equal(dst.Payload, want) || !bytes.Equal(back, wire) {
			r.Violate("C19/msgdata-dest-reuse", fmt.Sprintf("Deserialize #%d into a used MsgData object: a %d byte payload was sent, the object now holds %d bytes (%s...) and re-serialises to %d bytes instead of %d",
				i+1, l, len(dst.Payload), hx(dst.Payload[:min(8, len(dst.Payload))]), len(back), len(wire)), map[string]int{"step": i, "len": l})
		}
		r.Case(fmt.Sprintf("msg-dest-reuse:%d:%d", i, l), true, "msg-dest-reuse")
	}
	msgDestAliasCases(r, "C19")
	// every Serialize returns a buffer of its own: a caller (or a transport that masks in place) may
	// overwrite what it got without changing what the next Serialize of an equal message returns
	{
		msgs := []gbn.Message{&gbn.PacketFIN{}, &gbn.PacketSYNACK{}, &gbn.PacketSYN{N: 20}, &gbn.PacketACK{Seq: 3},
			&gbn.PacketNACK{Seq: 4}, &gbn.PacketData{Seq: 5, FinalChunk: true, Payload: []byte{1, 2, 3}}, &gbn.PacketData{Seq: 6, IsPing: true}}
		for _, m := range msgs {
			b1, err := m.Serialize()
			if err != nil {
				continue
			}
			ref := append([]byte(nil), b1...)
			for i := range b1 {
				b1[i] ^= 0xa5
			}
			b2, err2 := m.Serialize()
			if err2 != nil || !bytes.Equal(b2, ref) {
				r.Violate("C19/serialize-shares-buffer", fmt.Sprintf("%T: the slice returned by Serialize was overwritten by its caller; the next Serialize of the same message returned %s instead of %s", m, hx(b2), hx(ref)), fmt.Sprintf("%T", m))
			}
			r.Case(fmt.Sprintf("ser-private:%T:%s", m, hx(ref)), true, "serialize-private-buffer")
		}
		md := mailbox.NewMsgData(1, []byte{9, 8, 7})
		b1, _ := md.Serialize()
		ref := append([]byte(nil), b1...)
		for i := range b1 {
			b1[i] ^= 0xa5
		}
		if b2, err := md.Serialize(); err != nil || !bytes.Equal(b2, ref) {
			r.Violate("C19/serialize-shares-buffer", "MsgData: the slice returned by Serialize was overwritten by its caller; the next Serialize returned other bytes", "MsgData")
		}
		r.Case("ser-private:MsgData", true, "serialize-private-buffer")
	}
	// large payloads, around every power of two from 2^16 to 2^24 (no model line: the oracle is the
	// round trip itself)
	for k := 16; k <= 24; k++ {
		for d := -6; d <= 6; d++ {
			l := 1<<k + d
			if !thorough() && k > 20 && k < 24 && d%3 != 0 {
				continue
			}
			pl := make([]byte, l)
			for i := 0; i < l; i += 509 {
				pl[i] = byte(i>>9) | 1
			}
			pl[l-1] = 0x5c
			ser, err := mailbox.NewMsgData(2, pl).Serialize()
			back := mailbox.NewMsgData(0, nil)
			var derr error
			if err == nil {
				derr = back.Deserialize(ser)
			}
			if err != nil || derr != nil || !bytes.Equal(back.Payload, pl) {
				r.Violate("C19/msgdata-roundtrip", fmt.Sprintf("MsgData with a payload of %d bytes (2^%d%+d): Serialize err %v, Deserialize of its own serialisation err %v, payload equal: %v",
					l, k, d, err, derr, err == nil && derr == nil && bytes.Equal(back.Payload, pl)), l)
			}
			r.Case(fmt.Sprintf("msg-large:%d", l), true, "msg-value-large")
			if k <= 22 {
				dm := &gbn.PacketData{Seq: uint8(k), FinalChunk: true, Payload: pl}
				gs, gerr := dm.Serialize()
				var gb gbn.Message
				var gderr error
				if gerr == nil {
					gb, gderr = gbn.Deserialize(gs)
				}
				okd := false
				if gerr == nil && gderr == nil {
					if dd, ok := gb.(*gbn.PacketData); ok {
						okd = dd.Seq == dm.Seq && dd.FinalChunk && !dd.IsPing && bytes.Equal(dd.Payload, pl)
					}
				}
				if !okd {
					r.Violate("C19/gbn-roundtrip", fmt.Sprintf("DATA packet with a payload of %d bytes: Serialize err %v, Deserialize err %v, equal: false", l, gerr, gderr), l)
				}
				r.Case(fmt.Sprintf("gbn-large:%d", l), true, "gbn-msg-data-large")
			}
		}
	}
	gbnMsgCase(r, &gbn.PacketFIN{}, "gbn-msg-fin")
	gbnMsgCase(r, &gbn.PacketSYNACK{}, "gbn-msg-synack")
	for _, l := range []int{15, 16, 255, 256, 1000, 65535, 65536, 65537} {
		gbnMsgCase(r, &gbn.PacketData{Seq: uint8(rng.Intn(256)), FinalChunk: rng.Intn(2) == 0,
			IsPing: rng.Intn(2) == 0, Payload: randBytes(rng, l)}, "gbn-msg-data-large")
	}
	// (iii) random garbage and mutated valid packets
	for i := 0; i < pick(20000, 400000); i++ {
		n := rng.Intn(12)
		b := randBytes(rng, n)
		if n > 0 && rng.Intn(3) > 0 {
			b[0] = byte(rng.Intn(8))
		}
		gbnBytesCase(r, b, "gbn-random")
	}

	// MsgData: all version bytes, length prefix vs actual length off by -1/0/+1
	for v := 0; v < 256; v++ {
		for _, l := range []int{0, 1, 2, 5, 300} {
			msgValueCase(r, uint8(v), randBytes(rng, l), "msg-value")
		}
	}
	for _, l := range []int{65535, 65536, 1 << 20, 1<<20 + 1} {
		msgValueCase(r, uint8(rng.Intn(256)), randBytes(rng, l), "msg-value-large")
	}
	for n := 0; n <= 2; n++ {
		allStrings(n, func(b []byte) { msgBytesCase(r, 0, nil, b, "msg-exh") })
	}
	for i := 0; i < pick(20000, 400000); i++ {
		actual := rng.Intn(9)
		claimed := actual + rng.Intn(3) - 1
		if rng.Intn(10) == 0 {
			claimed = rng.Intn(1 << 32)
		}
		if claimed < 0 {
			claimed = 0
		}
		b := []byte{byte(rng.Intn(256)), byte(claimed >> 24), byte(claimed >> 16), byte(claimed >> 8), byte(claimed)}
		b = append(b, randBytes(rng, actual)...)
		if rng.Intn(8) == 0 {
			b = b[:rng.Intn(len(b)+1)]
		}
		var recvP []byte
		if rng.Intn(4) == 0 {
			recvP = randBytes(rng, 1+rng.Intn(3))
		}
		msgBytesCase(r, uint8(rng.Intn(256)), recvP, b, "msg-random")
	}
	r.Sample(map[string]string{"op": "gbn.deser 0209070100aa", "go": "ok data 9 0 1 00aa"})
	r.Sample(map[string]string{"op": "msg.deser 0 - 0700000002aabbcc", "go": "ok 7 aabb"})
}
