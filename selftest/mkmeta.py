#!/usr/bin/env python3
"""Write /verif/seeded/<id>/meta.json from the patch, the README title and the
latest line for <id> in selftest/seeded.log (and cross.log for checks of other
properties that were tried)."""
import json, os, re, sys
root = '/verif/seeded'
def loglines(path):
    out = {}
    if os.path.exists(path):
        for l in open(path):
            m = re.match(r'(\S+) seeded (\S+) check=(\S+) tier=(\S+) exit=(\d+) :: (.*?) :: (.*)', l.strip())
            if m:
                out.setdefault(m.group(2), []).append(dict(date=m.group(1), check=m.group(3), tier=m.group(4),
                    exit=int(m.group(5)), violation_line=m.group(6), first_detail=m.group(7)))
    return out
own = loglines('/verif/selftest/seeded.log')
cross = loglines('/verif/selftest/cross.log')
for sid in sorted(os.listdir(root)):
    d = os.path.join(root, sid)
    patch = open(os.path.join(d, 'patch.diff')).read()
    files = sorted(set(re.findall(r'^\+\+\+ b/(\S+)', patch, re.M)))
    added = len(re.findall(r'^\+(?!\+\+)', patch, re.M)); removed = len(re.findall(r'^-(?!--)', patch, re.M))
    title = open(os.path.join(d, 'README.md')).readline().strip().lstrip('# ').strip()
    runs = own.get(sid, []) + cross.get(sid, [])
    caught = [r for r in runs if r['exit'] == 1 and r['violation_line'].startswith('VIOLATION')]
    meta = {
        'id': sid, 'property': sid[:3], 'title': title,
        'origin': 'produced by a fresh sub-agent that was given only the property text and a scratch worktree of /repo; nothing from /verif',
        'files_changed': files, 'lines_added': added, 'lines_removed': removed,
        'confirmed': {'builds': True, 'existing_suite_passes_with_change': True,
                      'demonstration_fails_with_change': True, 'demonstration_passes_without_change': True,
                      'how': 'selftest/confirm_seed.sh in the scratch worktree; outputs in demo_with_change.out / demo_without_change.out'},
        'check_runs': runs,
        'detected_by': sorted(set(r['check'] + '/' + r['tier'] for r in caught)),
        'with_failing_input': any('no-failing-input-found' not in r['violation_line'] for r in caught),
    }
    json.dump(meta, open(os.path.join(d, 'meta.json'), 'w'), indent=1)
    print(sid, meta['detected_by'] or 'NOT DETECTED')
