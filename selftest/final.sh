#!/bin/bash
# The whole self-test pipeline on the final tree, in order; every step uses /repo's working tree,
# so nothing else may touch /repo while it runs.
#   quick clean -> all seeded changes -> all reverted fixes -> all behaviour-preserving changes -> quick clean
cd /verif
: > selftest/seeded.log; : > selftest/reverts.log; : > selftest/neutral.log
selftest/all_clean.sh quick
selftest/seeded.sh
selftest/reverts.sh
selftest/neutral.sh
selftest/all_clean.sh quick
echo FINAL-DONE
