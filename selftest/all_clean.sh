#!/bin/bash
# Run every check once on the unchanged tree (regenerates evidence/*.json); log exit codes.
cd /verif
TIER=${1:-quick}
OUT=/verif/selftest/clean-$TIER.log
: > $OUT
for p in C01 C02 C03 C04 C05 C06 C07 C08 C09 C10 C11 C12 C13 C14 C15 C16 C17 C18 C19 C20; do
  s=$(date +%s); res=$(./check $p --tier $TIER 2>&1); rc=$?
  echo "$(date +%F) clean $p tier=$TIER exit=$rc wall=$(( $(date +%s) - s ))s :: $(echo "$res" | grep -c '^KNOWN-FINDING') known-finding line(s) :: $(echo "$res" | grep -m1 '^VIOLATION')" | tee -a $OUT
done
