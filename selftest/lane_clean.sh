#!/bin/bash
# selftest/lane_clean.sh <lane-dir> <log> <seed> id ... : quick checks on the lane's unchanged worktree under a PRNG seed
L=$1; OUT=$2; SEED=$3; shift 3
export VERIF_REPO=$L/repo VERIF_SEED=$SEED
cd $L/verif
git -C $L/repo checkout -q -- .
for p in "$@"; do
  res=$(./check $p --tier ${TIER:-quick} 2>&1); rc=$?
  echo "$(date +%F) clean $p tier=${TIER:-quick} seed=$SEED exit=$rc :: $(echo "$res" | grep -m1 '^VIOLATION\|infrastructure' | cut -c1-200) :: $(echo "$res" | grep -m1 -A1 '^VIOLATION' | tail -1 | cut -c1-300)" >> $OUT
done
