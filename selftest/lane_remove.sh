#!/bin/bash
# selftest/lane_remove.sh <lane-dir> ...
for L in "$@"; do git -C /repo worktree remove --force $L/repo 2>/dev/null; rm -rf $L; done
git -C /repo worktree prune
