#!/bin/bash
# Run a seeded change against checks of OTHER properties than the one it targets:
#   selftest/cross.sh <seed id> <check> [<check> ...]      (appends to selftest/cross.log)
cd /verif
id=$1; shift
OUT=/verif/selftest/cross.log
if ! git -C /repo diff --quiet; then echo "repo dirty, abort"; exit 2; fi
git -C /repo apply /verif/seeded/$id/patch.diff || { echo "$id: patch does not apply"; git -C /repo checkout -- .; exit 1; }
for p in "$@"; do
  res=$(./check $p 2>&1); rc=$?
  v=$(echo "$res" | grep '^VIOLATION' | head -1)
  what=$(echo "$res" | grep -m1 -A1 '^VIOLATION' | tail -1 | cut -c1-260)
  echo "$(date +%F) seeded $id check=$p tier=quick exit=$rc :: $v :: $what" | tee -a $OUT | cut -c1-200
done
git -C /repo checkout -- .
