#!/usr/bin/env python3
"""Render selftest/reverts.log and selftest/seeded.log (+ seeded/*/meta.json) as the
markdown tables of DESIGN.md section 0.5 (printed to stdout)."""
import json, os, re
def parse(path, kind):
    rows = []
    if not os.path.exists(path):
        return rows
    for l in open(path):
        if kind == 'revert':
            m = re.match(r'(\S+) revert-of (\S+) check=(\S+) exit=(\d+) violations=(\d+) ::\s*(.*?)\s*::\s*(.*)', l.strip())
            if m:
                rows.append(dict(what=m.group(2), check=m.group(3), exit=int(m.group(4)), vline=m.group(6), detail=m.group(7)))
        else:
            m = re.match(r'(\S+) (?:seeded|neutral) (\S+) check=(\S+) tier=(\S+) exit=(\d+) ::\s*(.*?)\s*::\s*(.*)', l.strip())
            if m:
                rows.append(dict(what=m.group(2), check=m.group(3), tier=m.group(4), exit=int(m.group(5)), vline=m.group(6), detail=m.group(7)))
    return rows
def sig(detail):
    m = re.search(r'\[([^\]]+)\]', detail)
    if m:
        return '`' + m.group(1) + '`'
    m = re.search(r'"theorem": "([^"]+)"', detail)
    if m:
        return 'obligation `' + m.group(1) + '`'
    m = re.search(r'"case": "([^"]{0,60})', detail)
    if m:
        return 'correspondence `' + m.group(1) + '…`'
    return detail[:60]
print('#### Reverted fixes\n')
print('| `/repo` commit undone | check | verdict | reported as |')
print('|---|---|---|---|')
for r in parse('/verif/selftest/reverts.log', 'revert'):
    v = 'VIOLATION' if r['exit'] == 1 else ('missed' if r['exit'] == 0 else 'infrastructure error')
    if 'no-failing-input-found' in r['vline']:
        v += ' (no-failing-input-found)'
    print('| %s | %s | %s | %s |' % (r['what'], r['check'], v, sig(r['detail']) if r['exit'] == 1 else ''))
print('\n#### Seeded changes (sub-agents, property text only)\n')
print('| seed | what was changed | own check | reported as |')
print('|---|---|---|---|')
rows = parse('/verif/selftest/seeded.log', 'seeded')
cross = {}
for r in parse('/verif/selftest/cross.log', 'seeded'):
    if r['exit'] == 1:
        cross.setdefault(r['what'], []).append('%s (%s)' % (r['check'], sig(r['detail'])))
for r in rows:
    title = ''
    mp = '/verif/seeded/%s/meta.json' % r['what']
    if os.path.exists(mp):
        title = json.load(open(mp)).get('title', '')
        title = re.sub(r'^Seeded (fault|change)\s*\S*\s*[:—-]*\s*', '', title)
    v = 'VIOLATION' if r['exit'] == 1 else ('missed' if r['exit'] == 0 else 'infrastructure error')
    if 'no-failing-input-found' in r['vline']:
        v += ' (no-failing-input-found)'
    rep = sig(r['detail']) if r['exit'] == 1 else ''
    if r['exit'] != 1 and r['what'] in cross:
        rep = 'reported by ' + '; '.join(cross[r['what']])
    print('| %s | %s | %s %s | %s |' % (r['what'], title[:110], r['check'], v, rep))
n = len(rows); c = sum(1 for r in rows if r['exit'] == 1)
nf = sum(1 for r in rows if r['exit'] == 1 and 'no-failing-input-found' in r['vline'])
oc = sum(1 for r in rows if r['exit'] != 1 and r['what'] in cross)
print('\n%d of %d seeded changes are reported by the check of the property they target (quick tier), %d of those without a failing input (broken obligation or correspondence only); %d more are reported by the check of another property.' % (c, n, nf, oc))

nrows = parse('/verif/selftest/neutral.log', 'seeded')
if nrows:
    print('\n#### Behaviour-preserving changes (sub-agents; the property holds with every one of them)\n')
    print('| change | what was changed | own check | reported as |')
    print('|---|---|---|---|')
    for r in nrows:
        title = ''
        rp = '/verif/neutral/%s/README.md' % r['what']
        if os.path.exists(rp):
            for l in open(rp):
                l = l.strip().lstrip('#').strip()
                if l:
                    title = l
                    break
        v = 'exit 0' if r['exit'] == 0 else ('VIOLATION' if r['exit'] == 1 else 'infrastructure error')
        if 'no-failing-input-found' in r['vline']:
            v += ' (no-failing-input-found)'
        print('| %s | %s | %s %s | %s |' % (r['what'], title[:110], r['check'], v, sig(r['detail']) if r['exit'] == 1 else ''))
    a = sum(1 for r in nrows if r['exit'] != 0)
    print('\n%d of %d behaviour-preserving changes make the check of the property whose code they touch report a violation (all as `no-failing-input-found`: an obligation on the regenerated facts no longer checks and the search finds no failing input).' % (a, len(nrows)))
