#!/bin/bash
# selftest/lane_seeded.sh <lane-dir> [--tier T] [--log file] id ...
# As seeded.sh, but in a lane (see lane_setup.sh): applies /verif/seeded/<id>/patch.diff to the lane's
# worktree, runs the lane's copy of the check of the property concerned against it, restores the worktree.
L=$1; shift
TIER=quick; OUT=/verif/selftest/seeded.log
while [ "${1:0:2}" = "--" ]; do case $1 in --tier) TIER=$2;; --log) OUT=$2;; esac; shift 2; done
export VERIF_REPO=$L/repo
cd $L/verif
for id in "$@"; do
  p=${id:0:3}
  git -C $L/repo checkout -q -- .
  git -C $L/repo apply /verif/${KIND:-seeded}/$id/patch.diff || { echo "$id: patch does not apply" >> $OUT; continue; }
  res=$(./check $p --tier $TIER 2>&1); rc=$?
  v=$(echo "$res" | grep '^VIOLATION' | head -1)
  what=$(echo "$res" | grep -m1 -A1 '^VIOLATION' | tail -1 | cut -c1-260)
  [ $rc -eq 2 ] && what=$(echo "$res" | tail -3 | tr '\n' ' ' | cut -c1-260)
  echo "$(date +%F) ${KIND:-seeded} $id check=$p tier=$TIER exit=$rc :: $v :: $what" >> $OUT
  git -C $L/repo checkout -q -- .
done
