#!/bin/bash
# Run the checks against each confirmed seeded breaking change: apply
# /verif/seeded/<id>/patch.diff to /repo's working tree, run the check of the
# property it targets (first three characters of <id>), restore the tree.
# Usage: selftest/seeded.sh [--tier thorough] [id ...]   (default: all of /verif/seeded)
cd /verif
TIER=quick
if [ "$1" = "--tier" ]; then TIER=$2; shift 2; fi
IDS="${@:-$(ls seeded)}"
OUT=/verif/selftest/seeded.log
for id in $IDS; do
  p=${id:0:3}
  if ! git -C /repo diff --quiet; then echo "repo dirty, abort" | tee -a $OUT; exit 2; fi
  git -C /repo apply /verif/seeded/$id/patch.diff || { echo "$id: patch does not apply" | tee -a $OUT; git -C /repo checkout -- .; continue; }
  res=$(./check $p --tier $TIER 2>&1); rc=$?
  v=$(echo "$res" | grep '^VIOLATION' | head -1)
  what=$(echo "$res" | grep -m1 -A1 '^VIOLATION' | tail -1 | cut -c1-260)
  echo "$(date +%F) seeded $id check=$p tier=$TIER exit=$rc :: $v :: $what" | tee -a $OUT
  git -C /repo checkout -- .
done
git -C /repo status --short | grep -v numsgen | tee -a $OUT
