#!/bin/bash
# Detection self-test: undo each "fix:" commit of /repo in turn (working tree
# only, never committed), run the checks of the properties it repaired, and
# record whether they report a VIOLATION.  The tree is restored after each.
# A fix whose reverse patch no longer applies (later commits touch the same
# lines) has a hand-made patch in selftest/reverts/<commit>.diff.
# Usage: selftest/reverts.sh [commit ...]     (default: all listed below)
cd /verif
declare -A MAP=(
 [c2e60a6]="C18" [637ce07]="C18" [46a78d0]="C07 C09" [a13c765]="C07" [cc8f94a]="C12" [deb6a10]="C14"
 [0ada5d5]="C14" [a048caa]="C10 C07" [d1deb8f]="C15" [c89a82d]="C15" [d734553]="C16"
 [b193a23]="C04" [3c30c17]="C02" [53bd367]="C13" [34a35cd]="C13" [2a5ce6c]="C06" [818c5cb]="C12 C11" [d7f75ca]="C05" [4e2205c]="C19" [98daed6]="C02" [611abab]="C09"
)
ORDER="${@:-c2e60a6 637ce07 46a78d0 a13c765 cc8f94a deb6a10 0ada5d5 a048caa d1deb8f c89a82d d734553 b193a23 3c30c17 53bd367 34a35cd 2a5ce6c 818c5cb d7f75ca 4e2205c 98daed6 611abab}"
OUT=/verif/selftest/reverts.log
for c in $ORDER; do
  if ! git -C /repo diff --quiet; then echo "repo dirty, abort" | tee -a $OUT; exit 2; fi
  if [ -f selftest/reverts/$c.diff ]; then
    git -C /repo apply /verif/selftest/reverts/$c.diff || { echo "$c: manual patch does not apply" | tee -a $OUT; git -C /repo checkout -- .; continue; }
  elif ! git -C /repo diff $c^ $c | git -C /repo apply -R 2>/dev/null; then
    git -C /repo checkout -- .
    echo "$c: reverse patch does not apply (later commits touch the same lines)" | tee -a $OUT; continue
  fi
  for p in ${MAP[$c]}; do
    res=$(./check $p 2>&1); rc=$?
    v=$(echo "$res" | grep -c '^VIOLATION')
    first=$(echo "$res" | grep '^VIOLATION' | head -1)
    what=$(echo "$res" | grep -m1 -A1 '^VIOLATION' | tail -1 | cut -c1-260)
    echo "$(date +%F) revert-of $c check=$p exit=$rc violations=$v :: $first :: $what" | tee -a $OUT
  done
  git -C /repo checkout -- .
done
git -C /repo status --short | grep -v numsgen | tee -a $OUT
