#!/usr/bin/env python3
"""Per-property as-built summary (markdown) from checks_table.py and evidence/*.json."""
import json, os, sys
sys.path.insert(0, '/verif')
import checks_table as ct
print('| id | property theorems (kernel-checked) | obligations on regenerated facts | tie to the code (quick tier, last run) |')
print('|---|---|---|---|')
for pid in sorted(ct.PROPS):
    ev = json.load(open('/verif/evidence/%s.json' % pid))
    c = ev['coverage']
    props = [t['name'].split('.')[-1] for t in c.get('theorems', []) if '.Props.' in t['name']]
    inst = [t['name'].split('.')[-1] for t in c.get('theorems', []) if '.Inst.' in t['name']]
    tie = '%d cases (%d distinct non-trivial), %d model/implementation lines compared, %d mismatches' % (
        c.get('evaluations', 0), c.get('distinct_nontrivial', 0), c.get('correspondence_lines_compared', 0), c.get('correspondence_mismatches', 0))
    tv = c.get('traces_validated_against_impl', 0)
    if tv:
        tie += ', %d real traces replayed through the model' % tv
    print('| %s | %s | %s | %s |' % (pid, ', '.join('`%s`' % p for p in props), ', '.join('`%s`' % p for p in inst) or '—', tie))
