#!/bin/bash
# Run every quick check on the unchanged tree under several PRNG seeds (flakiness / false-alarm sweep).
#   sweep.sh [seed ...]        (default 2 3 4)
cd /verif
SEEDS=${@:-2 3 4}
OUT=/verif/selftest/sweep.log
for sd in $SEEDS; do
for p in C01 C02 C03 C04 C05 C06 C07 C08 C09 C10 C11 C12 C13 C14 C15 C16 C17 C18 C19 C20; do
  s=$(date +%s); res=$(VERIF_SEED=$sd ./check $p --tier quick 2>&1); rc=$?
  echo "$(date +%F) sweep seed=$sd $p exit=$rc wall=$(( $(date +%s) - s ))s :: $(echo "$res" | grep -c '^KNOWN-FINDING') known-finding line(s) :: $(echo "$res" | grep -m1 '^VIOLATION')" | tee -a $OUT
done
done
