#!/bin/bash
# Run the checks against each behaviour-preserving change in /verif/neutral/<id>/: apply the patch to
# /repo's working tree, run the check of the property whose code it touches (first three characters
# of <id>), restore the tree. A check that prints VIOLATION here raises an alarm on code on which the
# property holds (a broken obligation or correspondence: "... no-failing-input-found").
# Usage: selftest/neutral.sh [id ...]   (default: all of /verif/neutral)
cd /verif
IDS="${@:-$(ls neutral)}"
OUT=/verif/selftest/neutral.log
for id in $IDS; do
  p=${id:0:3}
  if ! git -C /repo diff --quiet; then echo "repo dirty, abort" | tee -a $OUT; exit 2; fi
  git -C /repo apply /verif/neutral/$id/patch.diff || { echo "$id: patch does not apply" | tee -a $OUT; git -C /repo checkout -- .; continue; }
  res=$(./check $p --tier quick 2>&1); rc=$?
  v=$(echo "$res" | grep '^VIOLATION' | head -1)
  what=$(echo "$res" | grep -m1 -A1 '^VIOLATION' | tail -1 | cut -c1-260)
  echo "$(date +%F) neutral $id check=$p tier=quick exit=$rc :: $v :: $what" | tee -a $OUT
  git -C /repo checkout -- .
done
git -C /repo status --short | grep -v numsgen | tee -a $OUT
