#!/bin/bash
# Confirm a seeded change delivered by a sub-agent, in its scratch worktree:
#   confirm_seed.sh <worktree> <variant a|b> <id e.g. C09a>
# 1. patch applies and builds, 2. existing gbn+mailbox suites pass with it,
# 3. the demonstration fails with it and 4. passes without it.
# On success the change is copied to /verif/seeded/<id>/.
export GOFLAGS=-mod=mod GOPROXY=off GOSUMDB=off GOTOOLCHAIN=local
WT=$1; X=$2; ID=$3; S=$WT/SEED/$X
cd $WT || exit 2
git checkout -q -- . ; rm -f gbn/zz_seed_demo_test.go mailbox/zz_seed_demo_test.go
pkg=$(head -1 $S/demo_test.go | grep -o 'gbn\|mailbox' | head -1)
[ -z "$pkg" ] && { echo "$ID: cannot tell demo package"; exit 2; }
git apply $S/patch.diff || { echo "$ID: patch does not apply"; exit 1; }
changed=$(git diff --stat | tail -1)
(cd gbn && go1.26 build ./... ) && (cd mailbox && go1.26 build ./...) || { echo "$ID: does not build"; git checkout -q -- .; exit 1; }
suite=pass
(cd gbn && go1.26 test -vet=off -count=1 -timeout 25m ./... >/dev/null 2>&1) || suite=fail-gbn
(cd mailbox && go1.26 test -vet=off -count=1 -timeout 25m ./... >/dev/null 2>&1) || suite=$suite-fail-mailbox
cp $S/demo_test.go $pkg/zz_seed_demo_test.go
(cd $pkg && timeout 900 go1.26 test -vet=off -count=1 -timeout 14m -run 'TestSeed' . > $S/demo_with.out 2>&1); with=$?
git checkout -q -- .
(cd $pkg && timeout 900 go1.26 test -vet=off -count=1 -timeout 14m -run 'TestSeed' . > $S/demo_without.out 2>&1); without=$?
rm -f $pkg/zz_seed_demo_test.go
echo "$ID: suite=$suite demo_with_change_exit=$with demo_without_exit=$without ($changed)"
if [ "$suite" = pass ] && [ $with -ne 0 ] && [ $without -eq 0 ]; then
  mkdir -p /verif/seeded/$ID
  cp $S/patch.diff $S/demo_test.go $S/README.md /verif/seeded/$ID/
  tail -30 $S/demo_with.out > /verif/seeded/$ID/demo_with_change.out
  tail -5 $S/demo_without.out > /verif/seeded/$ID/demo_without_change.out
  echo "$ID: CONFIRMED"
else
  echo "$ID: NOT confirmed"
fi
