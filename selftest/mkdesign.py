#!/usr/bin/env python3
"""Replace the generated parts of DESIGN.md: the detection tables of 0.5 (from mkreport.py) and the
per-property table of 0.6 (from mksummary.py)."""
import subprocess, re
p = '/verif/DESIGN.md'
s = open(p).read()
rep = subprocess.run(['python3', '/verif/selftest/mkreport.py'], capture_output=True, text=True).stdout.rstrip('\n') + '\n\n'
summ = subprocess.run(['python3', '/verif/selftest/mksummary.py'], capture_output=True, text=True).stdout.rstrip('\n') + '\n'
a = s.index('#### Reverted fixes')
b = s.index('The seeds also exercised the other checks')
s = s[:a] + rep + s[b:]
a = s.index('| id | property theorems (kernel-checked) |')
m = re.compile(r'\n(?!\|)').search(s, a)   # first line after the table that does not start with '|'
s = s[:a] + summ + s[m.start() + 1:]
open(p, 'w').write(s)
print('DESIGN.md tables regenerated')
