#!/bin/bash
# Confirm a behaviour-preserving change delivered by a sub-agent, in its scratch worktree:
#   confirm_neutral.sh <worktree> <variant p|q> <id e.g. C09p>
# patch applies, builds with and without the hook tag, both suites pass with it.
# On success it is copied to /verif/neutral/<id>/.
export GOFLAGS=-mod=mod GOPROXY=off GOSUMDB=off GOTOOLCHAIN=local
WT=$1; X=$2; ID=$3; S=$WT/NEUTRAL/$X
cd $WT || exit 2
git checkout -q -- .
git apply $S/patch.diff || { echo "$ID: patch does not apply"; exit 1; }
changed=$(git diff --stat | tail -1)
(cd gbn && go1.26 build ./... && go1.26 build -tags verif ./...) && (cd mailbox && go1.26 build ./... && go1.26 build -tags verif ./...) || { echo "$ID: does not build"; git checkout -q -- .; exit 1; }
suite=pass
(cd gbn && go1.26 test -vet=off -count=1 -timeout 25m ./... >/dev/null 2>&1) || suite=fail-gbn
(cd mailbox && go1.26 test -vet=off -count=1 -timeout 25m ./... >/dev/null 2>&1) || suite=$suite-fail-mailbox
git checkout -q -- .
echo "$ID: suite=$suite ($changed)"
if [ "$suite" = pass ]; then
  mkdir -p /verif/neutral/$ID
  cp $S/patch.diff $S/README.md /verif/neutral/$ID/
  echo "$ID: CONFIRMED"
else
  echo "$ID: NOT confirmed"
fi
