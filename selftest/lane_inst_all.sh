#!/bin/bash
# selftest/lane_inst_all.sh <lane-dir> <log> id ... : for each behaviour-preserving change, regenerate the
# facts from the patched lane worktree and build EVERY property's obligations (LncModel.Inst.*): which
# kernel-checked obligations of which property would report the harmless change?
L=$1; OUT=$2; shift 2
export GOFLAGS=-mod=mod GOPROXY=off GOSUMDB=off GOTOOLCHAIN=local
for id in "$@"; do
  git -C $L/repo checkout -q -- .
  git -C $L/repo apply /verif/neutral/$id/patch.diff || { echo "$id: patch does not apply" >> $OUT; continue; }
  (cd $L/verif/harness && go1.26 run ./cmd/factgen $L/repo $L/verif/lean/LncModel/Facts/Generated.lean) > /dev/null 2>&1 || { echo "$id: factgen failed" >> $OUT; continue; }
  broken=""
  for f in $L/verif/lean/LncModel/Inst/C*.lean; do
    m=$(basename $f .lean)
    (cd $L/verif/lean && lake build LncModel.Inst.$m > /tmp/inst_$$.log 2>&1) || broken="$broken $m($(grep -o 'Inst/'$m'.lean:[0-9]*' /tmp/inst_$$.log | head -3 | tr '\n' ','))"
  done
  echo "neutral $id broken-obligation-modules:${broken:- none}" >> $OUT
  git -C $L/repo checkout -q -- .
done
rm -f /tmp/inst_$$.log
