#!/bin/bash
# selftest/lane_reverts.sh <lane-dir> <log> commit ... : as reverts.sh, in a lane (see lane_setup.sh)
L=$1; OUT=$2; shift 2
declare -A MAP=(
 [c2e60a6]="C18" [637ce07]="C18" [46a78d0]="C07 C09" [a13c765]="C07" [cc8f94a]="C12" [deb6a10]="C14"
 [0ada5d5]="C14" [a048caa]="C10 C07" [d1deb8f]="C15" [c89a82d]="C15" [d734553]="C16"
 [b193a23]="C04" [3c30c17]="C02" [53bd367]="C13" [34a35cd]="C13" [2a5ce6c]="C06" [818c5cb]="C12 C11" [d7f75ca]="C05" [4e2205c]="C19" [98daed6]="C02" [611abab]="C09"
)
export VERIF_REPO=$L/repo
cd $L/verif
for c in "$@"; do
  git -C $L/repo checkout -q -- .
  if [ -f /verif/selftest/reverts/$c.diff ]; then
    git -C $L/repo apply /verif/selftest/reverts/$c.diff || { echo "$c: manual patch does not apply" >> $OUT; continue; }
  elif ! git -C $L/repo diff $c^ $c | git -C $L/repo apply -R 2>/dev/null; then
    git -C $L/repo checkout -q -- .
    echo "$c: reverse patch does not apply (later commits touch the same lines)" >> $OUT; continue
  fi
  for p in ${MAP[$c]}; do
    res=$(./check $p 2>&1); rc=$?
    v=$(echo "$res" | grep -c '^VIOLATION')
    first=$(echo "$res" | grep '^VIOLATION' | head -1)
    what=$(echo "$res" | grep -m1 -A1 '^VIOLATION' | tail -1 | cut -c1-260)
    echo "$(date +%F) revert-of $c check=$p exit=$rc violations=$v :: $first :: $what" >> $OUT
  done
  git -C $L/repo checkout -q -- .
done
