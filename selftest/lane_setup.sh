#!/bin/bash
# selftest/lane_setup.sh <lane-dir>
# A lane is a private copy of /verif (with its build output) next to a scratch worktree of /repo, so that
# several seeded / neutral changes can be run through the checks at the same time without touching /repo.
# Lanes live outside /repo and /verif and are removed with selftest/lane_remove.sh.
set -e
L=$1; [ -n "$L" ] || { echo "usage: lane_setup.sh <dir>"; exit 2; }
rm -rf $L/verif; mkdir -p $L
[ -d $L/repo ] || git -C /repo worktree add -q --detach $L/repo HEAD
git -C $L/repo checkout -q --detach $(git -C /repo rev-parse HEAD); git -C $L/repo checkout -q -- .
rsync -a --exclude .git --exclude .work --exclude replays --exclude seeded --exclude neutral /verif/ $L/verif/
sed -i "s#=> /repo/#=> $L/repo/#" $L/verif/harness/go.mod
mkdir -p $L/verif/.work $L/verif/replays
echo "lane $L ready at $(git -C $L/repo rev-parse --short HEAD)"
