import LncModel.Basic
import LncModel.GbnCodec
import LncModel.MsgData
import LncModel.Facts.Generated
import LncModel.Queue
import LncModel.TraceCheck
import LncModel.Chunk
import LncModel.Endpoint
import LncModel.Timeout
import LncModel.Handshake
import LncModel.Mnemonic
import LncModel.Sid
import LncModel.Stream
import LncModel.Flush
import LncModel.Cipher
import LncModel.Record
import LncModel.Noise
import LncModel.Session
import LncModel.Stack
import LncModel.KaTrace
import LncModel.Relay
/-
  Line-protocol driver: one operation per input line, one canonical result per
  output line.  Imports model files only (no Mathlib, no proofs) so it links as
  a native executable.  The harness runs the real Go code on the same lines and
  the check script diffs the two output streams.
-/
open Lnc Lnc.Gbn Lnc.Mailbox
open Lnc.Gbn.Timeout (TM Kind)

def showBool (b : Bool) : String := if b then "1" else "0"

def showMsg : Msg → String
  | .data s f p pl => s!"data {s} {showBool f} {showBool p} {hexOrDash pl}"
  | .ack s => s!"ack {s}"
  | .nack s => s!"nack {s}"
  | .syn n => s!"syn {n}"
  | .fin => "fin"
  | .synack => "synack"

def showOutcome {α} (f : α → String) : Outcome α → String
  | .ok a => "ok " ++ f a
  | .err e => "err " ++ e
  | .panic _ => "panic"

def parseBool (s : String) : Option Bool :=
  if s = "1" then some true else if s = "0" then some false else none

def parseU8 (s : String) : Option UInt8 :=
  match s.toNat? with
  | some n => if n < 256 then some (UInt8.ofNat n) else none
  | none => none

def parseMsgs (s : String) : Option (List Bytes) :=
  if s = "none" then some [] else (s.splitOn ",").mapM bytesOfHex

def showMsgs (ms : List Bytes) : String :=
  if ms.isEmpty then "none" else ",".intercalate (ms.map hexOrDash)

open Lnc.Mailbox.Noise in
def noiseRun (pat imin imax rmin rmax pwSame iExp rExp plen script : String) : String :=
  -- key ids: initiator static 1 / ephemeral 2, responder static 3 / ephemeral 4; a wrong expected key is pub 9
  match imin.toNat?, imax.toNat?, rmin.toNat?, rmax.toNat?, parseBool pwSame with
  | some imin, some imax, some rmin, some rmax, some pwSame =>
    let kk := pat = "kk"
    let expKey (flag : String) (right : Nat) : Option Pt :=
      if flag = "1" then some (.pub right) else if flag = "0" then some (.pub 9) else none
    let payload : Option Bytes := if plen = "-" then none else plen.toNat?.map fun n => (List.range n).map fun i => UInt8.ofNat ((i + 3) % 251)
    let ci : Cfg := ⟨1, 2, expKey iExp 3, 7, none, imin, imax⟩
    let cr : Cfg := ⟨3, 4, expKey rExp 1, if pwSame then 7 else 8, payload, rmin, rmax⟩
    let rules : List (Nat × Nat × String) := if script = "none" then [] else
      (script.splitOn ",").filterMap fun t =>
        match t.splitOn "=" with
        | [lhs, rw] =>
          match (lhs.drop 1).toString.splitOn "f" with
          | [a, f] => do some ((← a.toNat?), (← f.toNat?), rw)
          | _ => none
        | _ => none
    let mitm : Mitm := fun act fields =>
      fields.zipIdx.map fun (fld, idx) =>
        match rules.find? (fun r => r.1 = act ∧ r.2.1 = idx) with
        | none => fld
        | some (_, _, rw) =>
          match fld with
          | .ver _ => if rw.startsWith "v" then .ver ((rw.drop 1).toString.toNat?.getD 0) else fld
          | .point _ => if rw = "pinv" then .point none else if rw = "poth" then .point (some (.other 99)) else fld
          | .ct _ => if rw = "cgarb" then .ct (.garbage idx) else fld
    let p := if kk then kkPattern else xxPattern
    let (ri, rr) := run p ci cr mitm
    let writesOf (initiator : Bool) (res : SideRes) : Nat :=
      match res with
      | .ok _ => (p.msgs.filter fun m => m.initiator = initiator).length
      | .newFail _ => 0
      | .fail a why =>
        (p.msgs.filter fun m => m.initiator = initiator ∧ (m.act < a)).length
          -- a writer that failed while writing act a did not write it; a reader failing at a wrote everything before
          + (if why = "__never__" then 1 else 0)
    let showSide (initiator : Bool) (res : SideRes) (peerStatic : Nat) (peerPayload : Option Bytes) : String :=
      match res with
      | .ok d =>
        let rs := match d.remoteStatic with | some q => if q = Pt.pub peerStatic then "1" else "0" | none => "-"
        let auth := if initiator then
            (match d.authData, peerPayload with
             | some a, some b => if a = b then "eq" else "neq"
             | some a, none => if a.isEmpty then "eq" else "neq"
             | none, none => "eq"
             | none, some b => if b.isEmpty then "eq" else "neq")
          else "-"
        s!"ok:v{d.version}:rs{rs}:sr{showBool d.setRemote}:auth{auth}"
      | _ => s!"fail:w{writesOf initiator res}"
    let cross := match ri, rr with
      | .ok a, .ok b =>
        let keys := a.sendKey = b.recvKey ∧ a.recvKey = b.sendKey
        s!"keys{showBool (decide keys)}:dg{showBool (decide (a.digest = b.digest))}"
      | _, _ => "-"
    s!"I={showSide true ri 3 cr.payload} R={showSide false rr 1 none} X={cross}"
  | _, _, _, _, _ => "bad-op"

def parseObs (tok : String) : Option Lnc.Gbn.Control.Obs :=
  let t := (tok.drop 1).toString.toNat?
  if tok.startsWith "k" then t.map .pkt
  else if tok.startsWith "p" then t.map .ping
  else if tok.startsWith "c" then t.map .close
  else if tok.startsWith "e" then t.map .stop
  else none

/-- `ka.trace strict P Q t0 obs…`: is the observed keepalive behaviour of one endpoint a run of `KA.step`? -/
def kaTrace (strict p q t0 : String) (obs : List String) : String :=
  match parseBool strict, p.toNat?, q.toNat?, t0.toNat?, obs.mapM parseObs with
  | some strict, some p, some q, some t0, some os =>
    match Lnc.Gbn.Control.validate strict ⟨p, q, t0 + p, none, false⟩ os with
    | none => "ok"
    | some (i, ks) =>
      let g := (Lnc.Gbn.Control.groups os)[i]?.getD []
      s!"FAIL observations {repr g} (group {i}) are not a step of the keepalive model from any of {repr ks}"
  | _, _, _, _, _ => "bad-op"

open Lnc.Mailbox.Relay in
/-- `relay.run <send calls> <recv tries>`: send calls are comma separated, one string of attempt
    outcomes each (o ok, l acknowledged and lost, q failed but queued, f failed), payload of call i is
    the byte i+1; the receive attempts (o ok, t failed after the relay took the head, f failed) are one
    flat string, cut into calls after every `o`. All sends come first. -/
def relayRun (sends recvs : String) : String :=
  let sendTry (c : Char) : Option SendTry :=
    if c = 'o' then some .ok else if c = 'l' then some .okLost else if c = 'q' then some (.fail true)
    else if c = 'f' then some (.fail false) else none
  let recvTry (c : Char) : Option RecvTry :=
    if c = 'o' then some .ok else if c = 't' then some (.fail true) else if c = 'f' then some (.fail false) else none
  match (sends.splitOn ",").mapM (fun call => call.toList.mapM sendTry), recvs.toList.mapM recvTry with
  | some calls, some rtries =>
    let sendOps : List Op := calls.zipIdx.map fun (tries, i) => Op.send [UInt8.ofNat (i + 1)] tries
    -- cut the receive attempts into calls: each call ends with its first `ok`
    let (callsR, cur) := rtries.foldl (fun (acc : List (List RecvTry) × List RecvTry) t =>
      match t with
      | .ok => (acc.1 ++ [acc.2 ++ [t]], [])
      | _ => (acc.1, acc.2 ++ [t])) ([], [])
    let recvOps : List Op := (callsR ++ [cur]).map Op.recv
    let st := run St.init (sendOps ++ recvOps)
    if st.got.isEmpty then "none" else ",".intercalate (st.got.map fun b => toString (b.headD 0).toNat)
  | _, _ => "bad-op"

def pureStep (toks : List String) : String :=
  match toks with
  | ["relay.run", sends, recvs] => relayRun sends recvs
  | "ka.trace" :: strict :: p :: q :: t0 :: obs => kaTrace strict p q t0 obs
  | ["gbn.deser", hex] =>
    match bytesOfHex hex with
    | some b => showOutcome showMsg (deserializeG (Lnc.Facts.guard_DATA.getD 0) b)
    | _ => "bad-op"
  | ["gbn.ser", "data", s, f, p, hex] =>
    match parseU8 s, parseBool f, parseBool p, bytesOfHex hex with
    | some s, some f, some p, some pl => hexOrDash (serialize (.data s f p pl))
    | _, _, _, _ => "bad-op"
  | ["gbn.ser", "ack", s] => (parseU8 s).elim "bad-op" fun s => hexOrDash (serialize (.ack s))
  | ["gbn.ser", "nack", s] => (parseU8 s).elim "bad-op" fun s => hexOrDash (serialize (.nack s))
  | ["gbn.ser", "syn", s] => (parseU8 s).elim "bad-op" fun s => hexOrDash (serialize (.syn s))
  | ["gbn.ser", "fin"] => hexOrDash (serialize .fin)
  | ["gbn.ser", "synack"] => hexOrDash (serialize .synack)
  | ["msg.ser", v, hex] =>
    match parseU8 v, bytesOfHex hex with
    | some v, some p => hexOrDash (MsgData.serialize ⟨v, p⟩)
    | _, _ => "bad-op"
  | ["msg.deser", rv, rhex, hex] =>
    match parseU8 rv, bytesOfHex rhex, bytesOfHex hex with
    | some rv, some rp, some b =>
      showOutcome (fun m => s!"{m.version} {hexOrDash m.payload}") (MsgData.deserializeInto ⟨rv, rp⟩ b)
    | _, _, _ => "bad-op"
  | ["q.size", s, b, t] =>
    match s.toNat?, b.toNat?, t.toNat? with
    | some s, some b, some t => toString (Queue.size ⟨s, b, t⟩)
    | _, _, _ => "bad-op"
  | ["q.contains", b, t, q] =>
    match b.toNat?, t.toNat?, q.toNat? with
    | some b, some t, some q => showBool (containsSequence b t q)
    | _, _, _ => "bad-op"
  | ["q.add", s, b, t] =>
    match s.toNat?, b.toNat?, t.toNat? with
    | some s, some b, some t =>
      showOutcome (fun (r : Queue × Nat) => s!"{r.1.base} {r.1.top} {r.2}") (Queue.addPacket ⟨s, b, t⟩)
    | _, _, _ => "bad-op"
  | ["q.ack", s, b, t, q] =>
    match s.toNat?, b.toNat?, t.toNat?, q.toNat? with
    | some s, some b, some t, some q =>
      showOutcome (fun (r : Queue × Bool) => s!"{r.1.base} {r.1.top} {showBool r.2}") (Queue.processACK ⟨s, b, t⟩ q)
    | _, _, _, _ => "bad-op"
  | ["q.nack", s, b, t, q] =>
    match s.toNat?, b.toNat?, t.toNat?, q.toNat? with
    | some s, some b, some t, some q =>
      let r := Queue.processNACK ⟨s, b, t⟩ q
      s!"ok {r.1.base} {r.1.top} {showBool r.2.1} {showBool r.2.2}"
    | _, _, _, _ => "bad-op"
  | ["q.resend", s, b, t] =>
    match s.toNat?, b.toNat?, t.toNat? with
    | some s, some b, some t =>
      showOutcome (fun (l : List Nat) => " ".intercalate (l.map toString)) (resendSeqs s (s + 2) b t)
    | _, _, _ => "bad-op"
  | ["q.syncer", s, t] =>
    match s.toNat?, t.toNat? with
    | some s, some t => showOutcome (fun (r : Nat × Nat) => s!"{r.1} {r.2}") (syncerExpect s t)
    | _, _ => "bad-op"
  | ["chunk.split", m, hex] =>
    match m.toNat?, bytesOfHex hex with
    | some m, some d =>
      ",".intercalate ((split m d).map fun p => s!"{p.payload.length}:{showBool p.final}")
    | _, _ => "bad-op"
  | ["chunk.roundtrip", m, msgs] =>
    match m.toNat?, parseMsgs msgs with
    | some m, some ms => showMsgs (reassembleOut (ms.flatMap (split m)) [])
    | _, _ => "bad-op"
  | ["chunk.sendtimeout", m, k, hex] =>
    -- a Send that timed out after k chunks, then the same payload sent again
    match m.toNat?, k.toNat?, bytesOfHex hex with
    | some m, some k, some d => showMsgs (reassembleOut (splitTimedOut m k d ++ split m d) [])
    | _, _, _ => "bad-op"
  | ["chunk.recvbudgets", m, budgets, msgs] =>
    match m.toNat?, (budgets.splitOn ",").mapM String.toNat?, parseMsgs msgs with
    | some m, some bs, some ms => showMsgs (recvCalls bs ⟨ms.flatMap (split m), []⟩)
    | _, _, _ => "bad-op"
  | ["ep.adopt", n] =>
    match n.toNat? with
    | some n => showOutcome (fun (st : EpState) => s!"{st.q.s}") (adoptN n)
    | none => "bad-op"
  | ["ep.step", s, b, t, r, hex] =>
    match s.toNat?, b.toNat?, t.toNat?, r.toNat?, bytesOfHex hex with
    | some s, some b, some t, some r, some bytes =>
      match dataPhaseStep (Lnc.Facts.guard_DATA.getD 0) ⟨⟨s, b, t⟩, r⟩ bytes with
      | .ok (.closed _) => "closed"
      | .ok (.continue st reply d) =>
        let rs := match reply with
          | some (.ack x) => s!"ack:{x}"
          | some (.nack x) => s!"nack:{x}"
          | _ => "none"
        let ds := match d with | some pl => hexOrDash pl | none => "none"
        s!"cont {st.q.base} {st.q.top} {st.recvSeq} {rs} {ds}"
      | .err e => "err " ++ e
      | .panic _ => "panic"
    | _, _, _, _, _ => "bad-op"
  | "mn.towords" :: [hex] =>
    match bytesOfHex hex with
    | some e => " ".intercalate ((Lnc.Mailbox.Mnemonic.toWords e).map toString)
    | none => "bad-op"
  | "mn.toentropy" :: ws =>
    match ws.mapM String.toNat? with
    | some l => hexOrDash (Lnc.Mailbox.Mnemonic.toEntropy l)
    | none => "bad-op"
  | ["sid.getsid", hex, dir] =>
    match bytesOfHex hex, parseBool dir with
    | some b, some d => hexOrDash (Lnc.Mailbox.Sid.getSID b d)
    | _, _ => "bad-op"
  | "sid.pattern" :: cfgs =>
    -- each cfg: local,remote|-,entropyhex ; output: canonical labels of equal identifiers
    let terms := cfgs.mapM fun c =>
      match c.splitOn "," with
      | [l, r, e] =>
        match l.toNat?, bytesOfHex e with
        | some l, some e =>
          if r = "-" then some (Lnc.Mailbox.Sid.sidPre l none e)
          else r.toNat?.map fun r => Lnc.Mailbox.Sid.sidPre l (some r) e
        | _, _ => none
      | _ => none
    match terms with
    | some ts =>
      let labels := ts.foldl (fun (acc : List Lnc.Mailbox.Sid.Term × List Nat) t =>
        match acc.1.idxOf? t with
        | some i => (acc.1, acc.2 ++ [i])
        | none => (acc.1 ++ [t], acc.2 ++ [acc.1.length])) ([], [])
      " ".intercalate (labels.2.map toString)
    | none => "bad-op"
  | ["st.read", kind, writes, ks] =>
    -- kind: grpc | tcp | kit ; writes: sizes of the peer's Write calls ; ks: read buffer sizes
    match (writes.splitOn ",").mapM String.toNat?, (ks.splitOn ",").mapM String.toNat? with
    | some ws, some ks =>
      let mk (n : Nat) (seed : Nat) : Bytes := (List.range n).map fun i => UInt8.ofNat ((i + seed) % 251)
      let payloads := ws.zipIdx.map fun (n, i) => mk n (7 * i)
      let recs := if kind = "tcp" then payloads.flatMap fun w => (Lnc.Mailbox.Stream.tcpWrite w).1 else payloads
      let rd := if kind = "grpc" then Lnc.Mailbox.Stream.grpcRead (Lnc.Facts.mb_defaultGrpcWriteBufSize.getD 0)
                else Lnc.Mailbox.Stream.bufRead
      let res := Lnc.Mailbox.Stream.readAll rd ks ⟨[], recs⟩
      ",".intercalate (res.1.map fun b => toString b.length) ++ s!" rest={res.2.rest.length}"
    | _, _ => "bad-op"
  | ["fl.seq", plainLen, budgets] =>
    match plainLen.toNat?, (budgets.splitOn ",").mapM (fun s => match s.splitOn ":" with
        | [a, b] => do some ((← a.toNat?), (← b.toNat?))
        | _ => none) with
    | some n, some bs =>
      let hdr : Bytes := List.replicate Lnc.Mailbox.Flush.encHeaderSize 1
      let body : Bytes := List.replicate (n + Lnc.Mailbox.Flush.macSize) 2
      let rec go (p : Lnc.Mailbox.Flush.Pending) (l : List (Nat × Nat)) (acc : List String) : List String :=
        match l with
        | [] => acc
        | (b1, b2) :: rest =>
          let r := Lnc.Mailbox.Flush.flushOnce p b1 b2
          go r.p rest (acc ++ [s!"{r.nn}:{showBool r.err}:{r.out.length}"])
      ";".intercalate (go ⟨hdr, body⟩ bs [])
    | _, _ => "bad-op"
  | ["cs.after", R, k] =>
    match R.toNat?, k.toNat? with
    | some R, some k =>
      let c := Lnc.Mailbox.Cipher.CS.after R k Lnc.Mailbox.Cipher.CS.init
      s!"{c.epoch} {c.nonce}"
    | _, _ => "bad-op"
  | ["rec.read", dir, lens, segs] =>
    -- lens: plaintext lengths of the records the authentic peer wrote in direction dir
    -- segs: h<use>:<from>:<to> | o<use>:<from>:<to> | j<n> | p (read timeout here), comma separated
    match dir.toNat?, (if lens = "none" then some [] else (lens.splitOn ",").mapM String.toNat?) with
    | some dir, some ls =>
      let recs : List Bytes := ls.map fun n => List.replicate n 0
      let parseSeg (t : String) : Option (List Lnc.Mailbox.Record.SByte) :=
        if t = "p" then some [.pause]
        else if t.startsWith "j" then (t.drop 1).toString.toNat?.map fun n => List.replicate n .junk
        else
          let d := if t.startsWith "h" then some dir else if t.startsWith "o" then some (1 - dir) else none
          match d, ((t.drop 1).toString.splitOn ":").mapM String.toNat? with
          | some d, some [u, a, b] => some ((List.range (b - a)).map fun i => .hon d u (a + i))
          | _, _ => none
      match (if segs = "none" then some [] else (segs.splitOn ",").mapM parseSeg) with
      | some ss =>
        -- the harness stops after three consecutive errors (a latched reader never consumes the wire)
        let all := Lnc.Mailbox.Record.readLoop recs 2000 ⟨dir, 0, false⟩ ss.flatten
        let res := (all.foldl (fun (acc : List Lnc.Mailbox.Record.Res × Nat) r =>
          if acc.2 ≥ 3 then acc else
          match r with
          | .ok j => (acc.1 ++ [.ok j], 0)
          | .err => (acc.1 ++ [.err], acc.2 + 1)) ([], 0)).1
        if res.isEmpty then "none" else
        ",".intercalate (res.map fun r => match r with | .ok j => s!"ok:{j}" | .err => "err")
      | none => "bad-op"
    | _, _ => "bad-op"
  | ["noise.run", pat, imin, imax, rmin, rmax, pwSame, iExp, rExp, plen, script] =>
    noiseRun pat imin imax rmin rmax pwSame iExp rExp plen script
  | ["stk.reads", k, sizes] =>
    match k.toNat?, (sizes.splitOn ",").mapM String.toNat? with
    | some k, some sz =>
      ",".intercalate ((Lnc.Mailbox.Stack.rle (Lnc.Mailbox.Stack.appReadSizes k sz)).map fun (v, c) => s!"{v}x{c}")
    | _, _ => "bad-op"
  | ["q.mks", n] => (n.toNat?).elim "bad-op" fun n => toString (mkS n)
  | _ => "bad-op"


structure DState where
  dirs : Array Dir := #[Dir.init 1, Dir.init 1]
  failed : Bool := false
  tm : TM := TM.new false 1000000000 1000000000 5 100
  pct : Float32 := 0.5
  hsCli : Hs.Cli × List Msg := (.fail "uninit", [])
  hsSrv : List (Hs.Srv × List Msg) := []
  hsFailed : Bool := false
  sess : Option Lnc.Mailbox.Session.St := none

def parseKind (s : String) : Option Kind :=
  match s with
  | "syn" => some .syn | "synack" => some .synack | "data" => some .data
  | "ack" => some .ack | "nack" => some .nack | "fin" => some .fin | _ => none

def showTM (st : DState) : String :=
  let inc := Lnc.Gbn.Timeout.incF32 st.pct
  s!"{st.tm.getResend inc} {st.tm.getHandshake inc} {st.tm.resendB.boostCount} {st.tm.handshakeB.boostCount} {st.tm.responseCounter} {showBool st.tm.hasSetDynamic}"

def parseReaction (s : String) : Option Reaction :=
  match s.splitOn ":" with
  | ["none"] => some .none
  | ["lost"] => some .lost
  | ["ack", a, c] => do some (.ack (← a.toNat?) (← c.toNat?))
  | ["nack", a, c] => do some (.nack (← a.toNat?) (← c.toNat?))
  | _ => none


def uniApply (st : DState) (dir : Nat) (f : Dir → Except String Dir) : DState × String :=
  if st.failed then (st, "ok") else
  match st.dirs[dir]? with
  | none => (st, "bad-op")
  | some d =>
    match f d with
    | .ok d' => ({ st with dirs := st.dirs.set! dir d' }, "ok")
    | .error e => ({ st with failed := true }, "FAIL " ++ e)

def sessEv (st : DState) (e : Lnc.Mailbox.Session.Ev) : DState × String :=
  match st.sess with
  | none => (st, "ok")   -- a mismatch was already reported for this sequence
  | some s =>
    match Lnc.Mailbox.Session.step s e with
    | some s' => ({ st with sess := some s' }, "ok")
    | none => ({ st with sess := none }, s!"FAIL event {repr e} is not enabled in the session model")

def sessBlocked (st : DState) (e : Lnc.Mailbox.Session.Ev) : DState × String :=
  match st.sess with
  | none => (st, "ok")
  | some s =>
    match Lnc.Mailbox.Session.step s e with
    | none => (st, "ok")
    | some _ => ({ st with sess := none }, s!"FAIL the model would have let {repr e} return while the real call blocked")

def step (st : DState) (toks : List String) : DState × String :=
  match toks with
  | ["uni.init", n] =>
    match n.toNat? with
    | some n => ({ dirs := #[Dir.init n, Dir.init n], failed := false }, "ok")
    | none => (st, "bad-op")
  | ["uni.emitD", dir, seq, f, p, hex, copies] =>
    match dir.toNat?, seq.toNat?, parseBool f, parseBool p, bytesOfHex hex, copies.toNat? with
    | some dir, some seq, some f, some p, some pl, some c =>
      uniApply st dir fun d => d.emitD seq ⟨pl, f, p⟩ c
    | _, _, _, _, _, _ => (st, "bad-op")
  | ["uni.delivD", dir, seq, f, p, hex, react] =>
    match dir.toNat?, seq.toNat?, parseBool f, parseBool p, bytesOfHex hex, parseReaction react with
    | some dir, some seq, some f, some p, some pl, some r =>
      uniApply st dir fun d => d.delivD seq ⟨pl, f, p⟩ r
    | _, _, _, _, _, _ => (st, "bad-op")
  | ["uni.delivR", dir, kind, seq, processed] =>
    match dir.toNat?, (if kind = "ack" then some RKind.ack else if kind = "nack" then some RKind.nack else none),
          seq.toNat?, parseBool processed with
    | some dir, some k, some seq, some pr => uniApply st dir fun d => d.delivR k seq pr
    | _, _, _, _ => (st, "bad-op")
  | ["uni.recvd", dir, msgs] =>
    match dir.toNat?, parseMsgs msgs with
    | some dir, some ms =>
      uniApply st dir fun d =>
        let model := reassembleOut d.σ.out []
        if ms.isPrefixOf model then .ok d
        else .error s!"Recv results ({ms.length}) are not a prefix of the model's delivered messages ({model.length})"
    | _, _ => (st, "bad-op")
  | ["sess.init"] => ({ st with sess := some (Lnc.Mailbox.Session.init 1 2 [7]) }, "ok")
  | "sess.accept-ret" :: [] => sessEv st .acceptRet
  | "sess.dial-ret" :: [] => sessEv st .dialRet
  | ["sess.closed", "s"] => sessEv st .closedS
  | ["sess.closed", "c"] => sessEv st .closedC
  | ["sess.transfer"] => sessEv st .transfer
  | ["sess.handshake-ok", ver] =>
    match st.sess with
    | none => (st, "ok")
    | some s =>
      -- the pattern the real sides selected must be the one the model's stored keys imply
      let paired := s.srv.remote.isSome && s.cli.remote.isSome
      if (ver == "paired") != paired then
        ({ st with sess := none }, s!"FAIL handshake ran as {ver} but the model has paired={paired}")
      else sessEv st .handshakeV2
  | ["sess.handshake-half"] => sessEv st .handshakeClientOnly
  | ["sess.split", observed] =>
    match st.sess with
    | none => (st, "ok")
    | some s =>
      -- do the two sides derive different rendezvous in the model as well?
      let split := decide (s.srv.sid s.entropy ≠ s.cli.sid s.entropy)
      if (observed == "1") != split then (st, s!"FAIL rendezvous split observed={observed}, model={split}") else (st, "ok")
  | ["sess.early-accept-blocked"] => sessBlocked st .acceptRet
  | ["sess.early-dial-blocked"] => sessBlocked st .dialRet
  | ["sess.intruder", adm] =>
    match st.sess with
    | none => (st, "ok")
    | some s =>
      -- a passphrase-only client meets the server iff the server still listens on the passphrase rendezvous
      let modelAdmits := s.srv.remote.isNone
      if (adm == "1") != modelAdmits then (st, s!"FAIL intruder admitted={adm}, model admits={modelAdmits}") else (st, "ok")
  | ["hs.init", n] =>
    match n.toNat? with
    | some n => ({ st with hsCli := Hs.cliStart n, hsSrv := [(Hs.srvStart, [])], hsFailed := false }, "ok")
    | none => (st, "bad-op")
  | ["hs.c.recv", hex] =>
    if st.hsFailed then (st, "ok") else
    match bytesOfHex hex with
    | some b =>
      let (c, em) := Hs.cliStep (Lnc.Facts.guard_DATA.getD 0) st.hsCli.1 (.recv b)
      ({ st with hsCli := (c, st.hsCli.2 ++ em) }, "ok")
    | none => (st, "bad-op")
  | ["hs.c.emit", hex] =>
    if st.hsFailed then (st, "ok") else
    match bytesOfHex hex with
    | some b =>
      -- an emission with nothing pending can only be the SYN re-sent after a timeout
      let (c, pend) := match st.hsCli.2 with
        | [] => let (c', em) := Hs.cliStep (Lnc.Facts.guard_DATA.getD 0) st.hsCli.1 .timeout; (c', em)
        | p => (st.hsCli.1, p)
      match pend with
      | m :: rest =>
        if serialize m = b then ({ st with hsCli := (c, rest) }, "ok")
        else ({ st with hsFailed := true }, s!"FAIL client emitted {hex}, model expects {hexOrDash (serialize m)}")
      | [] => ({ st with hsFailed := true }, s!"FAIL client emitted {hex}, model expects nothing")
    | none => (st, "bad-op")
  | ["hs.c.ret", res] =>
    if st.hsFailed then (st, "ok") else
    match st.hsCli.1, res with
    | .done _, "ok" => (st, "ok")
    | .fail _, "err" => (st, "ok")
    | .waiting _, "cancelled" => (st, "ok")
    | c, r => ({ st with hsFailed := true }, s!"FAIL client returned {r} in model state {repr c}")
  | ["hs.s.recv", hex] =>
    if st.hsFailed then (st, "ok") else
    match bytesOfHex hex with
    | some b =>
      let g := Lnc.Facts.guard_DATA.getD 0
      let next := st.hsSrv.flatMap fun (s, pend) =>
        let direct := let (s', em) := Hs.srvStep g s (.recv b); (s', pend ++ em)
        match s with
        | .s1 _ _ =>
          let (sT, _) := Hs.srvStep g s .timeout
          let viaTimeout := let (s', em) := Hs.srvStep g sT (.recv b); (s', pend ++ em)
          [direct, viaTimeout]
        | _ => [direct]
      ({ st with hsSrv := next.eraseDups }, "ok")
    | none => (st, "bad-op")
  | ["hs.s.emit", hex] =>
    if st.hsFailed then (st, "ok") else
    match bytesOfHex hex with
    | some b =>
      let next := st.hsSrv.filterMap fun (s, pend) =>
        match pend with
        | m :: rest => if serialize m = b then some (s, rest) else none
        | [] => none
      if next.isEmpty then ({ st with hsFailed := true }, s!"FAIL server emitted {hex}: no model state expects it")
      else ({ st with hsSrv := next }, "ok")
    | none => (st, "bad-op")
  | ["hs.s.ret", res, n] =>
    if st.hsFailed then (st, "ok") else
    let ok := st.hsSrv.any fun (s, pend) =>
      pend.isEmpty && (match s, res with
        | .done k, "ok" => n.toNat? == some k
        | .fail _, "err" => true
        | .s0 _ _, "cancelled" => true
        | .s1 _ _, "cancelled" => true
        | _, _ => false)
    if ok then (st, "ok")
    else ({ st with hsFailed := true }, s!"FAIL server returned {res} {n}; model states {repr (st.hsSrv.map (·.1))}")
  | ["tm.new", static, resend, hs, mult, freq, pctBits] =>
    match parseBool static, resend.toInt?, hs.toInt?, mult.toInt?, freq.toNat?, pctBits.toNat? with
    | some st', some r, some h, some m, some f, some pb =>
      let st2 := { st with tm := TM.new st' r h m f, pct := Float32.ofBits (UInt32.ofNat pb) }
      (st2, showTM st2)
    | _, _, _, _, _, _ => (st, "bad-op")
  | ["tmq.new", static, resend, hs, mult, freq, pctBits] =>
    -- the quiet variants answer "ok": a whole history observed on a real connection is replayed, and
    -- only the state it ends in (tm.show) is compared
    match parseBool static, resend.toInt?, hs.toInt?, mult.toInt?, freq.toNat?, pctBits.toNat? with
    | some st', some r, some h, some m, some f, some pb =>
      ({ st with tm := TM.new st' r h m f, pct := Float32.ofBits (UInt32.ofNat pb) }, "ok")
    | _, _, _, _, _, _ => (st, "bad-op")
  | ["tmq.sent", k, seq, resent, t] =>
    match parseKind k, seq.toNat?, parseBool resent, t.toInt? with
    | some k, some seq, some r, some t => ({ st with tm := st.tm.sent k seq r t }, "ok")
    | _, _, _, _ => (st, "bad-op")
  | ["tmq.recv", k, seq, t] =>
    match parseKind k, seq.toNat?, t.toInt? with
    | some k, some seq, some t => ({ st with tm := st.tm.received k seq t }, "ok")
    | _, _, _ => (st, "bad-op")
  | ["tm.show"] => (st, showTM st)
  | ["tm.sent", k, seq, resent, t] =>
    match parseKind k, seq.toNat?, parseBool resent, t.toInt? with
    | some k, some seq, some r, some t =>
      let st2 := { st with tm := st.tm.sent k seq r t }
      (st2, showTM st2)
    | _, _, _, _ => (st, "bad-op")
  | ["tm.recv", k, seq, t] =>
    match parseKind k, seq.toNat?, t.toInt? with
    | some k, some seq, some t =>
      let st2 := { st with tm := st.tm.received k seq t }
      (st2, showTM st2)
    | _, _, _ => (st, "bad-op")
  | _ => (st, pureStep toks)

partial def loop (hin hout : IO.FS.Stream) (st : DState) : IO Unit := do
  let line ← hin.getLine
  if line.isEmpty then return ()
  let toks := (line.trimAscii.toString.splitOn " ").filter (· ≠ "")
  let (st', out) := step st toks
  hout.putStrLn out
  loop hin hout st'

def main : IO Unit := do
  let hin ← IO.getStdin
  let hout ← IO.getStdout
  loop hin hout {}
  hout.flush
