import LncModel.Basic
import LncModel.GbnCodec
import LncModel.MsgData
import LncModel.Facts.Generated
/-
  Line-protocol driver: one operation per input line, one canonical result per
  output line.  Imports model files only (no Mathlib, no proofs) so it links as
  a native executable.  The harness runs the real Go code on the same lines and
  the check script diffs the two output streams.
-/
open Lnc Lnc.Gbn Lnc.Mailbox

def showBool (b : Bool) : String := if b then "1" else "0"

def showMsg : Msg → String
  | .data s f p pl => s!"data {s} {showBool f} {showBool p} {hexOrDash pl}"
  | .ack s => s!"ack {s}"
  | .nack s => s!"nack {s}"
  | .syn n => s!"syn {n}"
  | .fin => "fin"
  | .synack => "synack"

def showOutcome {α} (f : α → String) : Outcome α → String
  | .ok a => "ok " ++ f a
  | .err e => "err " ++ e
  | .panic _ => "panic"

def parseBool (s : String) : Option Bool :=
  if s = "1" then some true else if s = "0" then some false else none

def parseU8 (s : String) : Option UInt8 :=
  match s.toNat? with
  | some n => if n < 256 then some (UInt8.ofNat n) else none
  | none => none

def step (toks : List String) : String :=
  match toks with
  | ["gbn.deser", hex] =>
    match bytesOfHex hex with
    | some b => showOutcome showMsg (deserializeG (Lnc.Facts.guard_DATA.getD 0) b)
    | _ => "bad-op"
  | ["gbn.ser", "data", s, f, p, hex] =>
    match parseU8 s, parseBool f, parseBool p, bytesOfHex hex with
    | some s, some f, some p, some pl => hexOrDash (serialize (.data s f p pl))
    | _, _, _, _ => "bad-op"
  | ["gbn.ser", "ack", s] => (parseU8 s).elim "bad-op" fun s => hexOrDash (serialize (.ack s))
  | ["gbn.ser", "nack", s] => (parseU8 s).elim "bad-op" fun s => hexOrDash (serialize (.nack s))
  | ["gbn.ser", "syn", s] => (parseU8 s).elim "bad-op" fun s => hexOrDash (serialize (.syn s))
  | ["gbn.ser", "fin"] => hexOrDash (serialize .fin)
  | ["gbn.ser", "synack"] => hexOrDash (serialize .synack)
  | ["msg.ser", v, hex] =>
    match parseU8 v, bytesOfHex hex with
    | some v, some p => hexOrDash (MsgData.serialize ⟨v, p⟩)
    | _, _ => "bad-op"
  | ["msg.deser", rv, rhex, hex] =>
    match parseU8 rv, bytesOfHex rhex, bytesOfHex hex with
    | some rv, some rp, some b =>
      showOutcome (fun m => s!"{m.version} {hexOrDash m.payload}") (MsgData.deserializeInto ⟨rv, rp⟩ b)
    | _, _, _ => "bad-op"
  | _ => "bad-op"

partial def loop (hin hout : IO.FS.Stream) : IO Unit := do
  let line ← hin.getLine
  if line.isEmpty then return ()
  let toks := (line.trimAscii.toString.splitOn " ").filter (· ≠ "")
  hout.putStrLn (step toks)
  loop hin hout

def main : IO Unit := do
  let hin ← IO.getStdin
  let hout ← IO.getStdout
  loop hin hout
  hout.flush
