import LncModel.Basic
