import LncModel.Proto
/-
  Trace inclusion: replays the event log of a real GoBackNConn pair through the
  executable transition function `Uni.step?`, one `Uni` system per data
  direction.  An event that is not an enabled transition of the model, or whose
  observable content (sequence number, payload, flags, ACK/NACK value) differs
  from what the model's transition produces, is reported as a failure.

  The harness transport decides drop / duplicate when a packet *enters* the
  channel (`copies` = 0 / 2); the model takes those steps when the packet is at
  the *head*.  The two are observationally the same; `copies` lists parallel to
  the model channels carry the decision to the point of use.
-/
namespace Lnc.Gbn

structure Dir where
  σ : Uni
  fc : List Nat     -- pending copy counts, parallel to σ.fwd
  bc : List Nat     -- pending copy counts, parallel to σ.bwd

def Dir.init (n : Nat) : Dir := { σ := Uni.init n, fc := [], bc := [] }

abbrev Res := Except String Dir

def need (o : Option Uni) (what : String) : Except String Uni :=
  match o with
  | some σ => .ok σ
  | none => .error s!"not enabled in the model: {what}"

/-- sender emitted a DATA packet -/
def Dir.emitD (d : Dir) (seq : Nat) (p : Pkt) (copies : Nat) : Res := do
  if seq = d.σ.q.top then
    let σ' ← need (d.σ.step? (.sendNew p))
      s!"new DATA seq={seq} with model size={d.σ.q.size} n={d.σ.n} base={d.σ.q.base} top={d.σ.q.top}"
    return { d with σ := σ', fc := d.fc ++ [copies] }
  else
    -- a retransmission: some index of the last n packets with this residue
    let cands := (List.range d.σ.n).filterMap fun j =>
      if j < d.σ.T ∧ (d.σ.T - 1 - j) % d.σ.q.s = seq then some (d.σ.T - 1 - j) else none
    match cands with
    | [] => throw s!"DATA seq={seq} is neither the model's top={d.σ.q.top} nor one of its last n={d.σ.n} packets (T={d.σ.T})"
    | i :: _ =>
      let σ' ← need (d.σ.step? (.retransmit i)) s!"retransmit index {i}"
      match σ'.fwd.getLast? with
      | some w =>
        if w.pkt = p then return { d with σ := σ', fc := d.fc ++ [copies] }
        else throw s!"retransmitted DATA seq={seq} differs from the packet queued at index {i}"
      | none => throw "internal: empty fwd after retransmit"

/-- bring the head of `fwd` to a deliverable copy: take pending drops and dup -/
partial def Dir.syncFwd (d : Dir) : Res :=
  match d.fc with
  | 0 :: rest => do
    let σ' ← need (d.σ.step? .fwdDrop) "fwdDrop"
    Dir.syncFwd { d with σ := σ', fc := rest }
  | 2 :: rest => do
    let σ' ← need (d.σ.step? .fwdDup) "fwdDup"
    return { d with σ := σ', fc := 1 :: 1 :: rest }
  | _ => return d

partial def Dir.syncBwd (d : Dir) : Res :=
  match d.bc with
  | 0 :: rest => do
    let σ' ← need (d.σ.step? .bwdDrop) "bwdDrop"
    Dir.syncBwd { d with σ := σ', bc := rest }
  | 2 :: rest => do
    let σ' ← need (d.σ.step? .bwdDup) "bwdDup"
    return { d with σ := σ', bc := 1 :: 1 :: rest }
  | _ => return d

inductive Reaction
  | ack (seq copies : Nat)
  | nack (seq copies : Nat)
  | none      -- processed by the receive loop, no response emitted
  | lost      -- taken off the transport but never processed (closing / swallowed)

/-- the transport handed a DATA packet to the receiver -/
def Dir.delivD (d : Dir) (seq : Nat) (p : Pkt) (r : Reaction) : Res := do
  let d ← d.syncFwd
  match d.σ.fwd, d.fc with
  | w :: _, _ :: fcRest =>
    if w.seq ≠ seq ∨ w.pkt ≠ p then
      throw s!"delivered DATA seq={seq} is not the head of the model channel (head seq={w.seq})"
    else
      let accept := decide (w.seq = d.σ.recvSeq)
      match r with
      | .lost =>
        let σ' ← need (d.σ.step? .fwdDrop) "fwdDrop(lost)"
        return { d with σ := σ', fc := fcRest }
      | .ack s c =>
        if ¬ accept then throw s!"receiver ACKed DATA seq={seq} but the model expects recvSeq={d.σ.recvSeq}"
        else if s ≠ seq then throw s!"ACK carries {s}, expected {seq}"
        else
          let σ' ← need (d.σ.step? (.fwdDeliver false)) "fwdDeliver"
          return { d with σ := σ', fc := fcRest, bc := d.bc ++ [c] }
      | .nack s c =>
        if accept then throw s!"receiver NACKed DATA seq={seq} which is the one the model expects"
        else if s ≠ d.σ.recvSeq then throw s!"NACK carries {s}, model recvSeq={d.σ.recvSeq}"
        else
          let σ' ← need (d.σ.step? (.fwdDeliver true)) "fwdDeliver+nack"
          return { d with σ := σ', fc := fcRest, bc := d.bc ++ [c] }
      | .none =>
        if accept then throw s!"receiver ignored DATA seq={seq} which is the one the model expects"
        else
          let σ' ← need (d.σ.step? (.fwdDeliver false)) "fwdDeliver(no nack)"
          return { d with σ := σ', fc := fcRest }
  | _, _ => throw s!"DATA seq={seq} delivered but the model channel is empty"

/-- the transport handed an ACK/NACK to the sender -/
def Dir.delivR (d : Dir) (kind : RKind) (seq : Nat) (processed : Bool) : Res := do
  let d ← d.syncBwd
  match d.σ.bwd, d.bc with
  | w :: _, _ :: bcRest =>
    if w.kind ≠ kind ∨ w.seq ≠ seq then
      throw s!"delivered response seq={seq} is not the head of the model channel (head seq={w.seq})"
    else if processed then
      let σ' ← need (d.σ.step? .bwdDeliver) "bwdDeliver"
      return { d with σ := σ', bc := bcRest }
    else
      let σ' ← need (d.σ.step? .bwdDrop) "bwdDrop(lost)"
      return { d with σ := σ', bc := bcRest }
  | _, _ => throw s!"response seq={seq} delivered but the model channel is empty"

/-- messages reassembled from the packets handed to the application -/
def reassembleOut : List Pkt → Bytes → List Bytes
  | [], _ => []
  | p :: ps, acc =>
    if p.final then (acc ++ p.payload) :: reassembleOut ps [] else reassembleOut ps (acc ++ p.payload)

end Lnc.Gbn
