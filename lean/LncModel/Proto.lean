import LncModel.Queue
/-
  The Go-Back-N data phase as a transition system, one direction
  (DATA flows sender → receiver on `fwd`, ACK/NACK flow back on `bwd`).

  Concrete fields (`q`, `content`, `recvSeq`, wire `seq`/`pkt`/`kind`) are
  updated exactly as gbn/queue.go and receivePacketsForever do, by calling the
  code mirrors in Queue.lean; the transition functions decide *what the
  endpoints do* from concrete fields only.

  Ghost fields (absolute counters `B ≤ R ≤ T`, `log`, and the `idx`/`tag`/`val`
  annotations of in-flight packets) are carried along for the proofs.  They are
  read only by (a) ghost updates and (b) the guard of `retransmit`, which is
  the *specification* of what a resend may emit ("any of the last n queued
  packets, unchanged"); the trace-inclusion tie checks the real send loop
  against that guard.

  Channels are FIFO lists with operations deliver (head, pop), dup (head
  duplicated in place), drop (head popped, not delivered); delay = not taking a
  step.  That is exactly "keeps per-direction order but may drop, duplicate
  and arbitrarily delay".
-/
namespace Lnc.Gbn

structure Pkt where
  payload : Bytes
  final : Bool
  ping : Bool
deriving Repr, DecidableEq

structure DataW where
  seq : Nat
  pkt : Pkt
  idx : Nat   -- ghost: absolute index of the packet in `log`
  tag : Nat   -- ghost: value of `T` when this copy was emitted
deriving Repr, DecidableEq

inductive RKind | ack | nack
deriving Repr, DecidableEq

structure RespW where
  kind : RKind
  seq : Nat
  val : Nat   -- ghost: receiver's absolute count `R` right after emitting
deriving Repr, DecidableEq

structure Uni where
  n : Nat
  q : Queue
  content : Nat → Pkt
  recvSeq : Nat
  out : List Pkt            -- packets handed to the layer above (recvDataChan), in order
  fwd : List DataW
  bwd : List RespW
  B : Nat
  T : Nat
  R : Nat
  log : List Pkt            -- every packet ever accepted into the send queue, in order

def Uni.init (n : Nat) : Uni :=
  { n := n, q := { s := mkS n, base := 0, top := 0 }, content := fun _ => ⟨[], false, false⟩,
    recvSeq := 0, out := [], fwd := [], bwd := [], B := 0, T := 0, R := 0, log := [] }

inductive Label
  | sendNew (p : Pkt)
  | retransmit (i : Nat)
  | fwdDeliver (nack : Bool)
  | fwdDup
  | fwdDrop
  | bwdDeliver
  | bwdDup
  | bwdDrop
deriving Repr, DecidableEq

def Uni.step? (σ : Uni) : Label → Option Uni
  | .sendNew p =>
    -- sendPacketsForever: a packet is taken from sendDataChan (or a ping is
    -- created) only when `size() < n`; then addPacket + first transmission
    if σ.q.size < σ.n then
      match σ.q.addPacket with
      | .ok (q', seq) =>
        some { σ with q := q',
                      content := fun k => if k = seq then p else σ.content k,
                      fwd := σ.fwd ++ [⟨seq, p, σ.T, σ.T + 1⟩],
                      T := σ.T + 1, log := σ.log ++ [p] }
      | _ => none
    else none
  | .retransmit i =>
    if i < σ.T ∧ σ.T ≤ i + σ.n then
      some { σ with fwd := σ.fwd ++ [⟨i % σ.q.s, σ.content (i % σ.q.s), i, σ.T⟩] }
    else none
  | .fwdDeliver nack =>
    match σ.fwd with
    | [] => none
    | d :: rest =>
      if d.seq = σ.recvSeq then
        some { σ with fwd := rest,
                      bwd := σ.bwd ++ [⟨.ack, d.seq, σ.R + 1⟩],
                      recvSeq := (add8 σ.recvSeq 1) % σ.q.s,
                      R := σ.R + 1,
                      out := if d.pkt.ping then σ.out else σ.out ++ [d.pkt] }
      else
        some { σ with fwd := rest,
                      bwd := if nack then σ.bwd ++ [⟨.nack, σ.recvSeq, σ.R⟩] else σ.bwd }
  | .fwdDup =>
    match σ.fwd with
    | [] => none
    | d :: rest => some { σ with fwd := d :: d :: rest }
  | .fwdDrop =>
    match σ.fwd with
    | [] => none
    | _ :: rest => some { σ with fwd := rest }
  | .bwdDeliver =>
    match σ.bwd with
    | [] => none
    | r :: rest =>
      match r.kind with
      | .ack =>
        match σ.q.processACK r.seq with
        | .ok (q', _) => some { σ with q := q', bwd := rest, B := r.val }
        | _ => none
      | .nack =>
        some { σ with q := (σ.q.processNACK r.seq).1, bwd := rest, B := r.val }
  | .bwdDup =>
    match σ.bwd with
    | [] => none
    | r :: rest => some { σ with bwd := r :: r :: rest }
  | .bwdDrop =>
    match σ.bwd with
    | [] => none
    | _ :: rest => some { σ with bwd := rest }

/-- run a list of labels; `none` if some label is not enabled -/
def Uni.run? (σ : Uni) : List Label → Option Uni
  | [] => some σ
  | l :: ls => match σ.step? l with
    | some σ' => σ'.run? ls
    | none => none

def Reachable (n : Nat) (σ : Uni) : Prop := ∃ ls, (Uni.init n).run? ls = some σ

/-- the packets the sender accepted, minus keepalive pings -/
def Uni.accepted (σ : Uni) : List Pkt := σ.log.filter (fun p => !p.ping)

end Lnc.Gbn
