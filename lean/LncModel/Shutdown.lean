import LncModel.Facts.Types
/-
  Shutdown protocol of GoBackNConn.Close (gbn/gbn_conn.go), parametric in facts
  extracted from the source:

    created   resources (tickers) that start()/the constructors create
    stopped   resources that Close stops
    order     the calls Close makes, in program order
    blocking  for every point where one of the two loop goroutines can block:
              the set of signals that wake it

  Close raises signals in order (`close(quit)`, FIN send under a timeout,
  `cancel()`, `sendQueue.stop()`), then waits for the two loops (`wg.Wait()`),
  then stops the tickers.  A goroutine blocked at a point is released as soon
  as one of the point's wake signals has been raised.
-/
namespace Lnc.Gbn.Shutdown

inductive Signal | quit | ctxCancel | queueQuit | timer
deriving Repr, DecidableEq

structure BlockPoint where
  name : String
  wake : List Signal
deriving Repr, DecidableEq

structure Facts where
  created : List String
  stopped : List String
  order : List String            -- calls made by Close, program order
  blocking : List BlockPoint     -- blocking points of the goroutines Close waits for
deriving Repr

/-- signals raised by the calls that precede `g.wg.Wait` in Close -/
def raisedBeforeWait (order : List String) : List Signal :=
  let pre := order.takeWhile (· ≠ "g.wg.Wait")
  (if pre.contains "close" then [Signal.quit] else []) ++
  (if pre.contains "g.cancel" then [Signal.ctxCancel] else []) ++
  (if pre.contains "g.sendQueue.stop" then [Signal.queueQuit] else [])

/-- a blocked goroutine is released by the raised signals, or by its own timer -/
def released (raised : List Signal) (p : BlockPoint) : Bool :=
  p.wake.any fun s => s == .timer || raised.contains s

def waitReturns (f : Facts) : Bool :=
  f.order.contains "g.wg.Wait" && f.blocking.all (released (raisedBeforeWait f.order))

def noLeak (f : Facts) : Bool := f.created.all fun r => f.stopped.contains r

/-- a configuration of the goroutines: each sits at one of its blocking points -/
abbrev Config := List BlockPoint

/-- after the pre-Wait part of Close has run, which goroutines are still blocked -/
def stillBlocked (f : Facts) (c : Config) : Config :=
  c.filter fun p => !released (raisedBeforeWait f.order) p

end Lnc.Gbn.Shutdown
