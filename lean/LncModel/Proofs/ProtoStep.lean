import LncModel.Proofs.ProtoInv
/-
  Every transition preserves `Inv`.
-/
namespace Lnc.Gbn
open Lnc.ModArith

theorem inv_init (n : Nat) (hn : 0 < n) (hn254 : n ≤ 254) : Inv (Uni.init n) := by
  have hs : mkS n = n + 1 := by unfold mkS add8; omega
  refine { n_pos := hn, n_lt_s := ?_, s_le := ?_, BR := Nat.le_refl _, RT := Nat.le_refl _,
           win := ?_, base_eq := ?_, top_eq := ?_, recv_eq := ?_, log_len := rfl, slots := ?_,
           out_eq := rfl, fwd_ok := ?_, fwd_sorted := List.Pairwise.nil, bwd_ok := ?_,
           bwd_sorted := List.Pairwise.nil }
  all_goals simp [Uni.init, hs]
  · omega

theorem inv_sendNew {σ : Uni} (h : Inv σ) (p : Pkt) (hg : σ.q.size < σ.n) :
    Inv { σ with q := { σ.q with top := (σ.T + 1) % σ.q.s },
                 content := fun k => if k = σ.T % σ.q.s then p else σ.content k,
                 fwd := σ.fwd ++ [⟨σ.T % σ.q.s, p, σ.T, σ.T + 1⟩],
                 T := σ.T + 1, log := σ.log ++ [p] } := by
  rw [size_eq h] at hg
  have hn := h.n_lt_s; have hnp := h.n_pos
  have hBR := h.BR; have hRT := h.RT; have hwin := h.win; have hlen := h.log_len
  refine { n_pos := h.n_pos, n_lt_s := h.n_lt_s, s_le := h.s_le, BR := h.BR, RT := ?_,
           win := ?_, base_eq := h.base_eq, top_eq := rfl, recv_eq := h.recv_eq, log_len := ?_,
           slots := ?_, out_eq := ?_, fwd_ok := ?_, fwd_sorted := ?_, bwd_ok := ?_,
           bwd_sorted := h.bwd_sorted }
  · show σ.R ≤ σ.T + 1; omega
  · show σ.T + 1 ≤ σ.B + σ.n; omega
  · show (σ.log ++ [p]).length = σ.T + 1; simp [hlen]
  · intro i hi1 hi2
    show (σ.log ++ [p])[i]? = some (if i % σ.q.s = σ.T % σ.q.s then p else σ.content (i % σ.q.s))
    by_cases hiT : i = σ.T
    · subst hiT
      simp [← hlen]
    · have hlt : i < σ.T := by
        have : i < σ.T + 1 := hi1
        omega
      have hne : i % σ.q.s ≠ σ.T % σ.q.s := by
        intro he
        have := eq_of_mod_eq i σ.T σ.q.s he (by omega) (by have : σ.T + 1 ≤ i + σ.q.s := hi2; omega)
        omega
      rw [List.getElem?_append_left (by omega)]
      simp only [hne, ↓reduceIte]
      exact h.slots i hlt (by have : σ.T + 1 ≤ i + σ.q.s := hi2; omega)
  · show σ.out = ((σ.log ++ [p]).take σ.R).filter _
    rw [List.take_append_of_le_length (by omega)]
    exact h.out_eq
  · intro d hd
    rcases List.mem_append.mp hd with hd | hd
    · have o := h.fwd_ok d hd
      have ht := o.tag_T; have hi := o.idx_lt
      exact { seq_eq := o.seq_eq,
              pkt_eq := by
                show (σ.log ++ [p])[d.idx]? = some d.pkt
                rw [List.getElem?_append_left (by omega)]; exact o.pkt_eq,
              idx_lt := o.idx_lt, tag_le := o.tag_le,
              tag_T := by show d.tag ≤ σ.T + 1; omega,
              R_le := o.R_le, tag_R := o.tag_R }
    · have : d = ⟨σ.T % σ.q.s, p, σ.T, σ.T + 1⟩ := by simpa using hd
      subst this
      exact { seq_eq := rfl,
              pkt_eq := by show (σ.log ++ [p])[σ.T]? = some p; simp [← hlen],
              idx_lt := by show σ.T < σ.T + 1; omega,
              tag_le := by show σ.T + 1 ≤ σ.T + σ.n; omega,
              tag_T := by show σ.T + 1 ≤ σ.T + 1; omega,
              R_le := by show σ.R ≤ σ.T + 1; omega,
              tag_R := by show σ.T + 1 ≤ σ.R + σ.n; omega }
  · show (σ.fwd ++ [_]).Pairwise _
    rw [List.pairwise_append]
    refine ⟨h.fwd_sorted, List.pairwise_singleton _ _, ?_⟩
    intro a ha b hb
    have : b = ⟨σ.T % σ.q.s, p, σ.T, σ.T + 1⟩ := by simpa using hb
    subst this
    have := (h.fwd_ok a ha).tag_T
    show a.tag ≤ σ.T + 1; omega
  · intro r hr
    have o := h.bwd_ok r hr
    exact { lo := o.lo, hi := o.hi, ack_seq := o.ack_seq, nack_seq := o.nack_seq }

theorem inv_retransmit {σ : Uni} (h : Inv σ) (i : Nat) (hi1 : i < σ.T) (hi2 : σ.T ≤ i + σ.n) :
    Inv { σ with fwd := σ.fwd ++ [⟨i % σ.q.s, σ.content (i % σ.q.s), i, σ.T⟩] } := by
  have hn := h.n_lt_s; have hnp := h.n_pos
  have hBR := h.BR; have hRT := h.RT; have hwin := h.win
  refine { n_pos := h.n_pos, n_lt_s := h.n_lt_s, s_le := h.s_le, BR := h.BR, RT := h.RT,
           win := h.win, base_eq := h.base_eq, top_eq := h.top_eq, recv_eq := h.recv_eq,
           log_len := h.log_len, slots := h.slots, out_eq := h.out_eq, fwd_ok := ?_,
           fwd_sorted := ?_, bwd_ok := ?_, bwd_sorted := h.bwd_sorted }
  · intro d hd
    rcases List.mem_append.mp hd with hd | hd
    · have o := h.fwd_ok d hd
      exact { seq_eq := o.seq_eq, pkt_eq := o.pkt_eq, idx_lt := o.idx_lt, tag_le := o.tag_le,
              tag_T := o.tag_T, R_le := o.R_le, tag_R := o.tag_R }
    · have : d = ⟨i % σ.q.s, σ.content (i % σ.q.s), i, σ.T⟩ := by simpa using hd
      subst this
      exact { seq_eq := rfl,
              pkt_eq := h.slots i hi1 (by omega),
              idx_lt := hi1, tag_le := hi2, tag_T := Nat.le_refl _,
              R_le := h.RT, tag_R := by show σ.T ≤ σ.R + σ.n; omega }
  · show (σ.fwd ++ [_]).Pairwise _
    rw [List.pairwise_append]
    refine ⟨h.fwd_sorted, List.pairwise_singleton _ _, ?_⟩
    intro a ha b hb
    have : b = ⟨i % σ.q.s, σ.content (i % σ.q.s), i, σ.T⟩ := by simpa using hb
    subst this
    exact (h.fwd_ok a ha).tag_T
  · intro r hr
    have o := h.bwd_ok r hr
    exact { lo := o.lo, hi := o.hi, ack_seq := o.ack_seq, nack_seq := o.nack_seq }

theorem take_succ_filter (l : List Pkt) (R : Nat) (p : Pkt) (hp : l[R]? = some p) :
    (l.take (R + 1)).filter (fun p => !p.ping) =
      (l.take R).filter (fun p => !p.ping) ++ (if p.ping then [] else [p]) := by
  rw [List.take_succ, hp, List.filter_append]
  cases hpp : p.ping <;> simp [hpp]

theorem inv_accept {σ : Uni} (h : Inv σ) (d : DataW) (rest : List DataW)
    (hf : σ.fwd = d :: rest) (hacc : d.seq = σ.recvSeq) :
    Inv { σ with fwd := rest,
                 bwd := σ.bwd ++ [⟨.ack, d.seq, σ.R + 1⟩],
                 recvSeq := (add8 σ.recvSeq 1) % σ.q.s,
                 R := σ.R + 1,
                 out := if d.pkt.ping then σ.out else σ.out ++ [d.pkt] } := by
  have hn := h.n_lt_s; have hnp := h.n_pos; have hs255 := h.s_le
  have hBR := h.BR; have hRT := h.RT; have hwin := h.win
  have hdo : DataOk σ d := h.fwd_ok d (by rw [hf]; exact List.mem_cons_self)
  have hidx : d.idx = σ.R := (accept_iff h d hdo).mp hacc
  have h1 := hdo.idx_lt; have h2 := hdo.tag_T
  have hsorted : ∀ d' ∈ rest, d.tag ≤ d'.tag := by
    have := h.fwd_sorted; rw [hf] at this
    exact (List.pairwise_cons.mp this).1
  have hs : 0 < σ.q.s := by omega
  have hrlt : σ.R % σ.q.s < σ.q.s := Nat.mod_lt _ hs
  refine { n_pos := h.n_pos, n_lt_s := h.n_lt_s, s_le := h.s_le, BR := ?_, RT := ?_,
           win := h.win, base_eq := h.base_eq, top_eq := h.top_eq, recv_eq := ?_,
           log_len := h.log_len, slots := h.slots, out_eq := ?_, fwd_ok := ?_,
           fwd_sorted := ?_, bwd_ok := ?_, bwd_sorted := ?_ }
  · show σ.B ≤ σ.R + 1; omega
  · show σ.R + 1 ≤ σ.T; omega
  · show (add8 σ.recvSeq 1) % σ.q.s = (σ.R + 1) % σ.q.s
    unfold add8
    rw [h.recv_eq, Nat.mod_eq_of_lt (by omega : σ.R % σ.q.s + 1 < 256), succ_mod]
  · show (if d.pkt.ping then σ.out else σ.out ++ [d.pkt]) = (σ.log.take (σ.R + 1)).filter _
    rw [take_succ_filter σ.log σ.R d.pkt (by rw [← hidx]; exact hdo.pkt_eq), ← h.out_eq]
    cases d.pkt.ping <;> simp
  · intro d' hd'
    have o := h.fwd_ok d' (by rw [hf]; exact List.mem_cons_of_mem _ hd')
    have := hsorted d' hd'
    exact { seq_eq := o.seq_eq, pkt_eq := o.pkt_eq, idx_lt := o.idx_lt, tag_le := o.tag_le,
            tag_T := o.tag_T,
            R_le := by show σ.R + 1 ≤ d'.tag; omega,
            tag_R := by show d'.tag ≤ σ.R + 1 + σ.n; have := o.tag_R; omega }
  · have := h.fwd_sorted; rw [hf] at this
    exact (List.pairwise_cons.mp this).2
  · intro r hr
    rcases List.mem_append.mp hr with hr | hr
    · have o := h.bwd_ok r hr
      exact { lo := o.lo, hi := by show r.val ≤ σ.R + 1; have := o.hi; omega,
              ack_seq := o.ack_seq, nack_seq := o.nack_seq }
    · have : r = ⟨.ack, d.seq, σ.R + 1⟩ := by simpa using hr
      subst this
      exact { lo := by show σ.B ≤ σ.R + 1; omega, hi := Nat.le_refl _,
              ack_seq := fun _ => ⟨by show 1 ≤ σ.R + 1; omega,
                by show d.seq = (σ.R + 1 - 1) % σ.q.s
                   rw [hdo.seq_eq, hidx]; simp⟩,
              nack_seq := fun hk => (by cases hk) }
  · show (σ.bwd ++ [_]).Pairwise _
    rw [List.pairwise_append]
    refine ⟨h.bwd_sorted, List.pairwise_singleton _ _, ?_⟩
    intro a ha b hb
    have : b = ⟨.ack, d.seq, σ.R + 1⟩ := by simpa using hb
    subst this
    have := (h.bwd_ok a ha).hi
    show a.val ≤ σ.R + 1; omega

theorem inv_reject {σ : Uni} (h : Inv σ) (d : DataW) (rest : List DataW)
    (hf : σ.fwd = d :: rest) (nack : Bool) :
    Inv { σ with fwd := rest,
                 bwd := if nack then σ.bwd ++ [⟨.nack, σ.recvSeq, σ.R⟩] else σ.bwd } := by
  have hBR := h.BR
  refine { n_pos := h.n_pos, n_lt_s := h.n_lt_s, s_le := h.s_le, BR := h.BR, RT := h.RT,
           win := h.win, base_eq := h.base_eq, top_eq := h.top_eq, recv_eq := h.recv_eq,
           log_len := h.log_len, slots := h.slots, out_eq := h.out_eq, fwd_ok := ?_,
           fwd_sorted := ?_, bwd_ok := ?_, bwd_sorted := ?_ }
  · intro d' hd'
    have o := h.fwd_ok d' (by rw [hf]; exact List.mem_cons_of_mem _ hd')
    exact { seq_eq := o.seq_eq, pkt_eq := o.pkt_eq, idx_lt := o.idx_lt, tag_le := o.tag_le,
            tag_T := o.tag_T, R_le := o.R_le, tag_R := o.tag_R }
  · have := h.fwd_sorted; rw [hf] at this
    exact (List.pairwise_cons.mp this).2
  · intro r hr
    cases nack with
    | false =>
      have o := h.bwd_ok r (by simpa using hr)
      exact { lo := o.lo, hi := o.hi, ack_seq := o.ack_seq, nack_seq := o.nack_seq }
    | true =>
      have hr' : r ∈ σ.bwd ++ [⟨.nack, σ.recvSeq, σ.R⟩] := by simpa using hr
      rcases List.mem_append.mp hr' with hr | hr
      · have o := h.bwd_ok r hr
        exact { lo := o.lo, hi := o.hi, ack_seq := o.ack_seq, nack_seq := o.nack_seq }
      · have : r = ⟨.nack, σ.recvSeq, σ.R⟩ := by simpa using hr
        subst this
        exact { lo := h.BR, hi := Nat.le_refl _, ack_seq := fun hk => (by cases hk),
                nack_seq := fun _ => h.recv_eq }
  · cases nack with
    | false => exact h.bwd_sorted
    | true =>
      show (σ.bwd ++ [_]).Pairwise _
      rw [List.pairwise_append]
      refine ⟨h.bwd_sorted, List.pairwise_singleton _ _, ?_⟩
      intro a ha b hb
      have : b = ⟨.nack, σ.recvSeq, σ.R⟩ := by simpa using hb
      subst this
      exact (h.bwd_ok a ha).hi

theorem inv_fwd_sub {σ : Uni} (h : Inv σ) (f : List DataW)
    (hsub : ∀ d ∈ f, d ∈ σ.fwd) (hs : f.Pairwise (fun a b => a.tag ≤ b.tag)) :
    Inv { σ with fwd := f } := by
  refine { n_pos := h.n_pos, n_lt_s := h.n_lt_s, s_le := h.s_le, BR := h.BR, RT := h.RT,
           win := h.win, base_eq := h.base_eq, top_eq := h.top_eq, recv_eq := h.recv_eq,
           log_len := h.log_len, slots := h.slots, out_eq := h.out_eq, fwd_ok := ?_,
           fwd_sorted := hs, bwd_ok := ?_, bwd_sorted := h.bwd_sorted }
  · intro d hd
    have o := h.fwd_ok d (hsub d hd)
    exact { seq_eq := o.seq_eq, pkt_eq := o.pkt_eq, idx_lt := o.idx_lt, tag_le := o.tag_le,
            tag_T := o.tag_T, R_le := o.R_le, tag_R := o.tag_R }
  · intro r hr
    have o := h.bwd_ok r hr
    exact { lo := o.lo, hi := o.hi, ack_seq := o.ack_seq, nack_seq := o.nack_seq }

theorem inv_bwd_sub {σ : Uni} (h : Inv σ) (f : List RespW)
    (hsub : ∀ r ∈ f, r ∈ σ.bwd) (hs : f.Pairwise (fun a b => a.val ≤ b.val)) :
    Inv { σ with bwd := f } := by
  refine { n_pos := h.n_pos, n_lt_s := h.n_lt_s, s_le := h.s_le, BR := h.BR, RT := h.RT,
           win := h.win, base_eq := h.base_eq, top_eq := h.top_eq, recv_eq := h.recv_eq,
           log_len := h.log_len, slots := h.slots, out_eq := h.out_eq, fwd_ok := ?_,
           fwd_sorted := h.fwd_sorted, bwd_ok := ?_, bwd_sorted := hs }
  · intro d hd
    have o := h.fwd_ok d hd
    exact { seq_eq := o.seq_eq, pkt_eq := o.pkt_eq, idx_lt := o.idx_lt, tag_le := o.tag_le,
            tag_T := o.tag_T, R_le := o.R_le, tag_R := o.tag_R }
  · intro r hr
    have o := h.bwd_ok r (hsub r hr)
    exact { lo := o.lo, hi := o.hi, ack_seq := o.ack_seq, nack_seq := o.nack_seq }

theorem pairwise_dup {α} (R : α → α → Prop) (a : α) (l : List α) (hr : R a a)
    (h : (a :: l).Pairwise R) : (a :: a :: l).Pairwise R := by
  have h' := List.pairwise_cons.mp h
  refine List.pairwise_cons.mpr ⟨?_, h⟩
  intro b hb
  rcases List.mem_cons.mp hb with rfl | hb
  · exact hr
  · exact h'.1 b hb

/-- The sender takes an in-flight response whose ghost value is `v` into
    account: its base becomes `v % s`, the ghost base `v`. -/
theorem inv_resp {σ : Uni} (h : Inv σ) (r : RespW) (rest : List RespW)
    (hb : σ.bwd = r :: rest) :
    Inv { σ with q := { σ.q with base := r.val % σ.q.s }, bwd := rest, B := r.val } := by
  have hro : RespOk σ r := h.bwd_ok r (by rw [hb]; exact List.mem_cons_self)
  have hlo := hro.lo; have hhi := hro.hi; have hwin := h.win
  have hsorted : ∀ r' ∈ rest, r.val ≤ r'.val := by
    have := h.bwd_sorted; rw [hb] at this
    exact (List.pairwise_cons.mp this).1
  refine { n_pos := h.n_pos, n_lt_s := h.n_lt_s, s_le := h.s_le, BR := hro.hi, RT := h.RT,
           win := ?_, base_eq := rfl, top_eq := h.top_eq, recv_eq := h.recv_eq,
           log_len := h.log_len, slots := h.slots, out_eq := h.out_eq, fwd_ok := ?_,
           fwd_sorted := h.fwd_sorted, bwd_ok := ?_, bwd_sorted := ?_ }
  · show σ.T ≤ r.val + σ.n; omega
  · intro d hd
    have o := h.fwd_ok d hd
    exact { seq_eq := o.seq_eq, pkt_eq := o.pkt_eq, idx_lt := o.idx_lt, tag_le := o.tag_le,
            tag_T := o.tag_T, R_le := o.R_le, tag_R := o.tag_R }
  · intro r' hr'
    have o := h.bwd_ok r' (by rw [hb]; exact List.mem_cons_of_mem _ hr')
    exact { lo := hsorted r' hr', hi := o.hi, ack_seq := o.ack_seq, nack_seq := o.nack_seq }
  · have := h.bwd_sorted; rw [hb] at this
    exact (List.pairwise_cons.mp this).2

/-- **Every transition preserves the invariant.** -/
theorem inv_step {σ σ' : Uni} (h : Inv σ) (l : Label) (hs : σ.step? l = some σ') : Inv σ' := by
  cases l with
  | sendNew p =>
    simp only [Uni.step?] at hs
    split at hs
    · next hg =>
      rw [addPacket_eq h] at hs
      simp only [Option.some.injEq] at hs
      subst hs
      exact inv_sendNew h p hg
    · cases hs
  | retransmit i =>
    simp only [Uni.step?] at hs
    split at hs
    · next hg =>
      simp only [Option.some.injEq] at hs
      subst hs
      exact inv_retransmit h i hg.1 hg.2
    · cases hs
  | fwdDeliver nack =>
    simp only [Uni.step?] at hs
    split at hs
    · cases hs
    · next d rest hf =>
      split at hs
      · next hacc =>
        simp only [Option.some.injEq] at hs
        subst hs
        exact inv_accept h d rest hf hacc
      · simp only [Option.some.injEq] at hs
        subst hs
        exact inv_reject h d rest hf nack
  | fwdDup =>
    simp only [Uni.step?] at hs
    split at hs
    · cases hs
    · next d rest hf =>
      simp only [Option.some.injEq] at hs
      subst hs
      apply inv_fwd_sub h
      · intro x hx
        rw [hf]
        rcases List.mem_cons.mp hx with rfl | hx
        · exact List.mem_cons_self
        · exact hx
      · have := h.fwd_sorted; rw [hf] at this
        exact pairwise_dup _ d rest (Nat.le_refl _) this
  | fwdDrop =>
    simp only [Uni.step?] at hs
    split at hs
    · cases hs
    · next d rest hf =>
      simp only [Option.some.injEq] at hs
      subst hs
      apply inv_fwd_sub h
      · intro x hx; rw [hf]; exact List.mem_cons_of_mem _ hx
      · have := h.fwd_sorted; rw [hf] at this
        exact (List.pairwise_cons.mp this).2
  | bwdDeliver =>
    simp only [Uni.step?] at hs
    split at hs
    · cases hs
    · next r rest hb =>
      have hro : RespOk σ r := h.bwd_ok r (by rw [hb]; exact List.mem_cons_self)
      split at hs
      · next hk =>
        obtain ⟨hv1, hseq⟩ := hro.ack_seq hk
        obtain ⟨b, hb'⟩ := processACK_spec h r.seq r.val hv1 hro.lo hro.hi hseq
        rw [hb'] at hs
        simp only [Option.some.injEq] at hs
        subst hs
        exact inv_resp h r rest hb
      · next hk =>
        have hseq := hro.nack_seq hk
        rw [processNACK_spec h r.seq r.val hro.lo hro.hi hseq] at hs
        simp only [Option.some.injEq] at hs
        subst hs
        exact inv_resp h r rest hb
  | bwdDup =>
    simp only [Uni.step?] at hs
    split at hs
    · cases hs
    · next r rest hb =>
      simp only [Option.some.injEq] at hs
      subst hs
      apply inv_bwd_sub h
      · intro x hx
        rw [hb]
        rcases List.mem_cons.mp hx with rfl | hx
        · exact List.mem_cons_self
        · exact hx
      · have := h.bwd_sorted; rw [hb] at this
        exact pairwise_dup _ r rest (Nat.le_refl _) this
  | bwdDrop =>
    simp only [Uni.step?] at hs
    split at hs
    · cases hs
    · next r rest hb =>
      simp only [Option.some.injEq] at hs
      subst hs
      apply inv_bwd_sub h
      · intro x hx; rw [hb]; exact List.mem_cons_of_mem _ hx
      · have := h.bwd_sorted; rw [hb] at this
        exact (List.pairwise_cons.mp this).2

theorem inv_run {σ σ' : Uni} (h : Inv σ) (ls : List Label) (hr : σ.run? ls = some σ') : Inv σ' := by
  induction ls generalizing σ with
  | nil => simp only [Uni.run?, Option.some.injEq] at hr; subst hr; exact h
  | cons l ls ih =>
    simp only [Uni.run?] at hr
    split at hr
    · next σ1 h1 => exact ih (inv_step h l h1) hr
    · cases hr

theorem inv_reachable {n : Nat} (hn : 0 < n) (hn254 : n ≤ 254) {σ : Uni} (hr : Reachable n σ) : Inv σ := by
  obtain ⟨ls, hls⟩ := hr
  exact inv_run (inv_init n hn hn254) ls hls

end Lnc.Gbn
