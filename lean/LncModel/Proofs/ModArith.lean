/-
  Modular-window arithmetic used by the Go-Back-N proofs: inside a window of
  fewer than `s` consecutive integers, residues modulo `s` are a linear
  function of the offset (with one wrap), hence distinct.
-/
namespace Lnc.ModArith

theorem mod_window (B x s : Nat) (h1 : B ≤ x) (h2 : x < B + s) :
    x % s = if B % s + (x - B) < s then B % s + (x - B) else B % s + (x - B) - s := by
  have hs : 0 < s := by omega
  have hb : B % s < s := Nat.mod_lt _ hs
  obtain ⟨d, rfl⟩ : ∃ d, x = B + d := ⟨x - B, by omega⟩
  have hd : d < s := by omega
  have e : (B + d) % s = (B % s + d) % s := by
    rw [Nat.add_mod, Nat.mod_eq_of_lt hd]
  rw [e]
  have : B + d - B = d := by omega
  rw [this]
  split
  · next h => exact Nat.mod_eq_of_lt h
  · next h =>
    rw [Nat.mod_eq_sub_mod (by omega)]
    exact Nat.mod_eq_of_lt (by omega)

theorem pred_mod (B s : Nat) (hB : 0 < B) (hs : 1 < s) :
    (B - 1) % s = if B % s = 0 then s - 1 else B % s - 1 := by
  have h := mod_window (B - 1) B s (by omega) (by omega)
  have hlt : (B - 1) % s < s := Nat.mod_lt _ (by omega)
  have : B - (B - 1) = 1 := by omega
  rw [this] at h
  split at h <;> split <;> omega

/-- residues are injective on a window shorter than the modulus -/
theorem eq_of_mod_eq (a b s : Nat) (h : a % s = b % s) (hab : a ≤ b) (hlt : b < a + s) : a = b := by
  have hs : 0 < s := by omega
  have hb := mod_window a b s hab hlt
  have ha : a % s < s := Nat.mod_lt _ hs
  split at hb <;> omega

theorem succ_mod (B s : Nat) : (B % s + 1) % s = (B + 1) % s := Nat.mod_add_mod _ _ _

end Lnc.ModArith
