import LncModel.Bi
/-
  Projection of the bidirectional system onto its two unidirectional
  instances: every physical step is one step of exactly one instance, and the
  logical channels stay the projections of the physical FIFOs.
-/
namespace Lnc.Gbn

/-! ### list facts about the projections -/

theorem dataOf_append (l m : List Wire) : dataOf (l ++ m) = dataOf l ++ dataOf m := by
  induction l with
  | nil => rfl
  | cons x xs ih => cases x <;> simp [dataOf, ih]

theorem respOf_append (l m : List Wire) : respOf (l ++ m) = respOf l ++ respOf m := by
  induction l with
  | nil => rfl
  | cons x xs ih => cases x <;> simp [respOf, ih]

theorem dataOf_map_data (l : List DataW) : dataOf (l.map Wire.data) = l := by
  induction l with
  | nil => rfl
  | cons x xs ih => simp [dataOf, ih]

theorem respOf_map_data (l : List DataW) : respOf (l.map Wire.data) = [] := by
  induction l with
  | nil => rfl
  | cons x xs ih => simp [respOf, ih]

theorem respOf_map_resp (l : List RespW) : respOf (l.map Wire.resp) = l := by
  induction l with
  | nil => rfl
  | cons x xs ih => simp [respOf, ih]

theorem dataOf_map_resp (l : List RespW) : dataOf (l.map Wire.resp) = [] := by
  induction l with
  | nil => rfl
  | cons x xs ih => simp [dataOf, ih]

theorem drop_len_append {α} (l m : List α) : (l ++ m).drop l.length = m := by
  simp

/-! ### what each unidirectional step does to the logical channels -/

theorem step_sendNew {σ σ' : Uni} {p : Pkt} (h : σ.step? (.sendNew p) = some σ') :
    ∃ d, σ'.fwd = σ.fwd ++ [d] ∧ σ'.bwd = σ.bwd := by
  simp only [Uni.step?] at h
  split at h
  · split at h
    · simp only [Option.some.injEq] at h; subst h; exact ⟨_, rfl, rfl⟩
    · cases h
  · cases h

theorem step_retransmit {σ σ' : Uni} {i : Nat} (h : σ.step? (.retransmit i) = some σ') :
    ∃ d, σ'.fwd = σ.fwd ++ [d] ∧ σ'.bwd = σ.bwd := by
  simp only [Uni.step?] at h
  split at h
  · simp only [Option.some.injEq] at h; subst h; exact ⟨_, rfl, rfl⟩
  · cases h

theorem step_fwdDeliver {σ σ' : Uni} {nack : Bool} (h : σ.step? (.fwdDeliver nack) = some σ') :
    ∃ d rest extra, σ.fwd = d :: rest ∧ σ'.fwd = rest ∧ σ'.bwd = σ.bwd ++ extra := by
  simp only [Uni.step?] at h
  split at h
  · cases h
  · next d rest hf =>
    split at h
    · simp only [Option.some.injEq] at h; subst h; exact ⟨d, rest, _, hf, rfl, rfl⟩
    · simp only [Option.some.injEq] at h; subst h
      refine ⟨d, rest, if nack then [⟨.nack, σ.recvSeq, σ.R⟩] else [], hf, rfl, ?_⟩
      cases nack <;> simp

theorem step_fwdDup {σ σ' : Uni} (h : σ.step? .fwdDup = some σ') :
    ∃ d rest, σ.fwd = d :: rest ∧ σ'.fwd = d :: d :: rest ∧ σ'.bwd = σ.bwd := by
  simp only [Uni.step?] at h
  split at h
  · cases h
  · next d rest hf => simp only [Option.some.injEq] at h; subst h; exact ⟨d, rest, hf, rfl, rfl⟩

theorem step_fwdDrop {σ σ' : Uni} (h : σ.step? .fwdDrop = some σ') :
    ∃ d rest, σ.fwd = d :: rest ∧ σ'.fwd = rest ∧ σ'.bwd = σ.bwd := by
  simp only [Uni.step?] at h
  split at h
  · cases h
  · next d rest hf => simp only [Option.some.injEq] at h; subst h; exact ⟨d, rest, hf, rfl, rfl⟩

theorem step_bwdDeliver {σ σ' : Uni} (h : σ.step? .bwdDeliver = some σ') :
    ∃ r rest, σ.bwd = r :: rest ∧ σ'.bwd = rest ∧ σ'.fwd = σ.fwd := by
  simp only [Uni.step?] at h
  split at h
  · cases h
  · next r rest hb =>
    split at h
    · split at h
      · simp only [Option.some.injEq] at h; subst h; exact ⟨r, rest, hb, rfl, rfl⟩
      · cases h
    · simp only [Option.some.injEq] at h; subst h; exact ⟨r, rest, hb, rfl, rfl⟩

theorem step_bwdDup {σ σ' : Uni} (h : σ.step? .bwdDup = some σ') :
    ∃ r rest, σ.bwd = r :: rest ∧ σ'.bwd = r :: r :: rest ∧ σ'.fwd = σ.fwd := by
  simp only [Uni.step?] at h
  split at h
  · cases h
  · next r rest hb => simp only [Option.some.injEq] at h; subst h; exact ⟨r, rest, hb, rfl, rfl⟩

theorem step_bwdDrop {σ σ' : Uni} (h : σ.step? .bwdDrop = some σ') :
    ∃ r rest, σ.bwd = r :: rest ∧ σ'.bwd = rest ∧ σ'.fwd = σ.fwd := by
  simp only [Uni.step?] at h
  split at h
  · cases h
  · next r rest hb => simp only [Option.some.injEq] at h; subst h; exact ⟨r, rest, hb, rfl, rfl⟩

/-! ### reachability is closed under steps -/

theorem runQ_append (σ : Uni) (ls ms : List Label) :
    σ.run? (ls ++ ms) = (σ.run? ls).bind fun σ' => σ'.run? ms := by
  induction ls generalizing σ with
  | nil => rfl
  | cons l ls ih =>
    simp only [List.cons_append, Uni.run?]
    cases σ.step? l with
    | none => rfl
    | some σ' => exact ih σ'

theorem Reachable.step {n : Nat} {σ σ' : Uni} {l : Label} (hr : Reachable n σ) (h : σ.step? l = some σ') :
    Reachable n σ' := by
  obtain ⟨ls, hls⟩ := hr
  refine ⟨ls ++ [l], ?_⟩
  rw [runQ_append, hls]
  simp [Uni.run?, h]

end Lnc.Gbn
