import LncModel.Proto
import LncModel.Proofs.ModArith
/-
  The inductive invariant of the Go-Back-N data phase and the proof that every
  step preserves it, for every window size 1 ≤ n ≤ 254 (s = n+1 or any s > n,
  s ≤ 255), every number of packets, every drop/dup/delay schedule.
-/
namespace Lnc.Gbn
open Lnc.ModArith

structure DataOk (σ : Uni) (d : DataW) : Prop where
  seq_eq : d.seq = d.idx % σ.q.s
  pkt_eq : σ.log[d.idx]? = some d.pkt
  idx_lt : d.idx < d.tag
  tag_le : d.tag ≤ d.idx + σ.n
  tag_T : d.tag ≤ σ.T
  R_le : σ.R ≤ d.tag
  tag_R : d.tag ≤ σ.R + σ.n

structure RespOk (σ : Uni) (r : RespW) : Prop where
  lo : σ.B ≤ r.val
  hi : r.val ≤ σ.R
  ack_seq : r.kind = .ack → 1 ≤ r.val ∧ r.seq = (r.val - 1) % σ.q.s
  nack_seq : r.kind = .nack → r.seq = r.val % σ.q.s

structure Inv (σ : Uni) : Prop where
  n_pos : 0 < σ.n
  n_lt_s : σ.n < σ.q.s
  s_le : σ.q.s ≤ 255
  BR : σ.B ≤ σ.R
  RT : σ.R ≤ σ.T
  win : σ.T ≤ σ.B + σ.n
  base_eq : σ.q.base = σ.B % σ.q.s
  top_eq : σ.q.top = σ.T % σ.q.s
  recv_eq : σ.recvSeq = σ.R % σ.q.s
  log_len : σ.log.length = σ.T
  slots : ∀ i, i < σ.T → σ.T ≤ i + σ.q.s → σ.log[i]? = some (σ.content (i % σ.q.s))
  out_eq : σ.out = (σ.log.take σ.R).filter (fun p => !p.ping)
  fwd_ok : ∀ d ∈ σ.fwd, DataOk σ d
  fwd_sorted : σ.fwd.Pairwise (fun a b => a.tag ≤ b.tag)
  bwd_ok : ∀ r ∈ σ.bwd, RespOk σ r
  bwd_sorted : σ.bwd.Pairwise (fun a b => a.val ≤ b.val)

/-! ### the queue arithmetic under the invariant -/

theorem containsSequence_iff (b t q : Nat) :
    containsSequence b t q = true ↔
      (b ≠ t ∧ ((b < t ∧ b ≤ q ∧ q < t) ∨ (¬ b < t ∧ (q < t ∨ b ≤ q)))) := by
  unfold containsSequence
  by_cases h1 : b = t
  · simp [h1]
  · by_cases h2 : b < t
    · simp [h1, h2]
    · simp [h1, h2]

/-- residue of a window element as an explicit linear expression -/
theorem mod_window' (B x s : Nat) (h1 : B ≤ x) (h2 : x < B + s) :
    (B % s + (x - B) < s ∧ x % s = B % s + (x - B)) ∨
    (s ≤ B % s + (x - B) ∧ x % s + s = B % s + (x - B)) := by
  have h := mod_window B x s h1 h2
  have hb : B % s < s := Nat.mod_lt _ (by omega)
  split at h
  · left; omega
  · right; omega

/-- membership in the circular window, stated on absolute indices -/
theorem contains_window (B T x s : Nat) (h1 : B ≤ T) (h2 : T < B + s)
    (hx1 : B ≤ x) (hx2 : x < B + s) :
    containsSequence (B % s) (T % s) (x % s) = decide (x < T) := by
  have hb : B % s < s := Nat.mod_lt _ (by omega)
  have hT := mod_window' B T s h1 h2
  have hx := mod_window' B x s hx1 hx2
  have key : containsSequence (B % s) (T % s) (x % s) = true ↔ x < T := by
    rw [containsSequence_iff]
    omega
  by_cases hxT : x < T
  · simp [hxT, key.mpr hxT]
  · have : containsSequence (B % s) (T % s) (x % s) ≠ true := fun hc => hxT (key.mp hc)
    simp [hxT, this]

/-- `size()` is "first transmissions minus cumulative acknowledgements". -/
theorem size_eq {σ : Uni} (h : Inv σ) : σ.q.size = σ.T - σ.B := by
  have hT := mod_window σ.B σ.T σ.q.s (by have := h.BR; have := h.RT; omega)
    (by have := h.win; have := h.n_lt_s; omega)
  have hb : σ.B % σ.q.s < σ.q.s := Nat.mod_lt _ (by have := h.n_lt_s; omega)
  have := h.s_le; have := h.win; have := h.n_lt_s; have := h.BR; have := h.RT
  unfold Queue.size sub8 add8
  rw [h.base_eq, h.top_eq, hT]
  split <;> split <;> omega

theorem addPacket_eq {σ : Uni} (h : Inv σ) :
    σ.q.addPacket = .ok ({ σ.q with top := (σ.T + 1) % σ.q.s }, σ.T % σ.q.s) := by
  have hs : 0 < σ.q.s := by have := h.n_lt_s; omega
  have ht : σ.T % σ.q.s < σ.q.s := Nat.mod_lt _ hs
  have := h.s_le
  unfold Queue.addPacket modS add8
  rw [h.top_eq]
  have h1 : ¬ (σ.T % σ.q.s ≥ σ.q.s) := by omega
  have h2 : ¬ (σ.q.s = 0) := by omega
  have h3 : (σ.T % σ.q.s + 1) % 256 = σ.T % σ.q.s + 1 := by omega
  simp only [h1, h2, h3, ↓reduceIte, Outcome.bind, succ_mod]

end Lnc.Gbn

namespace Lnc.Gbn
open Lnc.ModArith

theorem queue_eta (q : Queue) (b : Nat) (h : q.base = b) : q = { q with base := b } := by
  cases q; simp_all

/-- Processing an in-flight `ACK` whose ghost value is `v` (it acknowledges
    absolute index `v-1`) leaves the queue base at `v % s` — whether the code
    takes the "expected", the "bump" or one of the "ignore" branches. -/
theorem processACK_spec {σ : Uni} (h : Inv σ) (seq v : Nat) (hv1 : 1 ≤ v)
    (hlo : σ.B ≤ v) (hhi : v ≤ σ.R) (hseq : seq = (v - 1) % σ.q.s) :
    ∃ b, σ.q.processACK seq = .ok ({ σ.q with base := v % σ.q.s }, b) := by
  have hn := h.n_lt_s; have hnp := h.n_pos; have hs255 := h.s_le
  have hBR := h.BR; have hRT := h.RT; have hwin := h.win
  have hs : 0 < σ.q.s := by omega
  have hseqlt : seq < σ.q.s := by rw [hseq]; exact Nat.mod_lt _ hs
  have hblt : σ.B % σ.q.s < σ.q.s := Nat.mod_lt _ hs
  unfold Queue.processACK
  rw [size_eq h]
  by_cases hTB : σ.T - σ.B = 0
  · refine ⟨false, ?_⟩
    have hvB : v = σ.B := by omega
    simp only [hTB, ↓reduceIte]
    rw [hvB]
    exact congrArg (fun q => Outcome.ok (q, false)) (queue_eta _ _ h.base_eq)
  · have hge : ¬ (seq ≥ σ.q.s) := by omega
    simp only [hTB, hge, ↓reduceIte]
    by_cases hvB : v = σ.B
    · -- duplicate of an ACK already taken into account: ignored
      refine ⟨false, ?_⟩
      have hx : seq = (σ.B - 1 + σ.q.s) % σ.q.s := by
        rw [hseq, hvB, Nat.add_mod_right]
      have hne : seq ≠ σ.q.base := by
        intro he
        rw [h.base_eq, hx] at he
        have := eq_of_mod_eq σ.B (σ.B - 1 + σ.q.s) σ.q.s he.symm (by omega) (by omega)
        omega
      have hc : containsSequence σ.q.base σ.q.top seq = false := by
        rw [h.base_eq, h.top_eq, hx, contains_window σ.B σ.T _ σ.q.s (by omega) (by omega) (by omega) (by omega)]
        simp; omega
      simp only [hne, hc, ↓reduceIte, Bool.false_eq_true]
      rw [hvB]
      exact congrArg (fun q => Outcome.ok (q, false)) (queue_eta _ _ h.base_eq)
    · refine ⟨true, ?_⟩
      have hvm : v - 1 + 1 = v := by omega
      by_cases hx : v - 1 = σ.B
      · have he : seq = σ.q.base := by rw [hseq, hx, h.base_eq]
        have h1 : (add8 σ.q.base 1) % σ.q.s = v % σ.q.s := by
          unfold add8
          rw [h.base_eq, Nat.mod_eq_of_lt (by omega : σ.B % σ.q.s + 1 < 256), succ_mod, ← hx, hvm]
        simp only [he, ↓reduceIte, modS, Nat.ne_of_gt hs, Outcome.bind, h1]
      · have hne : seq ≠ σ.q.base := by
          intro he
          rw [h.base_eq, hseq] at he
          have := eq_of_mod_eq σ.B (v - 1) σ.q.s he.symm (by omega) (by omega)
          omega
        have hc : containsSequence σ.q.base σ.q.top seq = true := by
          rw [h.base_eq, h.top_eq, hseq,
            contains_window σ.B σ.T _ σ.q.s (by omega) (by omega) (by omega) (by omega)]
          simp; omega
        have h1 : (add8 seq 1) % σ.q.s = v % σ.q.s := by
          unfold add8
          rw [Nat.mod_eq_of_lt (by omega : seq + 1 < 256), hseq, succ_mod, hvm]
        simp only [hne, hc, ↓reduceIte, modS, Nat.ne_of_gt hs, Outcome.bind, h1]

/-- Processing an in-flight `NACK` whose ghost value is `v` (the receiver was
    expecting absolute index `v`) leaves the queue base at `v % s`. -/
theorem processNACK_spec {σ : Uni} (h : Inv σ) (seq v : Nat)
    (hlo : σ.B ≤ v) (hhi : v ≤ σ.R) (hseq : seq = v % σ.q.s) :
    (σ.q.processNACK seq).1 = { σ.q with base := v % σ.q.s } := by
  have hn := h.n_lt_s; have hnp := h.n_pos; have hs255 := h.s_le
  have hBR := h.BR; have hRT := h.RT; have hwin := h.win
  have hs : 0 < σ.q.s := by omega
  have hseqlt : seq < σ.q.s := by rw [hseq]; exact Nat.mod_lt _ hs
  unfold Queue.processNACK
  have hge : ¬ (seq ≥ σ.q.s) := by omega
  simp only [hge, ↓reduceIte]
  by_cases ht : seq = σ.q.top
  · have hvT : v = σ.T := by
      rw [hseq, h.top_eq] at ht
      exact eq_of_mod_eq v σ.T σ.q.s ht (by omega) (by omega)
    simp only [ht, ↓reduceIte]
    rw [hvT, ← h.top_eq]
  · have hvT : v < σ.T := by
      rcases Nat.lt_or_ge v σ.T with h1 | h1
      · exact h1
      · exfalso; apply ht; rw [hseq, h.top_eq, show v = σ.T by omega]
    have hc : containsSequence σ.q.base σ.q.top seq = true := by
      rw [h.base_eq, h.top_eq, hseq,
        contains_window σ.B σ.T _ σ.q.s (by omega) (by omega) (by omega) (by omega)]
      simp; omega
    rw [hseq] at ht hc
    simp only [hseq, ht, hc, ↓reduceIte, Bool.not_true, Bool.false_eq_true]

/-- The receiver's test `m.Seq == g.recvSeq` accepts exactly the next packet. -/
theorem accept_iff {σ : Uni} (h : Inv σ) (d : DataW) (hd : DataOk σ d) :
    d.seq = σ.recvSeq ↔ d.idx = σ.R := by
  have hn := h.n_lt_s
  have h1 := hd.idx_lt; have h2 := hd.tag_le; have h3 := hd.R_le; have h4 := hd.tag_R
  rw [hd.seq_eq, h.recv_eq]
  constructor
  · intro he
    rcases Nat.le_total d.idx σ.R with hle | hle
    · exact eq_of_mod_eq _ _ _ he hle (by omega)
    · exact (eq_of_mod_eq _ _ _ he.symm hle (by omega)).symm
  · intro he; rw [he]

end Lnc.Gbn
