import LncModel.Mnemonic
/- Bit-list lemmas for the mnemonic codec (core Lean only). -/
namespace Lnc.Mailbox.Mnemonic

theorem foldl_bits (l : List Bool) (acc : Nat) :
    l.foldl (fun acc b => 2 * acc + b.toNat) acc = acc * 2 ^ l.length + natOfBits l := by
  induction l generalizing acc with
  | nil => simp [natOfBits]
  | cons b l ih =>
    simp only [List.foldl_cons, List.length_cons, natOfBits]
    rw [ih, ih (2 * 0 + b.toNat), Nat.pow_succ]
    simp only [Nat.mul_zero, Nat.zero_add, Nat.add_mul]
    have : 2 * acc * 2 ^ l.length = acc * (2 ^ l.length * 2) := by
      rw [Nat.mul_comm 2 acc, Nat.mul_assoc, Nat.mul_comm 2 (2 ^ l.length)]
    rw [this, Nat.add_assoc]

theorem natOfBits_cons (b : Bool) (l : List Bool) :
    natOfBits (b :: l) = b.toNat * 2 ^ l.length + natOfBits l := by
  have := foldl_bits l (2 * 0 + b.toNat)
  simpa [natOfBits] using this

theorem natOfBits_lt (l : List Bool) : natOfBits l < 2 ^ l.length := by
  induction l with
  | nil => simp [natOfBits]
  | cons b l ih =>
    rw [natOfBits_cons, List.length_cons, Nat.pow_succ]
    have : b.toNat ≤ 1 := by cases b <;> simp
    have h2 : b.toNat * 2 ^ l.length ≤ 2 ^ l.length := by
      calc b.toNat * 2 ^ l.length ≤ 1 * 2 ^ l.length := Nat.mul_le_mul_right _ this
        _ = 2 ^ l.length := Nat.one_mul _
    omega

theorem length_bitsOfNat (w n : Nat) : (bitsOfNat w n).length = w := by
  induction w with
  | zero => rfl
  | succ w ih => simp [bitsOfNat, ih]

theorem natOfBits_bitsOfNat (w n : Nat) : natOfBits (bitsOfNat w n) = n % 2 ^ w := by
  induction w with
  | zero => simp [bitsOfNat, natOfBits, Nat.mod_one]
  | succ w ih =>
    rw [bitsOfNat, natOfBits_cons, length_bitsOfNat, ih, Nat.mod_pow_succ]
    have hb : (n / 2 ^ w % 2 == 1).toNat = n / 2 ^ w % 2 := by
      have : n / 2 ^ w % 2 < 2 := Nat.mod_lt _ (by omega)
      rcases Nat.lt_succ_iff_lt_or_eq.mp this with h | h
      · have : n / 2 ^ w % 2 = 0 := by omega
        simp [this]
      · simp [h]
    rw [hb, Nat.mul_comm, Nat.add_comm]

theorem bitsOfNat_mod (w n : Nat) : bitsOfNat w n = bitsOfNat w (n % 2 ^ w) := by
  induction w generalizing n with
  | zero => rfl
  | succ w ih =>
    simp only [bitsOfNat]
    have hbit : n % 2 ^ (w + 1) / 2 ^ w % 2 = n / 2 ^ w % 2 := by
      rw [Nat.mod_pow_succ]
      have hlt : n % 2 ^ w < 2 ^ w := Nat.mod_lt _ (Nat.pow_pos (by omega))
      rw [Nat.add_mul_div_left _ _ (Nat.pow_pos (by omega)), Nat.div_eq_of_lt hlt, Nat.zero_add,
        Nat.mod_mod]
    rw [hbit]
    congr 1
    rw [ih n, ih (n % 2 ^ (w + 1))]
    congr 1
    exact (Nat.mod_mod_of_dvd n (Nat.pow_dvd_pow 2 (Nat.le_succ w))).symm

theorem bitsOfNat_natOfBits (bs : List Bool) : bitsOfNat bs.length (natOfBits bs) = bs := by
  induction bs with
  | nil => rfl
  | cons b l ih =>
    rw [List.length_cons, bitsOfNat, natOfBits_cons]
    have hlt := natOfBits_lt l
    have hpos : 0 < 2 ^ l.length := Nat.pow_pos (by omega)
    have hdiv : (b.toNat * 2 ^ l.length + natOfBits l) / 2 ^ l.length = b.toNat := by
      rw [Nat.mul_comm, Nat.mul_add_div hpos, Nat.div_eq_of_lt hlt, Nat.add_zero]
    have hmod : (b.toNat * 2 ^ l.length + natOfBits l) % 2 ^ l.length = natOfBits l := by
      rw [Nat.mul_comm, Nat.mul_add_mod, Nat.mod_eq_of_lt hlt]
    rw [hdiv, bitsOfNat_mod, hmod, ih]
    cases b <;> rfl

/-! chunking -/

theorem chunksN_flatMap {α} (f : α → List Bool) (w : Nat) (hf : ∀ x, (f x).length = w)
    (ws : List α) (rest : List Bool) :
    chunksN ws.length w (ws.flatMap f ++ rest) = ws.map f := by
  induction ws with
  | nil => rfl
  | cons x xs ih =>
    simp only [List.length_cons, chunksN, List.flatMap_cons, List.map_cons, List.append_assoc]
    rw [List.take_left' (hf x), List.drop_left' (hf x), ih]

theorem chunksN_join (k w : Nat) (bs : List Bool) (h : k * w ≤ bs.length) :
    (chunksN k w bs).flatMap id = bs.take (k * w) ∧ ∀ c ∈ chunksN k w bs, c.length = w := by
  induction k generalizing bs with
  | zero => simp [chunksN]
  | succ k ih =>
    have hw : w ≤ bs.length := by
      have : (k + 1) * w = k * w + w := Nat.succ_mul k w
      omega
    have hd : k * w ≤ (bs.drop w).length := by
      have : (k + 1) * w = k * w + w := Nat.succ_mul k w
      simp only [List.length_drop]; omega
    obtain ⟨h1, h2⟩ := ih (bs.drop w) hd
    constructor
    · simp only [chunksN, List.flatMap_cons, id, h1]
      rw [Nat.succ_mul, Nat.add_comm (k * w) w, List.take_add]
    · intro c hc
      simp only [chunksN, List.mem_cons] at hc
      rcases hc with rfl | hc
      · simp [List.length_take]; omega
      · exact h2 c hc

/-! bytes -/

theorem length_bitsOfBytes (b : Bytes) : (bitsOfBytes b).length = 8 * b.length := by
  induction b with
  | nil => rfl
  | cons x xs ih =>
    simp only [bitsOfBytes, List.flatMap_cons, List.length_append, length_bitsOfNat, List.length_cons] at ih ⊢
    omega

theorem bitsOfBytes_bytesOfBitsN (k : Nat) (bs : List Bool) (h : bs.length ≤ 8 * k) :
    bitsOfBytes (bytesOfBitsN k bs) = bs ++ List.replicate (8 * k - bs.length) false := by
  induction k generalizing bs with
  | zero =>
    have : bs = [] := by cases bs <;> simp_all
    subst this; rfl
  | succ k ih =>
    simp only [bytesOfBitsN, bitsOfBytes, List.flatMap_cons]
    have hp : (bs.take 8 ++ List.replicate (8 - (bs.take 8).length) false).length = 8 := by
      simp only [List.length_append, List.length_take, List.length_replicate]; omega
    have hlt := natOfBits_lt (bs.take 8 ++ List.replicate (8 - (bs.take 8).length) false)
    rw [hp] at hlt
    have hbyte : (UInt8.ofNat (natOfBits (bs.take 8 ++ List.replicate (8 - (bs.take 8).length) false))).toNat
        = natOfBits (bs.take 8 ++ List.replicate (8 - (bs.take 8).length) false) := by
      rw [UInt8.toNat_ofNat']; exact Nat.mod_eq_of_lt (by simpa using hlt)
    have hbits := bitsOfNat_natOfBits (bs.take 8 ++ List.replicate (8 - (bs.take 8).length) false)
    rw [hp] at hbits
    rw [hbyte, hbits]
    have hd : (bs.drop 8).length ≤ 8 * k := by simp only [List.length_drop]; omega
    have := ih (bs.drop 8) hd
    simp only [bitsOfBytes] at this
    rw [this]
    by_cases h8 : 8 ≤ bs.length
    · have e1 : 8 - (bs.take 8).length = 0 := by simp only [List.length_take]; omega
      have e2 : 8 * k - (bs.drop 8).length = 8 * (k + 1) - bs.length := by
        simp only [List.length_drop]; omega
      rw [e1, e2, List.replicate_zero, List.append_nil, ← List.append_assoc, List.take_append_drop]
    · have hlen : bs.length < 8 := by omega
      have e0 : bs.take 8 = bs := List.take_of_length_le (by omega)
      have e1 : bs.drop 8 = [] := List.drop_of_length_le (by omega)
      rw [e0, e1]
      simp only [List.length_nil, Nat.sub_zero, List.nil_append, List.append_assoc]
      rw [List.replicate_append_replicate]
      congr 2
      omega

end Lnc.Mailbox.Mnemonic
