import LncModel.Sid
/-
  The mailbox session automaton (mailbox/server.go Accept, client.go Dial,
  server_conn.go / client_conn.go Close and Refresh*, noise.go DoHandshake's
  SetRemote): one connection slot per side, a rendezvous that is derived from
  the passphrase before pairing and from the static keys afterwards.

  Accept / Dial *block* while the previous connection of that side is open: a
  blocked call is a transition that is not enabled.
-/
namespace Lnc.Mailbox.Session
open Lnc.Mailbox.Sid

structure Side where
  opened : Bool             -- a connection handed out by Accept/Dial and not yet closed
  handed : Nat            -- connections handed out so far
  key : Nat               -- own static key
  remote : Option Nat     -- stored static key of the peer (set by a version >= 2 handshake)
deriving Repr, DecidableEq

structure St where
  srv : Side
  cli : Side
  entropy : Bytes
deriving Repr, DecidableEq

def Side.sid (s : Side) (entropy : Bytes) : Term := sidPre s.key s.remote entropy

inductive Ev
  | acceptRet            -- Server.Accept returned a connection
  | dialRet              -- Client.Dial returned a connection
  | closedS | closedC    -- that side's connection was closed
  | handshakeV2          -- a handshake at version >= 2 completed: both sides store the other's key
  | handshakeClientOnly  -- … completed on the client only (its last message never reached the server)
  | transfer             -- application data over the open connections
deriving Repr, DecidableEq

def step (st : St) : Ev → Option St
  | .acceptRet => if st.srv.opened then none else some { st with srv := { st.srv with opened := true, handed := st.srv.handed + 1 } }
  | .dialRet => if st.cli.opened then none else some { st with cli := { st.cli with opened := true, handed := st.cli.handed + 1 } }
  | .closedS => some { st with srv := { st.srv with opened := false } }
  | .closedC => some { st with cli := { st.cli with opened := false } }
  | .handshakeV2 =>
    if st.srv.opened ∧ st.cli.opened then
      some { st with srv := { st.srv with remote := some st.cli.key }, cli := { st.cli with remote := some st.srv.key } }
    else none
  | .handshakeClientOnly =>
    if st.srv.opened ∧ st.cli.opened then some { st with cli := { st.cli with remote := some st.srv.key } } else none
  | .transfer => if st.srv.opened ∧ st.cli.opened then some st else none

def run (st : St) : List Ev → Option St
  | [] => some st
  | e :: es => match step st e with
    | some st' => run st' es
    | none => none

def init (ks kc : Nat) (entropy : Bytes) : St :=
  { srv := ⟨false, 0, ks, none⟩, cli := ⟨false, 0, kc, none⟩, entropy := entropy }

/-- number of connections of a side that are open after a trace, counted from the events -/
def openCount (acc : Ev) (cl : Ev) : List Ev → Int
  | [] => 0
  | e :: es => (if e = acc then 1 else 0) - (if e = cl then 1 else 0) + openCount acc cl es

end Lnc.Mailbox.Session
