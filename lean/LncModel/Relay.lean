import LncModel.Basic
/-
  The mailbox transport under the Go-Back-N connection: `sendToStream` /
  `recvFromStream` of ServerConn and `send` / `recv` of ClientConn
  (mailbox/server_conn.go, mailbox/client_conn.go) over one mailbox of the
  hashmail relay.

  The relay's mailbox is a FIFO queue.  One call of the send function is a loop
  of attempts on the current stream: an attempt either succeeds (the call
  returns) or fails, in which case the stream is re-created
  (`createSendMailBox`) and the same payload is tried again; whether the relay
  had queued the payload of a failed attempt is not known to the sender, and a
  payload reported as sent may still be lost with the stream.  One call of the
  receive function is the same loop around `stream.Recv()`: a failed attempt
  (the relay may already have taken the head of the queue for that stream)
  re-creates the stream and asks again.

  The outcome of every attempt is an input of the model (the relay and the
  network decide it), so the theorems quantify over all of them.
-/
namespace Lnc.Mailbox.Relay
open Lnc

/-- outcome of one attempt of the send loop -/
inductive SendTry
  | ok               -- Send returned nil and the relay queued the payload: the call returns
  | okLost           -- Send returned nil, the payload was lost with the stream: the call returns
  | fail (queued : Bool)   -- Send returned an error, the payload having been queued or not: retry
deriving Repr, DecidableEq

/-- outcome of one attempt of the receive loop -/
inductive RecvTry
  | ok               -- Recv returned the head of the queue: the call returns it
  | fail (taken : Bool)    -- Recv failed; the relay had (not) taken the head for this stream: retry
deriving Repr, DecidableEq

structure St where
  box : List Bytes        -- queued at the relay
  got : List Bytes        -- returned by the receive function so far, in order
deriving Repr, DecidableEq

def St.init : St := ⟨[], []⟩

/-- one call of the send function with payload `m`; returns the state and whether the call returned
    (it does not when the attempts run out: the loop is still retrying) -/
def sendCall (m : Bytes) : List SendTry → St → St × Bool
  | [], s => (s, false)
  | .ok :: _, s => ({ s with box := s.box ++ [m] }, true)
  | .okLost :: _, s => (s, true)
  | .fail q :: rest, s => sendCall m rest (if q then { s with box := s.box ++ [m] } else s)

/-- one call of the receive function; returns the state and the payload handed to Go-Back-N, if the
    call returned (it blocks while the queue is empty) -/
def recvCall : List RecvTry → St → St × Option Bytes
  | [], s => (s, none)
  | .ok :: _, s =>
    match s.box with
    | [] => (s, none)
    | h :: t => ({ box := t, got := s.got ++ [h] }, some h)
  | .fail taken :: rest, s =>
    match s.box with
    | [] => recvCall rest s
    | _ :: t => recvCall rest (if taken then { s with box := t } else s)

inductive Op
  | send (m : Bytes) (tries : List SendTry)
  | recv (tries : List RecvTry)
deriving Repr, DecidableEq

def step (s : St) : Op → St
  | .send m tries => (sendCall m tries s).1
  | .recv tries => (recvCall tries s).1

def run (s : St) (ops : List Op) : St := ops.foldl step s

/-- the payloads of the send calls, in call order -/
def sentOf : List Op → List Bytes
  | [] => []
  | .send m _ :: rest => m :: sentOf rest
  | .recv _ :: rest => sentOf rest

/-- `LossyDup xs ys`: `ys` arises from `xs` by dropping items and repeating items in place — what a
    FIFO channel that may drop, duplicate and delay does to the sequence put into it (the channel of
    the Go-Back-N model: Proto.lean, fwdDrop / fwdDup / fwdDeliver) -/
inductive LossyDup : List Bytes → List Bytes → Prop
  | nil : LossyDup [] []
  | drop (x : Bytes) {xs ys : List Bytes} : LossyDup xs ys → LossyDup (x :: xs) ys
  | dup (x : Bytes) {xs ys : List Bytes} : LossyDup (x :: xs) ys → LossyDup (x :: xs) (x :: ys)

end Lnc.Mailbox.Relay
