import LncModel.Basic
/-
  Mirror of mailbox/crypto.go PassphraseEntropyToMnemonic /
  PassphraseMnemonicToEntropy: the bstream reader/writer is MSB-first; ten
  11-bit word indices are read from / written into 14 bytes (110 of 112 bits).
  The word list is a parameter of the harness (its injectivity is checked on
  the real aezeed list each run); the model works on word *indices*.
-/
namespace Lnc.Mailbox.Mnemonic

def natOfBits (bs : List Bool) : Nat := bs.foldl (fun acc b => 2 * acc + b.toNat) 0

/-- `w` bits of `n`, most significant first -/
def bitsOfNat : Nat → Nat → List Bool
  | 0, _ => []
  | w + 1, n => (n / 2 ^ w % 2 == 1) :: bitsOfNat w n

def bitsOfBytes (b : Bytes) : List Bool := b.flatMap fun x => bitsOfNat 8 x.toNat

/-- first `k` groups of `w` bits -/
def chunksN : Nat → Nat → List Bool → List (List Bool)
  | 0, _, _ => []
  | k + 1, w, bs => bs.take w :: chunksN k w (bs.drop w)

/-- pack bits into `k` bytes, missing bits are zero (bstream writer + copy into a zeroed array) -/
def bytesOfBitsN : Nat → List Bool → Bytes
  | 0, _ => []
  | k + 1, bs =>
    let byte := bs.take 8
    UInt8.ofNat (natOfBits (byte ++ List.replicate (8 - byte.length) false)) :: bytesOfBitsN k (bs.drop 8)

def numWords : Nat := 10
def bitsPerWord : Nat := 11
def numBytes : Nat := 14

/-- PassphraseEntropyToMnemonic, on word indices -/
def toWords (entropy : Bytes) : List Nat :=
  (chunksN numWords bitsPerWord (bitsOfBytes entropy)).map natOfBits

/-- PassphraseMnemonicToEntropy, on word indices -/
def toEntropy (words : List Nat) : Bytes :=
  bytesOfBitsN numBytes (words.flatMap (bitsOfNat bitsPerWord))

end Lnc.Mailbox.Mnemonic
