import LncModel.Basic
/-
  The stream re-chunking of the secured connections
  (mailbox/grpc_noise_conn.go Read/Write, tcp_noise_conn.go Read/Write,
  interface.go connKit.Read/Write).

  A reader holds `pending` (nextMsg / readBuf / recvBuffer) and is fed a list
  of incoming records (decrypted plaintexts / MsgData payloads), oldest first.
  `none` = the call would block waiting for the next record.
-/
namespace Lnc.Mailbox.Stream

structure RState where
  pending : Bytes
  incoming : List Bytes
deriving Repr, DecidableEq

/-- NoiseGrpcConn.Read with a buffer of `k` bytes: at most `cap` (32 KiB) and at
    most `k` bytes of the current record, the rest is kept. -/
def grpcRead (cap k : Nat) (st : RState) : Option (Bytes × RState) :=
  let serve (p : Bytes) (inc : List Bytes) : Bytes × RState :=
    let n := min (min k cap) p.length
    (p.take n, { pending := p.drop n, incoming := inc })
  match st.pending with
  | _ :: _ => some (serve st.pending st.incoming)
  | [] =>
    match st.incoming with
    | [] => none
    | r :: rest => some (serve r rest)

/-- skip empty records, serve from the first non-empty one -/
def bufRefill (k : Nat) : List Bytes → Option (Bytes × RState)
  | [] => none
  | [] :: rest => bufRefill k rest
  | (x :: xs) :: rest => some ((x :: xs).take k, { pending := (x :: xs).drop k, incoming := rest })

/-- NoiseConn.Read / connKit.Read: refill from the next non-empty record, then
    bytes.Buffer.Read. -/
def bufRead (k : Nat) (st : RState) : Option (Bytes × RState) :=
  match st.pending with
  | x :: xs => some ((x :: xs).take k, { pending := (x :: xs).drop k, incoming := st.incoming })
  | [] => bufRefill k st.incoming

/-- everything the reader still owes the application -/
def RState.rest (st : RState) : Bytes := st.pending ++ st.incoming.flatten

/-- a sequence of Read calls with the given buffer sizes, stopping when one would block -/
def readAll (rd : Nat → RState → Option (Bytes × RState)) : List Nat → RState → List Bytes × RState
  | [], st => ([], st)
  | k :: ks, st =>
    match rd k st with
    | none => ([], st)
    | some (b, st') => let (bs, st'') := readAll rd ks st'; (b :: bs, st'')

/-! writers: what records a Write puts on the wire -/

def maxRecord : Nat := 65535

/-- NoiseGrpcConn.Write: one record, refused when larger than a record -/
def grpcWrite (b : Bytes) : Outcome (List Bytes × Nat) :=
  if b.length > maxRecord then .err "ErrMaxMessageLengthExceeded" else .ok ([b], b.length)

/-- NoiseConn.Write: chunks of 65535 bytes -/
def tcpChunks : Nat → Bytes → List Bytes
  | 0, _ => []
  | fuel + 1, b =>
    if b.length ≤ maxRecord then (if b.isEmpty then [] else [b])
    else b.take maxRecord :: tcpChunks fuel (b.drop maxRecord)

def tcpWrite (b : Bytes) : List Bytes × Nat :=
  if b.length ≤ maxRecord then ([b], b.length) else (tcpChunks (b.length + 1) b, b.length)

/-- connKit.Write: one control message per call -/
def kitWrite (b : Bytes) : List Bytes × Nat := ([b], b.length)

end Lnc.Mailbox.Stream
