import LncModel.Basic
/-
  cipherState of mailbox/noise.go: nonce counter and key rotation schedule.
  Both Encrypt and Decrypt run the deferred `nonce++; if nonce ==
  keyRotationInterval { rotateKey() }` — also when the MAC check fails.

  Keys are symbolic: the key in use during rotation epoch `e` of a direction is
  `kdf^e(split-output)`; HKDF chains are assumed injective and cycle-free, so a
  key is identified with its (direction, epoch).  A ciphertext is the term
  `aead (dir, epoch, nonce) plaintext`; it opens only under exactly that
  (dir, epoch, nonce) — the AEAD idealisation.
-/
namespace Lnc.Mailbox.Cipher

structure CS where
  epoch : Nat
  nonce : Nat
deriving Repr, DecidableEq

def CS.init : CS := ⟨0, 0⟩

/-- one Encrypt or Decrypt call with rotation interval `R` -/
def CS.next (R : Nat) (c : CS) : CS :=
  if c.nonce + 1 = R then ⟨c.epoch + 1, 0⟩ else ⟨c.epoch, c.nonce + 1⟩

def CS.after (R : Nat) : Nat → CS → CS
  | 0, c => c
  | k + 1, c => CS.after R k (c.next R)

/-- a sealed unit on the wire -/
structure Ct where
  dir : Nat        -- 0: initiator→responder, 1: responder→initiator
  epoch : Nat
  nonce : Nat
  plain : Bytes
deriving Repr, DecidableEq

def sealCt (dir : Nat) (c : CS) (p : Bytes) : Ct := ⟨dir, c.epoch, c.nonce, p⟩

/-- Open succeeds iff key (dir, epoch) and nonce are the ones the unit was sealed with -/
def openCt (dir : Nat) (c : CS) (ct : Ct) : Option Bytes :=
  if ct.dir = dir ∧ ct.epoch = c.epoch ∧ ct.nonce = c.nonce then some ct.plain else none

/-- big-endian 2-byte length header -/
def lenHdr (n : Nat) : Bytes := [UInt8.ofNat (n / 256 % 256), UInt8.ofNat (n % 256)]

/-- WriteMessage: two uses of the send cipher (length header, then body) -/
def writeRecord (R dir : Nat) (c : CS) (p : Bytes) : (Ct × Ct) × CS :=
  ((sealCt dir c (lenHdr p.length), sealCt dir (c.next R) p), (c.next R).next R)

def writeAll (R dir : Nat) : CS → List Bytes → List (Ct × Ct)
  | _, [] => []
  | c, p :: ps => let (u, c') := writeRecord R dir c p; u :: writeAll R dir c' ps

/-- ReadHeader + ReadBody: two uses of the receive cipher -/
def readRecord (R dir : Nat) (c : CS) (u : Ct × Ct) : Option Bytes × CS :=
  match openCt dir c u.1 with
  | none => (none, c.next R)
  | some _ =>
    match openCt dir (c.next R) u.2 with
    | none => (none, (c.next R).next R)
    | some p => (some p, (c.next R).next R)

def readAll (R dir : Nat) : CS → List (Ct × Ct) → List Bytes
  | _, [] => []
  | c, u :: us =>
    match readRecord R dir c u with
    | (some p, c') => p :: readAll R dir c' us
    | (none, _) => []

end Lnc.Mailbox.Cipher
