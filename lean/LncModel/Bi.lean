import LncModel.Proto
/-
  The bidirectional data phase: two unidirectional protocol instances that
  share the two physical channels.  The physical channel A→B carries the DATA
  packets of the direction A⇒B *interleaved with* the ACK/NACK packets of the
  direction B⇒A (and symmetrically), in one FIFO that may drop, duplicate (in
  place) and delay.  The endpoints act on whatever is at the head of the
  physical channel; the unidirectional instances see only their own packets.
-/
namespace Lnc.Gbn

inductive Wire
  | data (w : DataW)
  | resp (w : RespW)
deriving Repr, DecidableEq

def dataOf : List Wire → List DataW
  | [] => []
  | .data w :: r => w :: dataOf r
  | .resp _ :: r => dataOf r

def respOf : List Wire → List RespW
  | [] => []
  | .data _ :: r => respOf r
  | .resp w :: r => w :: respOf r

structure Bi where
  ab : Uni          -- direction A ⇒ B: A's send queue, B's receive state
  ba : Uni          -- direction B ⇒ A
  chAB : List Wire  -- physical channel from A to B
  chBA : List Wire  -- physical channel from B to A

def Bi.init (n : Nat) : Bi := ⟨Uni.init n, Uni.init n, [], []⟩

/-- what a unidirectional step appended to its forward / backward logical channel -/
def newFwd (σ σ' : Uni) : List Wire := (σ'.fwd.drop σ.fwd.length).map Wire.data
def newBwd (σ σ' : Uni) : List Wire := (σ'.bwd.drop σ.bwd.length).map Wire.resp

inductive BiLabel
  | sendA (p : Pkt) | sendB (p : Pkt)          -- a new packet (data or ping) enters A's / B's queue
  | retransA (i : Nat) | retransB (i : Nat)    -- a retransmission by A / B
  | deliverAB (nack : Bool)                    -- B processes the head of the A→B channel
  | deliverBA (nack : Bool)
  | dupAB | dupBA | dropAB | dropBA
deriving Repr, DecidableEq

def Bi.step? (β : Bi) : BiLabel → Option Bi
  | .sendA p => (β.ab.step? (.sendNew p)).map fun σ' => { β with ab := σ', chAB := β.chAB ++ newFwd β.ab σ' }
  | .sendB p => (β.ba.step? (.sendNew p)).map fun σ' => { β with ba := σ', chBA := β.chBA ++ newFwd β.ba σ' }
  | .retransA i => (β.ab.step? (.retransmit i)).map fun σ' => { β with ab := σ', chAB := β.chAB ++ newFwd β.ab σ' }
  | .retransB i => (β.ba.step? (.retransmit i)).map fun σ' => { β with ba := σ', chBA := β.chBA ++ newFwd β.ba σ' }
  | .deliverAB nack =>
    match β.chAB with
    | [] => none
    | .data _ :: rest =>
      -- B's receive loop handles a DATA packet of direction A⇒B and answers on the B→A channel
      (β.ab.step? (.fwdDeliver nack)).map fun σ' => { β with ab := σ', chAB := rest, chBA := β.chBA ++ newBwd β.ab σ' }
    | .resp _ :: rest =>
      -- B's receive loop handles an ACK/NACK for its own DATA (direction B⇒A)
      (β.ba.step? .bwdDeliver).map fun σ' => { β with ba := σ', chAB := rest }
  | .deliverBA nack =>
    match β.chBA with
    | [] => none
    | .data _ :: rest =>
      (β.ba.step? (.fwdDeliver nack)).map fun σ' => { β with ba := σ', chBA := rest, chAB := β.chAB ++ newBwd β.ba σ' }
    | .resp _ :: rest =>
      (β.ab.step? .bwdDeliver).map fun σ' => { β with ab := σ', chBA := rest }
  | .dupAB =>
    match β.chAB with
    | [] => none
    | .data w :: rest => (β.ab.step? .fwdDup).map fun σ' => { β with ab := σ', chAB := .data w :: .data w :: rest }
    | .resp w :: rest => (β.ba.step? .bwdDup).map fun σ' => { β with ba := σ', chAB := .resp w :: .resp w :: rest }
  | .dupBA =>
    match β.chBA with
    | [] => none
    | .data w :: rest => (β.ba.step? .fwdDup).map fun σ' => { β with ba := σ', chBA := .data w :: .data w :: rest }
    | .resp w :: rest => (β.ab.step? .bwdDup).map fun σ' => { β with ab := σ', chBA := .resp w :: .resp w :: rest }
  | .dropAB =>
    match β.chAB with
    | [] => none
    | .data _ :: rest => (β.ab.step? .fwdDrop).map fun σ' => { β with ab := σ', chAB := rest }
    | .resp _ :: rest => (β.ba.step? .bwdDrop).map fun σ' => { β with ba := σ', chAB := rest }
  | .dropBA =>
    match β.chBA with
    | [] => none
    | .data _ :: rest => (β.ba.step? .fwdDrop).map fun σ' => { β with ba := σ', chBA := rest }
    | .resp _ :: rest => (β.ab.step? .bwdDrop).map fun σ' => { β with ab := σ', chBA := rest }

def Bi.run? (β : Bi) : List BiLabel → Option Bi
  | [] => some β
  | l :: ls => match β.step? l with
    | some β' => β'.run? ls
    | none => none

def BiReachable (n : Nat) (β : Bi) : Prop := ∃ ls, (Bi.init n).run? ls = some β

/-- the logical channels of the two instances are the projections of the physical ones -/
structure Bi.Coupled (β : Bi) : Prop where
  abFwd : β.ab.fwd = dataOf β.chAB
  baBwd : β.ba.bwd = respOf β.chAB
  baFwd : β.ba.fwd = dataOf β.chBA
  abBwd : β.ab.bwd = respOf β.chBA

end Lnc.Gbn
