import LncModel.Basic
/-
  Mirror of gbn/timeout_manager.go: TimeoutManager with its two
  TimeoutBoosters as a pure state machine over `sent` / `received` events with
  explicit timestamps (Int nanoseconds).  `time.Time{}` (the zero time) is
  `none`.  The float32 boost increment is a parameter `inc original count`; the
  proofs need only `0 ≤ inc o c` and `inc o 0 = 0`; the executable instance is
  Go's expression `Duration(float32(original) * pct * float32(count))` on
  Lean's Float32.
-/
namespace Lnc.Gbn.Timeout

abbrev Time := Int
abbrev Dur := Int

def minimumResendTimeout : Dur := 1000000000

inductive Kind | syn | synack | data | ack | nack | fin
deriving Repr, DecidableEq

structure Booster where
  boostCount : Nat
  original : Dur
  withLimit : Bool
  lastBoost : Option Time
deriving Repr, DecidableEq

/-- `Boost()` at time `now` -/
def Booster.boost (b : Booster) (now : Time) : Booster :=
  if b.withLimit then
    match b.lastBoost with
    | some lb => if now - lb < b.original then b
                 else { b with lastBoost := some now, boostCount := b.boostCount + 1 }
    | none => { b with lastBoost := some now, boostCount := b.boostCount + 1 }
  else { b with lastBoost := some now, boostCount := b.boostCount + 1 }

/-- `Reset(newTimeout)` at time `now` -/
def Booster.reset (b : Booster) (newTimeout : Dur) (now : Time) : Booster :=
  { b with boostCount := 0, original := newTimeout,
           lastBoost := if b.withLimit then some now else b.lastBoost }

def Booster.current (inc : Dur → Nat → Dur) (b : Booster) : Dur :=
  b.original + inc b.original b.boostCount

structure TM where
  static : Bool
  hasSetDynamic : Bool
  resendTimeout : Dur
  mult : Int
  freq : Nat
  latestSYN : Option Time
  responseCounter : Nat
  sentTimes : Nat → Option Time
  resendB : Booster
  handshakeB : Booster

/-- int64 wrap-around of `time.Duration(mult) * responseTime` -/
def wrap64 (x : Int) : Int :=
  let m := x % 18446744073709551616
  if m < 9223372036854775808 then m else m - 18446744073709551616

def TM.update (m : TM) (rt : Dur) (now : Time) : TM :=
  let multiplied := wrap64 (m.mult * rt)
  let v := if multiplied < minimumResendTimeout then minimumResendTimeout else multiplied
  { m with hasSetDynamic := true, resendTimeout := v, resendB := m.resendB.reset v now }

def TM.sent (m : TM) (k : Kind) (seq : Nat) (resent : Bool) (now : Time) : TM :=
  if m.static then m else
  match k with
  | .syn =>
    if !resent then { m with latestSYN := some now }
    else { m with latestSYN := none, handshakeB := m.handshakeB.boost now }
  | .data =>
    if resent then
      { m with sentTimes := fun s => if s = seq then none else m.sentTimes s,
               resendB := m.resendB.boost now }
    else { m with sentTimes := fun s => if s = seq then some now else m.sentTimes s }
  | _ => m

def TM.received (m : TM) (k : Kind) (seq : Nat) (now : Time) : TM :=
  if m.static then m else
  match k with
  | .syn | .synack =>
    match m.latestSYN with
    | none => m
    | some t0 => ({ m with latestSYN := none }).update (now - t0) now
  | .ack =>
    match m.sentTimes seq with
    | none => m
    | some t0 =>
      let m1 := { m with sentTimes := fun s => if s = seq then none else m.sentTimes s,
                         responseCounter := m.responseCounter + 1 }
      if !m1.hasSetDynamic || m1.responseCounter % m1.freq == 0 then
        ({ m1 with responseCounter := 0 }).update (now - t0) now
      else m1
  | _ => m

inductive Ev
  | sent (k : Kind) (seq : Nat) (resent : Bool) (at_ : Time)
  | received (k : Kind) (seq : Nat) (at_ : Time)
deriving Repr, DecidableEq

def Ev.time : Ev → Time
  | .sent _ _ _ t => t
  | .received _ _ t => t

def TM.step (m : TM) : Ev → TM
  | .sent k s r t => m.sent k s r t
  | .received k s t => m.received k s t

def TM.getResend (inc : Dur → Nat → Dur) (m : TM) : Dur := m.resendB.current inc
def TM.getHandshake (inc : Dur → Nat → Dur) (m : TM) : Dur := m.handshakeB.current inc

/-- NewTimeOutManager after options -/
def TM.new (static : Bool) (resend handshake : Dur) (mult : Int) (freq : Nat) : TM :=
  { static := static, hasSetDynamic := false, resendTimeout := resend, mult := mult, freq := freq,
    latestSYN := none, responseCounter := 0, sentTimes := fun _ => none,
    resendB := ⟨0, resend, true, none⟩, handshakeB := ⟨0, handshake, false, none⟩ }

/-- Go: `time.Duration(float32(original) * boostPercent * float32(boostCount))` -/
def incF32 (pct : Float32) (o : Dur) (c : Nat) : Dur :=
  (Float32.ofInt o * pct * Float32.ofNat c).toInt64.toInt

end Lnc.Gbn.Timeout
