import LncModel.Basic
/-
  Mirror of gbn/messages.go: the six packet types, Serialize and Deserialize.
  `deserialize` is parametric in the DATA length guard `g` so that the tree's
  actual guard (extracted on every run into Facts.Generated) instantiates it:
  the code as first pinned used `len(b) < 3` followed by `b[3]` and `b[4:]`.
-/
namespace Lnc.Gbn

def tSYN : UInt8 := 0x01
def tDATA : UInt8 := 0x02
def tACK : UInt8 := 0x03
def tNACK : UInt8 := 0x04
def tFIN : UInt8 := 0x05
def tSYNACK : UInt8 := 0x06
def bFALSE : UInt8 := 0x00
def bTRUE : UInt8 := 0x01

inductive Msg where
  | data (seq : UInt8) (final : Bool) (ping : Bool) (payload : Bytes)
  | ack (seq : UInt8)
  | nack (seq : UInt8)
  | syn (n : UInt8)
  | fin
  | synack
deriving Repr, DecidableEq

def boolByte (b : Bool) : UInt8 := if b then bTRUE else bFALSE

def serialize : Msg → Bytes
  | .data seq fin ping pl => tDATA :: seq :: boolByte fin :: boolByte ping :: pl
  | .ack seq => [tACK, seq]
  | .nack seq => [tNACK, seq]
  | .syn n => [tSYN, n]
  | .fin => [tFIN]
  | .synack => [tSYNACK]

/-- Go `b[i]` : panics when out of range. -/
def idx (b : Bytes) (i : Nat) : Outcome UInt8 :=
  match b[i]? with
  | some x => .ok x
  | none => .panic s!"index out of range [{i}] with length {b.length}"

/-- Go `b[i:]` : panics when `i > len(b)`. -/
def sliceFrom (b : Bytes) (i : Nat) : Outcome Bytes :=
  if i ≤ b.length then .ok (b.drop i)
  else .panic s!"slice bounds out of range [{i}:{b.length}]"

/-- `Deserialize` with DATA guard `len(b) < g`. -/
def deserializeG (g : Nat) (b : Bytes) : Outcome Msg :=
  match b with
  | [] => .err "EOF"
  | t :: _ =>
    if t = tDATA then
      if b.length < g then .err "EOF"
      else
        (idx b 1).bind fun seq =>
        (idx b 2).bind fun f =>
        (idx b 3).bind fun p =>
        (sliceFrom b 4).bind fun pl =>
        .ok (.data seq (f == bTRUE) (p == bTRUE) pl)
    else if t = tACK then
      if b.length < 2 then .err "EOF" else (idx b 1).bind fun s => .ok (.ack s)
    else if t = tNACK then
      if b.length < 2 then .err "EOF" else (idx b 1).bind fun s => .ok (.nack s)
    else if t = tSYN then
      if b.length < 2 then .err "EOF" else (idx b 1).bind fun s => .ok (.syn s)
    else if t = tFIN then .ok .fin
    else if t = tSYNACK then .ok .synack
    else .err "EOF"

end Lnc.Gbn
