import LncModel.Basic
/-
  Session identifiers (mailbox/conndata.go SID, server.go GetSID).
  Cryptography is symbolic: `H512`, `hmac`, `dh` are free constructors, i.e.
  injective and with disjoint ranges, `dh` normalised so that
  dh(a, pub b) = dh(b, pub a).
-/
namespace Lnc.Mailbox.Sid

/-- a static key pair is identified by its private scalar -/
abbrev Priv := Nat

inductive Term
  | entropy (e : Bytes)
  | dhmac (lo hi : Nat)             -- hmac256(ecdh(a, pub b), "mailbox"), key pair unordered
deriving Repr, DecidableEq

/-- ECDH is symmetric: the shared point of (a, pub b) equals that of (b, pub a) -/
def dhmac (a b : Nat) : Term := if a ≤ b then .dhmac a b else .dhmac b a

/-- what SHA-512 is applied to -/
def sidPre (local_ : Nat) (remote : Option Nat) (entropy : Bytes) : Term :=
  match remote with
  | none => .entropy entropy
  | some r => dhmac local_ r

/-- GetSID on the concrete 64 bytes: the client→server stream flips the last bit -/
def getSID (sid : Bytes) (serverToClient : Bool) : Bytes :=
  if serverToClient then sid
  else match sid.reverse with
    | [] => []
    | last :: restRev => ((last ^^^ (1 : UInt8)) :: restRev).reverse

end Lnc.Mailbox.Sid
