import LncModel.Control
/-
  Trace validator for the keepalive model (Control.lean, `KA`).

  What the harness can observe of one endpoint of a real connection, with its
  virtual-time stamp: a packet handed to the receive loop (`pkt`), a keepalive
  ping emitted by the send loop (`ping`), the connection closing itself with
  the keepalive error (`close`), and the end of the observation (`stop`).  The
  validator decides whether the observed sequence is a run of `KA.step`, i.e.
  whether `service` events can be placed so that the model does what the
  connection did:

  * a ping at `t` is `KA.step (service t)` in a state whose ping is due and
    whose pong deadline has not passed (the code looks at the pong ticker
    first) — a ping that is not due is not a step of the model; when the pong
    deadline is exactly `t` the expiry may not be visible to the loop yet, and
    the ping may still go out (the close follows at the same instant);
  * a close at `t` is `KA.step (service t)` in a state whose pong deadline has
    passed — a keepalive close without an expired pong timer is not a step;
  * observations with the same time stamp are unordered (two goroutines, Go's
    select): every permutation of such a group is tried and the set of model
    states that explain the trace so far is carried along.

  `strict` additionally demands what holds of an endpoint whose send loop rests
  in a keepalive-servicing select all the time (an idle connection without
  loss): nothing is overdue — every ping goes out at the instant it is due and
  no timer is left expired when the next observation or the end arrives.
-/
namespace Lnc.Gbn.Control

inductive Obs
  | pkt (t : Nat)
  | ping (t : Nat)
  | close (t : Nat)
  | stop (t : Nat)
deriving Repr, DecidableEq

def Obs.time : Obs → Nat
  | .pkt t => t
  | .ping t => t
  | .close t => t
  | .stop t => t

/-- nothing is overdue strictly before `t` -/
def KA.settledBefore (k : KA) (t : Nat) : Bool :=
  k.closed || (decide (t ≤ k.pingDue) && (match k.pongDue with | some d => decide (t ≤ d) | none => true))

/-- the model states after one observation; `[]` = the observation is not a step of the model -/
def KA.obs (strict : Bool) (k : KA) : Obs → List KA
  | .pkt t =>
    if strict && !k.settledBefore t then [] else [k.step (.pkt t)]
  | .ping t =>
    if k.closed then []
    else if k.pingDue ≤ t ∧ (!strict || k.pingDue = t) then
      if k.pongDue = some t then
        -- the pong deadline expires at this very instant and the loop has not seen the tick yet
        -- (two timers, one instant): the ping goes out, the running pong timer is left alone
        [{ k with pingDue := t + k.P }]
      else
        let k' := k.step (.service t)
        if k'.closed then [] else [k']
    else []
  | .close t =>
    if k.closed then []
    else match k.pongDue with
      | some d => if d ≤ t ∧ (!strict || d = t) then [k.step (.service t)] else []
      | none => []
  | .stop t =>
    if strict && !k.settledBefore t then [] else [k]

/-- duplicates removed (the set of model states that explain the trace) -/
def dedup : List KA → List KA
  | [] => []
  | x :: xs => if x ∈ dedup xs then dedup xs else x :: dedup xs

def insertAll (x : Obs) : List Obs → List (List Obs)
  | [] => [[x]]
  | y :: ys => (x :: y :: ys) :: (insertAll x ys).map (y :: ·)

def perms : List Obs → List (List Obs)
  | [] => [[]]
  | x :: xs => (perms xs).flatMap (insertAll x)

def runSeq (strict : Bool) (ks : List KA) (os : List Obs) : List KA :=
  os.foldl (fun ks o => dedup (ks.flatMap fun k => k.obs strict o)) ks

/-- all orders of a group of simultaneous observations -/
def runGroup (strict : Bool) (ks : List KA) (g : List Obs) : List KA :=
  dedup ((perms g).flatMap fun p => runSeq strict ks p)

/-- split a time-sorted trace into groups of equal time stamps -/
def groups : List Obs → List (List Obs)
  | [] => []
  | o :: os =>
    match groups os with
    | (g :: gs) => (match g with
        | o' :: _ => if o'.time = o.time then (o :: g) :: gs else [o] :: g :: gs
        | [] => [o] :: gs)
    | [] => [[o]]

/-- index of the first group that no model run explains, or none -/
def firstUnexplained (strict : Bool) : List KA → List (List Obs) → Nat → Option (Nat × List KA)
  | _, [], _ => none
  | ks, g :: gs, i =>
    let ks' := runGroup strict ks g
    if ks'.isEmpty then some (i, ks) else firstUnexplained strict ks' gs (i + 1)

def validate (strict : Bool) (k0 : KA) (trace : List Obs) : Option (Nat × List KA) :=
  firstUnexplained strict [k0] (groups trace) 0

end Lnc.Gbn.Control
