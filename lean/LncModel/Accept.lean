import LncModel.Sid
/-
  Server.Accept (mailbox/server.go) as a two-step operation that other events
  of the session can interleave with: the call *enters* (and, when the previous
  connection is still open, waits for its Done()), later it *proceeds*: it
  computes the rendezvous from ConnData, stops the old mailbox connection when
  the rendezvous changed, and creates / refreshes the connection there.

  `readEarly` is where the rendezvous is read: `false` is the code as it is
  (after the wait), `true` is the variant that reads it on entry.
-/
namespace Lnc.Mailbox.Accept
open Lnc.Mailbox.Sid

structure Srv where
  key : Nat
  remote : Option Nat          -- ConnData.remoteKey, set by a version >= 2 handshake (SetRemote)
  entropy : Bytes
  connOpen : Bool              -- the previous mailbox connection exists and is not Done()
  listening : Option Term      -- rendezvous of the connection handed out last
  waiting : Option (Option Term)  -- a pending Accept, with the rendezvous it read on entry (if it did)
deriving Repr, DecidableEq

def Srv.sidNow (s : Srv) : Term := sidPre s.key s.remote s.entropy

inductive Ev
  | enter               -- Accept is called
  | paired (peer : Nat) -- the handshake on the open connection completes: SetRemote(peer)
  | closed              -- the open connection is closed (Done() fires)
  | proceed             -- the pending Accept passes its wait and hands out the next connection
deriving Repr, DecidableEq

def step (readEarly : Bool) (s : Srv) : Ev → Option Srv
  | .enter => if s.waiting.isSome then none
              else some { s with waiting := some (if readEarly then some s.sidNow else none) }
  | .paired p => if s.connOpen then some { s with remote := some p } else none
  | .closed => some { s with connOpen := false }
  | .proceed =>
    match s.waiting with
    | none => none
    | some snap =>
      if s.connOpen then none      -- still waiting for Done()
      else some { s with waiting := none, connOpen := true, listening := some (snap.getD s.sidNow) }

def run (readEarly : Bool) (s : Srv) : List Ev → Option Srv
  | [] => some s
  | e :: es => match step readEarly s e with
    | some s' => run readEarly s' es
    | none => none

def init (key : Nat) (entropy : Bytes) : Srv :=
  { key := key, remote := none, entropy := entropy, connOpen := false, listening := none, waiting := none }

end Lnc.Mailbox.Accept
