import LncModel.Proto
import LncModel.TraceCheck
/-
  Mirror of GoBackNConn.Send's splitting loop and Recv's reassembly
  (gbn/gbn_conn.go).  `split maxChunk data` is the list of packets Send pushes
  into the connection: with chunking off one final packet; with chunking on,
  chunks of `maxChunk` bytes, the loop running until the final chunk has been
  sent (so an empty payload is one empty final chunk).  `reassembleOut` (in
  TraceCheck.lean) is Recv: concatenate packets until FinalChunk.
-/
namespace Lnc.Gbn

def splitLoop (m : Nat) : Nat → Bytes → List Pkt
  | 0, _ => []
  | fuel + 1, data =>
    if data.length ≤ m then [⟨data, true, false⟩]
    else ⟨data.take m, false, false⟩ :: splitLoop m fuel (data.drop m)

def split (m : Nat) (data : Bytes) : List Pkt :=
  if m = 0 then [⟨data, true, false⟩] else splitLoop m (data.length + 1) data

/-- A Send whose deadline expires after `k` chunks went out: the chunks stay
    sent, the call returns `errSendTimeout`. -/
def splitTimedOut (m k : Nat) (data : Bytes) : List Pkt := (split m data).take k

/-- Receiver side with deadlines.  The partial message buffer lives in the
    connection (it survives a timed-out call).  `recvCall budget` consumes
    packets until a final chunk (⇒ a message) or until `budget` packets have
    been consumed without one (⇒ the deadline expired). -/
structure RecvState where
  pending : List Pkt
  acc : Bytes

def recvCall : Nat → RecvState → RecvState × Option Bytes
  | 0, st => (st, none)
  | b + 1, st =>
    match st.pending with
    | [] => (st, none)                     -- nothing more arrives before the deadline
    | p :: ps =>
      if p.final then ({ pending := ps, acc := [] }, some (st.acc ++ p.payload))
      else recvCall b { pending := ps, acc := st.acc ++ p.payload }

/-- successive Recv calls with the given budgets; timed-out calls yield nothing -/
def recvCalls : List Nat → RecvState → List Bytes
  | [], _ => []
  | b :: bs, st =>
    match recvCall b st with
    | (st', some m) => m :: recvCalls bs st'
    | (st', none) => recvCalls bs st'

end Lnc.Gbn
