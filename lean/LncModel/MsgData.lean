import LncModel.Basic
/-
  Mirror of mailbox/interface.go MsgData.Serialize / Deserialize.
  `Deserialize` is a method that mutates its receiver, so the model takes the
  receiver value.  Since repair (finding 19) the payload of the receiver is
  cleared when the length prefix is 0; `deserializeIntoOld` is the behaviour
  before it (`Payload` left untouched for length 0).
-/
namespace Lnc.Mailbox

structure MsgData where
  version : UInt8
  payload : Bytes
deriving Repr, DecidableEq

def be32 (n : Nat) : Bytes :=
  [UInt8.ofNat (n / 16777216 % 256), UInt8.ofNat (n / 65536 % 256),
   UInt8.ofNat (n / 256 % 256), UInt8.ofNat (n % 256)]

def readBe32 (a b c d : UInt8) : Nat :=
  a.toNat * 16777216 + b.toNat * 65536 + c.toNat * 256 + d.toNat

/-- `uint32(len(m.Payload))` truncates. -/
def MsgData.serialize (m : MsgData) : Bytes :=
  let plen := m.payload.length % 4294967296
  m.version :: be32 plen ++ (if plen > 0 then m.payload else [])

/-- Go `int` is 64 bits on every platform the checks run on (amd64; also wasm);
    `5 + int(payloadLen)` therefore cannot overflow and the slice expression
    `b[5 : 5+int(payloadLen)]` is in range after the length guard. -/
def MsgData.deserializeInto (recv : MsgData) (b : Bytes) : Outcome MsgData :=
  match b with
  | v :: l0 :: l1 :: l2 :: l3 :: rest =>
    let plen := readBe32 l0 l1 l2 l3
    if b.length < 5 + plen then .err "EOF"
    else if plen > 0 then .ok { version := v, payload := rest.take plen }
    else .ok { version := v, payload := [] }
  | _ => .err "EOF"

/-- before the repair: a message without payload left the receiver's payload in place -/
def MsgData.deserializeIntoOld (recv : MsgData) (b : Bytes) : Outcome MsgData :=
  match b with
  | v :: l0 :: l1 :: l2 :: l3 :: rest =>
    let plen := readBe32 l0 l1 l2 l3
    if b.length < 5 + plen then .err "EOF"
    else if plen > 0 then .ok { version := v, payload := rest.take plen }
    else .ok { version := v, payload := recv.payload }
  | _ => .err "EOF"

def MsgData.deserialize (b : Bytes) : Outcome MsgData :=
  MsgData.deserializeInto { version := 0, payload := [] } b

end Lnc.Mailbox
