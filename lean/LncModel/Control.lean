import LncModel.Facts.Types
/-
  Keepalive control of GoBackNConn (gbn/gbn_conn.go sendPacketsForever and the
  first lines of receivePacketsForever's loop), as a timed state machine.

  * every received packet: `pingTicker.Reset()`, `pongTicker.Pause()`
  * whenever the send loop sits in a select that lists the ping and the pong
    ticker ("services" them) at time t:
      - an expired pong deadline closes the connection (errKeepaliveTimeout;
        the ping branch checks the pong ticker first, so it wins when both
        are due)
      - else a due ping re-arms the ping timer and, if the pong timer is not
        already running, arms it (t + Q)
  * while the loop is inside resendQueue() (resend + waitForSync) the tickers
    are not serviced; a tick that became due stays pending until then.

  Which selects service the tickers is a *fact* extracted from the source
  (`servicesKeepalive`); the theorems take it as a hypothesis.
-/
namespace Lnc.Gbn.Control

structure KA where
  P : Nat                 -- ping interval
  Q : Nat                 -- pong timeout
  pingDue : Nat
  pongDue : Option Nat    -- some d: pong timer armed, fires at d
  closed : Bool
deriving Repr, DecidableEq

inductive Ev
  | pkt (t : Nat)         -- a packet was received at time t
  | service (t : Nat)     -- the send loop is in a keepalive-servicing select at time t
deriving Repr, DecidableEq

def Ev.time : Ev → Nat
  | .pkt t => t
  | .service t => t

def KA.step (k : KA) : Ev → KA
  | .pkt t => if k.closed then k else { k with pingDue := t + k.P, pongDue := none }
  | .service t =>
    if k.closed then k
    else match k.pongDue with
      | some d =>
        if d ≤ t then { k with closed := true }
        else if k.pingDue ≤ t then { k with pingDue := t + k.P }   -- pong timer already running: not restarted
        else k
      | none =>
        if k.pingDue ≤ t then { k with pongDue := some (t + k.Q), pingDue := t + k.P } else k

def KA.run (k : KA) (evs : List Ev) : KA := evs.foldl KA.step k

/-- does a select (as extracted) service both keepalive tickers? -/
def servicesKeepalive (s : Lnc.Facts.SelectFact) : Bool :=
  s.cases.contains "recv g.pingTicker.Ticks()" && s.cases.contains "recv g.pongTicker.Ticks()"

/-- the blocking selects of the send loop: those without `default` -/
def restingSelects (sels : List Lnc.Facts.SelectFact) : List Lnc.Facts.SelectFact :=
  sels.filter fun s => !s.hasDefault

end Lnc.Gbn.Control
