import LncModel.Facts.Types
/-
  Keepalive control of GoBackNConn (gbn/gbn_conn.go sendPacketsForever and the
  first lines of receivePacketsForever's loop), as a timed state machine.

  * every received packet: `pingTicker.Reset()`, `pongTicker.Pause()`
  * whenever the send loop sits in a select that lists the ping and the pong
    ticker ("services" them) at time t:
      - an expired pong deadline closes the connection (errKeepaliveTimeout;
        the ping branch checks the pong ticker first, so it wins when both
        are due)
      - else a due ping re-arms the ping timer and, if the pong timer is not
        already running, arms it (t + Q)
  * while the loop is inside resendQueue() (resend + waitForSync) the tickers
    are not serviced; a tick that became due stays pending until then.

  Which selects service the tickers is a *fact* extracted from the source
  (`servicesKeepalive`); the theorems take it as a hypothesis.
-/
namespace Lnc.Gbn.Control

structure KA where
  P : Nat                 -- ping interval
  Q : Nat                 -- pong timeout
  pingDue : Nat
  pongDue : Option Nat    -- some d: pong timer armed, fires at d
  closed : Bool
deriving Repr, DecidableEq

inductive Ev
  | pkt (t : Nat)         -- a packet was received at time t
  | service (t : Nat)     -- the send loop is in a keepalive-servicing select at time t
deriving Repr, DecidableEq

def Ev.time : Ev → Nat
  | .pkt t => t
  | .service t => t

def KA.step (k : KA) : Ev → KA
  | .pkt t => if k.closed then k else { k with pingDue := t + k.P, pongDue := none }
  | .service t =>
    if k.closed then k
    else match k.pongDue with
      | some d =>
        if d ≤ t then { k with closed := true }
        else if k.pingDue ≤ t then { k with pingDue := t + k.P }   -- pong timer already running: not restarted
        else k
      | none =>
        if k.pingDue ≤ t then { k with pongDue := some (t + k.Q), pingDue := t + k.P } else k

def KA.run (k : KA) (evs : List Ev) : KA := evs.foldl KA.step k

/-- does a select (as extracted) service both keepalive tickers? -/
def servicesKeepalive (s : Lnc.Facts.SelectFact) : Bool :=
  s.cases.contains "recv g.pingTicker.Ticks()" && s.cases.contains "recv g.pongTicker.Ticks()"

/-- the blocking selects of the send loop: those without `default` -/
def restingSelects (sels : List Lnc.Facts.SelectFact) : List Lnc.Facts.SelectFact :=
  sels.filter fun s => !s.hasDefault

/-! ### the resend timer of a sender with unacknowledged packets

`receivePacketsForever` decides which received packets postpone the
retransmission of the queue (`g.resendTicker.Reset`). -/

/-- kinds of packets the receive loop sees in the data phase -/
inductive RxKind | data | ack | nack
deriving DecidableEq, Repr

structure ResendTimer where
  deadline : Nat
  timeout : Nat
deriving Repr, DecidableEq

/-- a packet of kind `k` is received at time `t` -/
def ResendTimer.recv (resets : RxKind → Bool) (rt : ResendTimer) (k : RxKind) (t : Nat) : ResendTimer :=
  if resets k then { rt with deadline := t + rt.timeout } else rt

/-- does the timer fire during the history (a packet arriving at or after the
    deadline finds it fired) or, after it, by the horizon? -/
def firesBy (resets : RxKind → Bool) (rt : ResendTimer) : List (RxKind × Nat) → Nat → Bool
  | [], horizon => decide (rt.deadline ≤ horizon)
  | (k, t) :: rest, horizon =>
    if rt.deadline ≤ t then true else firesBy resets (rt.recv resets k t) rest horizon

/-- the code after the repair: only responses to our own packets postpone the resend -/
def resetsOnResponse : RxKind → Bool
  | .data => false
  | _ => true

/-- the code before the repair: every received packet postpones it -/
def resetsOnAny : RxKind → Bool := fun _ => true

/-- the peer sends its own DATA (or pings) with period `p`, starting at `t0 + p` -/
def peerTraffic (t0 p n : Nat) : List (RxKind × Nat) :=
  (List.range n).map fun i => (RxKind.data, t0 + (i + 1) * p)

end Lnc.Gbn.Control
