import LncModel.GbnCodec
import LncModel.Queue
/-
  Mirror of the GBN SYN / SYN / SYNACK handshake (gbn/gbn_client.go
  clientHandshake, gbn/gbn_server.go serverHandshake) as two automata.
  Timeouts are events; the transport is whatever delivers `recv b` events
  (honest packets, duplicates, stale packets of an earlier connection, garbage).
-/
namespace Lnc.Gbn.Hs

inductive Ev
  | recv (b : Bytes)
  | timeout
deriving Repr, DecidableEq

/-- window sizes the protocol can represent: s = n+1 must fit a uint8, n ≥ 1 -/
def validN (n : Nat) : Bool := decide (1 ≤ n ∧ n ≤ 254)

/-! ### client -/

inductive Cli
  | waiting (n : Nat)        -- SYN sent, waiting for the server's SYN
  | done (n : Nat)           -- SYNACK sent: data phase with window n
  | fail (why : String)
deriving Repr, DecidableEq

/-- NewClientConn: refuses windows the protocol cannot represent, else sends SYN n -/
def cliStart (n : Nat) : Cli × List Msg :=
  if validN n then (.waiting n, [.syn (UInt8.ofNat n)]) else (.fail "invalid n", [])

def cliStep (g : Nat) : Cli → Ev → Cli × List Msg
  | .waiting n, .timeout => (.waiting n, [.syn (UInt8.ofNat n)])
  | .waiting n, .recv b =>
    match deserializeG g b with
    | .ok (.syn n') =>
      if n'.toNat = n then (.done n, [.synack]) else (.fail "EOF: server echoed another n", [])
    | .ok _ => (.waiting n, [])                 -- maybe a packet of a previous connection
    | .err e => (.fail e, [])
    | .panic p => (.fail ("panic " ++ p), [])
  | st, _ => (st, [])

/-! ### server -/

inductive Srv
  | s0 (resent : Bool) (n : Nat)   -- waiting for a client SYN
  | s1 (resent : Bool) (n : Nat)   -- echoed SYN n, waiting for SYNACK
  | done (n : Nat)                 -- setN n, data phase
  | fail (why : String)
deriving Repr, DecidableEq

def srvStart : Srv := .s0 false 0

/-- receiving a client SYN (label recvClientSYN): validate, echo -/
def srvOnSyn (resent : Bool) (n' : Nat) : Srv × List Msg :=
  if validN n' then (.s1 resent n', [.syn (UInt8.ofNat n')])
  else (.fail "invalid window size", [])

def srvStep (g : Nat) : Srv → Ev → Srv × List Msg
  | .s0 resent n, .recv b =>
    match deserializeG g b with
    | .ok (.syn n') => srvOnSyn resent n'.toNat
    | .ok .synack => if resent then (.done n, []) else (.s0 resent n, [])
    | .ok (.data _ _ _ _) => if resent then (.done n, []) else (.s0 resent n, [])
    | .ok _ => (.s0 resent n, [])
    | .err e => (.fail e, [])
    | .panic p => (.fail ("panic " ++ p), [])
  | .s0 resent n, .timeout => (.s0 resent n, [])     -- no timer armed while waiting for a SYN
  | .s1 _ n, .timeout => (.s0 true n, [])
  | .s1 _ n, .recv b =>
    match deserializeG g b with
    | .ok .synack => (.done n, [])
    | .ok (.syn n') => srvOnSyn true n'.toNat
    | .ok _ => (.fail "EOF: unexpected packet while waiting for SYNACK", [])
    | .err e => (.fail e, [])
    | .panic p => (.fail ("panic " ++ p), [])
  | st, _ => (st, [])

def srvRun (g : Nat) (st : Srv) (evs : List Ev) : Srv := evs.foldl (fun s e => (srvStep g s e).1) st
def cliRun (g : Nat) (st : Cli) (evs : List Ev) : Cli := evs.foldl (fun s e => (cliStep g s e).1) st

/-- window sizes carried by SYN packets among the received events -/
def synsIn (g : Nat) (evs : List Ev) : List Nat :=
  evs.filterMap fun e => match e with
    | .recv b => match deserializeG g b with
      | .ok (.syn n) => some n.toNat
      | _ => none
    | .timeout => none

end Lnc.Gbn.Hs
