import LncModel.Chunk
import LncModel.MsgData
import LncModel.Stream
/-
  Layer composition of the mailbox byte transport: every `connKit.Write(b)`
  (one per Flush write: the 18-byte record header, then body+MAC) becomes one
  MsgData, one GBN message (chunking off in the mailbox: one final packet),
  travels over the relay, is reassembled by Recv, deserialised, and handed out
  by `connKit.Read` through its buffer.
-/
namespace Lnc.Mailbox.Stack
open Lnc Lnc.Gbn Lnc.Mailbox Lnc.Mailbox.Stream

/-- connKit.Write: protocol version 0 MsgData, serialised, one GBN message -/
def kitSend (b : Bytes) : Bytes := MsgData.serialize ⟨0, b⟩

/-- the GBN packets for a sequence of connKit writes (maxChunk = 0: mailbox default) -/
def packetsOf (writes : List Bytes) : List Pkt := (writes.map kitSend).flatMap (split 0)

/-- ReceiveControlMsg: Recv then MsgData.Deserialize into a fresh message -/
def kitRecvAll (msgs : List Bytes) : List Bytes :=
  msgs.filterMap fun m => match MsgData.deserialize m with
    | .ok d => some d.payload
    | _ => none

/-- what connKit.Read hands out for the given buffer sizes, when the GBN layer
    has delivered the packets `out` -/
def kitRead (out : List Pkt) (ks : List Nat) : List Bytes × RState :=
  readAll bufRead ks ⟨[], kitRecvAll (reassembleOut out [])⟩

/-- the sizes returned by successive `Read(buf[:k])` calls on the secured
    (gRPC-variant) connection when the peer wrote buffers of the given sizes
    (each at most one record): NoiseGrpcConn.Write sends one record per write,
    NoiseGrpcConn.Read serves at most 32 KiB of the current record -/
def appReadSizes (k : Nat) (sizes : List Nat) : List Nat :=
  let recs := sizes.map fun n => List.replicate n (0 : UInt8)
  ((readAll (grpcRead 32768) (List.replicate (sizes.sum + 1) k) ⟨[], recs⟩).1).map List.length

/-- run-length encoding used on the wire of the line protocol -/
def rle : List Nat → List (Nat × Nat)
  | [] => []
  | x :: xs => match rle xs with
    | (y, c) :: r => if x = y then (y, c + 1) :: r else (x, 1) :: (y, c) :: r
    | [] => [(x, 1)]

end Lnc.Mailbox.Stack
