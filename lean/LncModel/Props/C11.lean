import LncModel.Session
import LncModel.Props.C17
import LncModel.Props.C03
/-
  C11 — One live connection per session; reconnect and post-pairing switch line up.
-/
namespace Lnc.Props.C11
open Lnc Lnc.Mailbox.Session Lnc.Mailbox.Sid

/-- **never a second connection while the previous one is open**: in every
    accepted trace, a connection is handed out only when that side has none open -/
theorem one_live (st st' : St) (e : Ev) (h : step st e = some st') :
    (e = .acceptRet → st.srv.opened = false ∧ st'.srv.opened = true) ∧
    (e = .dialRet → st.cli.opened = false ∧ st'.cli.opened = true) := by
  constructor
  · intro he; subst he
    simp only [step] at h
    split at h
    · cases h
    · next hn => simp only [Option.some.injEq] at h; subst h; exact ⟨by simpa using hn, rfl⟩
  · intro he; subst he
    simp only [step] at h
    split at h
    · cases h
    · next hn => simp only [Option.some.injEq] at h; subst h; exact ⟨by simpa using hn, rfl⟩

/-- **a fresh connection once the previous one has been closed** -/
theorem fresh_after_close (st : St) :
    (step { st with srv := { st.srv with opened := false } } .acceptRet).isSome = true ∧
    (step { st with cli := { st.cli with opened := false } } .dialRet).isSome = true := by
  simp [step]

/-- **after a pairing handshake both parties are at the same, new, key-derived
    rendezvous** and a client that only has the passphrase derives another one -/
theorem switch_lines_up (st st' : St) (h : step st .handshakeV2 = some st') (intruderKey : Nat) :
    st'.srv.sid st'.entropy = st'.cli.sid st'.entropy ∧
    st'.srv.sid st'.entropy ≠ sidPre intruderKey none st'.entropy := by
  simp only [step] at h
  split at h
  · simp only [Option.some.injEq] at h
    subst h
    refine ⟨Lnc.Props.C17.sid_symmetric _ _ _ _, Lnc.Props.C17.paired_sid_ne_passphrase_sid _ _ _ _ _⟩
  · cases h

/-- and should such a client be routed to the paired server anyway, its XX
    first message meets a KK responder: the pre-message digests differ, the
    handshake fails in act 1 (C03) -/
theorem unpaired_client_rejected (ci cr : Mailbox.Noise.Cfg) (rsI rsR : Mailbox.Noise.Pt)
    (hci : ci.rs = some rsI) (hcr : cr.rs = some rsR) (hmis : rsR ≠ .pub ci.ls ∨ rsI ≠ .pub cr.ls) :
    Lnc.Props.C03.failed (Mailbox.Noise.run Mailbox.Noise.kkPattern ci cr Mailbox.Noise.noMitm).2 = true :=
  (Lnc.Props.C03.kk_wrong_expected ci cr rsI rsR hci hcr hmis).2.1

/-! non-vacuity -/
example : ((run (init 3 1 [7]) [.acceptRet, .dialRet, .handshakeV2, .transfer, .closedC, .closedS, .dialRet, .acceptRet, .transfer]).map
    fun st => (st.srv.handed, st.cli.handed, st.srv.remote, st.cli.remote)) = some (2, 2, some 1, some 3) := by decide
example : run (init 3 1 [7]) [.acceptRet, .acceptRet] = none := by decide

end Lnc.Props.C11
