import LncModel.Session
import LncModel.Props.C17
import LncModel.Props.C03
/-
  C11 — One live connection per session; reconnect and post-pairing switch line up.
-/
namespace Lnc.Props.C11
open Lnc Lnc.Mailbox.Session Lnc.Mailbox.Sid

/-- **never a second connection while the previous one is open**: in every
    accepted trace, a connection is handed out only when that side has none open -/
theorem one_live (st st' : St) (e : Ev) (h : step st e = some st') :
    (e = .acceptRet → st.srv.opened = false ∧ st'.srv.opened = true) ∧
    (e = .dialRet → st.cli.opened = false ∧ st'.cli.opened = true) := by
  constructor
  · intro he; subst he
    simp only [step] at h
    split at h
    · cases h
    · next hn => simp only [Option.some.injEq] at h; subst h; exact ⟨by simpa using hn, rfl⟩
  · intro he; subst he
    simp only [step] at h
    split at h
    · cases h
    · next hn => simp only [Option.some.injEq] at h; subst h; exact ⟨by simpa using hn, rfl⟩

/-- **a fresh connection once the previous one has been closed** -/
theorem fresh_after_close (st : St) :
    (step { st with srv := { st.srv with opened := false } } .acceptRet).isSome = true ∧
    (step { st with cli := { st.cli with opened := false } } .dialRet).isSome = true := by
  simp [step]

/-- **after a pairing handshake both parties are at the same, new, key-derived
    rendezvous** and a client that only has the passphrase derives another one -/
theorem switch_lines_up (st st' : St) (h : step st .handshakeV2 = some st') (intruderKey : Nat) :
    st'.srv.sid st'.entropy = st'.cli.sid st'.entropy ∧
    st'.srv.sid st'.entropy ≠ sidPre intruderKey none st'.entropy := by
  simp only [step] at h
  split at h
  · simp only [Option.some.injEq] at h
    subst h
    refine ⟨Lnc.Props.C17.sid_symmetric _ _ _ _, Lnc.Props.C17.paired_sid_ne_passphrase_sid _ _ _ _ _⟩
  · cases h

/-- and should such a client be routed to the paired server anyway, its XX
    first message meets a KK responder: the pre-message digests differ, the
    handshake fails in act 1 (C03) -/
theorem unpaired_client_rejected (ci cr : Mailbox.Noise.Cfg) (rsI rsR : Mailbox.Noise.Pt)
    (hci : ci.rs = some rsI) (hcr : cr.rs = some rsR) (hmis : rsR ≠ .pub ci.ls ∨ rsI ≠ .pub cr.ls) :
    Lnc.Props.C03.failed (Mailbox.Noise.run Mailbox.Noise.kkPattern ci cr Mailbox.Noise.noMitm).2 = true :=
  (Lnc.Props.C03.kk_wrong_expected ci cr rsI rsR hci hcr hmis).2.1

/-- The full statement of the rendezvous clause: after any first connection in
    which the *client* stored the server's key, the two parties derive the same
    rendezvous. -/
def C11_rendezvous_statement : Prop :=
  ∀ (ks kc : Nat) (e : Bytes) (evs : List Ev) (st : St),
    run (init ks kc e) evs = some st → st.cli.remote.isSome = true → st.srv.sid st.entropy = st.cli.sid st.entropy

/-- **it is false of the protocol as it stands** (known finding
    `C11/half-paired-after-lost-act3`): the pairing handshake is not atomic. When
    its last message is lost the client has stored the server's key and moves to
    the key-derived rendezvous, the server has not and stays at the passphrase
    rendezvous; the two never meet again. -/
theorem C11_half_paired_counterexample : ¬ C11_rendezvous_statement := by
  intro h
  have := h 1 2 [7] [.acceptRet, .dialRet, .handshakeClientOnly, .closedC, .closedS] _ rfl rfl
  revert this
  decide

/-- for every pair of keys: after a client-only completion the rendezvous differ -/
theorem half_paired_never_meets (st st' : St) (h : step st .handshakeClientOnly = some st') (hs : st.srv.remote = none) :
    st'.srv.sid st'.entropy ≠ st'.cli.sid st'.entropy := by
  simp only [step] at h
  split at h
  · simp only [Option.some.injEq] at h
    subst h
    simp only [Side.sid, hs]
    exact fun he => Lnc.Props.C17.paired_sid_ne_passphrase_sid _ _ _ _ _ he.symm
  · cases h

/-! non-vacuity -/
example : ((run (init 3 1 [7]) [.acceptRet, .dialRet, .handshakeV2, .transfer, .closedC, .closedS, .dialRet, .acceptRet, .transfer]).map
    fun st => (st.srv.handed, st.cli.handed, st.srv.remote, st.cli.remote)) = some (2, 2, some 1, some 3) := by decide
example : run (init 3 1 [7]) [.acceptRet, .acceptRet] = none := by decide

end Lnc.Props.C11
