import LncModel.Chunk
/-
  C14 — Message boundaries and contents survive chunking for every size.
-/
namespace Lnc.Props.C14
open Lnc Lnc.Gbn

theorem reassemble_splitLoop (m : Nat) (hm : 0 < m) (fuel : Nat) (data acc : Bytes)
    (rest : List Pkt) (hf : data.length < fuel) :
    reassembleOut (splitLoop m fuel data ++ rest) acc = (acc ++ data) :: reassembleOut rest [] := by
  induction fuel generalizing data acc with
  | zero => omega
  | succ fuel ih =>
    unfold splitLoop
    split
    · simp [reassembleOut]
    · next hlen =>
      have hd : (data.drop m).length < fuel := by simp [List.length_drop]; omega
      simp only [List.cons_append, reassembleOut, Bool.false_eq_true, ↓reduceIte]
      rw [ih (data.drop m) (acc ++ data.take m) hd]
      simp [List.append_assoc, List.take_append_drop]

/-- a message followed by anything reassembles to that message followed by the rest -/
theorem reassemble_split_append (m : Nat) (data : Bytes) (rest : List Pkt) :
    reassembleOut (split m data ++ rest) [] = data :: reassembleOut rest [] := by
  unfold split
  split
  · simp [reassembleOut]
  · next hm =>
    have := reassemble_splitLoop m (by omega) (data.length + 1) data [] rest (by omega)
    simpa using this

/-- **every payload length (empty, one byte, multiples and non-multiples of the
    chunk size) and every chunk size or none: one Send ⇒ exactly one Recv
    result with identical bytes** -/
theorem reassemble_split (m : Nat) (data : Bytes) :
    reassembleOut (split m data) [] = [data] := by
  have := reassemble_split_append m data []
  simpa [reassembleOut] using this

/-- **consecutive messages are never merged, split or dropped** -/
theorem reassemble_msgs (m : Nat) (msgs : List Bytes) :
    reassembleOut (msgs.flatMap (split m)) [] = msgs := by
  induction msgs with
  | nil => simp [reassembleOut]
  | cons d ds ih => rw [List.flatMap_cons, reassemble_split_append, ih]

theorem splitLoop_sizes (m : Nat) (hm : 0 < m) (fuel : Nat) (data : Bytes) :
    ∀ p ∈ splitLoop m fuel data, p.payload.length ≤ m ∧ p.ping = false := by
  induction fuel generalizing data with
  | zero => simp [splitLoop]
  | succ fuel ih =>
    unfold splitLoop
    split
    · next h => intro p hp; simp at hp; subst hp; exact ⟨h, rfl⟩
    · intro p hp
      rcases List.mem_cons.mp hp with rfl | hp
      · exact ⟨by simp [List.length_take]; omega, rfl⟩
      · exact ih _ p hp

/-- with chunking on no packet carries more than `maxChunk` bytes -/
theorem split_sizes (m : Nat) (hm : 0 < m) (data : Bytes) :
    ∀ p ∈ split m data, p.payload.length ≤ m := by
  unfold split
  have : ¬ m = 0 := by omega
  simp only [this, ↓reduceIte]
  intro p hp
  exact (splitLoop_sizes m hm _ data p hp).1

/-- reassembly of a prefix of the packet stream is a prefix of the reassembly:
    composes with C01 (`out <+: accepted`) to give the message-level statement -/
theorem reassemble_prefix (l1 l2 : List Pkt) (acc : Bytes) (h : l1 <+: l2) :
    reassembleOut l1 acc <+: reassembleOut l2 acc := by
  obtain ⟨t, rfl⟩ := h
  induction l1 generalizing acc with
  | nil => simp [reassembleOut]
  | cons p ps ih =>
    simp only [List.cons_append, reassembleOut]
    split
    · exact List.prefix_cons_inj _ |>.mpr (ih [])
    · exact ih _

/-- **C01 + C14**: if the receiver was handed a prefix of the packets of the
    messages accepted by Send, its Recv results are a prefix of those messages. -/
theorem C14_with_C01 (m : Nat) (msgs : List Bytes) (out : List Pkt)
    (h : out <+: msgs.flatMap (split m)) : reassembleOut out [] <+: msgs := by
  have := reassemble_prefix out _ [] h
  rwa [reassemble_msgs] at this

/-! ### deadlines -/

theorem recvCall_spec (b : Nat) (st : RecvState) :
    ∀ st' r, recvCall b st = (st', r) →
      reassembleOut st.pending st.acc = (match r with | some m => [m] | none => []) ++ reassembleOut st'.pending st'.acc := by
  induction b generalizing st with
  | zero => intro st' r h; simp [recvCall] at h; obtain ⟨rfl, rfl⟩ := h; simp
  | succ b ih =>
    intro st' r h
    unfold recvCall at h
    split at h
    · next hp => obtain ⟨rfl, rfl⟩ := Prod.mk.inj h; simp
    · next p ps hp =>
      split at h
      · next hf =>
        obtain ⟨rfl, rfl⟩ := Prod.mk.inj h
        simp [hp, reassembleOut, hf]
      · next hf =>
        have := ih _ st' r h
        simp only [hp, reassembleOut, hf]
        simpa using this

/-- **Recv deadlines expiring at any point inside a message, calls retried:**
    the successful Recv results are always a prefix of the reassembly of the
    packet stream — a timed-out call never loses, merges or splits data. -/
theorem recv_deadlines (budgets : List Nat) (st : RecvState) :
    recvCalls budgets st <+: reassembleOut st.pending st.acc := by
  induction budgets generalizing st with
  | nil => simp [recvCalls]
  | cons b bs ih =>
    unfold recvCalls
    split
    · next st' m h =>
      rw [recvCall_spec b st st' (some m) h]
      exact List.prefix_cons_inj _ |>.mpr (ih st')
    · next st' h =>
      rw [recvCall_spec b st st' none h]
      simpa using ih st'

/-- The full statement also covers *Send* deadlines.  It is false of the code:
    a Send that times out after `k` chunks leaves them sent; the retried Send
    then yields one Recv result that is not the payload.  Witness (replayed on
    the real connection by the harness): maxChunk 4, payload of 8 bytes, deadline
    after the first chunk. -/
def C14_send_deadline_statement : Prop :=
  ∀ (m k : Nat) (data : Bytes),
    reassembleOut (splitTimedOut m k data ++ split m data) [] = [data]

theorem C14_send_deadline_counterexample : ¬ C14_send_deadline_statement := by
  intro h
  have := h 4 1 [1, 2, 3, 4, 5, 6, 7, 8]
  revert this
  decide

/-! non-vacuity -/
example : split 4 [1, 2, 3, 4, 5, 6, 7, 8, 9] =
    [⟨[1, 2, 3, 4], false, false⟩, ⟨[5, 6, 7, 8], false, false⟩, ⟨[9], true, false⟩] := by decide
example : split 4 [] = [⟨[], true, false⟩] := by decide
example : split 4 [1, 2, 3, 4] = [⟨[1, 2, 3, 4], true, false⟩] := by decide
example : recvCalls [1, 1, 5] ⟨split 2 [1, 2, 3, 4, 5] ++ split 2 [6], []⟩ = [[1, 2, 3, 4, 5]] := by decide

end Lnc.Props.C14
