import LncModel.Props.C03
/-
  C04 — Completed handshakes agree on keys, version, identities and auth
  payload (symbolic model; field-level man in the middle).
-/
namespace Lnc.Props.C04
open Lnc Lnc.Mailbox.Noise Lnc.Props.C03

/-- **AEAD binding**: a ciphertext is accepted only by a reader whose key,
    nonce and running digest are exactly those of its creator at creation time;
    garbage is never accepted.  (Every act ends in such a ciphertext, so an
    accepted act means the transcripts agreed up to that point.) -/
theorem decrypt_binds (st st' : St) (w : WCt) (pl : Pl) (h : decryptAndHash st w = .ok (st', pl)) :
    ∃ c, w = .hon c ∧ c.key = st.key ∧ c.nonce = st.n ∧ c.ad = st.h ∧ c.pl = pl ∧
      st'.h = st.h ++ [.ct c.id] := by
  cases w with
  | garbage n => simp [decryptAndHash] at h
  | hon c =>
    simp only [decryptAndHash] at h
    split at h
    · next hc =>
      simp only [Except.ok.injEq, Prod.mk.injEq] at h
      obtain ⟨rfl, rfl⟩ := h
      exact ⟨c, rfl, hc.1, hc.2.1, hc.2.2, rfl, rfl⟩
    · cases h

/-- the creator's digest after sealing and the acceptor's digest after opening coincide -/
theorem seal_open_digest (w r r' : St) (pl pl' : Pl) (h : decryptAndHash r (encryptAndHash w pl).2 = .ok (r', pl')) :
    r'.h = (encryptAndHash w pl).1.h ∧ pl' = pl ∧ r.key = w.key := by
  obtain ⟨c, hc, hk, _, had, hpl, hh⟩ := decrypt_binds r r' _ pl' h
  simp only [encryptAndHash, WCt.hon.injEq] at hc
  subst hc
  simp only at hk had hpl hh
  exact ⟨by rw [hh, ← had]; rfl, hpl.symm, hk.symm⟩

/-- **version 0: an auth payload that does not fit the fixed act-two buffer is
    refused by the responder** (never silently truncated) -/
theorem v0_payload_must_fit (st : St) (b : Bytes) (toks : List Token) (hv : st.version = 0)
    (hp : st.payload = some b) (hlen : b.length > 498)
    (st1 : St) (out : List Field) (ht : writeTokens toks st [.ver st.version] = .ok (st1, out))
    (hkeep : st1.version = 0 ∧ st1.payload = some b) :
    writeMsg st ⟨toks, false, 2⟩ = .error "auth payload does not fit" := by
  simp only [writeMsg, ht, bind, Except.bind, hkeep.1, hkeep.2, ↓reduceIte, actTwoPayloadSize]
  have : b.length > 500 - 2 := by omega
  simp [this]

/-! ### closed instances (key ids 1..4, passphrase 7, 40 byte payload): exhaustive tables -/

def agree : SideRes × SideRes → Bool
  | (.ok a, .ok b) =>
    a.version == b.version && a.sendKey == b.recvKey && a.recvKey == b.sendKey &&
    a.remoteStatic == some (.pub 3) && b.remoteStatic == some (.pub 1) &&
    a.authData == b.authData && a.digest == b.digest
  | _ => true

/-- without interference, for all 81 version ranges and both patterns: whenever
    both complete they hold the same version, complementary keys, each other's
    true static key, equal digests, and the initiator holds the responder's payload -/
theorem honest_agreement_table :
    ranges.all (fun (a, b, c, d) =>
      agree (run xxPattern (demoI a b none) (demoR c d none) noMitm) &&
      agree (run kkPattern (demoI a b (some (.pub 3))) (demoR c d (some (.pub 1))) noMitm)) = true := by decide

def rewriteMitm (rules : List (Nat × Nat × Field)) : Mitm := fun act fields =>
  fields.zipIdx.map fun (fld, idx) =>
    match rules.find? (fun r => r.1 = act ∧ r.2.1 = idx) with
    | some (_, _, f) => f
    | none => fld

/-- all single-field rewrites of the non-version fields of an XX handshake -/
def xxFieldRewrites : List (Nat × Nat × Field) :=
  [(1, 1, .point none), (1, 1, .point (some (.other 99))), (1, 2, .ct (.garbage 0)),
   (2, 1, .point none), (2, 1, .point (some (.other 99))), (2, 2, .ct (.garbage 0)),
   (2, 3, .ct (.garbage 0)), (2, 4, .ct (.garbage 0)), (3, 1, .ct (.garbage 0)), (3, 2, .ct (.garbage 0))]

def kkFieldRewrites : List (Nat × Nat × Field) :=
  [(1, 1, .point none), (1, 1, .point (some (.other 99))), (1, 2, .ct (.garbage 0)),
   (2, 1, .point none), (2, 1, .point (some (.other 99))), (2, 2, .ct (.garbage 0)), (2, 3, .ct (.garbage 0))]

/-- **tampering with any transcript field aborts**: every rewrite of a point or
    ciphertext field, alone or in pairs, makes at least one side fail — the two
    never both proceed -/
theorem tamper_hashed_aborts_table :
    (xxFieldRewrites.all fun r1 => xxFieldRewrites.all fun r2 =>
      !bothOk (run xxPattern (demoI 0 2 none) (demoR 0 2 none) (rewriteMitm [r1, r2]))) = true ∧
    (kkFieldRewrites.all fun r1 => kkFieldRewrites.all fun r2 =>
      !bothOk (run kkPattern (demoI 0 2 (some (.pub 3))) (demoR 0 2 (some (.pub 1))) (rewriteMitm [r1, r2]))) = true := by
  constructor <;> decide

/-- all substitutions of the three cleartext version bytes of an XX handshake by 0..3 (4 = keep) -/
def versionScripts : List (Nat × Nat × Nat) :=
  (List.range 5).flatMap fun a => (List.range 5).flatMap fun b => (List.range 5).map fun c => (a, b, c)

def versionMitm (s : Nat × Nat × Nat) : Mitm :=
  rewriteMitm (([(1, s.1), (2, s.2.1), (3, s.2.2)].filter fun x => x.2 < 4).map fun x => (x.1, 0, Field.ver x.2))

def versionsDiffer : SideRes × SideRes → Bool
  | (.ok a, .ok b) => a.version != b.version
  | _ => false

/-- The full statement — *every* completed pair agrees on the version, also
    under rewrites of the cleartext version bytes — is false of the protocol as
    implemented: the version byte is not part of the transcript hash. -/
def C04_version_statement : Prop :=
  ∀ s ∈ versionScripts,
    versionsDiffer (run xxPattern (demoI 0 2 none) (demoR 0 2 none) (versionMitm s)) = false

theorem C04_version_split_counterexample : ¬ C04_version_statement := by
  intro h
  have := h (4, 1, 2) (by decide)
  revert this; decide

/-- **complete characterisation** (client and server both supporting 0..2): the
    two sides finish with different versions exactly when act 2's byte is
    rewritten 2→1 and act 3's byte 1→2 (whatever is done to act 1's byte as long
    as the server still accepts it); in every other script the versions agree or
    somebody fails.  Everything else (keys, identities, payload, digest) agrees
    in all 125 scripts. -/
theorem version_scripts_characterised :
    versionScripts.all (fun s =>
      let res := run xxPattern (demoI 0 2 none) (demoR 0 2 none) (versionMitm s)
      (versionsDiffer res == (decide (s.2.1 = 1 ∧ s.2.2 = 2 ∧ s.1 ≠ 3))) &&
      (match res with
       | (.ok a, .ok b) => a.sendKey == b.recvKey && a.recvKey == b.sendKey && a.remoteStatic == some (.pub 3) &&
           b.remoteStatic == some (.pub 1) && a.authData == b.authData && a.digest == b.digest
       | _ => true)) = true := by decide

/-- in the KK pattern only version 2 exists, so no rewrite of the version bytes splits the two sides -/
theorem kk_no_version_split :
    ((List.range 5).all fun a => (List.range 5).all fun b =>
      !versionsDiffer (run kkPattern (demoI 0 2 (some (.pub 3))) (demoR 0 2 (some (.pub 1)))
        (rewriteMitm (([(1, a), (2, b)].filter fun x => x.2 < 4).map fun x => (x.1, 0, Field.ver x.2))))) = true := by
  decide

/-- a version-0 act two is never accepted as version 1/2 or vice versa (the layouts differ) -/
theorem v0_never_confused_with_v12 :
    bothOk (run xxPattern (demoI 0 2 none) (demoR 0 0 none) (versionMitm (4, 1, 4))) = false ∧
    bothOk (run xxPattern (demoI 0 2 none) (demoR 0 2 none) (versionMitm (4, 0, 4))) = false := by decide

end Lnc.Props.C04
