import LncModel.Props.C05
import LncModel.Props.C01Bi
import LncModel.Props.C06Bi
/-
  C05 — the composition carried down to the Go-Back-N transition system itself.

  `transport_stream_prefix` (Props/C05.lean) takes "the GBN layer handed over a
  prefix of what was queued" as a hypothesis.  Here that hypothesis is
  discharged by C01_bi: the statements below quantify over every reachable
  state of the bidirectional connection with its two shared physical channels
  (any window, any interleaving of both directions, any loss / in-place
  duplication / delay), over every sequence of connKit writes on either side
  and over every sequence of read-buffer sizes.
-/
namespace Lnc.Props.C05
open Lnc Lnc.Gbn Lnc.Mailbox Lnc.Mailbox.Stack Lnc.Mailbox.Stream

/-- **C05, safety, both directions, from the relay up to connKit.Read.**
    `wa` / `wb` are the connKit writes issued so far on side A / side B (each a
    record header or a record body, at most 2^32-1 bytes); the packets GBN's
    Send has accepted are a prefix of their packets (a write may still be
    blocked in Send).  Then, whatever the relay has done to the packets, the
    bytes either side has read so far — with any read-buffer sizes — are a
    prefix of the bytes the other side wrote. -/
theorem C05_end_to_end (n : Nat) (hn : 0 < n) (hn254 : n ≤ 254) (β : Bi) (hr : BiReachable n β)
    (wa wb : List Bytes) (hla : ∀ w ∈ wa, w.length < maxLen) (hlb : ∀ w ∈ wb, w.length < maxLen)
    (hA : β.ab.accepted <+: packetsOf wa) (hB : β.ba.accepted <+: packetsOf wb)
    (ksA ksB : List Nat) :
    (kitRead β.ab.out ksB).1.flatten <+: wa.flatten ∧
    (kitRead β.ba.out ksA).1.flatten <+: wb.flatten := by
  obtain ⟨ha, hb⟩ := Lnc.Props.C01.C01_bi n hn hn254 β hr
  exact ⟨transport_stream_prefix wa hla _ (ha.trans hA) ksB,
         transport_stream_prefix wb hlb _ (hb.trans hB) ksA⟩

/-- a read schedule that drains: enough one-byte-or-more reads -/
theorem kitRead_drains (msgs : List Pkt) (ks : List Nat)
    (h : (kitRead msgs ks).2.rest = []) (writes : List Bytes) (hlen : ∀ w ∈ writes, w.length < maxLen)
    (hm : msgs = packetsOf writes) : (kitRead msgs ks).1.flatten = writes.flatten := by
  subst hm
  exact transport_stream_complete writes hlen ks h

/-- **C05, completion once the relay behaves (untimed).**  From every reachable
    state in which both Sends have accepted all packets of the writes `wa`, `wb`,
    a continuation made of retransmissions and in-order deliveries only (no
    loss, no duplication: `biReliable`) reaches a state where nothing is in
    flight, both send queues are empty, and — for every read schedule that
    drains the read buffer — the bytes read on each side *equal* the bytes
    written on the other. -/
theorem C05_completes (n : Nat) (hn : 0 < n) (hn254 : n ≤ 254) (β : Bi) (hr : BiReachable n β)
    (wa wb : List Bytes) (hla : ∀ w ∈ wa, w.length < maxLen) (hlb : ∀ w ∈ wb, w.length < maxLen)
    (hA : β.ab.accepted = packetsOf wa) (hB : β.ba.accepted = packetsOf wb) :
    ∃ ls β', β.run? ls = some β' ∧ (∀ l ∈ ls, Lnc.Props.C06.biReliable l = true) ∧
      β'.chAB = [] ∧ β'.chBA = [] ∧ β'.ab.q.size = 0 ∧ β'.ba.q.size = 0 ∧
      (∀ ks, (kitRead β'.ab.out ks).2.rest = [] → (kitRead β'.ab.out ks).1.flatten = wa.flatten) ∧
      (∀ ks, (kitRead β'.ba.out ks).2.rest = [] → (kitRead β'.ba.out ks).1.flatten = wb.flatten) := by
  obtain ⟨ls, β', hrun, hrel, oa, ob, sa, sb, ca, cb⟩ := Lnc.Props.C06.C06_bi_recovery n hn hn254 β hr
  refine ⟨ls, β', hrun, hrel, ca, cb, sa, sb, ?_, ?_⟩
  · intro ks hd
    exact kitRead_drains _ ks hd wa hla (by rw [oa, hA])
  · intro ks hd
    exact kitRead_drains _ ks hd wb hlb (by rw [ob, hB])

/-! non-vacuity: a reachable bidirectional state (a duplicate, a drop, a
    retransmission, ACKs sharing the channel with DATA) that satisfies the
    hypotheses of `C05_end_to_end` for one 3-byte write on side A, half read -/
def demoWrites : List Bytes := [[9, 8, 7]]
def demoRun : List BiLabel :=
  (packetsOf demoWrites).map BiLabel.sendA ++ [.dupAB, .dropAB, .deliverAB false]

example : ((Bi.init 2).run? demoRun).map (fun β =>
      (decide (β.ab.accepted = packetsOf demoWrites), (kitRead β.ab.out [2]).1))
    = some (true, [[9, 8]]) := by decide

end Lnc.Props.C05
