import LncModel.Proofs.ProtoStep
/-
  C06 — the recovery half of "GBN progress", on the transition system of
  Proto.lean: once the transport stops losing and duplicating packets,

    (1) whatever is still in flight drains (`settle`), and
    (2) ONE resend round — the sender re-offers its window B … T-1, the
        receiver handles the copies in order, the responses come back —
        delivers every accepted message and empties the send queue
        (`resend_round_completes`),

  from EVERY state the invariant allows, hence from every state any history of
  loss, duplication and delay can lead to (`C06_recovery`): no reachable state
  is a silent stall.  The receiver's NACK back-off is a parameter (`fl`, one
  flag per out-of-order packet): the only requirement is the one the code
  meets, that the first out-of-order packet of a round is answered when the
  receiver already has everything (otherwise a sender whose ACKs were all lost
  would never learn it).

  What is not in this file: time.  That the send loop does start such a round
  within the resend timeout is the obligation `resend_reachable_from_every_resting_select`
  on the regenerated facts plus `resend_fires_despite_peer_traffic`; that the
  real connection meets the timed bound is explored on the real code under
  virtual time.
-/
namespace Lnc.Props.C06
open Lnc Lnc.Gbn

/-- labels a reliable transport and an idle application can produce: retransmissions and in-order deliveries -/
def reliable : Label → Bool
  | .retransmit _ => true
  | .fwdDeliver _ => true
  | .bwdDeliver => true
  | _ => false

/-- the value the sender's cumulative counter takes once everything in `bwd` has been processed -/
def lastVal (σ : Uni) : Nat :=
  match σ.bwd.getLast? with
  | some r => r.val
  | none => σ.B

def Synced (σ : Uni) : Prop := lastVal σ = σ.R

theorem run_append (σ : Uni) (a b : List Label) :
    σ.run? (a ++ b) = (σ.run? a).bind (fun σ' => σ'.run? b) := by
  induction a generalizing σ with
  | nil => simp [Uni.run?]
  | cons l ls ih =>
    simp only [List.cons_append, Uni.run?]
    cases σ.step? l with
    | none => simp
    | some σ1 => simpa using ih σ1

theorem lastVal_snoc (σ : Uni) (bwd : List RespW) (r : RespW) (h : σ.bwd = bwd ++ [r]) : lastVal σ = r.val := by
  simp [lastVal, h]

/-! ### one delivery on the forward channel -/

def acceptSt (σ : Uni) (d : DataW) (rest : List DataW) : Uni :=
  { σ with fwd := rest,
           bwd := σ.bwd ++ [⟨.ack, d.seq, σ.R + 1⟩],
           recvSeq := (add8 σ.recvSeq 1) % σ.q.s,
           R := σ.R + 1,
           out := if d.pkt.ping then σ.out else σ.out ++ [d.pkt] }

def rejectSt (σ : Uni) (rest : List DataW) (b : Bool) : Uni :=
  { σ with fwd := rest,
           bwd := if b then σ.bwd ++ [⟨.nack, σ.recvSeq, σ.R⟩] else σ.bwd }

def respSt (σ : Uni) (q' : Queue) (rest : List RespW) (v : Nat) : Uni :=
  { σ with q := q', bwd := rest, B := v }

theorem step_accept (σ : Uni) (d : DataW) (rest : List DataW) (b : Bool) (hf : σ.fwd = d :: rest)
    (ha : d.seq = σ.recvSeq) : σ.step? (.fwdDeliver b) = some (acceptSt σ d rest) := by
  simp [Uni.step?, hf, ha, acceptSt]

theorem step_reject (σ : Uni) (d : DataW) (rest : List DataW) (b : Bool) (hf : σ.fwd = d :: rest)
    (ha : d.seq ≠ σ.recvSeq) : σ.step? (.fwdDeliver b) = some (rejectSt σ rest b) := by
  simp [Uni.step?, hf, ha, rejectSt]

/-- **whatever is in flight towards the receiver can be delivered**, for every
    choice the receiver makes about NACKs; nothing is un-sent or un-logged by it -/
theorem drain_fwd (k : Nat) : ∀ (σ : Uni) (fl : List Bool), Inv σ → σ.fwd.length = k → fl.length = k →
    ∃ σ', σ.run? (fl.map .fwdDeliver) = some σ' ∧ σ'.fwd = [] ∧ σ'.T = σ.T ∧ σ'.log = σ.log ∧ σ'.n = σ.n ∧
      σ'.bwd.length ≤ σ.bwd.length + k := by
  induction k with
  | zero =>
    intro σ fl _ hk hfl
    have : fl = [] := List.length_eq_zero_iff.mp hfl
    subst this
    exact ⟨σ, by simp [Uni.run?], List.length_eq_zero_iff.mp hk, rfl, rfl, rfl, Nat.le_refl _⟩
  | succ k ih =>
    intro σ fl h hk hfl
    match hf : σ.fwd, hfe : fl with
    | [], _ => simp [hf] at hk
    | _ :: _, [] => simp at hfl
    | d :: rest, b :: fl' =>
      have hlen : rest.length = k := by simpa [hf] using hk
      have hfl' : fl'.length = k := by simpa using hfl
      by_cases ha : d.seq = σ.recvSeq
      · have hs := step_accept σ d rest b hf ha
        obtain ⟨σ', hr, h1, h2, h3, h4, h5⟩ := ih _ fl' (inv_step h _ hs) hlen hfl'
        refine ⟨σ', by simp only [List.map_cons, Uni.run?, hs]; exact hr, h1, h2, h3, h4, ?_⟩
        have : (acceptSt σ d rest).bwd.length = σ.bwd.length + 1 := by simp [acceptSt]
        omega
      · have hs := step_reject σ d rest b hf ha
        obtain ⟨σ', hr, h1, h2, h3, h4, h5⟩ := ih _ fl' (inv_step h _ hs) hlen hfl'
        refine ⟨σ', by simp only [List.map_cons, Uni.run?, hs]; exact hr, h1, h2, h3, h4, ?_⟩
        have : (rejectSt σ rest b).bwd.length ≤ σ.bwd.length + 1 := by
          cases b <;> simp [rejectSt]
        omega

/-! ### the responses -/

/-- no response the receiver can have produced is refused: the sender's step on the
    head of the backward channel is enabled, sets `B` to the value it carried -/
theorem bwdDeliver_enabled (σ : Uni) (h : Inv σ) (r : RespW) (rest : List RespW) (hb : σ.bwd = r :: rest) :
    ∃ q', σ.step? .bwdDeliver = some (respSt σ q' rest r.val) := by
  have hro : RespOk σ r := h.bwd_ok r (by simp [hb])
  cases hk : r.kind with
  | ack =>
    have ha := hro.ack_seq hk
    obtain ⟨b, hp⟩ := processACK_spec h r.seq r.val ha.1 hro.lo hro.hi ha.2
    exact ⟨{ σ.q with base := r.val % σ.q.s }, by simp [Uni.step?, hb, hk, hp, respSt]⟩
  | nack => exact ⟨(σ.q.processNACK r.seq).1, by simp [Uni.step?, hb, hk, respSt]⟩

/-- **every response in flight can be processed by the sender** (no ACK or NACK
    the receiver can have produced is refused by `processACK`), and afterwards
    the sender's cumulative counter is the value the last of them carried -/
theorem drain_bwd (m : Nat) : ∀ (σ : Uni), Inv σ → σ.bwd.length = m →
    ∃ σ', σ.run? (List.replicate m .bwdDeliver) = some σ' ∧ σ'.bwd = [] ∧ σ'.B = lastVal σ ∧
      σ'.R = σ.R ∧ σ'.T = σ.T ∧ σ'.log = σ.log ∧ σ'.fwd = σ.fwd ∧ σ'.out = σ.out ∧ σ'.n = σ.n := by
  induction m with
  | zero =>
    intro σ _ hm
    have hb : σ.bwd = [] := List.length_eq_zero_iff.mp hm
    exact ⟨σ, by simp [Uni.run?], hb, by simp [lastVal, hb], rfl, rfl, rfl, rfl, rfl, rfl⟩
  | succ m ih =>
    intro σ h hm
    match hb : σ.bwd with
    | [] => simp [hb] at hm
    | r :: rest =>
      have hlen : rest.length = m := by simpa [hb] using hm
      have hstep := bwdDeliver_enabled σ h r rest hb
      obtain ⟨q', hs⟩ := hstep
      obtain ⟨σ', hr, h1, h2, h3, h4, h5, h6, h7, h8⟩ := ih _ (inv_step h _ hs) hlen
      refine ⟨σ', by simp only [List.replicate_succ, Uni.run?, hs]; exact hr, h1, ?_, h3, h4, h5, h6, h7, h8⟩
      rw [h2]
      cases rest with
      | nil => simp [lastVal, hb, respSt]
      | cons r2 rest2 =>
        simp only [lastVal, hb, respSt, List.getLast?_cons_cons]
        rw [List.getLast?_eq_some_getLast (List.cons_ne_nil r2 rest2)]

/-- **(1) settling**: under a reliable transport everything in flight is consumed —
    for every reachable state and every NACK choice of the receiver -/
theorem settle (σ : Uni) (h : Inv σ) (fl : List Bool) (hfl : fl.length = σ.fwd.length) :
    ∃ m σ', σ.run? (fl.map .fwdDeliver ++ List.replicate m .bwdDeliver) = some σ' ∧
      σ'.fwd = [] ∧ σ'.bwd = [] ∧ σ'.T = σ.T ∧ σ'.log = σ.log ∧ σ'.n = σ.n ∧ Inv σ' ∧
      m ≤ σ.bwd.length + σ.fwd.length := by
  obtain ⟨σ1, hr1, hf1, hT1, hl1, hn1, hlen1⟩ := drain_fwd σ.fwd.length σ fl h rfl hfl
  have hi1 := inv_run h _ hr1
  obtain ⟨σ2, hr2, hb2, _, _, hT2, hl2, hf2, _, hn2⟩ := drain_bwd σ1.bwd.length σ1 hi1 rfl
  refine ⟨σ1.bwd.length, σ2, ?_, by rw [hf2, hf1], hb2, by rw [hT2, hT1], by rw [hl2, hl1], by rw [hn2, hn1],
    inv_run hi1 _ hr2, hlen1⟩
  rw [run_append, hr1]; exact hr2

/-! ### the resend round -/

/-- the sender re-offers the packets with absolute indices a, a+1, …, a+k-1 = T-1 -/
theorem retransmit_range (k : Nat) : ∀ (a : Nat) (σ : Uni), Inv σ → σ.B ≤ a → a + k = σ.T →
    ∃ σ', σ.run? ((List.range' a k).map .retransmit) = some σ' ∧
      σ'.fwd.map (·.idx) = σ.fwd.map (·.idx) ++ List.range' a k ∧
      σ'.R = σ.R ∧ σ'.T = σ.T ∧ σ'.B = σ.B ∧ σ'.log = σ.log ∧ σ'.bwd = σ.bwd ∧ σ'.n = σ.n := by
  induction k with
  | zero => intro a σ _ _ _; exact ⟨σ, by simp [Uni.run?], by simp, rfl, rfl, rfl, rfl, rfl, rfl⟩
  | succ k ih =>
    intro a σ h hB hT
    have hw := h.win
    have hs : σ.step? (.retransmit a) =
        some { σ with fwd := σ.fwd ++ [⟨a % σ.q.s, σ.content (a % σ.q.s), a, σ.T⟩] } := by
      simp only [Uni.step?]
      rw [if_pos (by omega)]
    obtain ⟨σ', hr, h1, h2, h3, h4, h5, h6, h7⟩ := ih (a + 1) _ (inv_step h _ hs) (by simpa using by omega) (by simpa using by omega)
    refine ⟨σ', by simp only [List.range'_succ, List.map_cons, Uni.run?, hs]; exact hr, ?_, h2, h3, h4, h5, h6, h7⟩
    rw [h1]; simp [List.range'_succ]

/-- the receiver handles the re-offered copies a … a+k-1 in order: afterwards it
    has everything up to a+k, and the responses it produced end with its
    current count — provided it answered at all -/
theorem deliver_range (k : Nat) : ∀ (a : Nat) (σ : Uni) (fl : List Bool), Inv σ →
    σ.fwd.map (·.idx) = List.range' a k → fl.length = k → a ≤ σ.R → σ.R ≤ a + k →
    ∃ σ', σ.run? (fl.map .fwdDeliver) = some σ' ∧ σ'.fwd = [] ∧ σ'.R = a + k ∧ σ'.T = σ.T ∧
      σ'.B = σ.B ∧ σ'.log = σ.log ∧ σ'.n = σ.n ∧
      ((Synced σ ∨ σ.R < a + k ∨ fl.head? = some true) → Synced σ') ∧ σ'.bwd.length ≤ σ.bwd.length + k := by
  induction k with
  | zero =>
    intro a σ fl _ hf hfl h1 h2
    have : fl = [] := List.length_eq_zero_iff.mp hfl
    subst this
    have hf' : σ.fwd = [] := by simpa using hf
    refine ⟨σ, by simp [Uni.run?], hf', by omega, rfl, rfl, rfl, rfl, ?_, Nat.le_refl _⟩
    intro hh
    rcases hh with hh | hh | hh
    · exact hh
    · omega
    · simp at hh
  | succ k ih =>
    intro a σ fl h hf hfl h1 h2
    match hfw : σ.fwd, hfe : fl with
    | [], _ => simp [hfw, List.range'_succ] at hf
    | _ :: _, [] => simp at hfl
    | d :: rest, b :: fl' =>
      have hfl' : fl'.length = k := by simpa using hfl
      rw [hfw, List.range'_succ] at hf
      simp only [List.map_cons, List.cons.injEq] at hf
      obtain ⟨hidx, hrest⟩ := hf
      have hd : DataOk σ d := h.fwd_ok d (by simp [hfw])
      have hacc := accept_iff h d hd
      by_cases ha : σ.R = a
      · -- the next packet: accepted, acknowledged
        have hseq : d.seq = σ.recvSeq := hacc.mpr (by omega)
        have hs := step_accept σ d rest b hfw hseq
        obtain ⟨σ', hr, g1, g2, g3, g4, g5, g6, g7, g8⟩ :=
          ih (a + 1) _ fl' (inv_step h _ hs) hrest hfl' (by show a + 1 ≤ σ.R + 1; omega) (by show σ.R + 1 ≤ a + 1 + k; omega)
        have hbl : (acceptSt σ d rest).bwd.length = σ.bwd.length + 1 := by simp [acceptSt]
        refine ⟨σ', by simp only [List.map_cons, Uni.run?, hs]; exact hr, g1, by rw [g2]; omega, g3, g4, g5, g6, ?_, by omega⟩
        intro _
        apply g7
        left
        simp [Synced, lastVal, acceptSt]
      · -- an older copy: rejected, possibly NACKed
        have hseq : d.seq ≠ σ.recvSeq := fun he => ha (by have := hacc.mp he; omega)
        have hs := step_reject σ d rest b hfw hseq
        obtain ⟨σ', hr, g1, g2, g3, g4, g5, g6, g7, g8⟩ :=
          ih (a + 1) _ fl' (inv_step h _ hs) hrest hfl' (by show a + 1 ≤ σ.R; omega) (by show σ.R ≤ a + 1 + k; omega)
        have hbl : (rejectSt σ rest b).bwd.length ≤ σ.bwd.length + 1 := by cases b <;> simp [rejectSt]
        refine ⟨σ', by simp only [List.map_cons, Uni.run?, hs]; exact hr, g1, by rw [g2]; omega, g3, g4, g5, g6, ?_, by omega⟩
        intro hh
        apply g7
        rcases hh with hh | hh | hh
        · left
          cases b with
          | true => simp [Synced, lastVal, rejectSt]
          | false => simpa [Synced, lastVal, rejectSt] using hh
        · right; left; show σ.R < a + 1 + k; omega
        · left
          have : b = true := by simpa using hh
          subst this
          simp [Synced, lastVal, rejectSt]

/-- **(2) one resend round completes the transfer.**  From every state the
    invariant allows in which the channels are empty (a stall candidate: data
    outstanding, nothing in flight), the round

      retransmit B … T-1 ; the receiver handles them in order ; the sender reads the responses

    is enabled, and leaves: every accepted message delivered, in order, exactly
    once (`out = accepted`), the send queue empty (`size = 0`, so the resend loop
    is silent from then on), nothing in flight.  `fl` is the receiver's NACK
    back-off (any), except that when it already had everything it answers the
    first copy. -/
theorem resend_round_completes (σ : Uni) (h : Inv σ) (hf : σ.fwd = []) (hb : σ.bwd = [])
    (fl : List Bool) (hfl : fl.length = σ.T - σ.B)
    (hnack : σ.R = σ.T → σ.B < σ.T → fl.head? = some true) :
    ∃ m σ', σ.run? ((List.range' σ.B (σ.T - σ.B)).map .retransmit ++ fl.map .fwdDeliver ++
                    List.replicate m .bwdDeliver) = some σ' ∧
      σ'.out = σ.accepted ∧ σ'.q.size = 0 ∧ σ'.fwd = [] ∧ σ'.bwd = [] ∧
      σ'.B = σ.T ∧ σ'.R = σ.T ∧ σ'.T = σ.T ∧ σ'.log = σ.log ∧ m ≤ σ.T - σ.B := by
  have hBR := h.BR; have hRT := h.RT
  obtain ⟨σ1, hr1, e1, hR1, hT1, hB1, hl1, hb1, hn1⟩ :=
    retransmit_range (σ.T - σ.B) σ.B σ h (Nat.le_refl _) (by omega)
  have hi1 := inv_run h _ hr1
  rw [hf] at e1; simp only [List.map_nil, List.nil_append] at e1
  obtain ⟨σ2, hr2, hf2, hR2, hT2, hB2, hl2, hn2, hsync, hlen2⟩ :=
    deliver_range (σ.T - σ.B) σ.B σ1 fl hi1 e1 hfl (by omega) (by omega)
  have hi2 := inv_run hi1 _ hr2
  have hs1 : Synced σ1 ∨ σ1.R < σ.B + (σ.T - σ.B) ∨ fl.head? = some true := by
    by_cases hRT' : σ.R = σ.T
    · by_cases hBT : σ.B < σ.T
      · right; right; exact hnack hRT' hBT
      · left; simp only [Synced, lastVal, hb1, hb, List.getLast?_nil]; omega
    · right; left; omega
  have hsy2 : lastVal σ2 = σ2.R := hsync hs1
  obtain ⟨σ3, hr3, hb3, hB3, hR3, hT3, hl3, hf3, ho3, hn3⟩ := drain_bwd σ2.bwd.length σ2 hi2 rfl
  have hi3 := inv_run hi2 _ hr3
  have hR3' : σ3.R = σ.T := by rw [hR3, hR2]; omega
  have hT3' : σ3.T = σ.T := by rw [hT3, hT2, hT1]
  have hB3' : σ3.B = σ.T := by rw [hB3, hsy2, hR2]; omega
  have hl3' : σ3.log = σ.log := by rw [hl3, hl2, hl1]
  refine ⟨σ2.bwd.length, σ3, ?_, ?_, ?_, by rw [hf3, hf2], hb3, hB3', hR3', hT3', hl3', by rw [hb1, hb] at hlen2; simpa using hlen2⟩
  · rw [run_append, run_append, hr1]; simp only [Option.bind_some, hr2]; exact hr3
  · rw [hi3.out_eq, hR3', hl3', Uni.accepted, List.take_of_length_le (by rw [h.log_len]; omega)]
  · rw [size_eq hi3, hB3', hT3']; omega

/-- every label of the recovery schedule is one a reliable transport produces -/
theorem round_reliable (B k m : Nat) (fl : List Bool) :
    ∀ l ∈ (List.range' B k).map Label.retransmit ++ fl.map Label.fwdDeliver ++ List.replicate m Label.bwdDeliver,
      reliable l = true := by
  intro l hl
  simp only [List.mem_append, List.mem_map, List.mem_replicate] at hl
  rcases hl with (⟨_, _, rfl⟩ | ⟨_, _, rfl⟩) | ⟨_, rfl⟩ <;> rfl

/-- **C06, recovery (untimed): no reachable state is a silent stall.**  From
    every state the data phase can reach — after any history of sends, losses,
    duplications and delays, for every window size 1 ≤ n ≤ 254 — there is a
    schedule of nothing but retransmissions and in-order deliveries (no new
    sends, no drops, no duplicates) after which every message Send accepted has
    been handed to the peer's Recv, exactly once and in order, and the send
    queue is empty.  The schedule is short: at most two steps per packet in
    flight forward, one per response in flight, and three per window slot — so
    with a bound on the time one step takes (a resend timeout for the round to
    start, a latency per delivery) recovery takes bounded time. -/
theorem C06_recovery (n : Nat) (hn : 0 < n) (hn254 : n ≤ 254) (σ : Uni) (hr : Reachable n σ) :
    ∃ ls σ', σ.run? ls = some σ' ∧ (∀ l ∈ ls, reliable l = true) ∧
      σ'.out = σ.accepted ∧ σ'.q.size = 0 ∧ σ'.fwd = [] ∧ σ'.bwd = [] ∧ σ'.log = σ.log ∧
      ls.length ≤ 2 * σ.fwd.length + σ.bwd.length + 3 * σ.n := by
  have h := inv_reachable hn hn254 hr
  obtain ⟨m1, σ1, hr1, hf1, hb1, hT1, hl1, hn1, hi1, hm1⟩ :=
    settle σ h (List.replicate σ.fwd.length true) (by simp)
  obtain ⟨m2, σ2, hr2, ho2, hq2, hf2, hb2, _, _, _, hl2, hm2⟩ :=
    resend_round_completes σ1 hi1 hf1 hb1 (List.replicate (σ1.T - σ1.B) true) (by simp)
      (by intro _ hlt; cases hk : σ1.T - σ1.B with
          | zero => omega
          | succ k => simp [List.replicate_succ])
  refine ⟨_ ++ _, σ2, by rw [run_append, hr1]; exact hr2, ?_, ?_, hq2, hf2, hb2, by rw [hl2, hl1], ?_⟩
  · intro l hl
    rcases List.mem_append.mp hl with hl | hl
    · simp only [List.mem_append, List.mem_map, List.mem_replicate] at hl
      rcases hl with ⟨_, _, rfl⟩ | ⟨_, rfl⟩ <;> rfl
    · exact round_reliable _ _ _ _ l hl
  · rw [ho2, Uni.accepted, Uni.accepted, hl1]
  · have hw := hi1.win
    simp only [List.length_append, List.length_map, List.length_replicate, List.length_range']
    omega

/-- **a blocked Send is released**: from every reachable state — in particular one
    whose window is full, so that `Send` blocks — the same kind of schedule leads
    to a state in which the send loop accepts the next message, whatever it is -/
theorem C06_send_unblocks (n : Nat) (hn : 0 < n) (hn254 : n ≤ 254) (σ : Uni) (hr : Reachable n σ) :
    ∃ ls σ', σ.run? ls = some σ' ∧ (∀ l ∈ ls, reliable l = true) ∧ ∀ p, (σ'.step? (.sendNew p)).isSome = true := by
  have h := inv_reachable hn hn254 hr
  obtain ⟨ls, σ', hrun, hrel, _, hq, _, _, _, _⟩ := C06_recovery n hn hn254 σ hr
  have hi := inv_run h ls hrun
  refine ⟨ls, σ', hrun, hrel, fun p => ?_⟩
  have hpos := hi.n_pos
  simp only [Uni.step?]
  rw [if_pos (by omega), addPacket_eq hi]
  rfl

/-! non-vacuity: a stalled state (two packets sent, both lost) and its recovery -/
def stalled : Option Uni :=
  (Uni.init 2).run? [.sendNew ⟨[1], true, false⟩, .sendNew ⟨[2], true, false⟩, .fwdDrop, .fwdDrop]

example : (stalled.map fun σ => (σ.fwd.length, σ.bwd.length, σ.B, σ.R, σ.T, σ.out.length)) = some (0, 0, 0, 0, 2, 0) := by
  decide

example : ((stalled.bind fun σ => σ.run? [.retransmit 0, .retransmit 1, .fwdDeliver true, .fwdDeliver true,
              .bwdDeliver, .bwdDeliver]).map fun σ => (σ.out.map (·.payload), σ.q.size, σ.B)) = some ([[1], [2]], 0, 2) := by
  decide

end Lnc.Props.C06
