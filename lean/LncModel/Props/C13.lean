import LncModel.Control
/-
  C13 — Keepalive: dead peers are detected in bounded time, live idle peers are
  kept.
-/
namespace Lnc.Props.C13
open Lnc.Gbn.Control

/-- the peer answers every ping in time: while a pong deadline `d` is armed, the
    loop never observes a time ≥ d before a packet has arrived -/
def Answered (k : KA) : List Ev → Prop
  | [] => True
  | e :: es =>
    (match k.pongDue, e with
     | some d, .service t => t < d
     | _, _ => True) ∧ Answered (k.step e) es

/-- **a connection whose peer answers within the pong timeout is never closed by
    keepalive, however long it stays idle** — for every ping/pong setting and
    every event history -/
theorem live_peer_never_closed (k : KA) (hk : k.closed = false) (evs : List Ev) (h : Answered k evs) :
    (k.run evs).closed = false := by
  induction evs generalizing k with
  | nil => exact hk
  | cons e es ih =>
    obtain ⟨h1, h2⟩ := h
    apply ih (k.step e) _ h2
    cases e with
    | pkt t => simp [KA.step, hk]
    | service t =>
      simp only [KA.step, hk, Bool.false_eq_true, ↓reduceIte]
      cases hp : k.pongDue with
      | none => simp only; split <;> simp [hk]
      | some d =>
        simp only [hp] at h1
        have : ¬ d ≤ t := by omega
        simp only [this, ↓reduceIte]
        split <;> simp [hk]

/-- service instants of a loop that is never away from its keepalive-servicing
    selects for longer than `W` (W bounds one resend round: 3 × resend timeout) -/
def Dense (W : Nat) (from_ : Nat) : List Nat → Prop
  | [] => True
  | t :: ts => from_ ≤ t ∧ t ≤ from_ + W ∧ Dense W t ts

theorem closed_stays (k : KA) (hk : k.closed = true) (evs : List Ev) : (k.run evs).closed = true := by
  induction evs generalizing k with
  | nil => exact hk
  | cons e es ih =>
    apply ih
    cases e <;> simp [KA.step, hk]

/-- silence with the pong timer armed for `d`: closed at the first service instant ≥ d -/
theorem armed_closes (k : KA) (hk : k.closed = false) (d : Nat) (hp : k.pongDue = some d)
    (ts : List Nat) (hlast : ∃ t ∈ ts, d ≤ t) :
    (k.run (ts.map Ev.service)).closed = true := by
  induction ts generalizing k with
  | nil => obtain ⟨t, ht, _⟩ := hlast; cases ht
  | cons t ts ih =>
    simp only [List.map_cons, KA.run, List.foldl_cons]
    by_cases hdt : d ≤ t
    · have : (k.step (.service t)).closed = true := by simp [KA.step, hk, hp, hdt]
      exact closed_stays _ this _
    · have hrest : ∃ t' ∈ ts, d ≤ t' := by
        obtain ⟨t', ht', hd'⟩ := hlast
        rcases List.mem_cons.mp ht' with rfl | hm
        · exact absurd hd' hdt
        · exact ⟨t', hm, hd'⟩
      have hs : (k.step (.service t)).closed = false ∧ (k.step (.service t)).pongDue = some d := by
        simp only [KA.step, hk, hp, hdt, Bool.false_eq_true, ↓reduceIte]
        split
        · exact ⟨rfl, rfl⟩
        · exact ⟨hk, hp⟩
      exact ih _ hs.1 hs.2 hrest

/-- **dead peer**: if nothing is received any more and the send loop reaches a
    keepalive-servicing select at least every `W` (W bounds one resend round),
    the connection is closed at the latest at the first service instant at or
    after `max(pingDue, now) + W + Q` — whatever the loop is doing (idle,
    sending, or sitting on a full window: that is the hypothesis on the selects,
    discharged on the regenerated facts).  `armed_closes` covers the case in
    which a ping is already outstanding when the silence begins. -/
theorem dead_peer_closed (W : Nat) (k : KA) (hk : k.closed = false) (hQ : 0 < k.Q) (hp : k.pongDue = none)
    (from_ : Nat) (ts : List Nat) (hd : Dense W from_ ts)
    (hlast : ∃ t ∈ ts, max k.pingDue from_ + W + k.Q ≤ t) :
    (k.run (ts.map Ev.service)).closed = true := by
  induction ts generalizing k from_ with
  | nil => obtain ⟨t, ht, _⟩ := hlast; cases ht
  | cons t ts ih =>
    obtain ⟨h1, h2, h3⟩ := hd
    obtain ⟨t', ht', hb⟩ := hlast
    simp only [List.map_cons, KA.run, List.foldl_cons]
    by_cases hping : k.pingDue ≤ t
    · -- the ping fires now and arms the pong timer for t + Q
      have hs : k.step (.service t) = { k with pongDue := some (t + k.Q), pingDue := t + k.P } := by
        simp [KA.step, hk, hp, hping]
      rw [hs]
      show (KA.run { k with pongDue := some (t + k.Q), pingDue := t + k.P } (ts.map Ev.service)).closed = true
      apply armed_closes { k with pongDue := some (t + k.Q), pingDue := t + k.P } hk (t + k.Q) rfl ts
      have hne : t' ≠ t := by
        intro he; subst he
        have : max k.pingDue from_ + W + k.Q ≤ t' := hb
        have : max k.pingDue from_ ≥ from_ := Nat.le_max_right _ _
        omega
      rcases List.mem_cons.mp ht' with he | hm
      · exact absurd he hne
      · refine ⟨t', hm, ?_⟩
        have : max k.pingDue from_ ≥ from_ := Nat.le_max_right _ _
        omega
    · -- nothing due yet: the state is unchanged
      have hs : k.step (.service t) = k := by simp [KA.step, hk, hp, hping]
      rw [hs]
      apply ih k hk hQ hp t h3
      have hmax : max k.pingDue t = k.pingDue := Nat.max_eq_left (by omega)
      have hmax' : max k.pingDue from_ = k.pingDue := Nat.max_eq_left (by omega)
      rw [hmax]; rw [hmax'] at hb
      rcases List.mem_cons.mp ht' with he | hm
      · subst he; omega
      · exact ⟨t', hm, hb⟩

/-- the pre-repair behaviour, as a model: restarting the pong timer on every ping
    lets a ping interval shorter than the pong timeout postpone closure for ever -/
def stepRestart (k : KA) (t : Nat) : KA :=
  if k.closed then k
  else match k.pongDue with
    | some d => if d ≤ t then { k with closed := true }
                else if k.pingDue ≤ t then { k with pongDue := some (t + k.Q), pingDue := t + k.P } else k
    | none => if k.pingDue ≤ t then { k with pongDue := some (t + k.Q), pingDue := t + k.P } else k

theorem restart_never_closes_counterexample :
    ((List.range 40).foldl (fun k i => stepRestart k (i + 1)) ⟨1, 5, 1, none, false⟩).closed = false := by
  decide

/-! non-vacuity: ping 5, pong 3: silence ⇒ closed; answered pings ⇒ open -/
example : (KA.run ⟨5, 3, 5, none, false⟩ [.service 5, .service 6, .service 8]).closed = true := by decide
example : (KA.run ⟨5, 3, 5, none, false⟩ [.service 5, .pkt 7, .service 8, .service 12, .pkt 14, .service 30]).closed = false := by decide
example : Answered ⟨5, 3, 5, none, false⟩ [.service 5, .pkt 7, .service 8, .service 12, .pkt 14] := by
  simp [Answered, KA.step]

end Lnc.Props.C13
