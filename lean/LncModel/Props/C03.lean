import LncModel.Noise
/-
  C03 — Only holders of the pairing secret or paired keys can complete a
  handshake.  Symbolic model (see Noise.lean for the idealisation).
-/
namespace Lnc.Props.C03
open Lnc Lnc.Mailbox.Noise

def failed : SideRes → Bool
  | .ok _ => false
  | _ => true

/-- the responder had put nothing on the wire when the run ended -/
def responderWroteNothing (p : Pattern) (r : SideRes) : Bool :=
  match r with
  | .newFail _ => true
  | .fail a _ => (p.msgs.filter fun m => m.initiator = false ∧ m.act < a).isEmpty
  | .ok _ => false

def act1xx : MsgPattern := ⟨[.me], true, 1⟩
def act1kk : MsgPattern := ⟨[.e, .es, .ss], true, 1⟩

/-- shape of what the initiator puts on the wire in XX act 1 -/
theorem write_act1_xx (st st' : St) (fields : List Field) (h : writeMsg st act1xx = .ok (st', fields)) :
    ∃ c : Ct, fields = [.ver st.version, .point (some (.masked st.le st.pw)), .ct (.hon c)] ∧
      c.ad = st.h ++ [.pt (.pub st.le)] ∧ c.pl = .empty := by
  simp only [writeMsg, act1xx, writeTokens, Lnc.Mailbox.Noise.mixHash, ekeMask, bind, Except.bind, pure, Except.pure,
    List.nil_append, List.cons_append] at h
  split at h
  · simp only [show ¬ (1 = 2) by decide, ↓reduceIte, encryptAndHash, Except.ok.injEq, Prod.mk.injEq] at h
    obtain ⟨_, rfl⟩ := h
    exact ⟨_, rfl, rfl, rfl⟩
  · split at h
    · simp only [show ¬ (1 = 2) by decide, ↓reduceIte, encryptAndHash, Except.ok.injEq, Prod.mk.injEq] at h
      obtain ⟨_, rfl⟩ := h
      exact ⟨_, rfl, rfl, rfl⟩
    · cases h

/-- **the responder cannot get past act 1 without the passphrase**: whatever
    version byte is presented, a first message built with another passphrase
    fails the MAC check in act 1 -/
theorem read_act1_xx_wrong_pw (r : St) (v le pw : Nat) (c : Ct) (hpw : pw ≠ r.pw)
    (had : c.ad = r.h ++ [.pt (.pub le)]) :
    ∃ e, readMsg r act1xx [.ver v, .point (some (.masked le pw)), .ct (.hon c)] = .error e := by
  have hne : ¬ (c.ad = r.h ++ [Tok.pt (Pt.unmasked le pw r.pw)]) := by
    rw [had]; intro h
    have := List.append_cancel_left h
    simp at this
  have hpwf : (pw = r.pw) = False := by simp [hpw]
  simp only [readMsg, act1xx, true_or, ↓reduceIte, bind, Except.bind, pure, Except.pure]
  by_cases hv : v < r.minV ∨ v > r.maxV
  · simp only [hv, ↓reduceIte]; exact ⟨_, rfl⟩
  · simp only [hv, ↓reduceIte, readTokens, ekeUnmask, if_neg hpw, Lnc.Mailbox.Noise.mixHash, pure, Except.pure]
    by_cases hi : r.initiator = true
    · simp only [hi, ↓reduceIte]
      by_cases h0 : v = 0
      · simp [h0, decryptAndHash, hne, hpwf]
      · by_cases h12 : v = 1 ∨ v = 2
        · simp [h0, h12, decryptAndHash, hne, hpwf]
        · simp [h0, h12]
    · simp only [hi, Bool.false_eq_true, ↓reduceIte]
      by_cases h0 : v = 0
      · simp [h0, decryptAndHash, hne, hpwf]
      · by_cases h12 : v = 1 ∨ v = 2
        · simp [h0, h12, decryptAndHash, hne, hpwf]
        · simp [h0, h12]

theorem initSt_xx (initiator : Bool) (ls le : Nat) (rs : Option Pt) (pw : Nat) (pl : Option Bytes) (a b : Nat) :
    ∃ st, initSt xxPattern initiator ls le rs pw pl a b = .ok st ∧ st.h = [.proto false, .prologue] ∧
      st.le = le ∧ st.pw = pw := by
  simp [initSt, xxPattern, bind, Except.bind, pure, Except.pure, List.foldlM]

/-- **First-time (XX) handshake with different passphrases**: for all keys, all
    version ranges, all auth payloads — the responder fails in act 1, before it
    has written anything (so the auth payload is never released), the initiator
    fails too, nobody obtains session keys. -/
theorem xx_wrong_pw (ci cr : Cfg) (hpw : ci.pw ≠ cr.pw) :
    failed (run xxPattern ci cr noMitm).1 = true ∧ failed (run xxPattern ci cr noMitm).2 = true ∧
    responderWroteNothing xxPattern (run xxPattern ci cr noMitm).2 = true := by
  obtain ⟨i, hi, hih, hile, hipw⟩ := initSt_xx true ci.ls ci.le ci.rs ci.pw ci.payload ci.minV ci.maxV
  obtain ⟨r, hr, hrh, _, hrpw⟩ := initSt_xx false cr.ls cr.le cr.rs cr.pw cr.payload cr.minV cr.maxV
  simp only [run, hi, hr]
  have hmsgs : xxPattern.msgs = act1xx :: [⟨[.e, .ee, .s, .es], false, 2⟩, ⟨[.s, .se], true, 3⟩] := rfl
  rw [hmsgs]
  simp only [runActs, act1xx, ↓reduceIte]
  cases hw : writeMsg i ⟨[.me], true, 1⟩ with
  | error e => simp [failed, responderWroteNothing, xxPattern]
  | ok wf =>
    obtain ⟨w', fields⟩ := wf
    obtain ⟨c, hf, had, _⟩ := write_act1_xx i w' fields hw
    have hpw' : i.pw ≠ r.pw := by rw [hipw, hrpw]; exact hpw
    obtain ⟨e, he⟩ := read_act1_xx_wrong_pw r i.version i.le i.pw c hpw' (by rw [had, hih, hrh])
    simp only [noMitm, hf]
    have he' : readMsg r ⟨[.me], true, 1⟩ [.ver i.version, .point (some (.masked i.le i.pw)), .ct (.hon c)] = .error e := he
    rw [he']
    simp [failed, responderWroteNothing, xxPattern]

/-! ### repeat (KK) handshakes: each side must be the key the other stored -/

theorem initSt_kk (initiator : Bool) (ls le : Nat) (rs : Pt) (pw : Nat) (pl : Option Bytes) (a b : Nat)
    (st : St) (h : initSt kkPattern initiator ls le (some rs) pw pl a b = .ok st) :
    st.h = [.proto true, .prologue] ++ (if initiator then [.pt (.pub ls), .pt rs] else [.pt rs, .pt (.pub ls)]) ∧
      st.le = le ∧ st.ls = ls ∧ st.rs = some rs ∧ st.initiator = initiator := by
  simp only [initSt, kkPattern, bind, Except.bind, pure, Except.pure] at h
  split at h
  · cases h
  · cases initiator <;>
      simp [List.foldlM, Lnc.Mailbox.Noise.mixHash, bind, Except.bind, pure, Except.pure] at h <;>
      subst h <;> simp

/-- shape of what the initiator puts on the wire in KK act 1 -/
theorem write_act1_kk (st st' : St) (fields : List Field) (hi : st.initiator = true)
    (h : writeMsg st act1kk = .ok (st', fields)) :
    ∃ c : Ct, fields = [.ver st.version, .point (some (.pub st.le)), .ct (.hon c)] ∧
      c.ad = st.h ++ [.pt (.pub st.le)] := by
  simp only [writeMsg, act1kk, writeTokens, dhToken, hi, Lnc.Mailbox.Noise.mixHash, bind, Except.bind, pure,
    Except.pure, ↓reduceIte, List.nil_append, List.cons_append, need] at h
  cases hrs : st.rs with
  | none => simp [hrs] at h
  | some rs =>
    simp only [hrs, mixKey] at h
    split at h
    · simp only [show ¬ (1 = 2) by decide, ↓reduceIte, encryptAndHash, Except.ok.injEq, Prod.mk.injEq] at h
      obtain ⟨_, rfl⟩ := h
      exact ⟨_, rfl, rfl⟩
    · split at h
      · simp only [show ¬ (1 = 2) by decide, ↓reduceIte, encryptAndHash, Except.ok.injEq, Prod.mk.injEq] at h
        obtain ⟨_, rfl⟩ := h
        exact ⟨_, rfl, rfl⟩
      · cases h

/-- a responder whose transcript prefix differs from the initiator's rejects act 1 -/
theorem read_act1_kk_mismatch (r : St) (v le : Nat) (c : Ct) (hh : List Tok) (hne : hh ≠ r.h)
    (rs : Pt) (hrs : r.rs = some rs) (hi : r.initiator = false)
    (had : c.ad = hh ++ [.pt (.pub le)]) :
    ∃ e, readMsg r act1kk [.ver v, .point (some (.pub le)), .ct (.hon c)] = .error e := by
  have hne' : ¬ (c.ad = r.h ++ [Tok.pt (Pt.pub le)]) := by
    rw [had]; intro h
    exact hne (List.append_cancel_right h)
  simp only [readMsg, act1kk, true_or, ↓reduceIte, bind, Except.bind, pure, Except.pure]
  by_cases hv : v < r.minV ∨ v > r.maxV
  · simp only [hv, ↓reduceIte]; exact ⟨_, rfl⟩
  · simp only [hv, ↓reduceIte, readTokens, dhToken, Lnc.Mailbox.Noise.mixHash, need, mixKey, bind, Except.bind,
      pure, Except.pure]
    by_cases h0 : v = 0
    · simp [hrs, h0, hi, decryptAndHash, hne']
    · by_cases h12 : v = 1 ∨ v = 2
      · simp [hrs, h0, h12, hi, decryptAndHash, hne']
      · simp [hrs, h0, h12, hi]

/-- **Repeat (KK) handshake**: if the responder's stored initiator key is not the
    initiator's static key, or the initiator's stored responder key is not the
    responder's, then — for all keys, version ranges and payloads — the
    responder fails in act 1 without having written anything, and the initiator
    fails too. -/
theorem kk_wrong_expected (ci cr : Cfg) (rsI rsR : Pt) (hci : ci.rs = some rsI) (hcr : cr.rs = some rsR)
    (hmis : rsR ≠ .pub ci.ls ∨ rsI ≠ .pub cr.ls) :
    failed (run kkPattern ci cr noMitm).1 = true ∧ failed (run kkPattern ci cr noMitm).2 = true ∧
    responderWroteNothing kkPattern (run kkPattern ci cr noMitm).2 = true := by
  simp only [run, hci, hcr]
  cases hi : initSt kkPattern true ci.ls ci.le (some rsI) ci.pw ci.payload ci.minV ci.maxV with
  | error e =>
    cases initSt kkPattern false cr.ls cr.le (some rsR) cr.pw cr.payload cr.minV cr.maxV <;>
      simp [failed, responderWroteNothing, kkPattern]
  | ok i =>
    cases hr : initSt kkPattern false cr.ls cr.le (some rsR) cr.pw cr.payload cr.minV cr.maxV with
    | error e => simp [failed, responderWroteNothing, kkPattern]
    | ok r =>
      obtain ⟨hih, hile, _, _, hiinit⟩ := initSt_kk true _ _ _ _ _ _ _ i hi
      obtain ⟨hrh, _, _, hrrs, hrinit⟩ := initSt_kk false _ _ _ _ _ _ _ r hr
      have hmsgs : kkPattern.msgs = act1kk :: [⟨[.e, .ee, .se], false, 2⟩] := rfl
      simp only [hmsgs, runActs, act1kk, ↓reduceIte]
      cases hw : writeMsg i ⟨[.e, .es, .ss], true, 1⟩ with
      | error e => simp [failed, responderWroteNothing, kkPattern]
      | ok wf =>
        obtain ⟨w', fields⟩ := wf
        obtain ⟨c, hf, had⟩ := write_act1_kk i w' fields hiinit hw
        have hne : i.h ≠ r.h := by
          rw [hih, hrh]
          simp only [↓reduceIte, Bool.false_eq_true]
          intro h
          have := List.append_cancel_left h
          simp at this
          rcases hmis with h1 | h1
          · exact h1 this.1.symm
          · exact h1 this.2
        obtain ⟨e, he⟩ := read_act1_kk_mismatch r i.version i.le c i.h hne rsR hrrs hrinit had
        simp only [noMitm, hf]
        have he' : readMsg r ⟨[.e, .es, .ss], true, 1⟩ [.ver i.version, .point (some (.pub i.le)), .ct (.hon c)] = .error e := he
        rw [he']
        simp [failed, responderWroteNothing, kkPattern]

/-- the responder of both patterns reads before it writes: its first write is in
    act 2, after act 1 has authenticated (structural, from the pattern data) -/
theorem responder_reads_first :
    (xxPattern.msgs.head?.map (·.initiator)) = some true ∧ (kkPattern.msgs.head?.map (·.initiator)) = some true := by
  decide

/-- KK needs handshake version 2 (NewBrontideMachine) -/
theorem kk_requires_v2 (i : Bool) (ls le : Nat) (rs : Option Pt) (pw : Nat) (pl : Option Bytes) (a b : Nat)
    (hb : b < 2) : ∃ e, initSt kkPattern i ls le rs pw pl a b = .error e := by
  simp [initSt, kkPattern, hb, bind, Except.bind]

/-! ### the positive direction and non-vacuity (closed instances: key ids 1..4,
    passphrase 7, a 40 byte auth payload; all 81 version ranges) -/

def ranges : List (Nat × Nat × Nat × Nat) :=
  (List.range 3).flatMap fun a => (List.range 3).flatMap fun b => (List.range 3).flatMap fun c =>
    (List.range 3).map fun d => (a, b, c, d)

def demoI (a b : Nat) (rs : Option Pt) : Cfg := ⟨1, 2, rs, 7, none, a, b⟩
def demoR (c d : Nat) (rs : Option Pt) : Cfg := ⟨3, 4, rs, 7, some (List.replicate 40 5), c, d⟩

def bothOk : SideRes × SideRes → Bool
  | (.ok _, .ok _) => true
  | _ => false

/-- with the same passphrase an XX handshake completes exactly when the
    responder's maximum version lies in the initiator's range and the
    initiator's minimum in the responder's -/
theorem xx_right_pw_completes_table :
    ranges.all (fun (a, b, c, d) =>
      bothOk (run xxPattern (demoI a b none) (demoR c d none) noMitm) ==
        (decide (c ≤ a ∧ a ≤ d ∧ a ≤ d ∧ d ≤ b))) = true := by decide

/-- with the right stored keys a KK handshake completes whenever both sides support version 2 -/
theorem kk_right_keys_complete_table :
    ranges.all (fun (a, b, c, d) =>
      bothOk (run kkPattern (demoI a b (some (.pub 3))) (demoR c d (some (.pub 1))) noMitm) ==
        (decide (b = 2 ∧ d = 2))) = true := by decide

end Lnc.Props.C03
