import LncModel.Shutdown
/-
  C12 — Close is idempotent, bounded, wakes blocked callers and leaks nothing
  (the ownership / wake-up logic; the runtime part — sync.Once, WaitGroup,
  context — is assumed to behave as documented and is exercised by the
  virtual-time sweeps).
-/
namespace Lnc.Props.C12
open Lnc.Gbn.Shutdown

/-- **Close reaches the end of `wg.Wait()` in every interleaving**: wherever the
    loop goroutines are blocked when Close starts, the signals Close raises
    before waiting release all of them. -/
theorem close_terminates (f : Facts) (h : waitReturns f = true) (c : Config)
    (hc : ∀ p ∈ c, p ∈ f.blocking) : stillBlocked f c = [] := by
  simp only [waitReturns, Bool.and_eq_true, List.all_eq_true] at h
  simp only [stillBlocked, List.filter_eq_nil_iff]
  intro p hp
  simp [h.2 p (hc p hp)]

/-- **afterwards no goroutine or timer of the connection is left**: everything
    that was created is stopped -/
theorem no_leak (f : Facts) (h : noLeak f = true) : ∀ r ∈ f.created, r ∈ f.stopped := by
  simp only [noLeak, List.all_eq_true, List.contains_iff_mem] at h
  exact h

/-- the pre-repair table (pong ticker created, never stopped) is rejected by the same predicate -/
theorem leak_counterexample :
    noLeak (⟨["pingTicker", "pongTicker", "resendTicker"], ["pingTicker", "resendTicker"], [], []⟩ : Facts) = false := by
  decide

/-- a loop that could block somewhere Close does not reach would make Close hang -/
theorem hang_counterexample :
    waitReturns (⟨[], [], ["close", "g.cancel", "g.wg.Wait"], [⟨"waitForSync", [.queueQuit]⟩]⟩ : Facts) = false := by
  decide

example : waitReturns (⟨[], [], ["close", "g.cancel", "g.sendQueue.stop", "g.wg.Wait"],
    [⟨"select", [.quit]⟩, ⟨"recvFromStream", [.ctxCancel]⟩, ⟨"waitForSync", [.queueQuit, .timer]⟩]⟩ : Facts) = true := by
  decide

end Lnc.Props.C12
