import LncModel.Props.C06Recover
import LncModel.Props.C01Bi
/-
  C06 — recovery on the BIDIRECTIONAL system (Bi.lean): the two directions share
  the two physical channels, DATA of one direction is queued behind ACK/NACK of
  the other, and the per-direction recovery schedule of C06Recover.lean has to
  be realised on those shared FIFOs.

    (1) `settle_bi`   whatever is in flight on both channels drains: A→B, then
                      B→A (which now also holds the answers), then A→B again
                      (answers only): three passes suffice
    (2) `completeA`   with empty channels, direction A⇒B's resend round lifts
                      step by step to the physical system and completes that
                      direction; direction B⇒A by symmetry (`Bi.swap`)
    (3) `C06_bi_recovery`  from every reachable state of the bidirectional
                      system there is a schedule of retransmissions and in-order
                      deliveries only after which BOTH applications have
                      received everything the other side's Send accepted and
                      both send queues are empty.
-/
namespace Lnc.Props.C06
open Lnc Lnc.Gbn Lnc.Props.C01

def BiOK (n : Nat) (β : Bi) : Prop := β.Coupled ∧ Reachable n β.ab ∧ Reachable n β.ba

/-- labels of a reliable transport and idle applications on the physical system -/
def biReliable : BiLabel → Bool
  | .retransA _ => true
  | .retransB _ => true
  | .deliverAB _ => true
  | .deliverBA _ => true
  | _ => false

theorem bi_run_append (β : Bi) (a b : List BiLabel) :
    β.run? (a ++ b) = (β.run? a).bind (fun β' => β'.run? b) := by
  induction a generalizing β with
  | nil => simp [Bi.run?]
  | cons l ls ih =>
    simp only [List.cons_append, Bi.run?]
    cases β.step? l with
    | none => simp
    | some β1 => simpa using ih β1

theorem biOK_run {n : Nat} (ls : List BiLabel) {β β' : Bi} (h : BiOK n β) (hr : β.run? ls = some β') : BiOK n β' :=
  bi_run ls h.1 h.2.1 h.2.2 hr

/-! ### the mirror image -/

def _root_.Lnc.Gbn.Bi.swap (β : Bi) : Bi := ⟨β.ba, β.ab, β.chBA, β.chAB⟩

def _root_.Lnc.Gbn.BiLabel.swap : BiLabel → BiLabel
  | .sendA p => .sendB p
  | .sendB p => .sendA p
  | .retransA i => .retransB i
  | .retransB i => .retransA i
  | .deliverAB b => .deliverBA b
  | .deliverBA b => .deliverAB b
  | .dupAB => .dupBA
  | .dupBA => .dupAB
  | .dropAB => .dropBA
  | .dropBA => .dropAB

theorem swap_swap (β : Bi) : β.swap.swap = β := by cases β; rfl

theorem label_swap_swap (l : BiLabel) : l.swap.swap = l := by cases l <;> rfl

/-- the transition function is symmetric in the two endpoints -/
theorem step_swap (β : Bi) (l : BiLabel) : β.swap.step? l.swap = (β.step? l).map Bi.swap := by
  obtain ⟨ab, ba, chAB, chBA⟩ := β
  cases l with
  | sendA p => simp only [BiLabel.swap, Bi.swap, Bi.step?]; cases ab.step? (.sendNew p) <;> rfl
  | sendB p => simp only [BiLabel.swap, Bi.swap, Bi.step?]; cases ba.step? (.sendNew p) <;> rfl
  | retransA i => simp only [BiLabel.swap, Bi.swap, Bi.step?]; cases ab.step? (.retransmit i) <;> rfl
  | retransB i => simp only [BiLabel.swap, Bi.swap, Bi.step?]; cases ba.step? (.retransmit i) <;> rfl
  | deliverAB b =>
    cases chAB with
    | nil => rfl
    | cons w r =>
      cases w with
      | data d => simp only [BiLabel.swap, Bi.swap, Bi.step?]; cases ab.step? (.fwdDeliver b) <;> rfl
      | resp x => simp only [BiLabel.swap, Bi.swap, Bi.step?]; cases ba.step? .bwdDeliver <;> rfl
  | deliverBA b =>
    cases chBA with
    | nil => rfl
    | cons w r =>
      cases w with
      | data d => simp only [BiLabel.swap, Bi.swap, Bi.step?]; cases ba.step? (.fwdDeliver b) <;> rfl
      | resp x => simp only [BiLabel.swap, Bi.swap, Bi.step?]; cases ab.step? .bwdDeliver <;> rfl
  | dupAB =>
    cases chAB with
    | nil => rfl
    | cons w r =>
      cases w with
      | data d => simp only [BiLabel.swap, Bi.swap, Bi.step?]; cases ab.step? .fwdDup <;> rfl
      | resp x => simp only [BiLabel.swap, Bi.swap, Bi.step?]; cases ba.step? .bwdDup <;> rfl
  | dupBA =>
    cases chBA with
    | nil => rfl
    | cons w r =>
      cases w with
      | data d => simp only [BiLabel.swap, Bi.swap, Bi.step?]; cases ba.step? .fwdDup <;> rfl
      | resp x => simp only [BiLabel.swap, Bi.swap, Bi.step?]; cases ab.step? .bwdDup <;> rfl
  | dropAB =>
    cases chAB with
    | nil => rfl
    | cons w r =>
      cases w with
      | data d => simp only [BiLabel.swap, Bi.swap, Bi.step?]; cases ab.step? .fwdDrop <;> rfl
      | resp x => simp only [BiLabel.swap, Bi.swap, Bi.step?]; cases ba.step? .bwdDrop <;> rfl
  | dropBA =>
    cases chBA with
    | nil => rfl
    | cons w r =>
      cases w with
      | data d => simp only [BiLabel.swap, Bi.swap, Bi.step?]; cases ba.step? .fwdDrop <;> rfl
      | resp x => simp only [BiLabel.swap, Bi.swap, Bi.step?]; cases ab.step? .bwdDrop <;> rfl

theorem run_swap (ls : List BiLabel) : ∀ β : Bi, β.swap.run? (ls.map BiLabel.swap) = (β.run? ls).map Bi.swap := by
  induction ls with
  | nil => intro β; rfl
  | cons l ls ih =>
    intro β
    simp only [List.map_cons, Bi.run?, step_swap]
    cases β.step? l with
    | none => rfl
    | some β1 => simpa using ih β1

theorem biOK_swap {n : Nat} {β : Bi} (h : BiOK n β) : BiOK n β.swap :=
  ⟨⟨h.1.baFwd, h.1.abBwd, h.1.abFwd, h.1.baBwd⟩, h.2.2, h.2.1⟩

theorem biReliable_swap (l : BiLabel) : biReliable l.swap = biReliable l := by cases l <;> rfl

/-! ### one delivery on the physical channel A→B -/

theorem deliverAB_step {n : Nat} (hn : 0 < n) (hn254 : n ≤ 254) (β : Bi) (h : BiOK n β) (w : Wire) (rest : List Wire)
    (hc : β.chAB = w :: rest) (b : Bool) :
    ∃ β', β.step? (.deliverAB b) = some β' ∧ β'.chAB = rest ∧
      (∃ ext, β'.chBA = β.chBA ++ ext ∧ dataOf ext = [] ∧ (∀ r, w = .resp r → ext = [])) ∧
      β'.ab.log = β.ab.log ∧ β'.ba.log = β.ba.log := by
  obtain ⟨hcp, hra, hrb⟩ := h
  cases w with
  | data d =>
    have hf : β.ab.fwd = d :: dataOf rest := by rw [hcp.abFwd, hc]; rfl
    by_cases ha : d.seq = β.ab.recvSeq
    · have hs := step_accept β.ab d (dataOf rest) b hf ha
      have hstep : β.step? (.deliverAB b) = some (⟨acceptSt β.ab d (dataOf rest), β.ba, rest,
          β.chBA ++ newBwd β.ab (acceptSt β.ab d (dataOf rest))⟩ : Bi) := by
        simp only [Bi.step?, hc, hs, Option.map_some]
      refine ⟨_, hstep, rfl, ⟨_, rfl, ?_, ?_⟩, rfl, rfl⟩
      · have : (acceptSt β.ab d (dataOf rest)).bwd = β.ab.bwd ++ [⟨.ack, d.seq, β.ab.R + 1⟩] := rfl
        rw [newBwd_extra this]; exact dataOf_map_resp _
      · intro r hr; cases hr
    · have hs := step_reject β.ab d (dataOf rest) b hf ha
      have hstep : β.step? (.deliverAB b) = some (⟨rejectSt β.ab (dataOf rest) b, β.ba, rest,
          β.chBA ++ newBwd β.ab (rejectSt β.ab (dataOf rest) b)⟩ : Bi) := by
        simp only [Bi.step?, hc, hs, Option.map_some]
      refine ⟨_, hstep, rfl, ⟨_, rfl, ?_, ?_⟩, rfl, rfl⟩
      · have : (rejectSt β.ab (dataOf rest) b).bwd =
            β.ab.bwd ++ (if b then [⟨.nack, β.ab.recvSeq, β.ab.R⟩] else []) := by
          cases b <;> simp [rejectSt]
        rw [newBwd_extra this]; exact dataOf_map_resp _
      · intro r hr; cases hr
  | resp r =>
    have hb : β.ba.bwd = r :: respOf rest := by rw [hcp.baBwd, hc]; rfl
    obtain ⟨q', hs⟩ := bwdDeliver_enabled β.ba (inv_reachable hn hn254 hrb) r (respOf rest) hb
    have hstep : β.step? (.deliverAB b) = some (⟨β.ab, respSt β.ba q' (respOf rest) r.val, rest, β.chBA⟩ : Bi) := by
      simp only [Bi.step?, hc, hs, Option.map_some]
    exact ⟨_, hstep, rfl, ⟨[], by simp, rfl, fun _ _ => rfl⟩, rfl, rfl⟩

/-- one pass over the channel A→B: everything on it is consumed; what the pass adds
    to the channel B→A are answers only, and nothing if the pass met answers only -/
theorem drainAB {n : Nat} (hn : 0 < n) (hn254 : n ≤ 254) (k : Nat) : ∀ β : Bi, BiOK n β → β.chAB.length = k →
    ∃ β', β.run? (List.replicate k (.deliverAB true)) = some β' ∧ BiOK n β' ∧ β'.chAB = [] ∧
      (∃ ext, β'.chBA = β.chBA ++ ext ∧ dataOf ext = [] ∧ (dataOf β.chAB = [] → ext = [])) ∧
      β'.ab.log = β.ab.log ∧ β'.ba.log = β.ba.log := by
  induction k with
  | zero =>
    intro β h hk
    exact ⟨β, rfl, h, List.length_eq_zero_iff.mp hk, ⟨[], by simp, rfl, fun _ => rfl⟩, rfl, rfl⟩
  | succ k ih =>
    intro β h hk
    match hc : β.chAB with
    | [] => simp [hc] at hk
    | w :: rest =>
      obtain ⟨β1, hs, hch, ⟨e1, he1, hd1, hr1⟩, hl1, hl2⟩ := deliverAB_step hn hn254 β h w rest hc true
      have h1 : BiOK n β1 := biOK_run [.deliverAB true] h (by simp [Bi.run?, hs])
      obtain ⟨β', hr, hok, hnil, ⟨e2, he2, hd2, hr2⟩, hl3, hl4⟩ := ih β1 h1 (by rw [hch]; simpa [hc] using hk)
      refine ⟨β', by simp only [List.replicate_succ, Bi.run?, hs]; exact hr, hok, hnil,
        ⟨e1 ++ e2, by rw [he2, he1, List.append_assoc], by rw [dataOf_append, hd1, hd2]; rfl, ?_⟩,
        by rw [hl3, hl1], by rw [hl4, hl2]⟩
      intro hd
      cases w with
      | data d => simp [dataOf] at hd
      | resp r =>
        have : e1 = [] := hr1 r rfl
        have : e2 = [] := hr2 (by rw [hch]; simpa [dataOf] using hd)
        simp [*]

/-- the same pass over the channel B→A -/
theorem drainBA {n : Nat} (hn : 0 < n) (hn254 : n ≤ 254) (k : Nat) (β : Bi) (h : BiOK n β) (hk : β.chBA.length = k) :
    ∃ β', β.run? (List.replicate k (.deliverBA true)) = some β' ∧ BiOK n β' ∧ β'.chBA = [] ∧
      (∃ ext, β'.chAB = β.chAB ++ ext ∧ dataOf ext = [] ∧ (dataOf β.chBA = [] → ext = [])) ∧
      β'.ab.log = β.ab.log ∧ β'.ba.log = β.ba.log := by
  obtain ⟨γ, hr, hok, hnil, hext, hl1, hl2⟩ := drainAB hn hn254 k β.swap (biOK_swap h) hk
  have := run_swap (List.replicate k (.deliverAB true)) β.swap
  rw [swap_swap, hr] at this
  refine ⟨γ.swap, ?_, biOK_swap hok, hnil, hext, hl2, hl1⟩
  simpa [BiLabel.swap] using this

/-- **(1) both physical channels drain in three passes**, from every state the
    bidirectional system can be in -/
theorem settle_bi {n : Nat} (hn : 0 < n) (hn254 : n ≤ 254) (β : Bi) (h : BiOK n β) :
    ∃ ls β', β.run? ls = some β' ∧ (∀ l ∈ ls, biReliable l = true) ∧ BiOK n β' ∧
      β'.chAB = [] ∧ β'.chBA = [] ∧ β'.ab.log = β.ab.log ∧ β'.ba.log = β.ba.log := by
  obtain ⟨β1, r1, ok1, n1, ⟨e1, he1, hd1, _⟩, a1, b1⟩ := drainAB hn hn254 _ β h rfl
  obtain ⟨β2, r2, ok2, n2, ⟨e2, he2, hd2, _⟩, a2, b2⟩ := drainBA hn hn254 _ β1 ok1 rfl
  obtain ⟨β3, r3, ok3, n3, ⟨e3, he3, _, hz3⟩, a3, b3⟩ := drainAB hn hn254 _ β2 ok2 rfl
  have hA2 : dataOf β2.chAB = [] := by rw [he2, n1]; simpa using hd2
  have he3' : e3 = [] := hz3 hA2
  refine ⟨List.replicate β.chAB.length (.deliverAB true) ++ (List.replicate β1.chBA.length (.deliverBA true) ++
      List.replicate β2.chAB.length (.deliverAB true)), β3, ?_, ?_, ok3, n3, by rw [he3, n2, he3']; rfl, by rw [a3, a2, a1], by rw [b3, b2, b1]⟩
  · rw [bi_run_append, r1]; simp only [Option.bind_some]
    rw [bi_run_append, r2]; simp only [Option.bind_some]
    exact r3
  · intro l hl
    simp only [List.mem_append, List.mem_replicate] at hl
    rcases hl with ⟨_, rfl⟩ | ⟨_, rfl⟩ | ⟨_, rfl⟩ <;> rfl

/-! ### lifting direction A⇒B's schedule to the physical system -/

def liftA : Label → BiLabel
  | .retransmit i => .retransA i
  | .fwdDeliver b => .deliverAB b
  | .bwdDeliver => .deliverBA true
  | .sendNew p => .sendA p
  | .fwdDup => .dupAB
  | .fwdDrop => .dropAB
  | .bwdDup => .dupBA
  | .bwdDrop => .dropBA

/-- the physical channels carry the packets of direction A⇒B only -/
structure PureA (β : Bi) : Prop where
  ab : β.chAB = β.ab.fwd.map Wire.data
  ba : β.chBA = β.ab.bwd.map Wire.resp

theorem liftA_step (β : Bi) (hq : PureA β) (l : Label) (hl : reliable l = true) (σ' : Uni)
    (hs : β.ab.step? l = some σ') :
    ∃ β', β.step? (liftA l) = some β' ∧ β'.ab = σ' ∧ β'.ba = β.ba ∧ PureA β' := by
  cases l with
  | retransmit i =>
    obtain ⟨d, hf, hb⟩ := step_retransmit hs
    have hstep : β.step? (liftA (.retransmit i)) = some (⟨σ', β.ba, β.chAB ++ newFwd β.ab σ', β.chBA⟩ : Bi) := by
      simp only [liftA, Bi.step?, hs, Option.map_some]
    refine ⟨_, hstep, rfl, rfl, ⟨?_, ?_⟩⟩
    · show β.chAB ++ newFwd β.ab σ' = σ'.fwd.map Wire.data
      rw [newFwd_single hf, hf, hq.ab]; simp
    · show β.chBA = σ'.bwd.map Wire.resp
      rw [hb, hq.ba]
  | fwdDeliver b =>
    obtain ⟨d, rest, extra, hf, hf', hb'⟩ := step_fwdDeliver hs
    have hch : β.chAB = Wire.data d :: rest.map Wire.data := by rw [hq.ab, hf]; rfl
    have hstep : β.step? (liftA (.fwdDeliver b)) =
        some (⟨σ', β.ba, rest.map Wire.data, β.chBA ++ newBwd β.ab σ'⟩ : Bi) := by
      simp only [liftA, Bi.step?, hch, hs, Option.map_some]
    refine ⟨_, hstep, rfl, rfl, ⟨?_, ?_⟩⟩
    · show rest.map Wire.data = σ'.fwd.map Wire.data
      rw [hf']
    · show β.chBA ++ newBwd β.ab σ' = σ'.bwd.map Wire.resp
      rw [newBwd_extra hb', hb', hq.ba]; simp
  | bwdDeliver =>
    obtain ⟨r, rest, hb, hb', hf'⟩ := step_bwdDeliver hs
    have hch : β.chBA = Wire.resp r :: rest.map Wire.resp := by rw [hq.ba, hb]; rfl
    have hstep : β.step? (liftA .bwdDeliver) = some (⟨σ', β.ba, β.chAB, rest.map Wire.resp⟩ : Bi) := by
      simp only [liftA, Bi.step?, hch, hs, Option.map_some]
    refine ⟨_, hstep, rfl, rfl, ⟨?_, ?_⟩⟩
    · show β.chAB = σ'.fwd.map Wire.data
      rw [hf', hq.ab]
    · show rest.map Wire.resp = σ'.bwd.map Wire.resp
      rw [hb']
  | sendNew p => cases hl
  | fwdDup => cases hl
  | fwdDrop => cases hl
  | bwdDup => cases hl
  | bwdDrop => cases hl

theorem liftA_run (ls : List Label) : ∀ (β : Bi) (σ' : Uni), PureA β → (∀ l ∈ ls, reliable l = true) →
    β.ab.run? ls = some σ' →
    ∃ β', β.run? (ls.map liftA) = some β' ∧ β'.ab = σ' ∧ β'.ba = β.ba ∧ PureA β' := by
  induction ls with
  | nil =>
    intro β σ' hq _ hr
    simp only [Uni.run?, Option.some.injEq] at hr
    exact ⟨β, rfl, hr, rfl, hq⟩
  | cons l ls ih =>
    intro β σ' hq hrel hr
    simp only [Uni.run?] at hr
    split at hr
    · next σ1 h1 =>
      obtain ⟨β1, hs, e1, e2, q1⟩ := liftA_step β hq l (hrel l List.mem_cons_self) σ1 h1
      obtain ⟨β', hr', f1, f2, q'⟩ := ih β1 σ' q1 (fun l' hl' => hrel l' (List.mem_cons_of_mem _ hl')) (by rw [e1]; exact hr)
      exact ⟨β', by simp only [List.map_cons, Bi.run?, hs]; exact hr', f1, by rw [f2, e2], q'⟩
    · cases hr

theorem liftA_reliable (l : Label) (h : reliable l = true) : biReliable (liftA l) = true := by
  cases l <;> first | rfl | cases h

/-- **(2) with empty channels, direction A⇒B completes** by its resend round,
    realised on the shared channels; direction B⇒A is not touched -/
theorem completeA {n : Nat} (hn : 0 < n) (hn254 : n ≤ 254) (β : Bi) (h : BiOK n β) (hA : β.chAB = []) (hB : β.chBA = []) :
    ∃ ls β', β.run? ls = some β' ∧ (∀ l ∈ ls, biReliable l = true) ∧ BiOK n β' ∧
      β'.chAB = [] ∧ β'.chBA = [] ∧ β'.ba = β.ba ∧
      β'.ab.out = β.ab.accepted ∧ β'.ab.q.size = 0 ∧ β'.ab.log = β.ab.log := by
  have hi := inv_reachable hn hn254 h.2.1
  have hf : β.ab.fwd = [] := by rw [h.1.abFwd, hA]; rfl
  have hb : β.ab.bwd = [] := by rw [h.1.abBwd, hB]; rfl
  have hq : PureA β := ⟨by rw [hA, hf]; rfl, by rw [hB, hb]; rfl⟩
  obtain ⟨m, σ', hr, ho, hs, hf', hb', _, _, _, hl, _⟩ :=
    resend_round_completes β.ab hi hf hb (List.replicate (β.ab.T - β.ab.B) true) (by simp)
      (by intro _ hlt; cases hk : β.ab.T - β.ab.B with
          | zero => omega
          | succ k => simp [List.replicate_succ])
  obtain ⟨β', hr', e1, e2, q'⟩ := liftA_run _ β σ' hq (round_reliable _ _ _ _) hr
  refine ⟨_, β', hr', ?_, biOK_run _ h hr', by rw [q'.ab, e1, hf']; rfl, by rw [q'.ba, e1, hb']; rfl, e2,
    by rw [e1]; exact ho, by rw [e1]; exact hs, by rw [e1]; exact hl⟩
  intro l hl'
  obtain ⟨l0, h0, rfl⟩ := List.mem_map.mp hl'
  exact liftA_reliable l0 (round_reliable _ _ _ _ l0 h0)

/-- **C06, recovery of the bidirectional connection (untimed).**  From every
    state the two endpoints and the two shared channels can reach — any window
    size, any interleaving of both directions' traffic, any history of loss,
    in-place duplication and delay — a schedule of retransmissions and in-order
    deliveries alone leads to a state in which each application has received
    exactly what the other side's Send accepted, both send queues are empty and
    nothing is in flight. -/
theorem C06_bi_recovery (n : Nat) (hn : 0 < n) (hn254 : n ≤ 254) (β : Bi) (hr : BiReachable n β) :
    ∃ ls β', β.run? ls = some β' ∧ (∀ l ∈ ls, biReliable l = true) ∧
      β'.ab.out = β.ab.accepted ∧ β'.ba.out = β.ba.accepted ∧
      β'.ab.q.size = 0 ∧ β'.ba.q.size = 0 ∧ β'.chAB = [] ∧ β'.chBA = [] := by
  obtain ⟨ls0, hls0⟩ := hr
  have h0 : BiOK n (Bi.init n) := ⟨⟨rfl, rfl, rfl, rfl⟩, ⟨[], rfl⟩, ⟨[], rfl⟩⟩
  have hβ : BiOK n β := biOK_run ls0 h0 hls0
  obtain ⟨l1, β1, r1, rel1, ok1, a1, b1, la1, lb1⟩ := settle_bi hn hn254 β hβ
  obtain ⟨l2, β2, r2, rel2, ok2, a2, b2, eba2, out2, sz2, la2⟩ := completeA hn hn254 β1 ok1 a1 b1
  -- the mirror image for direction B⇒A
  obtain ⟨l3, γ, r3, rel3, ok3, a3, b3, eba3, out3, sz3, _⟩ :=
    completeA hn hn254 β2.swap (biOK_swap ok2) b2 a2
  have hsw := run_swap l3 β2.swap
  rw [swap_swap, r3] at hsw
  refine ⟨l1 ++ (l2 ++ l3.map BiLabel.swap), γ.swap, ?_, ?_, ?_, ?_, ?_, ?_, b3, a3⟩
  · rw [bi_run_append, r1]; simp only [Option.bind_some]
    rw [bi_run_append, r2]; simp only [Option.bind_some]
    simpa using hsw
  · intro l hl
    rcases List.mem_append.mp hl with hl | hl
    · exact rel1 l hl
    · rcases List.mem_append.mp hl with hl | hl
      · exact rel2 l hl
      · obtain ⟨l0, h0, rfl⟩ := List.mem_map.mp hl
        rw [biReliable_swap]; exact rel3 l0 h0
  · show γ.ba.out = β.ab.accepted
    rw [eba3]
    show β2.ab.out = β.ab.accepted
    rw [out2, Uni.accepted, Uni.accepted, la1]
  · show γ.ab.out = β.ba.accepted
    rw [out3]
    show β2.ba.accepted = β.ba.accepted
    rw [eba2, Uni.accepted, Uni.accepted, lb1]
  · show γ.ba.q.size = 0
    rw [eba3]; exact sz2
  · exact sz3

/-! non-vacuity: both directions stalled (everything dropped), then recovered -/
def biStalled : Option Bi :=
  (Bi.init 2).run? [.sendA ⟨[1], true, false⟩, .sendB ⟨[7], true, false⟩, .sendA ⟨[2], true, false⟩,
    .dropAB, .dropAB, .dropBA]

example : (biStalled.map fun β => (β.chAB.length, β.chBA.length, β.ab.out.length, β.ba.out.length, β.ab.q.size, β.ba.q.size)) =
    some (0, 0, 0, 0, 2, 1) := by decide

example : ((biStalled.bind fun β => β.run? [.retransA 0, .retransA 1, .deliverAB true, .deliverAB true, .deliverBA true,
      .deliverBA true, .retransB 0, .deliverBA true, .deliverAB true]).map
    fun β => (β.ab.out.map (·.payload), β.ba.out.map (·.payload), β.ab.q.size, β.ba.q.size, β.chAB.length, β.chBA.length)) =
    some ([[1], [2]], [[7]], 0, 0, 0, 0) := by decide

end Lnc.Props.C06
