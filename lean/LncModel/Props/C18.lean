import LncModel.Ticker
/-
  C18 — Concurrent use is free of close-of-closed-channel panics and
  lock-order deadlocks (the discipline part; data races proper are searched
  with the race detector, see DESIGN.md).
-/
namespace Lnc.Props.C18
open Lnc.Gbn.Ticker

/-- invariant of the guarded protocol -/
def Inv (s : St) : Prop :=
  s.guarded = true ∧ s.panicked = false ∧
  ((s.lock = false ∧ s.before = 0 ∧ s.after = 0 ∧ s.quitOpen = true) ∨
   (s.lock = true ∧ s.before = 1 ∧ s.after = 0 ∧ s.quitOpen = true) ∨
   (s.lock = true ∧ s.before = 0 ∧ s.after = 1 ∧ s.quitOpen = false))

theorem inv_step (s s' : St) (x : Step) (h : Inv s) (hs : s.step x = some s') : Inv s' := by
  obtain ⟨hg, hp, hcase⟩ := h
  cases x with
  | enter =>
    simp only [St.step, hg, ↓reduceIte] at hs
    rcases hcase with ⟨hl, hb, ha, hq⟩ | ⟨hl, _, _, _⟩ | ⟨hl, _, _, _⟩
    · simp only [hl, Bool.false_eq_true, ↓reduceIte, Option.some.injEq] at hs
      subst hs
      exact ⟨rfl, hp, Or.inr (Or.inl ⟨rfl, by simp [hb], ha, hq⟩)⟩
    · simp [hl] at hs
    · simp [hl] at hs
  | closeQuit =>
    simp only [St.step] at hs
    rcases hcase with ⟨_, hb, _, _⟩ | ⟨hl, hb, ha, hq⟩ | ⟨_, hb, _, _⟩
    · simp [hb] at hs
    · simp only [hb, hq, ↓reduceIte, Option.some.injEq] at hs
      simp only [show ¬ (1 = 0) by decide, ↓reduceIte, Option.some.injEq] at hs
      subst hs
      exact ⟨hg, hp, Or.inr (Or.inr ⟨hl, rfl, by simp [ha], rfl⟩)⟩
    · simp [hb] at hs
  | reopen =>
    simp only [St.step] at hs
    rcases hcase with ⟨_, _, ha, _⟩ | ⟨_, _, ha, _⟩ | ⟨hl, hb, ha, hq⟩
    · simp [ha] at hs
    · simp [ha] at hs
    · simp only [ha, show ¬ (1 = 0) by decide, ↓reduceIte, hg, Option.some.injEq] at hs
      subst hs
      exact ⟨rfl, hp, Or.inl ⟨rfl, hb, rfl, rfl⟩⟩

/-- **with Reset/Stop serialised by a mutex no interleaving of any number of
    callers closes the quit channel twice**, and between calls the channel is
    open with nobody inside -/
theorem reset_serialised_safe (xs : List Step) (s : St) (h : (St.init true).run xs = some s) :
    s.panicked = false ∧ (s.lock = false → s.quitOpen = true ∧ s.before = 0 ∧ s.after = 0) := by
  have hinv : Inv s := by
    suffices H : ∀ (xs : List Step) (a b : St), Inv a → a.run xs = some b → Inv b from
      H xs _ s ⟨rfl, rfl, Or.inl ⟨rfl, rfl, rfl, rfl⟩⟩ h
    intro xs
    induction xs with
    | nil => intro a b ha hr; simp only [St.run, Option.some.injEq] at hr; subst hr; exact ha
    | cons x xs ih =>
      intro a b ha hr
      simp only [St.run] at hr
      cases hx : a.step x with
      | none => simp [hx] at hr
      | some a' => rw [hx] at hr; exact ih a' b (inv_step a a' x ha hx) hr
  obtain ⟨_, hp, hc⟩ := hinv
  refine ⟨hp, fun hl => ?_⟩
  rcases hc with ⟨_, hb, ha, hq⟩ | ⟨hl', _, _, _⟩ | ⟨hl', _, _, _⟩
  · exact ⟨hq, hb, ha⟩
  · rw [hl] at hl'; cases hl'
  · rw [hl] at hl'; cases hl'

/-- **without the mutex two callers can close the channel twice** (the schedule
    the race-detector runs reproduce on the pre-repair code: send loop's ping
    branch and receive loop both inside Reset) -/
theorem reset_unguarded_counterexample :
    ((St.init false).run [.enter, .enter, .closeQuit, .closeQuit]).map (·.panicked) = some true := by decide

/-- an acyclic acquisition order admits no cyclic wait (stated on the graph:
    no lock reaches itself) -/
theorem acyclic_no_self_reach (edges : List (String × String)) (h : acyclic edges = true) (v : String)
    (hv : v ∈ (edges.map (·.1)).eraseDups) :
    (reach edges edges.length (succs edges v)).contains v = false := by
  simp only [acyclic, List.all_eq_true, Bool.not_eq_eq_eq_not, Bool.not_true] at h
  exact h v hv

example : acyclic [("a", "b"), ("b", "c"), ("a", "c")] = true := by decide
example : acyclic [("a", "b"), ("b", "c"), ("c", "a")] = false := by decide

end Lnc.Props.C18
