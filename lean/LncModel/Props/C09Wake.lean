import LncModel.Queue
/-
  C09 — "Send … blocks on the next one until an acknowledgement frees a slot":
  the flags the receive loop keys its wake-up signal on cover every response
  that changes the window.  `receivePacketsForever` raises `receivedACKSignal`
  when `processACK` returns true and when `processNACK` reports `bumped`
  (obligation `room_wakes_sender` on the regenerated skeleton; before repair
  611abab the NACK arm skipped the signal when no resend was needed).  The
  theorems: no ACK and no NACK changes the queue without reporting it, and the
  NACK that names the top of the queue — the one the old code forgot — empties
  the queue and reports it.
-/
namespace Lnc.Props.C09
open Lnc Lnc.Gbn

/-- an ACK that changes the queue is reported as valid -/
theorem ack_change_reported (q q' : Queue) (seq : Nat) (b : Bool)
    (h : q.processACK seq = .ok (q', b)) (hne : q' ≠ q) : b = true := by
  unfold Queue.processACK at h
  split at h
  · simp only [Outcome.ok.injEq, Prod.mk.injEq] at h; exact absurd h.1.symm hne
  · split at h
    · simp only [Outcome.ok.injEq, Prod.mk.injEq] at h; exact absurd h.1.symm hne
    · split at h
      · unfold modS at h
        split at h
        · simp [Outcome.bind] at h
        · simp only [Outcome.bind, Outcome.ok.injEq, Prod.mk.injEq] at h; exact h.2.symm
      · split at h
        · unfold modS at h
          split at h
          · simp [Outcome.bind] at h
          · simp only [Outcome.bind, Outcome.ok.injEq, Prod.mk.injEq] at h; exact h.2.symm
        · simp only [Outcome.ok.injEq, Prod.mk.injEq] at h; exact absurd h.1.symm hne

/-- a NACK that changes the queue reports `bumped` -/
theorem nack_change_reported (q : Queue) (seq : Nat) (hne : (q.processNACK seq).1 ≠ q) :
    (q.processNACK seq).2.2 = true := by
  unfold Queue.processNACK at hne ⊢
  split
  · rename_i h; simp [h] at hne
  · rename_i h1
    split
    · rfl
    · rename_i h2
      split
      · rename_i h3; simp [h1, h2, h3] at hne
      · rename_i h3
        simp only [h1, h2, h3, ↓reduceIte] at hne
        simp only [decide_eq_true_eq]
        intro hb
        apply hne
        cases q
        simp_all

/-- the NACK the peer sends when it has received everything (it names the top of the queue)
    empties the queue, asks for no resend, and reports `bumped` -/
theorem nack_top_empties_and_reports (q : Queue) (ht : q.top < q.s) :
    (q.processNACK q.top).1.size = 0 ∧ (q.processNACK q.top).2.1 = false ∧ (q.processNACK q.top).2.2 = true := by
  have h1 : ¬ q.top ≥ q.s := by omega
  have e : q.processNACK q.top = ({ q with base := q.top }, false, true) := by
    simp [Queue.processNACK, h1]
  rw [e]
  refine ⟨?_, rfl, rfl⟩
  simp only [Queue.size, ge_iff_le, Nat.le_refl, ↓reduceIte, sub8]
  omega

/-! non-vacuity: window 2 (s = 3) full, NACK for the top -/
example : (Queue.processNACK ⟨3, 1, 0⟩ 0) = (⟨3, 0, 0⟩, false, true) := by decide
example : (⟨3, 1, 0⟩ : Queue).size = 2 := by decide

end Lnc.Props.C09
