import LncModel.Proofs.BiProj
import LncModel.Props.C01
/-
  C01 for the bidirectional connection: both directions share the two physical
  channels (DATA of one direction interleaved with ACK/NACK of the other in one
  FIFO that may drop, duplicate and delay).
-/
namespace Lnc.Props.C01
open Lnc Lnc.Gbn

theorem newFwd_single {σ σ' : Uni} {d : DataW} (h : σ'.fwd = σ.fwd ++ [d]) : newFwd σ σ' = [Wire.data d] := by
  simp [newFwd, h]

theorem newBwd_extra {σ σ' : Uni} {extra : List RespW} (h : σ'.bwd = σ.bwd ++ extra) :
    newBwd σ σ' = extra.map Wire.resp := by
  simp [newBwd, h]

/-- one physical step: the coupling is kept and each instance makes at most one
    step of its own transition system -/
theorem bi_step {n : Nat} {β β' : Bi} {l : BiLabel} (hc : β.Coupled)
    (ha : Reachable n β.ab) (hb : Reachable n β.ba) (h : β.step? l = some β') :
    β'.Coupled ∧ Reachable n β'.ab ∧ Reachable n β'.ba := by
  obtain ⟨c1, c2, c3, c4⟩ := hc
  cases l with
  | sendA p =>
    simp only [Bi.step?, Option.map_eq_some_iff] at h
    obtain ⟨σ', hs, rfl⟩ := h
    obtain ⟨d, hf, hbw⟩ := step_sendNew hs
    refine ⟨⟨?_, ?_, c3, ?_⟩, ha.step hs, hb⟩
    · simp [newFwd_single hf, dataOf_append, dataOf, hf, c1]
    · simp [newFwd_single hf, respOf_append, respOf, c2]
    · simp [hbw, c4]
  | sendB p =>
    simp only [Bi.step?, Option.map_eq_some_iff] at h
    obtain ⟨σ', hs, rfl⟩ := h
    obtain ⟨d, hf, hbw⟩ := step_sendNew hs
    refine ⟨⟨c1, ?_, ?_, ?_⟩, ha, hb.step hs⟩
    · simp [hbw, c2]
    · simp [newFwd_single hf, dataOf_append, dataOf, hf, c3]
    · simp [newFwd_single hf, respOf_append, respOf, c4]
  | retransA i =>
    simp only [Bi.step?, Option.map_eq_some_iff] at h
    obtain ⟨σ', hs, rfl⟩ := h
    obtain ⟨d, hf, hbw⟩ := step_retransmit hs
    refine ⟨⟨?_, ?_, c3, ?_⟩, ha.step hs, hb⟩
    · simp [newFwd_single hf, dataOf_append, dataOf, hf, c1]
    · simp [newFwd_single hf, respOf_append, respOf, c2]
    · simp [hbw, c4]
  | retransB i =>
    simp only [Bi.step?, Option.map_eq_some_iff] at h
    obtain ⟨σ', hs, rfl⟩ := h
    obtain ⟨d, hf, hbw⟩ := step_retransmit hs
    refine ⟨⟨c1, ?_, ?_, ?_⟩, ha, hb.step hs⟩
    · simp [hbw, c2]
    · simp [newFwd_single hf, dataOf_append, dataOf, hf, c3]
    · simp [newFwd_single hf, respOf_append, respOf, c4]
  | deliverAB nack =>
    simp only [Bi.step?] at h
    split at h
    · cases h
    · next w rest hch =>
      simp only [Option.map_eq_some_iff] at h
      obtain ⟨σ', hs, rfl⟩ := h
      obtain ⟨d, rest0, extra, hf, hf', hbw⟩ := step_fwdDeliver hs
      rw [hch] at c1 c2
      simp only [dataOf, respOf] at c1 c2
      rw [hf] at c1
      refine ⟨⟨?_, ?_, ?_, ?_⟩, ha.step hs, hb⟩
      · simp only [hf']; exact (List.cons.inj c1).2
      · exact c2
      · simp [newBwd_extra hbw, dataOf_append, dataOf_map_resp, c3]
      · simp [newBwd_extra hbw, respOf_append, respOf_map_resp, hbw, c4]
    · next w rest hch =>
      simp only [Option.map_eq_some_iff] at h
      obtain ⟨σ', hs, rfl⟩ := h
      obtain ⟨r, rest0, hbw, hbw', hf⟩ := step_bwdDeliver hs
      rw [hch] at c1 c2
      simp only [dataOf, respOf] at c1 c2
      rw [hbw] at c2
      refine ⟨⟨c1, ?_, ?_, c4⟩, ha, hb.step hs⟩
      · simp only [hbw']; exact (List.cons.inj c2).2
      · simp [hf, c3]
  | deliverBA nack =>
    simp only [Bi.step?] at h
    split at h
    · cases h
    · next w rest hch =>
      simp only [Option.map_eq_some_iff] at h
      obtain ⟨σ', hs, rfl⟩ := h
      obtain ⟨d, rest0, extra, hf, hf', hbw⟩ := step_fwdDeliver hs
      rw [hch] at c3 c4
      simp only [dataOf, respOf] at c3 c4
      rw [hf] at c3
      refine ⟨⟨?_, ?_, ?_, ?_⟩, ha, hb.step hs⟩
      · simp [newBwd_extra hbw, dataOf_append, dataOf_map_resp, c1]
      · simp [newBwd_extra hbw, respOf_append, respOf_map_resp, hbw, c2]
      · simp only [hf']; exact (List.cons.inj c3).2
      · exact c4
    · next w rest hch =>
      simp only [Option.map_eq_some_iff] at h
      obtain ⟨σ', hs, rfl⟩ := h
      obtain ⟨r, rest0, hbw, hbw', hf⟩ := step_bwdDeliver hs
      rw [hch] at c3 c4
      simp only [dataOf, respOf] at c3 c4
      rw [hbw] at c4
      refine ⟨⟨?_, c2, c3, ?_⟩, ha.step hs, hb⟩
      · simp [hf, c1]
      · simp only [hbw']; exact (List.cons.inj c4).2
  | dupAB =>
    simp only [Bi.step?] at h
    split at h
    · cases h
    · next w rest hch =>
      simp only [Option.map_eq_some_iff] at h
      obtain ⟨σ', hs, rfl⟩ := h
      obtain ⟨d, rest0, hf, hf', hbw⟩ := step_fwdDup hs
      rw [hch] at c1 c2
      simp only [dataOf, respOf] at c1 c2
      rw [hf] at c1
      obtain ⟨e1, e2⟩ := List.cons.inj c1
      refine ⟨⟨?_, ?_, c3, ?_⟩, ha.step hs, hb⟩
      · simp [hf', dataOf, e1, e2]
      · simp [respOf, c2]
      · simp [hbw, c4]
    · next w rest hch =>
      simp only [Option.map_eq_some_iff] at h
      obtain ⟨σ', hs, rfl⟩ := h
      obtain ⟨r, rest0, hbw, hbw', hf⟩ := step_bwdDup hs
      rw [hch] at c1 c2
      simp only [dataOf, respOf] at c1 c2
      rw [hbw] at c2
      obtain ⟨e1, e2⟩ := List.cons.inj c2
      refine ⟨⟨?_, ?_, ?_, c4⟩, ha, hb.step hs⟩
      · simp [dataOf, c1]
      · simp [hbw', respOf, e1, e2]
      · simp [hf, c3]
  | dupBA =>
    simp only [Bi.step?] at h
    split at h
    · cases h
    · next w rest hch =>
      simp only [Option.map_eq_some_iff] at h
      obtain ⟨σ', hs, rfl⟩ := h
      obtain ⟨d, rest0, hf, hf', hbw⟩ := step_fwdDup hs
      rw [hch] at c3 c4
      simp only [dataOf, respOf] at c3 c4
      rw [hf] at c3
      obtain ⟨e1, e2⟩ := List.cons.inj c3
      refine ⟨⟨c1, ?_, ?_, ?_⟩, ha, hb.step hs⟩
      · simp [hbw, c2]
      · simp [hf', dataOf, e1, e2]
      · simp [respOf, c4]
    · next w rest hch =>
      simp only [Option.map_eq_some_iff] at h
      obtain ⟨σ', hs, rfl⟩ := h
      obtain ⟨r, rest0, hbw, hbw', hf⟩ := step_bwdDup hs
      rw [hch] at c3 c4
      simp only [dataOf, respOf] at c3 c4
      rw [hbw] at c4
      obtain ⟨e1, e2⟩ := List.cons.inj c4
      refine ⟨⟨?_, c2, ?_, ?_⟩, ha.step hs, hb⟩
      · simp [hf, c1]
      · simp [dataOf, c3]
      · simp [hbw', respOf, e1, e2]
  | dropAB =>
    simp only [Bi.step?] at h
    split at h
    · cases h
    · next w rest hch =>
      simp only [Option.map_eq_some_iff] at h
      obtain ⟨σ', hs, rfl⟩ := h
      obtain ⟨d, rest0, hf, hf', hbw⟩ := step_fwdDrop hs
      rw [hch] at c1 c2
      simp only [dataOf, respOf] at c1 c2
      rw [hf] at c1
      refine ⟨⟨?_, c2, c3, ?_⟩, ha.step hs, hb⟩
      · simp only [hf']; exact (List.cons.inj c1).2
      · simp [hbw, c4]
    · next w rest hch =>
      simp only [Option.map_eq_some_iff] at h
      obtain ⟨σ', hs, rfl⟩ := h
      obtain ⟨r, rest0, hbw, hbw', hf⟩ := step_bwdDrop hs
      rw [hch] at c1 c2
      simp only [dataOf, respOf] at c1 c2
      rw [hbw] at c2
      refine ⟨⟨c1, ?_, ?_, c4⟩, ha, hb.step hs⟩
      · simp only [hbw']; exact (List.cons.inj c2).2
      · simp [hf, c3]
  | dropBA =>
    simp only [Bi.step?] at h
    split at h
    · cases h
    · next w rest hch =>
      simp only [Option.map_eq_some_iff] at h
      obtain ⟨σ', hs, rfl⟩ := h
      obtain ⟨d, rest0, hf, hf', hbw⟩ := step_fwdDrop hs
      rw [hch] at c3 c4
      simp only [dataOf, respOf] at c3 c4
      rw [hf] at c3
      refine ⟨⟨c1, ?_, ?_, c4⟩, ha, hb.step hs⟩
      · simp [hbw, c2]
      · simp only [hf']; exact (List.cons.inj c3).2
    · next w rest hch =>
      simp only [Option.map_eq_some_iff] at h
      obtain ⟨σ', hs, rfl⟩ := h
      obtain ⟨r, rest0, hbw, hbw', hf⟩ := step_bwdDrop hs
      rw [hch] at c3 c4
      simp only [dataOf, respOf] at c3 c4
      rw [hbw] at c4
      refine ⟨⟨?_, c2, c3, ?_⟩, ha.step hs, hb⟩
      · simp [hf, c1]
      · simp only [hbw']; exact (List.cons.inj c4).2

theorem bi_run {n : Nat} (ls : List BiLabel) {β β' : Bi} (hc : β.Coupled)
    (ha : Reachable n β.ab) (hb : Reachable n β.ba) (h : β.run? ls = some β') :
    β'.Coupled ∧ Reachable n β'.ab ∧ Reachable n β'.ba := by
  induction ls generalizing β with
  | nil => simp only [Bi.run?, Option.some.injEq] at h; subst h; exact ⟨hc, ha, hb⟩
  | cons l ls ih =>
    simp only [Bi.run?] at h
    split at h
    · next β1 h1 =>
      obtain ⟨c, a, b⟩ := bi_step hc ha hb h1
      exact ih c a b h
    · cases h

/-- **C01 for the bidirectional connection.**  For every window size, every
    interleaving of the two directions' sends, retransmissions and receive
    processing, and every drop / in-place duplication / delay of the packets on
    the two shared physical channels: what each side's application receives is
    a prefix of what the other side's Send accepted. -/
theorem C01_bi (n : Nat) (hn : 0 < n) (hn254 : n ≤ 254) (β : Bi) (hr : BiReachable n β) :
    β.ab.out <+: β.ab.accepted ∧ β.ba.out <+: β.ba.accepted := by
  obtain ⟨ls, hls⟩ := hr
  have h0 : (Bi.init n).Coupled := ⟨rfl, rfl, rfl, rfl⟩
  have r0 : Reachable n (Uni.init n) := ⟨[], rfl⟩
  obtain ⟨_, ra, rb⟩ := bi_run ls h0 r0 r0 hls
  exact ⟨C01_uni n hn hn254 _ ra, C01_uni n hn hn254 _ rb⟩

/-! non-vacuity: both directions active, an ACK of one direction queued behind
    DATA of the other on the same channel, a duplicate, a drop -/
example : ((Bi.init 2).run? [.sendA (pk 1), .sendB (pk 7), .deliverAB false, .sendB (pk 8), .dupBA,
      .deliverBA false, .deliverBA true, .deliverBA false, .deliverBA false, .deliverAB false,
      .sendA (pk 2), .dropAB, .retransA 1, .deliverAB false, .deliverAB false, .deliverAB true]).map
    (fun β => (β.ab.out, β.ba.out, β.chAB.length, β.chBA.length)) = some ([pk 1, pk 2], [pk 7, pk 8], 0, 2) := by decide

end Lnc.Props.C01
