import LncModel.Accept
import LncModel.Props.C17
/-
  C11, timing of Accept relative to the previous connection's shutdown and to
  the pairing handshake.
-/
namespace Lnc.Props.C11
open Lnc Lnc.Mailbox.Sid Lnc.Mailbox.Accept

/-- **with the rendezvous read after the wait (the code as it is), the
    connection an Accept hands out is at the rendezvous derived from the keys
    stored at that moment** — whatever happened while it was waiting -/
theorem proceed_uses_current_keys (s s' : Srv) (h : step false s .proceed = some s')
    (hw : s.waiting = some none) : s'.listening = some s.sidNow := by
  simp only [step, hw] at h
  split at h
  · cases h
  · simp only [Option.some.injEq] at h; subst h; rfl

/-- an Accept entered with `readEarly = false` never carries a snapshot -/
theorem enter_no_snapshot (s s' : Srv) (h : step false s .enter = some s') : s'.waiting = some none := by
  simp only [step] at h
  split at h
  · cases h
  · simp only [Option.some.injEq] at h; subst h; rfl

/-- **the switch lines up for every timing of the next Accept**: an Accept that
    is already waiting when the pairing handshake completes — the timing gRPC's
    serve loop produces — still hands out its connection at the key-derived
    rendezvous, which is the one the paired client derives (C17) and not the
    passphrase rendezvous -/
theorem early_accept_lines_up (sk ck : Nat) (e : Bytes) :
    ∃ s, run false (init sk e) [.enter, .proceed, .enter, .paired ck, .closed, .proceed] = some s ∧
      s.listening = some (sidPre ck (some sk) e) ∧ s.listening ≠ some (sidPre ck none e) := by
  refine ⟨_, rfl, ?_, ?_⟩
  · simp only [Option.getD, Srv.sidNow, Option.some.injEq]
    exact Lnc.Props.C17.sid_symmetric sk ck e e
  · simp only [Option.getD, Srv.sidNow, ne_eq, Option.some.injEq]
    exact Lnc.Props.C17.paired_sid_ne_passphrase_sid sk ck ck e e

/-- … whereas reading the rendezvous on entry leaves that Accept at the
    passphrase rendezvous: the paired client never meets it and a client that
    only has the passphrase does (this is what the obligation
    `Inst.C11.sid_recomputed_each_time` excludes for the current source) -/
theorem read_on_entry_counterexample (sk ck : Nat) (e : Bytes) :
    ∃ s, run true (init sk e) [.enter, .proceed, .enter, .paired ck, .closed, .proceed] = some s ∧
      s.listening = some (sidPre ck none e) ∧ s.listening ≠ some (sidPre ck (some sk) e) := by
  refine ⟨_, rfl, rfl, ?_⟩
  simp only [Option.getD, Srv.sidNow, ne_eq, Option.some.injEq]
  intro h
  exact Lnc.Props.C17.paired_sid_ne_passphrase_sid ck sk sk e e h.symm

/-- one live connection: `proceed` is disabled while the previous connection is open -/
theorem proceed_blocked_while_open (b : Bool) (s : Srv) (h : s.connOpen = true) : step b s .proceed = none := by
  simp only [step]
  split
  · rfl
  · simp [h]

end Lnc.Props.C11
