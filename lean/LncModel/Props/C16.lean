import LncModel.Flush
/-
  C16 — Handshake and record framing do not depend on transport fragmentation;
  partial writes are resumed exactly.
-/
namespace Lnc.Props.C16
open Lnc Lnc.Mailbox.Flush

theorem reported_spec (start end_ : Nat) (h : end_ ≤ start) :
    reported start end_ + (end_ - macSize) = start - macSize := by
  unfold reported macSize
  simp only
  split
  · omega
  · split <;> omega

/-- one Flush call emits bytes in order from the front of the pending message -/
theorem flushOnce_conserve (p : Pending) (b1 b2 : Nat) :
    (flushOnce p b1 b2).out ++ ((flushOnce p b1 b2).p.hdr ++ (flushOnce p b1 b2).p.body) = p.hdr ++ p.body := by
  unfold flushOnce
  split
  · simp [← List.append_assoc]
  · simp [List.append_assoc]

/-- the count it reports is exactly the plaintext bytes that left -/
theorem flushOnce_plain (p : Pending) (b1 b2 : Nat) :
    (flushOnce p b1 b2).nn + (flushOnce p b1 b2).p.plain = p.plain := by
  unfold flushOnce
  split
  · simp [Pending.plain]
  · have := reported_spec p.body.length (p.body.length - min b2 p.body.length) (by omega)
    simp only [Pending.plain, List.length_drop]
    exact this

/-- no error means nothing is left pending -/
theorem flushOnce_done (p : Pending) (b1 b2 : Nat) (he : (flushOnce p b1 b2).err = false) :
    (flushOnce p b1 b2).p.hdr = [] ∧ (flushOnce p b1 b2).p.body = [] := by
  unfold flushOnce at he ⊢
  by_cases h : min b1 p.hdr.length < p.hdr.length
  · simp [h] at he
  · simp only [h, ↓reduceIte, decide_eq_false_iff_not] at he ⊢
    have : min b2 p.body.length = p.body.length := by omega
    simp only [this, List.drop_length, and_self]

/-- the body is not touched before the header is out -/
theorem flushOnce_header_first (p : Pending) (b1 b2 : Nat) (h : (flushOnce p b1 b2).p.hdr ≠ []) :
    (flushOnce p b1 b2).p.body = p.body := by
  unfold flushOnce at h ⊢
  by_cases hn : min b1 p.hdr.length < p.hdr.length
  · simp only [hn, ↓reduceIte]
  · simp [hn] at h

theorem flushSeq_spec (p : Pending) (bs : List (Nat × Nat)) :
    (flushSeq p bs).out ++ ((flushSeq p bs).p.hdr ++ (flushSeq p bs).p.body) = p.hdr ++ p.body ∧
    (flushSeq p bs).nn + (flushSeq p bs).p.plain = p.plain := by
  induction bs generalizing p with
  | nil => simp [flushSeq]
  | cons b rest ih =>
    obtain ⟨b1, b2⟩ := b
    have h1 := flushOnce_conserve p b1 b2
    have h1' := flushOnce_plain p b1 b2
    have h2 := ih (flushOnce p b1 b2).p
    simp only [flushSeq]
    constructor
    · rw [List.append_assoc, h2.1, h1]
    · have b := h2.2; omega

/-- **Repeated flushing against a writer that accepts arbitrary partial amounts
    (and times out) emits exactly the pending bytes, once, and reports exactly
    the number of plaintext bytes** — for every payload size and every sequence
    of partial acceptances, followed by one call the writer accepts fully. -/
theorem flush_total (hdr body : Bytes) (bs : List (Nat × Nat)) :
    let r := flushSeq ⟨hdr, body⟩ bs
    let f := flushOnce r.p (hdr.length + body.length) (hdr.length + body.length)
    r.out ++ f.out = hdr ++ body ∧ r.nn + f.nn = body.length - macSize ∧
    f.p.hdr = [] ∧ f.p.body = [] ∧ f.err = false := by
  intro r f
  have h1 := flushSeq_spec ⟨hdr, body⟩ bs
  have hc := flushOnce_conserve r.p (hdr.length + body.length) (hdr.length + body.length)
  have hpl := flushOnce_plain r.p (hdr.length + body.length) (hdr.length + body.length)
  have hlen : r.p.hdr.length + r.p.body.length ≤ hdr.length + body.length := by
    have := congrArg List.length h1.1
    simp only [List.length_append] at this
    show (flushSeq ⟨hdr, body⟩ bs).p.hdr.length + (flushSeq ⟨hdr, body⟩ bs).p.body.length ≤ _
    omega
  have herr : f.err = false := by
    show (flushOnce r.p (hdr.length + body.length) (hdr.length + body.length)).err = false
    unfold flushOnce
    have a1 : ¬ (min (hdr.length + body.length) r.p.hdr.length < r.p.hdr.length) := by omega
    simp only [a1, ↓reduceIte, decide_eq_false_iff_not]
    omega
  obtain ⟨e1, e2⟩ := flushOnce_done _ _ _ herr
  refine ⟨?_, ?_, e1, e2, herr⟩
  · rw [e1, e2] at hc
    simp only [List.append_nil] at hc
    show (flushSeq ⟨hdr, body⟩ bs).out ++ (flushOnce r.p _ _).out = hdr ++ body
    rw [← h1.1, ← hc]
  · have b := h1.2
    have hp : (flushOnce r.p (hdr.length + body.length) (hdr.length + body.length)).p.plain = 0 := by
      simp only [Pending.plain, e2, List.length_nil]; omega
    rw [hp] at hpl
    have b' : (flushSeq ⟨hdr, body⟩ bs).nn + r.p.plain = body.length - macSize := b
    show (flushSeq ⟨hdr, body⟩ bs).nn + (flushOnce r.p _ _).nn = body.length - macSize
    omega

/-- **no new record can be started until the pending one is out** -/
theorem write_while_pending (p : Pending) (n : Nat) (h c : Bytes) (hn : n ≤ 65535)
    (hp : p.hdr ≠ [] ∨ p.body ≠ []) : writeMessage p n h c = .err "ErrMessageNotFlushed" := by
  unfold writeMessage
  have : ¬ n > 65535 := by omega
  have hp' : p.hdr.length > 0 ∨ p.body.length > 0 := by
    rcases hp with h1 | h1
    · left; cases hq : p.hdr with
      | nil => exact absurd hq h1
      | cons _ _ => simp
    · right; cases hq : p.body with
      | nil => exact absurd hq h1
      | cons _ _ => simp
  simp [this, hp']

/-- a flush with nothing pending writes nothing -/
theorem flush_nothing (b1 b2 : Nat) : flushOnce ⟨[], []⟩ b1 b2 = ⟨⟨[], []⟩, [], 0, false⟩ := by
  simp [flushOnce, reported]

/-! ### reads -/

/-- io.ReadFull's result is a function of the byte stream, not of how it is cut -/
theorem readFull_spec (k : Nat) (frs : List Bytes) :
    (k ≤ frs.flatten.length → ∃ r, readFull k frs = some (frs.flatten.take k, r) ∧ r.flatten = frs.flatten.drop k) ∧
    (frs.flatten.length < k → readFull k frs = none) := by
  induction frs generalizing k with
  | nil =>
    cases k with
    | zero => simp [readFull]
    | succ k => simp [readFull]
  | cons f frs ih =>
    cases k with
    | zero => simp [readFull]
    | succ k =>
      simp only [readFull, List.flatten_cons, List.length_append]
      by_cases hk : k + 1 ≤ f.length
      · simp only [hk, ↓reduceIte]
        constructor
        · intro _
          refine ⟨f.drop (k + 1) :: frs, ?_, ?_⟩
          · rw [List.take_append_of_le_length hk]
          · simp [List.drop_append_of_le_length hk]
        · intro h; omega
      · simp only [hk, ↓reduceIte]
        have hi := ih (k + 1 - f.length)
        constructor
        · intro hle
          obtain ⟨r, h1, h2⟩ := hi.1 (by omega)
          refine ⟨r, ?_, ?_⟩
          · rw [h1, List.take_append]
            have : f.take (k + 1) = f := List.take_of_length_le (by omega)
            rw [this]
          · rw [h2, List.drop_append]
            have : f.drop (k + 1) = [] := List.drop_of_length_le (by omega)
            rw [this, List.nil_append]
        · intro hlt
          rw [hi.2 (by omega)]

/-- **record reads (ReadHeader / ReadBody use io.ReadFull) do not depend on how
    the transport fragments the stream** -/
theorem readFull_frag_independent (k : Nat) (frs frs' : List Bytes) (h : frs.flatten = frs'.flatten) :
    (readFull k frs).map (fun x => (x.1, x.2.flatten)) = (readFull k frs').map (fun x => (x.1, x.2.flatten)) := by
  by_cases hk : k ≤ frs.flatten.length
  · obtain ⟨r, h1, h2⟩ := (readFull_spec k frs).1 hk
    obtain ⟨r', h1', h2'⟩ := (readFull_spec k frs').1 (by rw [← h]; exact hk)
    simp [h1, h1', h2, h2', h]
  · have h1 := (readFull_spec k frs).2 (by omega)
    have h2 := (readFull_spec k frs').2 (by rw [← h]; omega)
    simp [h1, h2]

def allFull (fields : List (Nat × Mode)) : Bool := fields.all fun f => f.2 == .full

/-- **a handshake whose every field is read with io.ReadFull parses the same
    fields whatever the fragmentation** -/
theorem readFields_frag_independent (fields : List (Nat × Mode)) (hf : allFull fields = true)
    (frs frs' : List Bytes) (h : frs.flatten = frs'.flatten) :
    readFields fields frs = readFields fields frs' := by
  induction fields generalizing frs frs' with
  | nil => rfl
  | cons f rest ih =>
    obtain ⟨k, m⟩ := f
    simp only [allFull, List.all_cons, Bool.and_eq_true, beq_iff_eq] at hf
    obtain ⟨hm, hrest⟩ := hf
    subst hm
    simp only [readFields]
    by_cases hk : k ≤ frs.flatten.length
    · obtain ⟨r, h1, h2⟩ := (readFull_spec k frs).1 hk
      obtain ⟨r', h1', h2'⟩ := (readFull_spec k frs').1 (by rw [← h]; exact hk)
      rw [h1, h1', h]
      have := ih hrest r r' (by rw [h2, h2', h])
      simp [this]
    · rw [(readFull_spec k frs).2 (by omega), (readFull_spec k frs').2 (by rw [← h]; omega)]

/-- with a bare Read the same bytes cut differently parse differently (the
    behaviour of the handshake readers before the repair) -/
theorem bare_read_depends_on_fragmentation :
    readFields [(1, .bare), (3, .bare)] [[9, 1, 2, 3]] ≠ readFields [(1, .bare), (3, .bare)] [[9, 1], [2, 3]] := by
  decide

/-! non-vacuity -/
example : readFull 3 [[1], [], [2, 3, 4], [5]] = some ([1, 2, 3], [[4], [5]]) := by decide
example : (flushSeq ⟨[1, 2, 3], [4, 5]⟩ [(2, 9), (0, 9), (9, 1)]).out = [1, 2, 3, 4] := by decide

end Lnc.Props.C16
