import LncModel.CloseSys
/-
  C12 — Close as a concurrent system (CloseSys.lean): under EVERY scheduler

    * Close never waits for anything before `wg.Wait()`              (closer_free_before_wait)
    * the system cannot deadlock before Close has returned            (no_deadlock)
    * once Close has reached `wg.Wait()`, every move — of Close or of a loop
      goroutine — strictly decreases (calls left) + (goroutines left): the
      rest of the run is at most that long                            (move_decreases, run_bounded)
    * when Close has returned, both loops have returned               (returned_means_all_done)

  for every table that satisfies `Ready`; `Ready` of the table regenerated from
  /repo is an obligation in Inst/C12.lean.
-/
namespace Lnc.Props.C12
open Lnc.Gbn.Shutdown

/-! ### raised signals only grow -/

theorem raisedOf_take_mono (order : List String) (a b : Nat) (h : a ≤ b) (s : Signal)
    (hs : (raisedOf (order.take a)).contains s = true) : (raisedOf (order.take b)).contains s = true := by
  simp only [raisedOf, List.contains_iff_mem, List.mem_filterMap] at *
  obtain ⟨c, hc, hcs⟩ := hs
  exact ⟨c, List.take_subset_take_left order h hc, hcs⟩

theorem released_mono (r r' : List Signal) (p : BlockPoint)
    (h : ∀ s, r.contains s = true → r'.contains s = true) (hp : released r p = true) : released r' p = true := by
  simp only [released, List.any_eq_true, Bool.or_eq_true, beq_iff_eq] at *
  obtain ⟨s, hs, hor⟩ := hp
  refine ⟨s, hs, ?_⟩
  rcases hor with h1 | h1
  · exact Or.inl h1
  · exact Or.inr (h s h1)

/-! ### well-formed states -/

structure WF (f : Facts) (σ : CSt) : Prop where
  points : ∀ p, some p ∈ σ.gs → p ∈ f.blocking
  pc_le : σ.pc ≤ f.order.length
  after_wait : waitIdx f < σ.pc → σ.allDone = true

theorem allDone_get (σ : CSt) (h : σ.allDone = true) (i : Nat) (p : BlockPoint) : σ.gs[i]? ≠ some (some p) := by
  intro hg
  simp only [CSt.allDone, List.all_eq_true, beq_iff_eq] at h
  have := h (some p) (List.mem_of_getElem? hg)
  cases this

theorem idxOf_getElem_le (l : List String) (i : Nat) (h : i < l.length) : l.idxOf l[i] ≤ i := by
  induction l generalizing i with
  | nil => simp at h
  | cons a t ih =>
    cases i with
    | zero => simp
    | succ j =>
      simp only [List.getElem_cons_succ, List.idxOf_cons]
      have hj : j < t.length := by simpa using h
      cases a == t[j] with
      | true => simp
      | false => have := ih j hj; simpa using this

theorem order_at_waitIdx (f : Facts) (h : f.order.contains "g.wg.Wait" = true) :
    f.order[waitIdx f]? = some "g.wg.Wait" := by
  have hm : "g.wg.Wait" ∈ f.order := by simpa using h
  have hlt : waitIdx f < f.order.length := List.idxOf_lt_length_of_mem hm
  rw [List.getElem?_eq_getElem hlt]
  simp [waitIdx, List.getElem_idxOf]

theorem before_waitIdx (f : Facts) (i : Nat) (hi : i < waitIdx f) : ∃ c, f.order[i]? = some c ∧ c ≠ "g.wg.Wait" := by
  have hle : waitIdx f ≤ f.order.length := List.idxOf_le_length
  have hlt : i < f.order.length := by omega
  refine ⟨f.order[i], List.getElem?_eq_getElem hlt, ?_⟩
  intro he
  have : waitIdx f ≤ i := by
    unfold waitIdx
    rw [← he]
    exact idxOf_getElem_le f.order i hlt
  omega

/-- **Close never waits for anything before `wg.Wait()`**: its next call is always enabled -/
theorem closer_free_before_wait (f : Facts) (σ : CSt) (h : σ.pc < waitIdx f) :
    (cstep f σ .closer).isSome = true := by
  obtain ⟨c, hc, hne⟩ := before_waitIdx f σ.pc h
  simp [cstep, hc, hne]

theorem wf_step (f : Facts) (hr : Ready f = true) (σ σ' : CSt) (m : Move) (h : WF f σ) (hs : cstep f σ m = some σ') :
    WF f σ' := by
  simp only [Ready, Bool.and_eq_true] at hr
  have hwait := order_at_waitIdx f hr.1.1
  cases m with
  | closer =>
    simp only [cstep] at hs
    cases hc : f.order[σ.pc]? with
    | none => simp [hc] at hs
    | some c =>
      have hlt : σ.pc < f.order.length := by
        rcases Nat.lt_or_ge σ.pc f.order.length with h1 | h1
        · exact h1
        · rw [List.getElem?_eq_none h1] at hc; cases hc
      simp only [hc] at hs
      by_cases hcw : c = "g.wg.Wait"
      · simp only [hcw, ↓reduceIte] at hs
        by_cases hd : σ.allDone = true
        · simp only [hd, ↓reduceIte, Option.some.injEq] at hs
          subst hs
          exact ⟨h.points, by show σ.pc + 1 ≤ _; omega, fun _ => hd⟩
        · simp [hd] at hs
      · simp only [hcw, ↓reduceIte, Option.some.injEq] at hs
        subst hs
        refine ⟨h.points, by show σ.pc + 1 ≤ _; omega, fun hgt => ?_⟩
        have hgt' : waitIdx f < σ.pc + 1 := hgt
        rcases Nat.lt_or_ge (waitIdx f) σ.pc with h1 | h1
        · exact h.after_wait h1
        · have : σ.pc = waitIdx f := by omega
          rw [this, hwait] at hc
          simp only [Option.some.injEq] at hc
          exact absurd hc.symm hcw
  | wake i next =>
    simp only [cstep] at hs
    split at hs
    · next p hg =>
      have hnd : ¬ (waitIdx f < σ.pc) := fun hgt => allDone_get σ (h.after_wait hgt) i p hg
      split at hs
      · split at hs
        · simp only [Option.some.injEq] at hs
          subst hs
          refine ⟨fun q hq => ?_, h.pc_le, fun hgt => absurd hgt hnd⟩
          have hq' : some q ∈ σ.gs.set i none := hq
          rcases List.mem_or_eq_of_mem_set hq' with h1 | h1
          · exact h.points q h1
          · cases h1
        · split at hs
          · next hb =>
            simp only [Option.some.injEq] at hs
            subst hs
            refine ⟨fun q hq => ?_, h.pc_le, fun hgt => absurd hgt hnd⟩
            have hq' : some q ∈ σ.gs.set i (some next) := hq
            rcases List.mem_or_eq_of_mem_set hq' with h1 | h1
            · exact h.points q h1
            · simp only [Option.some.injEq] at h1
              subst h1
              simpa using hb
          · cases hs
      · cases hs
    · cases hs

/-- **no deadlock before Close has returned**: in every well-formed state in which
    Close still has calls to make, some move is enabled — Close's next call, or,
    when Close sits in `wg.Wait()`, a goroutine that has not returned yet -/
theorem no_deadlock (f : Facts) (hr : Ready f = true) (σ : CSt) (h : WF f σ) (hnf : σ.final f = false) :
    ∃ m, (cstep f σ m).isSome = true := by
  have hr' := hr
  simp only [Ready, Bool.and_eq_true, List.all_eq_true] at hr'
  obtain ⟨⟨hw, hq⟩, hall⟩ := hr'
  have hlt : σ.pc < f.order.length := by
    have := h.pc_le
    simp only [CSt.final, beq_eq_false_iff_ne, ne_eq] at hnf
    omega
  by_cases hcw : f.order[σ.pc]? = some "g.wg.Wait"
  · by_cases hd : σ.allDone = true
    · exact ⟨.closer, by simp [cstep, hcw, hd]⟩
    · -- some goroutine has not returned: it is released and, quit being raised, returns
      have hd' : σ.allDone = false := by simpa using hd
      simp only [CSt.allDone, List.all_eq_false, beq_iff_eq] at hd'
      obtain ⟨g, hg, hgn⟩ := hd'
      cases g with
      | none => exact absurd rfl hgn
      | some p =>
        obtain ⟨i, hi, hgi⟩ := List.getElem_of_mem hg
        have hge : waitIdx f ≤ σ.pc := by
          have hm : σ.pc < f.order.length := hlt
          rw [List.getElem?_eq_getElem hm] at hcw
          simp only [Option.some.injEq] at hcw
          unfold waitIdx
          rw [← hcw]
          exact idxOf_getElem_le f.order σ.pc hm
        have hrel : released (σ.raised f) p = true :=
          released_mono _ _ p (fun s hs => raisedOf_take_mono f.order _ _ hge s hs) (hall p (h.points p hg))
        have hquit : (σ.raised f).contains Signal.quit = true := raisedOf_take_mono f.order _ _ hge _ hq
        refine ⟨.wake i p, ?_⟩
        have hget : σ.gs[i]? = some (some p) := by rw [List.getElem?_eq_getElem hi, hgi]
        have hquit' : Signal.quit ∈ σ.raised f := by simpa using hquit
        simp [cstep, hget, hrel, hquit']
  · refine ⟨.closer, ?_⟩
    rw [List.getElem?_eq_getElem hlt] at hcw
    simp only [Option.some.injEq] at hcw
    simp [cstep, List.getElem?_eq_getElem hlt, hcw]

/-! ### the measure -/

def mu (f : Facts) (σ : CSt) : Nat := (f.order.length - σ.pc) + σ.live

theorem live_set_none (l : List (Option BlockPoint)) (i : Nat) (p : BlockPoint) (h : l[i]? = some (some p)) :
    ((l.set i none).filter (· != none)).length + 1 = (l.filter (· != none)).length := by
  induction l generalizing i with
  | nil => simp at h
  | cons x xs ih =>
    cases i with
    | zero =>
      simp only [List.getElem?_cons_zero, Option.some.injEq] at h
      subst h
      simp
    | succ j =>
      simp only [List.getElem?_cons_succ] at h
      have := ih j h
      simp only [List.set_cons_succ]
      cases x with
      | none => simpa using this
      | some q => simp only [List.filter_cons]; simp; omega

/-- **once Close has reached `wg.Wait()`, every move makes progress**: a woken
    goroutine returns (quit is closed), Close's calls are consumed — the sum of
    both strictly decreases whatever the scheduler does -/
theorem move_decreases (f : Facts) (hr : Ready f = true) (σ σ' : CSt) (m : Move) (h : WF f σ)
    (hge : waitIdx f ≤ σ.pc) (hs : cstep f σ m = some σ') :
    mu f σ' + 1 = mu f σ ∧ waitIdx f ≤ σ'.pc := by
  have hr' := hr
  simp only [Ready, Bool.and_eq_true] at hr'
  have hq := hr'.1.2
  cases m with
  | closer =>
    simp only [cstep] at hs
    cases hc : f.order[σ.pc]? with
    | none => simp [hc] at hs
    | some c =>
      have hlt : σ.pc < f.order.length := by
        rcases Nat.lt_or_ge σ.pc f.order.length with h1 | h1
        · exact h1
        · rw [List.getElem?_eq_none h1] at hc; cases hc
      simp only [hc] at hs
      have key : σ' = { σ with pc := σ.pc + 1 } := by
        by_cases hcw : c = "g.wg.Wait"
        · simp only [hcw, ↓reduceIte] at hs
          by_cases hd : σ.allDone = true
          · simp only [hd, ↓reduceIte, Option.some.injEq] at hs; exact hs.symm
          · simp [hd] at hs
        · simp only [hcw, ↓reduceIte, Option.some.injEq] at hs; exact hs.symm
      subst key
      refine ⟨?_, by show waitIdx f ≤ σ.pc + 1; omega⟩
      simp only [mu, CSt.live]
      omega
  | wake i next =>
    have hquit : (σ.raised f).contains Signal.quit = true := raisedOf_take_mono f.order _ _ hge _ hq
    simp only [cstep] at hs
    split at hs
    · next p hg =>
      by_cases hrel : released (σ.raised f) p = true
      · simp only [hrel, hquit, ↓reduceIte, Option.some.injEq] at hs
        subst hs
        refine ⟨?_, hge⟩
        have := live_set_none σ.gs i p hg
        simp only [mu, CSt.live]
        omega
      · simp [hrel] at hs
    · cases hs

/-- **the rest of Close is bounded under every scheduler**: from a state in which
    Close has reached `wg.Wait()`, no run is longer than (calls left) + (goroutines left) -/
theorem run_bounded (f : Facts) (hr : Ready f = true) (ms : List Move) :
    ∀ (σ σ' : CSt), WF f σ → waitIdx f ≤ σ.pc → crun f σ ms = some σ' → ms.length + mu f σ' = mu f σ := by
  induction ms with
  | nil => intro σ σ' _ _ h; simp only [crun, Option.some.injEq] at h; subst h; simp
  | cons m ms ih =>
    intro σ σ' h hge hrun
    simp only [crun] at hrun
    split at hrun
    · next σ1 h1 =>
      obtain ⟨hd, hge1⟩ := move_decreases f hr σ σ1 m h hge h1
      have := ih σ1 σ' (wf_step f hr σ σ1 m h h1) hge1 hrun
      simp only [List.length_cons]
      omega
    · cases hrun

theorem wf_run (f : Facts) (hr : Ready f = true) (ms : List Move) :
    ∀ (σ σ' : CSt), WF f σ → crun f σ ms = some σ' → WF f σ' := by
  induction ms with
  | nil => intro σ σ' h hrun; simp only [crun, Option.some.injEq] at hrun; subst hrun; exact h
  | cons m ms ih =>
    intro σ σ' h hrun
    simp only [crun] at hrun
    split at hrun
    · next σ1 h1 => exact ih σ1 σ' (wf_step f hr σ σ1 m h h1) hrun
    · cases hrun

/-- the states Close can start in: no call made yet, the loop goroutines anywhere in the table -/
def Start (f : Facts) (σ : CSt) : Prop := σ.pc = 0 ∧ ∀ p, some p ∈ σ.gs → p ∈ f.blocking

theorem wf_start (f : Facts) (σ : CSt) (h : Start f σ) : WF f σ :=
  ⟨h.2, by rw [h.1]; exact Nat.zero_le _, fun hlt => by rw [h.1] at hlt; omega⟩

/-- **when Close has returned, both loop goroutines have returned** — in every run,
    from every starting configuration -/
theorem returned_means_all_done (f : Facts) (hr : Ready f = true) (σ σ' : CSt) (ms : List Move)
    (hstart : Start f σ) (hrun : crun f σ ms = some σ') (hfin : σ'.final f = true) : σ'.allDone = true := by
  have hwf := wf_run f hr ms σ σ' (wf_start f σ hstart) hrun
  apply hwf.after_wait
  have hr' := hr
  simp only [Ready, Bool.and_eq_true] at hr'
  have hm : "g.wg.Wait" ∈ f.order := by simpa using hr'.1.1
  have : waitIdx f < f.order.length := List.idxOf_lt_length_of_mem hm
  simp only [CSt.final, beq_iff_eq] at hfin
  omega

/-! non-vacuity: the shape of the real table; two goroutines, one in a select, one in a stream read -/
def demo : Facts :=
  ⟨[], [], ["close", "g.sendPacket", "g.cancel", "g.sendQueue.stop", "g.wg.Wait", "g.pingTicker.Stop"],
   [⟨"select", [.quit]⟩, ⟨"recvFromStream", [.ctxCancel]⟩, ⟨"waitForSync", [.queueQuit, .timer]⟩]⟩

example : Ready demo = true := by decide
example : (crun demo ⟨0, [some ⟨"select", [.quit]⟩, some ⟨"recvFromStream", [.ctxCancel]⟩]⟩
    [.closer, .wake 0 ⟨"select", [.quit]⟩, .closer, .closer, .closer, .wake 1 ⟨"select", [.quit]⟩, .closer, .closer]).map
      (fun σ => (σ.final demo, σ.allDone)) = some (true, true) := by decide
/-- without `close(quit)` before the wait the table is not Ready -/
example : Ready ⟨[], [], ["g.cancel", "g.wg.Wait"], [⟨"recvFromStream", [.ctxCancel]⟩]⟩ = false := by decide

end Lnc.Props.C12
