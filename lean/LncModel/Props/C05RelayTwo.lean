import LncModel.Props.C05Relay
/-
  C05 / C01 — the relay layer with several goroutines inside the send function.

  `relay_layer_is_lossy_fifo` takes one sender at a time.  In a ServerConn the
  stream mutex is held per *attempt*, and Go-Back-N calls the send function from
  two goroutines (the send loop: DATA; the receive loop: ACK / NACK), so the
  retry of one payload can be overtaken by the other goroutine's payload: the
  physical sequence in the mailbox is then not an in-place duplication.  What
  the protocol theorems need (`bi_step`: each physical step is a step of one
  logical channel) is order per logical channel.  Here the unit is the single
  attempt, attempts of different goroutines interleave freely, and the claim is
  made per class of payloads `p` (DATA of one direction, or the responses of the
  other): if the attempts that carry `p`-payloads come from one goroutine (a
  failed attempt is followed, among the `p`-attempts, by an attempt with the
  same payload), the `p`-payloads handed out arise from the `p`-payloads sent by
  dropping and in-place repetition — whatever the other goroutine does in
  between.
-/
namespace Lnc.Props.C05
open Lnc Lnc.Mailbox.Relay

/-- one stream operation -/
inductive Att
  | send (m : Bytes) (t : SendTry)
  | recv (t : RecvTry)
deriving Repr, DecidableEq

def attStep (s : St) : Att → St
  | .send m .ok => { s with box := s.box ++ [m] }
  | .send _ .okLost => s
  | .send m (.fail q) => if q then { s with box := s.box ++ [m] } else s
  | .recv .ok => match s.box with
    | [] => s
    | h :: t => { box := t, got := s.got ++ [h] }
  | .recv (.fail taken) => match s.box with
    | [] => s
    | _ :: t => if taken then { s with box := t } else s

def attRun (s : St) (as : List Att) : St := as.foldl attStep s

/-- the `p`-payload calls started so far, in order, and whether the last of them is still being
    retried: a terminal attempt (`ok`, `okLost`) ends its call -/
def callsP (p : Bytes → Bool) : List Att → List Bytes × Bool → List Bytes × Bool
  | [], acc => acc
  | .recv _ :: r, acc => callsP p r acc
  | .send m t :: r, (cs, open_) =>
    if p m then
      let cs' := if open_ then cs else cs ++ [m]       -- a retry belongs to the open call
      callsP p r (cs', match t with | .fail _ => true | _ => false)
    else callsP p r (cs, open_)

/-- one goroutine per class: while a `p`-call is open (its last attempt failed), the next
    `p`-attempt carries the same payload -/
def OneSender (p : Bytes → Bool) : List Att → Option Bytes → Prop
  | [], _ => True
  | .recv _ :: r, o => OneSender p r o
  | .send m t :: r, o =>
    if p m then
      (match o with | some m' => m = m' | none => True) ∧
        OneSender p r (match t with | .fail _ => some m | _ => none)
    else OneSender p r o

theorem ld_filter_snoc {zs ys : List Bytes} (p : Bytes → Bool) (m : Bytes) (hp : p m = true)
    (h : LossyDup zs (ys.filter p)) (hl : zs.getLast? = some m) : LossyDup zs ((ys ++ [m]).filter p) := by
  rw [List.filter_append]
  simp only [List.filter_cons, hp, ↓reduceIte, List.filter_nil]
  exact ld_snoc_emit m h hl

theorem filter_snoc_other (p : Bytes → Bool) (ys : List Bytes) (m : Bytes) (hp : p m = false) :
    (ys ++ [m]).filter p = ys.filter p := by
  rw [List.filter_append]; simp [hp]

/-- invariant for class `p`: the `p`-payloads handed out and queued are a lossy image of the
    `p`-calls; while a call is open its payload is the last call -/
structure InvP (p : Bytes → Bool) (cs : List Bytes) (o : Option Bytes) (s : St) : Prop where
  ld : LossyDup cs ((s.got ++ s.box).filter p)
  last : ∀ m, o = some m → cs.getLast? = some m

theorem attRun_invP (p : Bytes → Bool) (as : List Att) (cs : List Bytes) (o : Option Bytes) (s : St)
    (hinv : InvP p cs o s) (hone : OneSender p as o) :
    LossyDup (callsP p as (cs, o.isSome)).1 (((attRun s as).got ++ (attRun s as).box).filter p) := by
  induction as generalizing cs o s with
  | nil => exact hinv.ld
  | cons a r ih =>
    cases a with
    | recv t =>
      simp only [callsP, attRun, List.foldl_cons]
      refine ih cs o _ ⟨?_, hinv.last⟩ hone
      have h := hinv.ld
      cases hb : s.box with
      | nil => cases t <;> simpa [attStep, hb] using h
      | cons b bs =>
        cases t with
        | ok => simpa [attStep, hb, List.append_assoc] using h
        | fail taken =>
          cases taken with
          | false => simpa [attStep, hb] using h
          | true =>
            simp only [attStep, hb, ↓reduceIte]
            rw [hb] at h
            exact ld_sublist h (List.Sublist.filter p
              (List.Sublist.append (List.Sublist.refl _) (List.Sublist.cons _ (List.Sublist.refl _))))
    | send m t =>
      by_cases hp : p m = true
      · -- a p-attempt
        simp only [OneSender, hp, ↓reduceIte] at hone
        obtain ⟨hsame, hrest⟩ := hone
        -- the call list after this attempt, and its last element
        have hcs' : ∀ cs', cs' = (if o.isSome then cs else cs ++ [m]) →
            LossyDup cs' ((s.got ++ s.box).filter p) ∧ cs'.getLast? = some m := by
          intro cs' hc
          cases ho : o with
          | none =>
            simp only [ho, Option.isSome_none, Bool.false_eq_true, ↓reduceIte] at hc
            subst hc
            exact ⟨ld_append_drop m hinv.ld, by simp⟩
          | some m' =>
            simp only [ho, Option.isSome_some, ↓reduceIte] at hc
            subst hc
            have : m = m' := by simpa [ho] using hsame
            subst this
            exact ⟨hinv.ld, hinv.last m ho⟩
        obtain ⟨hld, hlast⟩ := hcs' _ rfl
        have hq : LossyDup (if o.isSome then cs else cs ++ [m]) ((s.got ++ (s.box ++ [m])).filter p) := by
          rw [← List.append_assoc]
          exact ld_filter_snoc p m hp hld hlast
        simp only [callsP, hp, ↓reduceIte, attRun, List.foldl_cons]
        cases t with
        | ok =>
          have := ih (if o.isSome then cs else cs ++ [m]) none (attStep s (.send m .ok))
            ⟨by simpa [attStep] using hq, by intro _ h; cases h⟩ hrest
          simpa [attRun] using this
        | okLost =>
          have := ih (if o.isSome then cs else cs ++ [m]) none (attStep s (.send m .okLost))
            ⟨by simpa [attStep] using hld, by intro _ h; cases h⟩ hrest
          simpa [attRun] using this
        | fail q =>
          have hst : LossyDup (if o.isSome then cs else cs ++ [m])
              (((attStep s (.send m (.fail q))).got ++ (attStep s (.send m (.fail q))).box).filter p) := by
            cases q with
            | true => simpa [attStep] using hq
            | false => simpa [attStep] using hld
          have := ih (if o.isSome then cs else cs ++ [m]) (some m) (attStep s (.send m (.fail q)))
            ⟨hst, by intro m' h; cases h; exact hlast⟩ hrest
          simpa [attRun] using this
      · -- an attempt of the other class: the p-projection does not change
        have hp' : p m = false := by simpa using hp
        simp only [OneSender, hp', Bool.false_eq_true, ↓reduceIte] at hone
        simp only [callsP, hp', Bool.false_eq_true, ↓reduceIte, attRun, List.foldl_cons]
        refine ih cs o _ ⟨?_, hinv.last⟩ hone
        have h := hinv.ld
        cases t with
        | ok => simpa [attStep, ← List.append_assoc, filter_snoc_other p _ m hp'] using h
        | okLost => simpa [attStep] using h
        | fail q =>
          cases q with
          | true => simpa [attStep, ← List.append_assoc, filter_snoc_other p _ m hp'] using h
          | false => simpa [attStep] using h

/-- **per logical channel, the relay layer is a lossy, duplicating, order-keeping channel whatever
    the other goroutine does**: for every interleaving of single stream operations and every outcome
    of each, and every class `p` of payloads whose attempts come from one goroutine, the `p`-payloads
    handed to Go-Back-N arise from the `p`-payloads given to the send function by dropping some and
    repeating some in place. -/
theorem relay_layer_per_channel (p : Bytes → Bool) (as : List Att) (hone : OneSender p as none) :
    LossyDup (callsP p as ([], false)).1 ((attRun St.init as).got.filter p) := by
  have h := attRun_invP p as [] none St.init ⟨by simpa [St.init] using LossyDup.nil, by intro _ h; cases h⟩ hone
  simp only [Option.isSome_none] at h
  rw [List.filter_append] at h
  exact ld_sublist h (List.sublist_append_left _ _)

/-! non-vacuity: DATA payloads start with 2, responses with 3.  The retry of DATA [2,7] is overtaken
    by a response; per class the order is kept (the physical order [2,7] [3,1] [2,7] is not an
    in-place duplication). -/
def isData (b : Bytes) : Bool := b.head? == some 2
def demoAtts : List Att :=
  [.send [2, 7] (.fail true), .send [3, 1] .ok, .send [2, 7] .ok, .send [2, 8] .ok,
   .recv .ok, .recv .ok, .recv .ok, .recv .ok]
example : (attRun St.init demoAtts).got = [[2, 7], [3, 1], [2, 7], [2, 8]] := by decide
example : (callsP isData demoAtts ([], false)).1 = [[2, 7], [2, 8]] := by decide
example : OneSender isData demoAtts none := by simp [OneSender, demoAtts, isData]

end Lnc.Props.C05
