import LncModel.Stack
import LncModel.Props.C02Honest
import LncModel.Props.C01
import LncModel.Props.C14
import LncModel.Props.C15
import LncModel.Props.C19
import LncModel.Props.C08
import LncModel.Props.C02
/-
  C05 — End to end: bytes written on one side arrive intact through the relay.
  The composition of the layer theorems (their interfaces are types, so the
  kernel checks that they fit).
-/
namespace Lnc.Props.C05
open Lnc Lnc.Gbn Lnc.Mailbox Lnc.Mailbox.Stack Lnc.Mailbox.Stream

/-- MsgData's length prefix is 32 bits -/
def maxLen : Nat := 4294967296

theorem kitRecv_one (w : Bytes) (hw : w.length < maxLen) :
    MsgData.deserialize (kitSend w) = .ok ⟨0, w⟩ :=
  Lnc.Props.C19.msgdata_roundtrip ⟨0, []⟩ 0 w hw

theorem kitRecvAll_cons (m w : Bytes) (v : UInt8) (ms : List Bytes) (hm : MsgData.deserialize m = .ok ⟨v, w⟩) :
    kitRecvAll (m :: ms) = w :: kitRecvAll ms := by
  unfold kitRecvAll
  rw [List.filterMap_cons]
  simp only [hm]

theorem kitRecvAll_kitSend (ws : List Bytes) (hlen : ∀ w ∈ ws, w.length < maxLen) :
    kitRecvAll (ws.map kitSend) = ws := by
  induction ws with
  | nil => rfl
  | cons w ws ih =>
    rw [List.map_cons, kitRecvAll_cons (kitSend w) w 0 _ (kitRecv_one w (hlen w List.mem_cons_self)),
      ih (fun x hx => hlen x (List.mem_cons_of_mem _ hx))]

theorem kitRecvAll_prefix (a b : List Bytes) (h : a <+: b) : kitRecvAll a <+: kitRecvAll b := by
  obtain ⟨t, rfl⟩ := h
  simp only [kitRecvAll, List.filterMap_append]
  exact List.prefix_append _ _

/-- **Byte transport through GBN and the relay.**  If the GBN layer hands the
    receiving side a prefix of the packets the sending side queued (C01, for
    every drop/dup/delay schedule of the relay), then for every sequence of
    connKit writes and every sequence of read-buffer sizes the bytes read are a
    prefix of the bytes written — message framing (C19), chunking/reassembly
    (C14) and the read buffer (C15) compose. -/
theorem transport_stream_prefix (writes : List Bytes) (hlen : ∀ w ∈ writes, w.length < maxLen)
    (out : List Pkt) (hout : out <+: packetsOf writes) (ks : List Nat) :
    (kitRead out ks).1.flatten <+: writes.flatten := by
  have hmsgs : reassembleOut out [] <+: writes.map kitSend :=
    Lnc.Props.C14.C14_with_C01 0 (writes.map kitSend) out hout
  have hchunks : kitRecvAll (reassembleOut out []) <+: writes := by
    have := kitRecvAll_prefix _ _ hmsgs
    rwa [kitRecvAll_kitSend writes hlen] at this
  obtain ⟨rest, hrest⟩ := hchunks
  have hread := Lnc.Props.C15.buf_stream ks ⟨[], kitRecvAll (reassembleOut out [])⟩
  have hr0 : (⟨[], kitRecvAll (reassembleOut out [])⟩ : RState).rest = (kitRecvAll (reassembleOut out [])).flatten := by
    simp [RState.rest]
  rw [hr0] at hread
  refine ⟨(readAll bufRead ks ⟨[], kitRecvAll (reassembleOut out [])⟩).2.rest ++ rest.flatten, ?_⟩
  show (kitRead out ks).1.flatten ++ _ = writes.flatten
  simp only [kitRead]
  rw [← List.append_assoc, hread, ← hrest, List.flatten_append]

/-- … and when everything has been delivered and drained, the streams are equal -/
theorem transport_stream_complete (writes : List Bytes) (hlen : ∀ w ∈ writes, w.length < maxLen)
    (ks : List Nat) (hdrained : (kitRead (packetsOf writes) ks).2.rest = []) :
    (kitRead (packetsOf writes) ks).1.flatten = writes.flatten := by
  have hmsgs : reassembleOut (packetsOf writes) [] = writes.map kitSend :=
    Lnc.Props.C14.reassemble_msgs 0 (writes.map kitSend)
  have hread := Lnc.Props.C15.buf_stream ks ⟨[], kitRecvAll (reassembleOut (packetsOf writes) [])⟩
  simp only [kitRead] at hdrained ⊢
  rw [hmsgs, kitRecvAll_kitSend writes hlen] at hread hdrained ⊢
  have hr0 : (⟨[], writes⟩ : RState).rest = writes.flatten := by simp [RState.rest]
  rw [hr0, hdrained, List.append_nil] at hread
  exact hread

/-- **every message the relay sees is ciphertext**: what the noise layer hands to
    connKit.Write are sealed units only (C08), and GBN/MsgData framing adds
    headers but no plaintext -/
theorem relay_sees_only_ciphertext (R dir : Nat) (c : Cipher.CS) (recs : List Bytes) :
    ∀ u ∈ Cipher.writeAll R dir c recs, ∃ c1 c2 p, u = (Cipher.sealCt dir c1 (Cipher.lenHdr p.length), Cipher.sealCt dir c2 p) :=
  fun u hu => by
    obtain ⟨c1, c2, p, h, _⟩ := Lnc.Props.C08.wire_is_ciphertext R dir c recs u hu
    exact ⟨c1, c2, p, h⟩

/-- the record layer on top returns a prefix of the records written whatever
    bytes it is fed (C02), in particular on the honest prefix delivered above -/
theorem records_prefix (recs : List Bytes) (fuel dir : Nat) (wire : List Record.SByte) :
    (Record.oks (Record.readLoop recs fuel ⟨dir, 0, false⟩ wire)).filterMap (fun j => recs[j]?) <+: recs :=
  Lnc.Props.C02.C02_plaintext_prefix recs fuel dir wire

/-- … and all of them, in order, when the bytes that arrive are the bytes that
    were sent (which `transport_stream_complete` provides once the transfer has
    drained): the record layer then hands out every record written -/
theorem records_complete (recs : List Bytes) (dir fuel : Nat) (hfuel : recs.length ≤ fuel) :
    Record.oks (Record.readLoop recs fuel ⟨dir, 0, false⟩ (Lnc.Props.C02.honestFrom dir 0 recs)) = List.range recs.length :=
  Lnc.Props.C02.C02_honest_complete recs dir fuel hfuel

/-! non-vacuity: two connKit writes, the second one only partly delivered yet -/
example : (kitRead ((packetsOf [[1, 2, 3], [4, 5]]).take 1) [2, 2, 2]).1 = [[1, 2], [3]] := by decide

end Lnc.Props.C05
