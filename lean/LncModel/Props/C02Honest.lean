import LncModel.Record
/-
  C02, the other half: when nobody interferes, the reader returns *every*
  record the peer wrote, in order (the prefix of C02_prefix is the whole list).
-/
namespace Lnc.Props.C02
open Lnc Lnc.Mailbox.Record

/-- the honest wire bytes of records `j, j+1, …` given their plaintexts -/
def honestFrom (dir : Nat) : Nat → List Bytes → List SByte
  | _, [] => []
  | j, p :: ps => unitBytes dir (2 * j) hdrLen ++ unitBytes dir (2 * j + 1) (p.length + macSize) ++ honestFrom dir (j + 1) ps

theorem unitBytes_length (dir use len : Nat) : (unitBytes dir use len).length = len := by
  simp [unitBytes]

/-- honest bytes contain no pause mark -/
theorem pauseAt_unit (dir use len n : Nat) (rest : List SByte) (hn : n = len) :
    pauseAt n (unitBytes dir use len ++ rest) = none := by
  subst hn
  unfold pauseAt
  rw [List.take_left' (unitBytes_length _ _ _)]
  rw [List.findIdx?_eq_none_iff]
  intro x hx
  simp only [unitBytes, List.mem_map] at hx
  obtain ⟨i, _, rfl⟩ := hx
  rfl

theorem readMessage_honest (recs : List Bytes) (dir j : Nat) (p : Bytes) (rest : List SByte)
    (hp : recs[j]? = some p) :
    readMessage recs ⟨dir, 2 * j, false⟩
        (unitBytes dir (2 * j) hdrLen ++ unitBytes dir (2 * j + 1) (p.length + macSize) ++ rest) =
      (.ok j, ⟨dir, 2 * j + 2, false⟩, rest) := by
  have hdiv : 2 * j / 2 = j := by omega
  have hdiv1 : (2 * j + 1) / 2 = j := by omega
  have hmod : 2 * j % 2 = 0 := by omega
  have hmod1 : (2 * j + 1) % 2 ≠ 0 := by omega
  have hlen0 : (unitBytes dir (2 * j) hdrLen).length = hdrLen := unitBytes_length _ _ _
  have hlen1 : (unitBytes dir (2 * j + 1) (p.length + macSize)).length = p.length + macSize := unitBytes_length _ _ _
  have htake : (unitBytes dir (2 * j) hdrLen ++ unitBytes dir (2 * j + 1) (p.length + macSize) ++ rest).take hdrLen
      = unitBytes dir (2 * j) hdrLen := by
    rw [List.append_assoc, List.take_left' hlen0]
  have hdrop : (unitBytes dir (2 * j) hdrLen ++ unitBytes dir (2 * j + 1) (p.length + macSize) ++ rest).drop hdrLen
      = unitBytes dir (2 * j + 1) (p.length + macSize) ++ rest := by
    rw [List.append_assoc, List.drop_left' hlen0]
  have hopen0 : opens recs dir (2 * j) (unitBytes dir (2 * j) hdrLen) = true := by
    simp [opens, unitLen, hdiv, hp, hmod]
  have hopen1 : opens recs dir (2 * j + 1) (unitBytes dir (2 * j + 1) (p.length + macSize)) = true := by
    simp [opens, unitLen, hdiv1, hp, hmod1]
  have hwl : ¬ (unitBytes dir (2 * j) hdrLen ++ unitBytes dir (2 * j + 1) (p.length + macSize) ++ rest).length < hdrLen := by
    simp only [List.length_append, hlen0]; omega
  have hpa : pauseAt hdrLen (unitBytes dir (2 * j) hdrLen ++ unitBytes dir (2 * j + 1) (p.length + macSize) ++ rest) = none := by
    rw [List.append_assoc]; exact pauseAt_unit _ _ _ _ _ rfl
  have hpb : pauseAt (p.length + macSize) (unitBytes dir (2 * j + 1) (p.length + macSize) ++ rest) = none :=
    pauseAt_unit _ _ _ _ _ rfl
  simp only [readMessage, Bool.false_eq_true, ↓reduceIte, hpa, hwl, htake, hopen0, Bool.not_true, hdiv, hp, hdrop, hpb]
  have hbl : ¬ (unitBytes dir (2 * j + 1) (p.length + macSize) ++ rest).length < p.length + macSize := by
    simp only [List.length_append, hlen1]; omega
  rw [if_neg hbl, List.take_left' hlen1, hopen1, List.drop_left' hlen1]
  simp

/-- **an undisturbed stream is read completely**: with enough calls, the reader
    returns records `j, j+1, …, n-1` in order and no error -/
theorem readLoop_honest (recs : List Bytes) (dir : Nat) (ps : List Bytes) (j fuel : Nat)
    (hrecs : ∀ i, i < ps.length → recs[j + i]? = ps[i]?) (hfuel : ps.length ≤ fuel) :
    readLoop recs fuel ⟨dir, 2 * j, false⟩ (honestFrom dir j ps) = (List.range' j ps.length).map Res.ok := by
  induction ps generalizing j fuel with
  | nil =>
    cases fuel <;> simp [readLoop, honestFrom]
  | cons p ps ih =>
    cases fuel with
    | zero => simp at hfuel
    | succ fuel =>
      have hp : recs[j]? = some p := by simpa using hrecs 0 (by simp)
      have hne : (honestFrom dir j (p :: ps)).isEmpty = false := by
        simp [honestFrom, unitBytes, hdrLen]
      simp only [readLoop, hne, Bool.false_eq_true, ↓reduceIte]
      simp only [honestFrom]
      rw [readMessage_honest recs dir j p _ hp]
      simp only [List.length_cons, List.range'_succ, List.map_cons]
      congr 1
      have := ih (j + 1) fuel (fun i hi => by
        have := hrecs (i + 1) (by simp; omega)
        simpa [Nat.add_assoc, Nat.add_comm 1 i] using this) (by simp at hfuel; omega)
      rwa [show 2 * (j + 1) = 2 * j + 2 by omega] at this

theorem oks_map_ok (l : List Nat) : oks (l.map Res.ok) = l := by
  induction l with
  | nil => rfl
  | cons x xs ih => simp [oks, ih]

/-- **C02, honest completeness**: the records returned on the undisturbed wire
    are exactly all records written, in order -/
theorem C02_honest_complete (recs : List Bytes) (dir fuel : Nat) (hfuel : recs.length ≤ fuel) :
    oks (readLoop recs fuel ⟨dir, 0, false⟩ (honestFrom dir 0 recs)) = List.range recs.length := by
  have := readLoop_honest recs dir recs 0 fuel (fun i _ => by simp) hfuel
  rw [show 2 * 0 = 0 from rfl] at this
  rw [this, oks_map_ok, List.range_eq_range']

example : oks (readLoop [[1, 2], [], [3]] 5 ⟨0, 0, false⟩ (honestFrom 0 0 [[1, 2], [], [3]])) = [0, 1, 2] := by decide

end Lnc.Props.C02
