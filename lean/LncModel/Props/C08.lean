import LncModel.Cipher
/-
  C08 — Cipher stream: fresh nonces, lock-step key rotation, no plaintext on
  the wire.  `R` is the rotation interval (obligation on the regenerated facts:
  keyRotationInterval = 1000 > 0).
-/
namespace Lnc.Props.C08
open Lnc Lnc.Mailbox.Cipher

/-- state after `k` uses, in closed form -/
theorem kth_use (R : Nat) (hR : 0 < R) (k : Nat) :
    CS.after R k CS.init = ⟨k / R, k % R⟩ := by
  suffices h : ∀ k e n, n < R → CS.after R k ⟨e, n⟩ = ⟨e + (n + k) / R, (n + k) % R⟩ by
    have := h k 0 0 hR
    simpa [CS.init] using this
  intro k
  induction k with
  | zero => intro e n hn; simp [CS.after, Nat.div_eq_of_lt hn, Nat.mod_eq_of_lt hn]
  | succ k ih =>
    intro e n hn
    simp only [CS.after, CS.next]
    by_cases h : n + 1 = R
    · simp only [h, ↓reduceIte]
      rw [ih (e + 1) 0 hR]
      have e1 : n + (k + 1) = k + R := by omega
      rw [e1, Nat.zero_add, Nat.add_div_right k hR, Nat.add_mod_right]
      congr 1; omega
    · simp only [h, ↓reduceIte]
      rw [ih e (n + 1) (by omega)]
      have e1 : n + 1 + k = n + (k + 1) := by omega
      rw [e1]

/-- **every use has a fresh (key, nonce) pair**: distinct use counts never
    share epoch and nonce -/
theorem fresh (R : Nat) (hR : 0 < R) (k k' : Nat) (h : k ≠ k') :
    CS.after R k CS.init ≠ CS.after R k' CS.init := by
  rw [kth_use R hR, kth_use R hR]
  intro he
  injection he with h1 h2
  apply h
  rw [← Nat.div_add_mod k R, ← Nat.div_add_mod k' R, h1, h2]

/-- **equal plaintexts never produce equal ciphertexts** (within a direction,
    and across directions since the direction's key is part of the term) -/
theorem equal_plaintexts_distinct_ciphertexts (R : Nat) (hR : 0 < R) (dir k k' : Nat) (p : Bytes)
    (h : k ≠ k') :
    sealCt dir (CS.after R k CS.init) p ≠ sealCt dir (CS.after R k' CS.init) p := by
  intro he
  apply fresh R hR k k' h
  simp only [sealCt, Ct.mk.injEq] at he
  cases h1 : CS.after R k CS.init; cases h2 : CS.after R k' CS.init
  simp_all

theorem after_add (R a b : Nat) (c : CS) : CS.after R (a + b) c = CS.after R b (CS.after R a c) := by
  induction a generalizing c with
  | zero => simp [CS.after]
  | succ a ih => rw [Nat.succ_add]; simp only [CS.after]; exact ih _

/-- **lock-step**: writer and reader, started from equal states, stay equal
    record after record, across any number of rotation boundaries; and the
    reader recovers exactly what was written -/
theorem stream_decrypts (R dir : Nat) (c : CS) (recs : List Bytes) :
    readAll R dir c (writeAll R dir c recs) = recs := by
  induction recs generalizing c with
  | nil => rfl
  | cons p ps ih =>
    simp only [writeAll, writeRecord, readAll, readRecord, openCt, sealCt, and_self, ↓reduceIte]
    rw [ih]

/-- the two directions share nothing: a unit of the other direction never opens -/
theorem no_cross_direction (dir dir' : Nat) (c : CS) (p : Bytes) (h : dir ≠ dir') :
    openCt dir' c (sealCt dir c p) = none := by
  simp [openCt, sealCt, h]

/-- a unit sealed at another use count never opens (no replay, no reordering) -/
theorem no_replay (R : Nat) (hR : 0 < R) (dir k k' : Nat) (p : Bytes) (h : k ≠ k') :
    openCt dir (CS.after R k' CS.init) (sealCt dir (CS.after R k CS.init) p) = none := by
  have hf := fresh R hR k k' h
  simp only [openCt, sealCt, true_and]
  split
  · next he =>
    exfalso; apply hf
    cases h1 : CS.after R k CS.init; cases h2 : CS.after R k' CS.init
    simp_all
  · rfl

/-- **no record observable on the wire contains the plaintext in the clear**:
    syntactically, everything `writeAll` puts on the wire is a sealed unit -/
theorem wire_is_ciphertext (R dir : Nat) (c : CS) (recs : List Bytes) :
    ∀ u ∈ writeAll R dir c recs, ∃ c1 c2 p, u = (sealCt dir c1 (lenHdr p.length), sealCt dir c2 p) ∧ p ∈ recs := by
  induction recs generalizing c with
  | nil => simp [writeAll]
  | cons p ps ih =>
    intro u hu
    simp only [writeAll, writeRecord, List.mem_cons] at hu
    rcases hu with rfl | hu
    · exact ⟨c, c.next R, p, rfl, List.mem_cons_self⟩
    · obtain ⟨c1, c2, q, h1, h2⟩ := ih _ u hu
      exact ⟨c1, c2, q, h1, List.mem_cons_of_mem _ h2⟩

/-! non-vacuity: rotation after 1000 uses = 500 records -/
example : CS.after 1000 999 CS.init = ⟨0, 999⟩ := by rw [kth_use 1000 (by omega)]
example : CS.after 1000 1000 CS.init = ⟨1, 0⟩ := by rw [kth_use 1000 (by omega)]
example : CS.after 3 7 CS.init = ⟨2, 1⟩ := by decide

end Lnc.Props.C08
