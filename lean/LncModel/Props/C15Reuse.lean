import LncModel.Props.C15
/-
  C15, object reuse: a NoiseGrpcConn serves every connection of a session (it is
  the gRPC credentials object).  Its reader state is (pending remainder of the
  current record, records still to come).  A handshake starts a new connection:
  the records to come are the new connection's; `reset` says whether the pending
  remainder is dropped at that point (the code after repair d7f75ca) or kept
  (before).
-/
namespace Lnc.Props.C15
open Lnc Lnc.Mailbox.Stream

/-- the reader state with which the next connection starts -/
def nextConnection (reset : Bool) (old : RState) (records : List Bytes) : RState :=
  { pending := if reset then [] else old.pending, incoming := records }

/-- **with the reset, whatever the previous connection left unread, the reads of
    the new connection return exactly a prefix of what was written on the new
    connection** — for every state the old connection ended in, every record
    sequence and every sequence of buffer sizes -/
theorem reuse_clean (cap : Nat) (old : RState) (records : List Bytes) (ks : List Nat) :
    (readAll (grpcRead cap) ks (nextConnection true old records)).1.flatten <+: records.flatten := by
  have h := grpc_stream cap ks (nextConnection true old records)
  refine ⟨(readAll (grpcRead cap) ks (nextConnection true old records)).2.rest, ?_⟩
  rw [h]
  simp [nextConnection, RState.rest]

/-- without it the first read of the new connection hands out the old remainder -/
theorem reuse_without_reset_counterexample :
    ¬ ∀ (old : RState) (records : List Bytes) (ks : List Nat),
        (readAll (grpcRead 32768) ks (nextConnection false old records)).1.flatten <+: records.flatten := by
  intro h
  have := h ⟨[9, 9], []⟩ [[1]] [4]
  revert this
  decide

end Lnc.Props.C15
