import LncModel.Record
/-
  C02 — Encrypted stream yields only a prefix of what the peer wrote, else an
  error.
-/
namespace Lnc.Props.C02
open Lnc Lnc.Mailbox.Record

/-- reader invariant while no error has occurred: it has consumed an even
    number of cipher uses, i.e. it sits at a record boundary -/
def AtBoundary (r : Reader) : Prop := r.failed = false → r.use % 2 = 0

theorem readMessage_ok (recs : List Bytes) (r : Reader) (wire : List SByte) (j : Nat)
    (h : (readMessage recs r wire).1 = .ok j) :
    j = r.use / 2 ∧ (readMessage recs r wire).2.1.use = r.use + 2 ∧
      (readMessage recs r wire).2.1.failed = false ∧ r.failed = false := by
  unfold readMessage at h
  split at h
  · cases h
  · next hf =>
    have hfalse : r.failed = false := by cases hr : r.failed <;> simp_all
    split at h
    · cases h
    · next hpa =>
      split at h
      · cases h
      · next h1 =>
        split at h
        · cases h
        · next h2 =>
          split at h
          · cases h
          · next p hp =>
            split at h
            · cases h
            · next hpb =>
              split at h
              · cases h
              · next h4 =>
                split at h
                · next h5 =>
                  injection h with h
                  have e : readMessage recs r wire =
                      (.ok (r.use / 2), { r with use := r.use + 2 },
                        (wire.drop hdrLen).drop (p.length + macSize)) := by
                    simp only [readMessage, hf, hpa, h1, h2, hp, hpb, h4, h5, ↓reduceIte, Bool.false_eq_true]
                  rw [e]
                  exact ⟨h.symm, rfl, hfalse, hfalse⟩
                · cases h

/-- after an error the reader is latched, or the wire is exhausted, or — a
    timeout before the first byte of a record — nothing has changed at all -/
theorem readMessage_err (recs : List Bytes) (r : Reader) (wire : List SByte)
    (h : (readMessage recs r wire).1 = .err) :
    (readMessage recs r wire).2.1.failed = true ∨ (readMessage recs r wire).2.2 = [] ∨
      (readMessage recs r wire).2.1 = r := by
  by_cases hf : r.failed = true
  · left; simp [readMessage, hf]
  · have hfalse : r.failed = false := by cases hr : r.failed <;> simp_all
    cases hpa : pauseAt hdrLen wire with
    | some i =>
      by_cases hi : 0 < i
      · left; simp [readMessage, hf, hpa, hi]
      · right; right
        have : decide (0 < i) = false := by simpa using hi
        simp only [readMessage, hf, hpa, this, Bool.false_eq_true, ↓reduceIte]
        cases r; simp_all
    | none =>
    by_cases h1 : wire.length < hdrLen
    · right; left; simp [readMessage, hf, hpa, h1]
    · by_cases h2 : (!opens recs r.dir r.use (wire.take hdrLen)) = true
      · left; simp only [readMessage, hf, hpa, h1, h2, ↓reduceIte, Bool.false_eq_true]
      · cases hp : recs[r.use / 2]? with
        | none => left; simp only [readMessage, hf, hpa, h1, h2, hp, ↓reduceIte, Bool.false_eq_true]
        | some p =>
          cases hpb : pauseAt (p.length + macSize) (wire.drop hdrLen) with
          | some i => left; simp only [readMessage, hf, hpa, h1, h2, hp, hpb, ↓reduceIte, Bool.false_eq_true]
          | none =>
          by_cases h4 : (wire.drop hdrLen).length < p.length + macSize
          · left; simp only [readMessage, hf, hpa, h1, h2, hp, hpb, h4, ↓reduceIte, Bool.false_eq_true]
          · by_cases h5 : opens recs r.dir (r.use + 1) ((wire.drop hdrLen).take (p.length + macSize)) = true
            · exfalso
              simp only [readMessage, hf, hpa, h1, h2, hp, hpb, h4, h5, ↓reduceIte, Bool.false_eq_true] at h
              cases h
            · left; simp only [readMessage, hf, hpa, h1, h2, hp, hpb, h4, h5, ↓reduceIte, Bool.false_eq_true]

/-- **Whatever the relay does to the ciphertext, the records returned as valid —
    by any number of ReadMessage calls, also calls made after an error — are
    0, 1, 2, …, m-1 in this order: a prefix of what the authentic peer wrote in
    this direction.**  Altered, replayed, reordered or cross-direction data is
    never returned as valid, and nothing is returned after the first error —
    except after a read deadline that expired before any byte of a record was
    consumed, where the retry continues with the very next record. -/
theorem C02_prefix (recs : List Bytes) (fuel : Nat) (r : Reader) (wire : List SByte)
    (hb : r.use % 2 = 0) :
    oks (readLoop recs fuel r wire) =
      (List.range (oks (readLoop recs fuel r wire)).length).map (· + r.use / 2) := by
  induction fuel generalizing r wire with
  | zero => simp [readLoop, oks]
  | succ fuel ih =>
    simp only [readLoop]
    split
    · simp [oks]
    · cases hres : (readMessage recs r wire).1 with
      | ok j =>
        obtain ⟨hj, hu, hf', _⟩ := readMessage_ok recs r wire j hres
        have hb' : (readMessage recs r wire).2.1.use % 2 = 0 := by rw [hu]; omega
        have := ih (readMessage recs r wire).2.1 (readMessage recs r wire).2.2 hb'
        simp only [hres, oks, List.length_cons]
        rw [this, List.range_succ_eq_map]
        simp only [List.map_cons, List.map_map, List.length_map, List.length_range, Nat.zero_add]
        rw [hu, hj]
        congr 1
        apply List.map_congr_left
        intro a _
        simp only [Function.comp]
        omega
      | err =>
        -- after an error either the reader is latched, or the wire is exhausted:
        -- nothing more is ever returned as valid
        have hnone : ∀ fuel r' w', (r'.failed = true ∨ w' = []) → oks (readLoop recs fuel r' w') = [] := by
          intro fuel
          induction fuel with
          | zero => intro _ _ _; simp [readLoop, oks]
          | succ fuel ih2 =>
            intro r' w' h
            simp only [readLoop]
            split
            · simp [oks]
            · next hne =>
              rcases h with h | h
              · have : readMessage recs r' w' = (.err, r', w') := by simp [readMessage, h]
                rw [this]; simp only [oks]
                exact ih2 r' w' (Or.inl h)
              · subst h; simp at hne
        simp only [hres, oks]
        rcases readMessage_err recs r wire hres with h | h | h
        · rw [hnone _ _ _ (Or.inl h)]; simp
        · rw [hnone _ _ _ (Or.inr h)]; simp
        · -- a timeout before the first byte of a record: same reader, the rest of the wire
          have := ih (readMessage recs r wire).2.1 (readMessage recs r wire).2.2 (by rw [h]; exact hb)
          rw [h] at this ⊢
          exact this

/-- corollary in the property's words: the plaintexts returned are a prefix of
    the plaintexts written -/
theorem C02_plaintext_prefix (recs : List Bytes) (fuel : Nat) (dir : Nat) (wire : List SByte) :
    (oks (readLoop recs fuel ⟨dir, 0, false⟩ wire)).filterMap (fun j => recs[j]?) <+: recs := by
  have h := C02_prefix recs fuel ⟨dir, 0, false⟩ wire rfl
  simp only [Nat.zero_div, Nat.add_zero, List.map_id'] at h
  rw [h]
  generalize (oks (readLoop recs fuel ⟨dir, 0, false⟩ wire)).length = m
  have : ∀ m, (List.range m).filterMap (fun j => recs[j]?) = recs.take m := by
    intro m
    induction m with
    | zero => simp
    | succ m ih =>
      rw [List.range_succ, List.filterMap_append, ih, List.take_succ]
      cases hm : recs[m]? <;> simp [hm]
  rw [this]
  exact List.take_prefix _ _

/-! ### the behaviour before the repair, kept as a model of what the sticky
    error prevents: without the latch a dropped record followed by two junk
    headers re-synchronises the nonce and record 1 is accepted although record
    0 never arrived. -/
def readMessageNoLatch (recs : List Bytes) (r : Reader) (wire : List SByte) : Res × Reader × List SByte :=
  let (res, r', w') := readMessage recs { r with failed := false } wire
  (res, { r' with failed := false }, w')

def resyncWire : List SByte :=
  List.replicate 18 .junk ++ List.replicate 18 .junk ++ unitBytes 0 2 18 ++ unitBytes 0 3 (3 + 16)

theorem no_latch_resync_counterexample :
    let recs : List Bytes := [[1, 2], [7, 8, 9]]
    let s1 := readMessageNoLatch recs ⟨0, 0, false⟩ resyncWire
    let s2 := readMessageNoLatch recs s1.2.1 s1.2.2
    let s3 := readMessageNoLatch recs s2.2.1 s2.2.2
    (s1.1, s2.1, s3.1) = (.err, .err, .ok 1) := by decide

/-- with the latch the same wire yields nothing -/
example : oks (readLoop [[1, 2], [7, 8, 9]] 10 ⟨0, 0, false⟩ resyncWire) = [] := by decide

/-! ### a read deadline inside a record, before repair 98daed6

    `ReadHeader`/`ReadBody` do not remember how far a read got.  Before the
    repair a body read that timed out left the reader unlatched with the
    header's nonce spent (`use` odd).  The next `ReadMessage` then takes the
    body unit for a header: a body of 2 + 16 bytes has the size of a header and
    authenticates under the nonce the reader is at; its plaintext is read as a
    length, and when that plaintext is `00 02` the following 18 bytes — the
    honest header of the next record — authenticate as the body.  The reader
    returns the next record's length field as data.  (Found by a seeding
    sub-agent reading the unchanged code, exhibited on the real code by the
    `read-timeout` cases of the C02 check, repaired; `readMessage` above latches
    on every read that fails inside a record, which keeps `use` even in every
    unlatched state — `readMessage_err`.) -/
def lenAsHeader (recs : List Bytes) (use : Nat) : Option Nat :=
  match recs[use / 2]? with
  | some p => if use % 2 = 0 then some p.length else
      (match p with | [a, b] => some (a.toNat * 256 + b.toNat) | _ => none)
  | none => none

theorem read_timeout_counterexample :
    let recs : List Bytes := [[0, 2], [7, 8, 9, 1, 2]]
    let w := unitBytes 0 1 18 ++ unitBytes 0 2 18 ++ unitBytes 0 3 21   -- what follows the timed-out header of record 0
    opens recs 0 1 (w.take hdrLen) = true ∧
    lenAsHeader recs 1 = some 2 ∧
    opens recs 0 2 ((w.drop hdrLen).take (2 + macSize)) = true := by decide

/-- after the repair the same stream, with the pause mark where the deadline
    expired, yields an error and nothing else; a deadline that expires between
    two records is harmless -/
example : oks (readLoop [[0, 2], [7, 8, 9, 1, 2]] 10 ⟨0, 0, false⟩
    (unitBytes 0 0 18 ++ [.pause] ++ unitBytes 0 1 18 ++ unitBytes 0 2 18 ++ unitBytes 0 3 21)) = [] := by decide
example : readLoop [[0, 2], [7, 8, 9, 1, 2]] 10 ⟨0, 0, false⟩
    (unitBytes 0 0 18 ++ unitBytes 0 1 18 ++ [.pause] ++ unitBytes 0 2 18 ++ unitBytes 0 3 21) = [.ok 0, .err, .ok 1] := by decide

/-! non-vacuity: an honest stream of two records is returned in full; a replay
    of record 0 after it is rejected -/
example : oks (readLoop [[1, 2], [7, 8, 9]] 10 ⟨0, 0, false⟩
    (unitBytes 0 0 18 ++ unitBytes 0 1 18 ++ unitBytes 0 2 18 ++ unitBytes 0 3 19)) = [0, 1] := by decide
example : oks (readLoop [[1, 2], [7, 8, 9]] 10 ⟨0, 0, false⟩
    (unitBytes 0 0 18 ++ unitBytes 0 1 18 ++ unitBytes 0 0 18 ++ unitBytes 0 1 18 ++ unitBytes 0 2 18 ++ unitBytes 0 3 19)) = [0] := by decide

end Lnc.Props.C02
