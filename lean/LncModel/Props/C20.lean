import LncModel.Timeout
/-
  C20 — Adaptive resend timeout stays within its bounds.
  All theorems hold for every event list (arbitrary inter-event times), every
  multiplier, update frequency and boost increment function `inc` with
  `0 ≤ inc o c` and `inc o 0 = 0` (Go's float32 expression is one instance;
  the correspondence run checks the two facts on every sampled value).
-/
namespace Lnc.Props.C20
open Lnc.Gbn.Timeout

def run (m : TM) (evs : List Ev) : TM := evs.foldl TM.step m

/-- **A statically configured timeout is never changed by traffic** (nor is
    any other field of the manager). -/
theorem static_step (m : TM) (h : m.static = true) (e : Ev) : m.step e = m := by
  cases e <;> simp [TM.step, TM.sent, TM.received, h]

theorem static_const (inc : Dur → Nat → Dur) (m : TM) (h : m.static = true) (evs : List Ev) :
    run m evs = m ∧ (run m evs).getResend inc = m.getResend inc := by
  have : run m evs = m := by
    induction evs with
    | nil => rfl
    | cons e es ih => simp only [run, List.foldl_cons, static_step m h e]; exact ih
  rw [this]; exact ⟨rfl, rfl⟩

/-! ### floor -/

def FloorInv (m : TM) : Prop :=
  minimumResendTimeout ≤ m.resendB.original ∧ m.resendB.original = m.resendTimeout ∧
    m.resendB.withLimit = true

theorem boost_original (b : Booster) (t : Time) : (b.boost t).original = b.original ∧
    (b.boost t).withLimit = b.withLimit := by
  unfold Booster.boost
  split
  · split
    · split <;> exact ⟨rfl, rfl⟩
    · exact ⟨rfl, rfl⟩
  · exact ⟨rfl, rfl⟩

theorem update_floor (m : TM) (rt : Dur) (now : Time) (hw : m.resendB.withLimit = true) :
    FloorInv (m.update rt now) := by
  unfold TM.update FloorInv Booster.reset
  refine ⟨?_, rfl, hw⟩
  show (1000000000 : Int) ≤ (if wrap64 (m.mult * rt) < 1000000000 then 1000000000 else wrap64 (m.mult * rt))
  by_cases h : wrap64 (m.mult * rt) < 1000000000
  · rw [if_pos h]; exact Int.le_refl _
  · rw [if_neg h]; omega

theorem floor_step (m : TM) (h : FloorInv m) (e : Ev) : FloorInv (m.step e) := by
  obtain ⟨h1, h2, h3⟩ := h
  cases e with
  | sent k s r t =>
    simp only [TM.step, TM.sent]
    split
    · exact ⟨h1, h2, h3⟩
    · cases k <;> simp only <;> try exact ⟨h1, h2, h3⟩
      · split <;> exact ⟨h1, h2, h3⟩
      · split
        · have := boost_original m.resendB t
          exact ⟨by show minimumResendTimeout ≤ (m.resendB.boost t).original; rw [this.1]; exact h1,
                 by show (m.resendB.boost t).original = m.resendTimeout; rw [this.1]; exact h2,
                 by show (m.resendB.boost t).withLimit = true; rw [this.2]; exact h3⟩
        · exact ⟨h1, h2, h3⟩
  | received k s t =>
    simp only [TM.step, TM.received]
    split
    · exact ⟨h1, h2, h3⟩
    · cases k <;> simp only <;> try exact ⟨h1, h2, h3⟩
      · split
        · exact ⟨h1, h2, h3⟩
        · exact update_floor _ _ _ h3
      · split
        · exact ⟨h1, h2, h3⟩
        · exact update_floor _ _ _ h3
      · split
        · exact ⟨h1, h2, h3⟩
        · split
          · exact update_floor _ _ _ h3
          · exact ⟨h1, h2, h3⟩

/-- **In adaptive mode the resend timeout is never below the one-second floor**,
    after every prefix of every history. -/
theorem floor (inc : Dur → Nat → Dur) (hinc : ∀ o c, 0 ≤ inc o c) (m : TM) (h : FloorInv m)
    (evs : List Ev) : minimumResendTimeout ≤ (run m evs).getResend inc := by
  have hI : FloorInv (run m evs) := by
    induction evs generalizing m with
    | nil => exact h
    | cons e es ih => exact ih (m.step e) (floor_step m h e)
  have h2 : (0 : Int) ≤ inc (run m evs).resendB.original (run m evs).resendB.boostCount := hinc _ _
  have h1 : (1000000000 : Int) ≤ (run m evs).resendB.original := hI.1
  show (1000000000 : Int) ≤ (run m evs).resendB.original +
    inc (run m evs).resendB.original (run m evs).resendB.boostCount
  omega

/-- the manager built by NewTimeOutManager in adaptive mode with the default
    (or any ≥ 1 s) initial timeout satisfies the invariant -/
theorem new_floor (resend handshake : Dur) (mult : Int) (freq : Nat) (h : minimumResendTimeout ≤ resend) :
    FloorInv (TM.new false resend handshake mult freq) := ⟨h, rfl, rfl⟩

/-! ### recomputed only from samples of packets that were not retransmitted -/

/-- the clean round-trip sample on record for `seq` after a history: the time of
    the latest first transmission of `seq` that was neither followed by a
    retransmission of `seq` nor already consumed by an ACK of `seq` -/
def cleanSample (evs : List Ev) (seq : Nat) : Option Time :=
  evs.foldl (fun acc e => match e with
    | .sent .data s false t => if s = seq then some t else acc
    | .sent .data s true _ => if s = seq then none else acc
    | .received .ack s _ => if s = seq then none else acc
    | _ => acc) none

@[simp] theorem update_sentTimes (m : TM) (rt : Dur) (now : Time) : (m.update rt now).sentTimes = m.sentTimes := rfl
@[simp] theorem update_static (m : TM) (rt : Dur) (now : Time) : (m.update rt now).static = m.static := rfl

theorem sentTimes_step (m : TM) (hs : m.static = false) (e : Ev) (seq : Nat) :
    (m.step e).sentTimes seq = (match e with
      | .sent .data s false t => if s = seq then some t else m.sentTimes seq
      | .sent .data s true _ => if s = seq then none else m.sentTimes seq
      | .received .ack s _ => if s = seq then none else m.sentTimes seq
      | _ => m.sentTimes seq) ∧ (m.step e).static = false := by
  cases e with
  | sent k s r t =>
    cases k <;> cases r <;> simp [TM.step, TM.sent, hs, eq_comm]
  | received k s t =>
    cases k with
    | syn => cases hl : m.latestSYN <;> simp [TM.step, TM.received, hs, hl]
    | synack => cases hl : m.latestSYN <;> simp [TM.step, TM.received, hs, hl]
    | ack =>
      cases hl : m.sentTimes s with
      | none =>
        simp only [TM.step, TM.received, hs, hl, Bool.false_eq_true, ↓reduceIte]
        constructor
        · by_cases h : s = seq
          · subst h; simp [hl]
          · simp [h]
        · first | exact hs | trivial
      | some t0 =>
        simp only [TM.step, TM.received, hs, hl, Bool.false_eq_true, ↓reduceIte]
        split <;> simp [hs, eq_comm]
    | data => simp [TM.step, TM.received, hs]
    | nack => simp [TM.step, TM.received, hs]
    | fin => simp [TM.step, TM.received, hs]

/-- the timestamp the manager keeps for `seq` is exactly the clean sample -/
theorem sentTimes_clean (m : TM) (hs : m.static = false) (evs : List Ev) (seq : Nat) :
    (run m evs).sentTimes seq =
      evs.foldl (fun acc e => match e with
        | .sent .data s false t => if s = seq then some t else acc
        | .sent .data s true _ => if s = seq then none else acc
        | .received .ack s _ => if s = seq then none else acc
        | _ => acc) (m.sentTimes seq) := by
  induction evs generalizing m with
  | nil => rfl
  | cons e es ih =>
    have h := sentTimes_step m hs e seq
    simp only [run, List.foldl_cons]
    rw [show List.foldl TM.step (m.step e) es = run (m.step e) es from rfl, ih (m.step e) h.2, h.1]

/-- **whenever the base resend timeout changes at an event, the event is the
    reception of an ACK (or SYN/SYNACK) for which a clean sample `t₀` is on
    record, and the new value is `max 1s (mult · (t − t₀))`** -/
theorem recompute_only_from_clean_sample (m : TM) (e : Ev)
    (hch : (m.step e).resendB.original ≠ m.resendB.original ∨ (m.step e).resendTimeout ≠ m.resendTimeout) :
    ∃ k seq t t0, e = .received k seq t ∧
      ((k = .ack ∧ m.sentTimes seq = some t0) ∨ ((k = .syn ∨ k = .synack) ∧ m.latestSYN = some t0)) ∧
      (m.step e).resendTimeout =
        (if wrap64 (m.mult * (t - t0)) < minimumResendTimeout then minimumResendTimeout
         else wrap64 (m.mult * (t - t0))) ∧
      (m.step e).resendB.original = (m.step e).resendTimeout ∧
      (m.step e).resendB.boostCount = 0 := by
  cases e with
  | sent k s r t =>
    exfalso
    simp only [TM.step, TM.sent] at hch
    split at hch
    · simp at hch
    · cases k <;> simp only at hch <;> try (simp at hch)
      · split at hch <;> simp at hch
      · split at hch
        · have := (boost_original m.resendB t).1
          simp [this] at hch
        · simp at hch
  | received k s t =>
    simp only [TM.step, TM.received] at hch ⊢
    split at hch
    · simp at hch
    · next hst =>
      simp only [hst]
      cases k <;> simp only at hch ⊢ <;> try (simp at hch)
      · split at hch
        · simp at hch
        · next t0 h0 => exact ⟨.syn, s, t, t0, rfl, Or.inr ⟨Or.inl rfl, h0⟩, by simp [h0, TM.update, Booster.reset]⟩
      · split at hch
        · simp at hch
        · next t0 h0 => exact ⟨.synack, s, t, t0, rfl, Or.inr ⟨Or.inr rfl, h0⟩, by simp [h0, TM.update, Booster.reset]⟩
      · split at hch
        · simp at hch
        · next t0 h0 =>
          split at hch
          · next hc => exact ⟨.ack, s, t, t0, rfl, Or.inl ⟨rfl, h0⟩, by simp [h0, hc, TM.update, Booster.reset]⟩
          · simp at hch

/-! ### boosts -/

/-- **each event raises the boost count by at most one, only a retransmitted
    DATA packet raises it, and (the resend booster being rate limited) only when
    at least one base-timeout interval has passed since the last boost or
    recompute** -/
theorem boost_rate (m : TM) (hl : m.resendB.withLimit = true) (e : Ev)
    (hinc : (m.step e).resendB.boostCount > m.resendB.boostCount) :
    (m.step e).resendB.boostCount = m.resendB.boostCount + 1 ∧
    (∃ seq t, e = .sent .data seq true t ∧ (m.step e).resendB.lastBoost = some t ∧
      (m.step e).resendB.original = m.resendB.original ∧
      (∀ lb, m.resendB.lastBoost = some lb → m.resendB.original ≤ t - lb)) := by
  cases e with
  | sent k s r t =>
    simp only [TM.step, TM.sent] at hinc ⊢
    split at hinc
    · omega
    · next hst =>
      simp only [hst]
      cases k <;> simp only at hinc ⊢ <;> try omega
      · split at hinc <;> simp at hinc
      · cases r with
        | false => simp at hinc
        | true =>
          simp only [↓reduceIte] at hinc ⊢
          unfold Booster.boost at hinc ⊢
          simp only [hl, ↓reduceIte] at hinc ⊢
          split at hinc
          · next lb hlb =>
            split at hinc
            · omega
            · next hge =>
              have hge' : m.resendB.original ≤ t - lb := Int.not_lt.mp hge
              simp only [hlb, hge, ↓reduceIte]
              exact ⟨rfl, s, t, rfl, rfl, rfl, fun lb' h => by cases h; exact hge'⟩
          · next hlb =>
            simp only [hlb]
            exact ⟨rfl, s, t, rfl, rfl, rfl, fun lb' h => by cases h⟩
  | received k s t =>
    exfalso
    simp only [TM.step, TM.received] at hinc
    split at hinc
    · omega
    · cases k <;> simp only at hinc <;> try omega
      · split at hinc
        · omega
        · simp [TM.update, Booster.reset] at hinc
      · split at hinc
        · omega
        · simp [TM.update, Booster.reset] at hinc
      · split at hinc
        · omega
        · split at hinc
          · simp [TM.update, Booster.reset] at hinc
          · simp at hinc

/-- **a fresh sample returns the timeout to the measured value** -/
theorem fresh_sample_resets (inc : Dur → Nat → Dur) (hinc0 : ∀ o, inc o 0 = 0) (m : TM) (rt : Dur) (now : Time) :
    (m.update rt now).resendB.boostCount = 0 ∧
    (m.update rt now).getResend inc = (m.update rt now).resendTimeout := by
  simp [TM.update, Booster.reset, TM.getResend, Booster.current, hinc0]

/-! non-vacuity: a concrete adaptive history — first transmission, clean ACK after
    300 ms (timeout 5·0.3 s = 1.5 s), a retransmission boosts, the ACK of the
    retransmitted packet does not recompute, a second retransmission within the
    base interval does not boost again. -/
def incHalf (o : Dur) (c : Nat) : Dur := o * c / 2
def demo : List Ev :=
  [.sent .data 0 false 0, .received .ack 0 300000000, .sent .data 1 false 400000000,
   .sent .data 1 true 2000000000, .received .ack 1 2100000000, .sent .data 2 false 2200000000,
   .sent .data 2 true 2300000000]
example : let m := run (TM.new false 1000000000 1000000000 5 100) demo
    (m.resendTimeout, m.resendB.boostCount, m.getResend incHalf) = (1500000000, 1, 2250000000) := by decide

end Lnc.Props.C20
