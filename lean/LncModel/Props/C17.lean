import LncModel.Proofs.Bits
import LncModel.Sid
/-
  C17 — Both parties derive the same rendezvous from the pairing phrase, per
  direction.
-/
namespace Lnc.Props.C17
open Lnc Lnc.Mailbox.Mnemonic Lnc.Mailbox.Sid

/-- **phrase → entropy → phrase**: for all ten-word phrases over the 2048-word
    list the words typed on the client are the words recovered from the
    entropy they encode. -/
theorem words_entropy_words (ws : List Nat) (hlen : ws.length = 10) (hw : ∀ w ∈ ws, w < 2048) :
    toWords (toEntropy ws) = ws := by
  unfold toWords toEntropy numWords bitsPerWord numBytes
  have hB : (ws.flatMap (bitsOfNat 11)).length = 110 := by
    have : ∀ l : List Nat, (l.flatMap (bitsOfNat 11)).length = 11 * l.length := by
      intro l; induction l with
      | nil => rfl
      | cons x xs ih => simp only [List.flatMap_cons, List.length_append, length_bitsOfNat, ih, List.length_cons]; omega
    rw [this, hlen]
  rw [bitsOfBytes_bytesOfBitsN 14 _ (by omega)]
  have := chunksN_flatMap (bitsOfNat 11) 11 (fun x => length_bitsOfNat 11 x) ws
    (List.replicate (8 * 14 - (ws.flatMap (bitsOfNat 11)).length) false)
  rw [hlen] at this
  rw [this, List.map_map]
  have hid : ∀ w ∈ ws, (natOfBits ∘ bitsOfNat 11) w = w := by
    intro w hm
    simp only [Function.comp, natOfBits_bitsOfNat]
    exact Nat.mod_eq_of_lt (hw w hm)
  rw [List.map_congr_left hid, List.map_id']

theorem flatMap_congr' {α β} (f g : α → List β) (l : List α) (h : ∀ c ∈ l, f c = g c) :
    l.flatMap f = l.flatMap g := by
  induction l with
  | nil => rfl
  | cons x xs ih =>
    simp only [List.flatMap_cons]
    rw [h x List.mem_cons_self, ih (fun c hc => h c (List.mem_cons_of_mem _ hc))]

theorem length_toWords (e : Bytes) : (toWords e).length = 10 := by
  simp [toWords, numWords, chunksN]

theorem toWords_lt (e : Bytes) (he : e.length = 14) : ∀ w ∈ toWords e, w < 2048 := by
  intro w hw
  unfold toWords numWords bitsPerWord at hw
  obtain ⟨c, hc, rfl⟩ := List.mem_map.mp hw
  have hlen : 10 * 11 ≤ (bitsOfBytes e).length := by rw [length_bitsOfBytes, he]; omega
  have := (chunksN_join 10 11 (bitsOfBytes e) hlen).2 c hc
  have h2 := natOfBits_lt c
  rw [this] at h2
  exact h2

/-- **entropy → phrase → entropy**: exact inverse on the 110 significant bits;
    the two unused bits come back as zero. -/
theorem entropy_words_entropy (e : Bytes) (he : e.length = 14) :
    toEntropy (toWords e) = bytesOfBitsN 14 ((bitsOfBytes e).take 110) ∧
    bitsOfBytes (toEntropy (toWords e)) = (bitsOfBytes e).take 110 ++ [false, false] := by
  have hlen : 10 * 11 ≤ (bitsOfBytes e).length := by rw [length_bitsOfBytes, he]; omega
  obtain ⟨hj, hl⟩ := chunksN_join 10 11 (bitsOfBytes e) hlen
  have h1 : toEntropy (toWords e) = bytesOfBitsN 14 ((bitsOfBytes e).take 110) := by
    unfold toEntropy toWords numWords bitsPerWord numBytes
    rw [List.flatMap_map]
    have : (chunksN 10 11 (bitsOfBytes e)).flatMap (fun c => bitsOfNat 11 (natOfBits c))
        = (chunksN 10 11 (bitsOfBytes e)).flatMap id := by
      apply flatMap_congr'
      intro c hc
      have := bitsOfNat_natOfBits c
      rw [hl c hc] at this
      exact this
    rw [this, hj]
  refine ⟨h1, ?_⟩
  rw [h1, bitsOfBytes_bytesOfBitsN 14 _ (by simp only [List.length_take]; omega)]
  have : ((bitsOfBytes e).take 110).length = 110 := by
    simp only [List.length_take]; omega
  rw [this]; rfl

/-- NewPassphraseEntropy's pair (phrase, entropy := toEntropy phrase) is
    consistent: the phrase maps to the entropy and the entropy back to the phrase -/
theorem new_passphrase_consistent (e : Bytes) (he : e.length = 14) :
    toWords (toEntropy (toWords e)) = toWords e :=
  words_entropy_words _ (length_toWords e) (toWords_lt e he)

/-! ### session identifiers -/

/-- **client and server derive the same identifier from the same secret** -/
theorem sid_symmetric (a b : Nat) (ea eb : Bytes) :
    sidPre a (some b) ea = sidPre b (some a) eb := by
  simp only [sidPre, dhmac]
  by_cases h1 : a ≤ b
  · by_cases h2 : b ≤ a
    · have : a = b := by omega
      subst this; rfl
    · simp [h1, h2]
  · have h2 : b ≤ a := by omega
    simp [h1, h2]

theorem sid_passphrase (a b : Nat) (e : Bytes) : sidPre a none e = sidPre b none e := rfl

/-- **different secrets give different identifiers** (hash injectivity is the
    injectivity of the constructors of `Term`) -/
theorem sid_distinct_entropy (a b : Nat) (e1 e2 : Bytes) (h : e1 ≠ e2) :
    sidPre a none e1 ≠ sidPre b none e2 := by
  simp only [sidPre]; intro hc; injection hc with hc; exact h hc

theorem paired_sid_ne_passphrase_sid (a b c : Nat) (e1 e2 : Bytes) :
    sidPre a (some b) e1 ≠ sidPre c none e2 := by
  simp only [sidPre, dhmac]; split <;> intro h <;> cases h

theorem sid_distinct_keys (a b c d : Nat) (e : Bytes)
    (h : ¬ ((a = c ∧ b = d) ∨ (a = d ∧ b = c))) :
    sidPre a (some b) e ≠ sidPre c (some d) e := by
  simp only [sidPre, dhmac]
  intro hc
  apply h
  by_cases h1 : a ≤ b <;> by_cases h2 : c ≤ d <;> simp only [h1, h2, ↓reduceIte] at hc <;>
    injection hc with e1 e2 <;> omega

/-! ### direction -/

/-- **the two directions never share a stream**: the client→server identifier
    differs from the server→client one (in exactly the lowest bit of the last
    byte), for every non-empty identifier -/
theorem getSID_flip (sid : Bytes) (h : sid ≠ []) : getSID sid false ≠ getSID sid true := by
  unfold getSID
  simp only [Bool.false_eq_true, ↓reduceIte]
  cases hr : sid.reverse with
  | nil => simp at hr; exact absurd hr h
  | cons last rest =>
    intro hc
    have : sid = (last :: rest).reverse := by rw [← hr, List.reverse_reverse]
    dsimp only at hc
    rw [this, List.reverse_cons, List.reverse_cons] at hc
    have := List.append_cancel_left hc
    simp at this
    have hx : ∀ x : UInt8, x ^^^ 1 ≠ x := by
      intro x h
      have h2 : (x ^^^ 1) ^^^ x = x ^^^ x := by rw [h]
      rw [UInt8.xor_comm x 1, UInt8.xor_assoc, UInt8.xor_self, UInt8.xor_zero] at h2
      exact absurd h2 (by decide)
    exact hx last this

/-- **the client's send stream is the server's receive stream and vice versa**:
    both sides compute `GetSID(sid, true)` for server→client and
    `GetSID(sid, false)` for client→server from the same `sid` -/
theorem direction (sid : Bytes) (h : sid ≠ []) :
    let clientSend := getSID sid false
    let clientRecv := getSID sid true
    let serverSend := getSID sid true
    let serverRecv := getSID sid false
    clientSend = serverRecv ∧ clientRecv = serverSend ∧ clientSend ≠ clientRecv :=
  ⟨rfl, rfl, getSID_flip sid h⟩

/-! non-vacuity -/
example : toWords [0xFF, 0xE0, 0, 0, 0, 0, 0, 0, 0, 0, 0, 0, 0, 0x07] = [2047, 0, 0, 0, 0, 0, 0, 0, 0, 1] := by decide
example : toEntropy [2047, 0, 0, 0, 0, 0, 0, 0, 0, 1] = [0xFF, 0xE0, 0, 0, 0, 0, 0, 0, 0, 0, 0, 0, 0, 0x04] := by decide
example : getSID [1, 2, 3] false = [1, 2, 2] := by decide

end Lnc.Props.C17
