import LncModel.Proofs.ProtoStep
import LncModel.Props.C07
/-
  C09 — GBN sender never exceeds its window; Send blocks only when it is full.
-/
namespace Lnc.Props.C09
open Lnc Lnc.Gbn

/-- **never more than `n` packets outstanding**, and the code's `size()` is
    exactly "first transmissions minus cumulative acknowledgements" -/
theorem C09_window (n : Nat) (hn : 0 < n) (hn254 : n ≤ 254) (σ : Uni) (hr : Reachable n σ) :
    σ.T - σ.B ≤ σ.n ∧ σ.q.size = σ.T - σ.B ∧ σ.B ≤ σ.T := by
  have h := inv_reachable hn hn254 hr
  have := h.win; have := h.BR; have := h.RT
  exact ⟨by omega, size_eq h, by omega⟩

/-- **the bookkeeping stays inside a sequence space strictly larger than the window** -/
theorem C09_bounds (n : Nat) (hn : 0 < n) (hn254 : n ≤ 254) (σ : Uni) (hr : Reachable n σ) :
    σ.n < σ.q.s ∧ σ.q.base < σ.q.s ∧ σ.q.top < σ.q.s ∧ σ.recvSeq < σ.q.s := by
  have h := inv_reachable hn hn254 hr
  have hs : 0 < σ.q.s := by have := h.n_lt_s; omega
  exact ⟨h.n_lt_s, by rw [h.base_eq]; exact Nat.mod_lt _ hs, by rw [h.top_eq]; exact Nat.mod_lt _ hs,
    by rw [h.recv_eq]; exact Nat.mod_lt _ hs⟩

/-- while fewer than `n` packets are outstanding a new packet is accepted
    without waiting for the peer … -/
theorem C09_room_enabled (σ : Uni) (h : Inv σ) (p : Pkt) (hroom : σ.T - σ.B < σ.n) :
    (σ.step? (.sendNew p)).isSome = true := by
  simp only [Uni.step?, size_eq h, hroom, ↓reduceIte, addPacket_eq h, Option.isSome_some]

/-- … and with `n` outstanding none is, until an acknowledgement moves the base -/
theorem C09_blocks_when_full (σ : Uni) (h : Inv σ) (p : Pkt) (hfull : σ.T - σ.B = σ.n) :
    σ.step? (.sendNew p) = none := by
  have : ¬ (σ.T - σ.B < σ.n) := by omega
  simp only [Uni.step?, size_eq h, this, ↓reduceIte]

/-- the first `n` sends of a fresh connection are accepted with no ACK at all,
    the next one is not -/
theorem C09_first_n_free (n : Nat) (hn : 0 < n) (hn254 : n ≤ 254) (ps : List Pkt) (hlen : ps.length ≤ n) :
    ∃ σ, (Uni.init n).run? (ps.map Label.sendNew) = some σ ∧ σ.T = ps.length ∧ σ.B = 0 := by
  suffices h : ∀ (ps : List Pkt) (σ0 : Uni), Inv σ0 → σ0.n = n → σ0.B = 0 → σ0.T + ps.length ≤ n →
      ∃ σ, σ0.run? (ps.map Label.sendNew) = some σ ∧ σ.T = σ0.T + ps.length ∧ σ.B = 0 by
    obtain ⟨σ, h1, h2, h3⟩ := h ps (Uni.init n) (inv_init n hn hn254) rfl rfl (by simpa [Uni.init] using hlen)
    exact ⟨σ, h1, by simpa [Uni.init] using h2, h3⟩
  intro ps
  induction ps with
  | nil => intro σ0 _ _ _ _; exact ⟨σ0, rfl, by simp, by assumption⟩
  | cons p ps ih =>
    intro σ0 hinv hn0 hB hT
    simp only [List.length_cons] at hT
    have hroom : σ0.T - σ0.B < σ0.n := by omega
    have hen := C09_room_enabled σ0 hinv p hroom
    obtain ⟨σ1, h1⟩ := Option.isSome_iff_exists.mp hen
    have hinv1 := inv_step hinv _ h1
    have hσ1 : σ1.n = n ∧ σ1.B = 0 ∧ σ1.T = σ0.T + 1 := by
      simp only [Uni.step?, size_eq hinv, hroom, ↓reduceIte, addPacket_eq hinv, Option.some.injEq] at h1
      subst h1
      exact ⟨hn0, hB, rfl⟩
    obtain ⟨σ, h2, h3, h4⟩ := ih σ1 hinv1 hσ1.1 hσ1.2.1 (by omega)
    refine ⟨σ, ?_, by simp only [List.length_cons]; omega, h4⟩
    simp only [List.map_cons, Uni.run?, h1, h2]

/-- sequence space of the handshake: `s = n + 1` exactly when `n ≤ 254` -/
theorem C09_seqspace (n : Nat) (h : n ≤ 254) : mkS n = n + 1 := by
  unfold mkS add8; omega

/-- the excluded point: a window of 255 would give an empty sequence space
    (uint8 wrap) — the handshake must refuse it (C10, adoptN) -/
theorem C09_seqspace_255 : mkS 255 = 0 := by decide

/-- relay-chosen ACK/NACK values cannot push the bookkeeping out of range
    (C07's queue theorems, restated for C09) -/
theorem C09_relay_values (q : Queue) (h : C07.QWF q) (seq : Nat) :
    (∃ q' ok, q.processACK seq = .ok (q', ok) ∧ C07.QWF q' ∧ q'.size ≤ q.size) ∧
    C07.QWF (q.processNACK seq).1 ∧ (q.processNACK seq).1.size ≤ q.size := by
  obtain ⟨q', ok, h1, h2, _, _, h3⟩ := C07.processACK_total q h seq
  have hn := C07.processNACK_total q h seq
  exact ⟨⟨q', ok, h1, h2, h3⟩, hn.1, hn.2.2.2⟩

/-! non-vacuity: window 2 is full after two sends, frees after an ACK -/
example : (((Uni.init 2).run? [.sendNew ⟨[1], true, false⟩, .sendNew ⟨[2], true, false⟩]).bind
    (fun σ => σ.step? (.sendNew ⟨[3], true, false⟩))).isSome = false := by decide
example : (((Uni.init 2).run? [.sendNew ⟨[1], true, false⟩, .sendNew ⟨[2], true, false⟩,
    .fwdDeliver false, .bwdDeliver]).bind
    (fun σ => σ.step? (.sendNew ⟨[3], true, false⟩))).isSome = true := by decide

end Lnc.Props.C09
