import LncModel.Endpoint
import LncModel.MsgData
import LncModel.Proofs.ProtoInv
/-
  C07 — No bytes delivered by the untrusted relay can crash an endpoint
  (GBN decoders, window bookkeeping, control-message framing).  The Noise
  parser part is in Props/C07Noise.lean.
-/
namespace Lnc.Props.C07
open Lnc Lnc.Gbn Lnc.Mailbox

theorem bind_idx_no_panic {α} (b : Bytes) (i : Nat) (h : i < b.length) (f : UInt8 → Outcome α)
    (hf : ∀ x, (f x).isPanic = false) : ((idx b i).bind f).isPanic = false := by
  unfold idx
  rw [List.getElem?_eq_getElem h]
  simp [Outcome.bind, hf]

theorem bind_slice_no_panic {α} (b : Bytes) (i : Nat) (h : i ≤ b.length) (f : Bytes → Outcome α)
    (hf : ∀ x, (f x).isPanic = false) : ((sliceFrom b i).bind f).isPanic = false := by
  unfold sliceFrom
  simp [h, Outcome.bind, hf]

/-- **GBN Deserialize never panics**, for every byte string, provided the DATA
    guard covers the 4-byte header (obligation on the regenerated facts). -/
theorem gbn_deserialize_no_panic (g : Nat) (hg : 4 ≤ g) (b : Bytes) :
    (deserializeG g b).isPanic = false := by
  unfold deserializeG
  cases b with
  | nil => rfl
  | cons t rest =>
    simp only
    split
    · split
      · rfl
      · next hlen =>
        have h4 : 4 ≤ (t :: rest).length := by omega
        apply bind_idx_no_panic _ _ (by omega); intro _
        apply bind_idx_no_panic _ _ (by omega); intro _
        apply bind_idx_no_panic _ _ (by omega); intro _
        apply bind_slice_no_panic _ _ (by omega); intro _
        rfl
    · split
      · split
        · rfl
        · apply bind_idx_no_panic _ _ (by omega); intro _; rfl
      · split
        · split
          · rfl
          · apply bind_idx_no_panic _ _ (by omega); intro _; rfl
        · split
          · split
            · rfl
            · apply bind_idx_no_panic _ _ (by omega); intro _; rfl
          · split
            · rfl
            · split <;> rfl

/-- the code before the repair: a 3-byte DATA packet panics when the guard is 3 -/
theorem gbn_deserialize_guard3_counterexample :
    (deserializeG 3 [2, 0, 1]).isPanic = true := by decide

theorem msgdata_deserialize_no_panic (recv : MsgData) (b : Bytes) :
    (MsgData.deserializeInto recv b).isPanic = false := by
  unfold MsgData.deserializeInto
  split
  · dsimp only
    split
    · rfl
    · split <;> rfl
  · rfl

/-! ### window bookkeeping under arbitrary ACK/NACK values -/

def QWF (q : Queue) : Prop := 0 < q.s ∧ q.s ≤ 255 ∧ q.base < q.s ∧ q.top < q.s

theorem succ_mod_cases (b s : Nat) (h : b < s) :
    (b + 1 = s ∧ (b + 1) % s = 0) ∨ (b + 1 < s ∧ (b + 1) % s = b + 1) := by
  by_cases h1 : b + 1 = s
  · left; exact ⟨h1, by rw [h1, Nat.mod_self]⟩
  · right; exact ⟨by omega, Nat.mod_eq_of_lt (by omega)⟩

theorem size_cases (s b t : Nat) (h : QWF ⟨s, b, t⟩) :
    (t ≥ b ∧ Queue.size ⟨s, b, t⟩ = t - b) ∨ (t < b ∧ Queue.size ⟨s, b, t⟩ = t + s - b) := by
  obtain ⟨h0, h255, hb, ht⟩ := h
  simp only at h0 h255 hb ht
  by_cases h1 : t ≥ b
  · refine Or.inl ⟨h1, ?_⟩
    show (if t ≥ b then sub8 t b else add8 t (sub8 s b)) = t - b
    rw [if_pos h1]; unfold sub8; omega
  · refine Or.inr ⟨by omega, ?_⟩
    show (if t ≥ b then sub8 t b else add8 t (sub8 s b)) = t + s - b
    rw [if_neg h1]; unfold add8 sub8; omega

/-- **For every sequence number a relay can put into an ACK** (all 256 values,
    not only those an honest peer sends) processing is total, the bookkeeping
    stays inside the sequence space, and the window does not grow. -/
theorem processACK_total' (s b t : Nat) (h : QWF ⟨s, b, t⟩) (seq : Nat) :
    ∃ b' ok, Queue.processACK ⟨s, b, t⟩ seq = .ok (⟨s, b', t⟩, ok) ∧ QWF ⟨s, b', t⟩ ∧
      Queue.size ⟨s, b', t⟩ ≤ Queue.size ⟨s, b, t⟩ := by
  have hw := h
  obtain ⟨h0, h255, hb, ht⟩ := h
  simp only at h0 h255 hb ht
  have hsz := size_cases s b t hw
  by_cases hz : Queue.size ⟨s, b, t⟩ = 0
  · exact ⟨b, false, by simp [Queue.processACK, hz], hw, Nat.le_refl _⟩
  · by_cases hge : seq ≥ s
    · exact ⟨b, false, by simp [Queue.processACK, hz, hge], hw, Nat.le_refl _⟩
    · by_cases he : seq = b
      · subst he
        have hm : add8 seq 1 = seq + 1 := by unfold add8; omega
        have hq : QWF ⟨s, (seq + 1) % s, t⟩ := ⟨h0, h255, Nat.mod_lt _ h0, ht⟩
        refine ⟨(seq + 1) % s, true, ?_, hq, ?_⟩
        · simp [Queue.processACK, hz, hge, modS, Nat.ne_of_gt h0, Outcome.bind, hm]
        · have h1 := size_cases s ((seq + 1) % s) t hq
          have h2 := succ_mod_cases seq s hb
          omega
      · by_cases hc : containsSequence b t seq = true
        · have hm : add8 seq 1 = seq + 1 := by unfold add8; omega
          have hq : QWF ⟨s, (seq + 1) % s, t⟩ := ⟨h0, h255, Nat.mod_lt _ h0, ht⟩
          refine ⟨(seq + 1) % s, true, ?_, hq, ?_⟩
          · simp [Queue.processACK, hz, hge, he, hc, modS, Nat.ne_of_gt h0, Outcome.bind, hm]
          · have h1 := size_cases s ((seq + 1) % s) t hq
            have h2 := succ_mod_cases seq s (by omega)
            rw [containsSequence_iff] at hc
            omega
        · exact ⟨b, false, by simp [Queue.processACK, hz, hge, he, hc], hw, Nat.le_refl _⟩

theorem processNACK_total' (s b t : Nat) (h : QWF ⟨s, b, t⟩) (seq : Nat) :
    ∃ b', (Queue.processNACK ⟨s, b, t⟩ seq).1 = ⟨s, b', t⟩ ∧ QWF ⟨s, b', t⟩ ∧
      Queue.size ⟨s, b', t⟩ ≤ Queue.size ⟨s, b, t⟩ := by
  have hw := h
  obtain ⟨h0, h255, hb, ht⟩ := h
  simp only at h0 h255 hb ht
  have hsz := size_cases s b t hw
  by_cases hge : seq ≥ s
  · exact ⟨b, by simp [Queue.processNACK, hge], hw, Nat.le_refl _⟩
  · by_cases het : seq = t
    · subst het
      have hq : QWF ⟨s, seq, seq⟩ := ⟨h0, h255, ht, ht⟩
      refine ⟨seq, by simp [Queue.processNACK, hge], hq, ?_⟩
      have h1 := size_cases s seq seq hq
      omega
    · by_cases hc : containsSequence b t seq = true
      · have hq : QWF ⟨s, seq, t⟩ := ⟨h0, h255, by show seq < s; omega, ht⟩
        refine ⟨seq, by simp [Queue.processNACK, hge, het, hc], hq, ?_⟩
        have h1 := size_cases s seq t hq
        rw [containsSequence_iff] at hc
        omega
      · exact ⟨b, by simp [Queue.processNACK, hge, het, hc], hw, Nat.le_refl _⟩

theorem processACK_total (q : Queue) (h : QWF q) (seq : Nat) :
    ∃ q' ok, q.processACK seq = .ok (q', ok) ∧ QWF q' ∧ q'.s = q.s ∧ q'.top = q.top ∧ q'.size ≤ q.size := by
  obtain ⟨s, b, t⟩ := q
  obtain ⟨b', ok, h1, h2, h3⟩ := processACK_total' s b t h seq
  exact ⟨_, ok, h1, h2, rfl, rfl, h3⟩

theorem processNACK_total (q : Queue) (h : QWF q) (seq : Nat) :
    QWF (q.processNACK seq).1 ∧ (q.processNACK seq).1.s = q.s ∧
      (q.processNACK seq).1.top = q.top ∧ (q.processNACK seq).1.size ≤ q.size := by
  obtain ⟨s, b, t⟩ := q
  obtain ⟨b', h1, h2, h3⟩ := processNACK_total' s b t h seq
  rw [h1]
  exact ⟨h2, rfl, rfl, h3⟩

/-- The code before the repair (no `seq ≥ s` test): a NACK carrying 200 on the
    wrapped window s=5, base=3, top=1 would have stored base=200.  The model
    with the test keeps it in range; the harness replays (5,3,1,200) on the real
    queue on every run. -/
example : (Queue.processNACK ⟨5, 3, 1⟩ 200).1 = ⟨5, 3, 1⟩ := by decide
example : containsSequence 3 1 200 = true := by decide

/-- **one data-phase iteration is total for every byte string**: the result is
    "ignored / state change" or "connection fails", never a panic, and the
    bookkeeping stays inside the sequence space. -/
theorem dataPhaseStep_total (g : Nat) (hg : 4 ≤ g) (st : EpState) (h : st.WF) (b : Bytes) :
    ∃ r, dataPhaseStep g st b = .ok r ∧
      ∀ st' reply d, r = .continue st' reply d → st'.WF := by
  obtain ⟨h0, h255, hb, ht, hr⟩ := h
  have hq : QWF st.q := ⟨h0, h255, hb, ht⟩
  unfold dataPhaseStep decodeThen
  have hnp := gbn_deserialize_no_panic g hg b
  cases hd : deserializeG g b with
  | panic p => simp [hd, Outcome.isPanic] at hnp
  | err e => exact ⟨_, rfl, by intro _ _ _ h; cases h⟩
  | ok m =>
    cases m with
    | data seq fin ping pl =>
      simp only
      split
      · refine ⟨_, by simp [modS, Nat.ne_of_gt h0, Outcome.bind]; rfl, ?_⟩
        intro st' reply d h
        injection h with h1
        subst h1
        exact ⟨h0, h255, hb, ht, Nat.mod_lt _ h0⟩
      · refine ⟨_, rfl, ?_⟩
        intro st' reply d h
        injection h with h1
        subst h1
        exact ⟨h0, h255, hb, ht, hr⟩
    | ack seq =>
      obtain ⟨q', bb, he, hq', hs', _, _⟩ := processACK_total st.q hq (msgU8 seq)
      refine ⟨_, by simp only [he, Outcome.bind]; rfl, ?_⟩
      intro st' reply d h
      injection h with h1
      subst h1
      exact ⟨hq'.1, hq'.2.1, hq'.2.2.1, hq'.2.2.2, by show st.recvSeq < q'.s; rw [hs']; exact hr⟩
    | nack seq =>
      have hn := processNACK_total st.q hq (msgU8 seq)
      refine ⟨_, rfl, ?_⟩
      intro st' reply d h
      injection h with h1
      subst h1
      exact ⟨hn.1.1, hn.1.2.1, hn.1.2.2.1, hn.1.2.2.2, by
        show st.recvSeq < (st.q.processNACK (msgU8 seq)).1.s; rw [hn.2.1]; exact hr⟩
    | fin => exact ⟨_, rfl, by intro _ _ _ h; cases h⟩
    | syn n => exact ⟨_, rfl, by intro _ _ _ h; cases h⟩
    | synack => exact ⟨_, rfl, by intro _ _ _ h; cases h⟩

/-- a window size adopted from the wire always yields a usable sequence space -/
theorem adoptN_safe (n : Nat) (st : EpState) (h : adoptN n = .ok st) :
    st.WF ∧ 1 ≤ n ∧ n ≤ 254 ∧ st.q.s = n + 1 := by
  unfold adoptN at h
  split at h
  · cases h
  · next hn =>
    injection h with h; subst h
    have hs : mkS n = n + 1 := by unfold mkS add8; omega
    refine ⟨⟨?_, ?_, ?_, ?_, ?_⟩, by omega, by omega, hs⟩
    · show 0 < mkS n; omega
    · show mkS n ≤ 255; omega
    · show 0 < mkS n; omega
    · show 0 < mkS n; omega
    · show 0 < mkS n; omega

theorem adoptN_rejects : adoptN 0 = .err "invalid window size" ∧ adoptN 255 = .err "invalid window size" := by
  decide

end Lnc.Props.C07
