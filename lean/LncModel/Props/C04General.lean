import LncModel.Noise
/-
  C04, general part: for ALL keys, passphrases, payloads, version ranges and
  ALL rewrites of the earlier fields by the man in the middle — whoever accepts
  an act whose final ciphertext is the one its peer sealed holds the same
  transcript digest and the same cipher key as that peer.
-/
namespace Lnc.Props.C04
open Lnc Lnc.Mailbox.Noise

/-! ### sealing and opening -/

theorem encryptAndHash_spec (st : St) (pl : Pl) :
    ∃ c : Ct, (encryptAndHash st pl).2 = .hon c ∧ c.ad = st.h ∧ c.key = st.key ∧ c.nonce = st.n ∧ c.pl = pl ∧
      (encryptAndHash st pl).1.h = st.h ++ [.ct c.id] ∧ (encryptAndHash st pl).1.key = st.key ∧
      (encryptAndHash st pl).1.ck = st.ck ∧ (encryptAndHash st pl).1.initiator = st.initiator :=
  ⟨_, rfl, rfl, rfl, rfl, rfl, rfl, rfl, rfl, rfl⟩

theorem decryptAndHash_spec (st st' : St) (w : WCt) (pl : Pl) (h : decryptAndHash st w = .ok (st', pl)) :
    ∃ c : Ct, w = .hon c ∧ c.ad = st.h ∧ c.key = st.key ∧ c.nonce = st.n ∧ c.pl = pl ∧
      st'.h = st.h ++ [.ct c.id] ∧ st'.key = st.key ∧ st'.ck = st.ck ∧ st'.initiator = st.initiator := by
  cases w with
  | garbage n => simp [decryptAndHash] at h
  | hon c =>
    simp only [decryptAndHash] at h
    split at h
    · next hc =>
      obtain ⟨h1, h2, h3⟩ := hc
      simp only [Except.ok.injEq, Prod.mk.injEq] at h
      obtain ⟨rfl, rfl⟩ := h
      exact ⟨c, rfl, h3, h1, h2, rfl, rfl, rfl, rfl, rfl⟩
    · cases h

/-! ### the tokens are read off the front of the input -/

theorem dhToken_fields (st st' : St) (t : Token) (h : dhToken st t = .ok st') : True := trivial

theorem readTokens_suffix (ts : List Token) (st st' : St) (inp rest : List Field)
    (h : readTokens ts st inp = .ok (st', rest)) : ∃ pre, inp = pre ++ rest := by
  induction ts generalizing st inp with
  | nil => simp only [readTokens, pure, Except.pure, Except.ok.injEq, Prod.mk.injEq] at h; exact ⟨[], by simp [h.2]⟩
  | cons t ts ih =>
    cases t with
    | e =>
      rcases inp with _ | ⟨f, r⟩
      · simp [readTokens] at h
      · rcases f with v | (_ | p) | c <;> simp only [readTokens] at h <;> try (cases h)
        obtain ⟨pre, hp⟩ := ih _ _ h; exact ⟨Field.point (some p) :: pre, by rw [hp]; rfl⟩
    | me =>
      rcases inp with _ | ⟨f, r⟩
      · simp [readTokens] at h
      · rcases f with v | (_ | p) | c <;> simp only [readTokens] at h <;> try (cases h)
        obtain ⟨pre, hp⟩ := ih _ _ h; exact ⟨Field.point (some p) :: pre, by rw [hp]; rfl⟩
    | s =>
      rcases inp with _ | ⟨f, r⟩
      · simp [readTokens] at h
      · rcases f with v | p | c <;> simp only [readTokens] at h <;> try (cases h)
        simp only [bind, Except.bind] at h
        split at h
        · cases h
        · next v hv =>
          obtain ⟨st1, pl⟩ := v
          simp only at h
          split at h
          · obtain ⟨pre, hp⟩ := ih _ _ h; exact ⟨Field.ct c :: pre, by rw [hp]; rfl⟩
          · cases h
    | ee | es | se | ss =>
      simp only [readTokens, bind, Except.bind] at h
      split at h
      · cases h
      · exact ih _ _ h

/-! ### what the writer of an act seals last -/

/-- the last thing `writeMsg` does is to seal a ciphertext over its running digest;
    that ciphertext is the last field on the wire -/
theorem writeMsg_last (w w' : St) (mp : MsgPattern) (fields : List Field)
    (h : writeMsg w mp = .ok (w', fields)) :
    ∃ (pre : St) (c : Ct), fields.getLast? = some (.ct (.hon c)) ∧ c.ad = pre.h ∧ c.key = pre.key ∧
      w'.h = pre.h ++ [.ct c.id] ∧ w'.key = pre.key ∧ w'.ck = pre.ck := by
  simp only [writeMsg, bind, Except.bind] at h
  split at h
  · cases h
  · next v hv =>
    obtain ⟨st, out⟩ := v
    simp only at h
    split at h
    · -- version 0
      split at h
      · cases h
      · next pl hpl =>
        simp only [pure, Except.pure, Except.ok.injEq, Prod.mk.injEq] at h
        obtain ⟨rfl, rfl⟩ := h
        exact ⟨st, _, by simp [encryptAndHash], rfl, rfl, rfl, rfl, rfl⟩
    · split at h
      · split at h
        · simp only [pure, Except.pure, Except.ok.injEq, Prod.mk.injEq] at h
          obtain ⟨rfl, rfl⟩ := h
          exact ⟨(encryptAndHash st (.len (st.payload.getD []).length)).1, _, by simp [encryptAndHash], rfl, rfl, rfl, rfl, rfl⟩
        · simp only [pure, Except.pure, Except.ok.injEq, Prod.mk.injEq] at h
          obtain ⟨rfl, rfl⟩ := h
          exact ⟨st, _, by simp [encryptAndHash], rfl, rfl, rfl, rfl, rfl⟩
      · cases h

/-! ### what the reader of an act opens last -/

theorem getLast_one {α} (a : α) (pre : List α) (x : α) : (a :: (pre ++ [x])).getLast? = some x := by
  rw [← List.cons_append, List.getLast?_append]; simp

theorem getLast_two {α} (a : α) (pre : List α) (x y : α) : (a :: (pre ++ [x, y])).getLast? = some y := by
  rw [← List.cons_append, List.getLast?_append]; simp

/-- the last thing `readMsg` does is to open the last field under its running
    digest and key; if it succeeds, the reader's digest and key afterwards are
    determined by that ciphertext -/
theorem readMsg_last (r r' : St) (mp : MsgPattern) (inp : List Field) (h : readMsg r mp inp = .ok r')
    (c : Ct) (hl : inp.getLast? = some (.ct (.hon c))) :
    r'.h = c.ad ++ [.ct c.id] ∧ r'.key = c.key := by
  rcases inp with _ | ⟨f, rest⟩
  · simp [readMsg] at h
  rcases f with v | p | x
  case point => simp [readMsg] at h
  case ct => simp [readMsg] at h
  simp only [readMsg, bind, Except.bind] at h
  split at h
  · cases h
  next st0 hst0 =>
  split at h
  · cases h
  next v2 hrt =>
  obtain ⟨st, rest2⟩ := v2
  obtain ⟨pre, hpre⟩ := readTokens_suffix _ _ _ _ _ hrt
  simp only at h
  -- a helper: opening `x` as the last field
  have key : ∀ (x : WCt) (st' : St) (pl : Pl) (sta : St), decryptAndHash sta x = .ok (st', pl) →
      (Field.ver v :: rest).getLast? = some (.ct x) → st'.h = c.ad ++ [.ct c.id] ∧ st'.key = c.key := by
    intro x st' pl sta hd hx
    obtain ⟨c0, hx0, had, hkey, _, _, hh, hk, _, _⟩ := decryptAndHash_spec _ _ _ _ hd
    rw [hx] at hl
    simp only [Option.some.injEq, Field.ct.injEq] at hl
    rw [hx0] at hl
    cases hl
    exact ⟨by rw [hh, had], by rw [hk, hkey]⟩
  split at h
  · -- v = 0
    split at h
    · next _ x =>
      have hlast : (Field.ver v :: rest).getLast? = some (.ct x) := by rw [hpre]; exact getLast_one _ _ _
      split at h
      · cases h
      next v3 hd =>
      obtain ⟨st', pl⟩ := v3
      have := key x st' pl st hd hlast
      simp only at h
      split at h <;> first | (simp only [pure, Except.pure, Except.ok.injEq] at h; subst h; exact this) | cases h
    · cases h
  · split at h
    · split at h
      · -- act 2, versions 1/2: length header then body
        split at h
        · next _ x1 x2 =>
          have hlast : (Field.ver v :: rest).getLast? = some (.ct x2) := by rw [hpre]; exact getLast_two _ _ _ _
          split at h
          · cases h
          next v3 hd1 =>
          obtain ⟨st1, pl1⟩ := v3
          simp only at h
          split at h
          · split at h
            · cases h
            next v4 hd2 =>
            obtain ⟨st2, pl2⟩ := v4
            have := key x2 st2 pl2 st1 hd2 hlast
            simp only at h
            split at h <;> first | (simp only [pure, Except.pure, Except.ok.injEq] at h; subst h; exact this) | cases h
          · cases h
        · cases h
      · split at h
        · next _ x =>
          have hlast : (Field.ver v :: rest).getLast? = some (.ct x) := by rw [hpre]; exact getLast_one _ _ _
          split at h
          · cases h
          next v3 hd =>
          obtain ⟨st', pl⟩ := v3
          have := key x st' pl st hd hlast
          simp only at h
          split at h <;> first | (simp only [pure, Except.pure, Except.ok.injEq] at h; subst h; exact this) | cases h
        · cases h
    · cases h

/-! ### the cipher key in use is the chaining key -/

def KeyCk (st : St) : Prop := st.key = st.ck

theorem mixKey_keyck (st : St) (s : Sec) : KeyCk (mixKey st s) := rfl

theorem dhToken_keyck (st st' : St) (t : Token) (h : dhToken st t = .ok st') : KeyCk st' := by
  cases t <;> simp only [dhToken, bind, Except.bind, need] at h
  all_goals first
    | (cases h; done)
    | ((repeat' split at h) <;> first
        | (simp only [pure, Except.pure, Except.ok.injEq] at h; subst h; exact mixKey_keyck _ _)
        | (cases h; done))

theorem writeTokens_keyck (ts : List Token) (st st' : St) (out out' : List Field) (hk : KeyCk st)
    (h : writeTokens ts st out = .ok (st', out')) : KeyCk st' := by
  induction ts generalizing st out with
  | nil => simp only [writeTokens, pure, Except.pure, Except.ok.injEq, Prod.mk.injEq] at h; rw [← h.1]; exact hk
  | cons t ts ih =>
    cases t with
    | e => exact ih _ _ (by exact hk) h
    | me => exact ih _ _ (by exact hk) h
    | s => exact ih _ _ (by exact hk) h
    | ee | es | se | ss =>
      simp only [writeTokens, bind, Except.bind] at h
      split at h
      · cases h
      · next st1 h1 => exact ih _ _ (dhToken_keyck _ _ _ h1) h

theorem readTokens_keyck (ts : List Token) (st st' : St) (inp rest : List Field) (hk : KeyCk st)
    (h : readTokens ts st inp = .ok (st', rest)) : KeyCk st' := by
  induction ts generalizing st inp with
  | nil => simp only [readTokens, pure, Except.pure, Except.ok.injEq, Prod.mk.injEq] at h; rw [← h.1]; exact hk
  | cons t ts ih =>
    cases t with
    | e =>
      rcases inp with _ | ⟨f, r⟩
      · simp [readTokens] at h
      · rcases f with v | (_ | p) | c <;> simp only [readTokens] at h <;> try (cases h)
        exact ih _ _ (by exact hk) h
    | me =>
      rcases inp with _ | ⟨f, r⟩
      · simp [readTokens] at h
      · rcases f with v | (_ | p) | c <;> simp only [readTokens] at h <;> try (cases h)
        exact ih _ _ (by exact hk) h
    | s =>
      rcases inp with _ | ⟨f, r⟩
      · simp [readTokens] at h
      · rcases f with v | p | c <;> simp only [readTokens] at h <;> try (cases h)
        simp only [bind, Except.bind] at h
        split at h
        · cases h
        · next v hv =>
          obtain ⟨st1, pl⟩ := v
          obtain ⟨_, _, _, _, _, _, _, hk1, hc1, _⟩ := decryptAndHash_spec _ _ _ _ hv
          simp only at h
          split at h
          · exact ih _ _ (by show _ = _; simp only; rw [hk1, hc1]; exact hk) h
          · cases h
    | ee | es | se | ss =>
      simp only [readTokens, bind, Except.bind] at h
      split at h
      · cases h
      · next st1 h1 => exact ih _ _ (dhToken_keyck _ _ _ h1) h

theorem writeMsg_keyck (w w' : St) (mp : MsgPattern) (fields : List Field) (hk : KeyCk w)
    (h : writeMsg w mp = .ok (w', fields)) : KeyCk w' := by
  simp only [writeMsg, bind, Except.bind] at h
  split at h
  · cases h
  · next v hv =>
    obtain ⟨st, out⟩ := v
    have hst : KeyCk st := writeTokens_keyck _ _ _ _ _ hk hv
    simp only at h
    split at h
    · split at h
      · cases h
      · simp only [pure, Except.pure, Except.ok.injEq, Prod.mk.injEq] at h
        obtain ⟨rfl, _⟩ := h
        exact hst
    · split at h
      · split at h <;>
        · simp only [pure, Except.pure, Except.ok.injEq, Prod.mk.injEq] at h
          obtain ⟨rfl, _⟩ := h
          exact hst
      · cases h

theorem readMsg_keyck (r r' : St) (mp : MsgPattern) (inp : List Field) (hk : KeyCk r)
    (h : readMsg r mp inp = .ok r') : KeyCk r' := by
  rcases inp with _ | ⟨f, rest⟩
  · simp [readMsg] at h
  rcases f with v | p | x
  case point => simp [readMsg] at h
  case ct => simp [readMsg] at h
  simp only [readMsg, bind, Except.bind] at h
  split at h
  · cases h
  next st0 hst0 =>
  have h0 : KeyCk st0 := by
    split at hst0
    · split at hst0
      · cases hst0
      · simp only [pure, Except.pure, Except.ok.injEq] at hst0; subst hst0; split <;> exact hk
    · split at hst0
      · cases hst0
      · simp only [pure, Except.pure, Except.ok.injEq] at hst0; subst hst0; exact hk
  split at h
  · cases h
  next v2 hrt =>
  obtain ⟨st, rest2⟩ := v2
  have hst : KeyCk st := readTokens_keyck _ _ _ _ _ h0 hrt
  simp only at h
  have key : ∀ (x : WCt) (st' : St) (pl : Pl) (sta : St), KeyCk sta → decryptAndHash sta x = .ok (st', pl) → KeyCk st' := by
    intro x st' pl sta hs hd
    obtain ⟨_, _, _, _, _, _, _, hk1, hc1, _⟩ := decryptAndHash_spec _ _ _ _ hd
    show _ = _
    rw [hk1, hc1]; exact hs
  split at h
  · split at h
    · split at h
      · cases h
      next v3 hd =>
      obtain ⟨st', pl⟩ := v3
      have := key _ st' pl st hst hd
      simp only at h
      split at h <;> first | (simp only [pure, Except.pure, Except.ok.injEq] at h; subst h; exact this) | (cases h; done)
    · cases h
  · split at h
    · split at h
      · split at h
        · split at h
          · cases h
          next v3 hd1 =>
          obtain ⟨st1, pl1⟩ := v3
          have h1 := key _ st1 pl1 st hst hd1
          simp only at h
          split at h
          · split at h
            · cases h
            next v4 hd2 =>
            obtain ⟨st2, pl2⟩ := v4
            have := key _ st2 pl2 st1 h1 hd2
            simp only at h
            split at h <;> first | (simp only [pure, Except.pure, Except.ok.injEq] at h; subst h; exact this) | (cases h; done)
          · cases h
        · cases h
      · split at h
        · split at h
          · cases h
          next v3 hd =>
          obtain ⟨st', pl⟩ := v3
          have := key _ st' pl st hst hd
          simp only at h
          split at h <;> first | (simp only [pure, Except.pure, Except.ok.injEq] at h; subst h; exact this) | (cases h; done)
        · cases h
    · cases h

/-! ### the theorems -/

/-- **Acceptance binds the reader to the creator of the ciphertext it accepted**,
    for every act, every version, every key, passphrase and payload, and
    whatever the adversary did to the fields in front of it: after a successful
    `readMsg` whose last field is the honest ciphertext `c`, the reader's
    transcript digest is the digest `c` was sealed over, extended by `c`, and
    its cipher key is the key `c` was sealed under. -/
theorem acceptance_binds (r r' : St) (mp : MsgPattern) (inp : List Field) (c : Ct)
    (h : readMsg r mp inp = .ok r') (hl : inp.getLast? = some (.ct (.hon c))) :
    r'.h = c.ad ++ [.ct c.id] ∧ r'.key = c.key :=
  readMsg_last r r' mp inp h c hl

/-- **Agreement after an act.**  For all states of the two parties (so for all
    keys, passphrases, payloads, version ranges and all earlier interference),
    if the writer's `writeMsg` succeeds, the adversary rewrites the fields in
    any way that leaves the final ciphertext in place, and the reader's
    `readMsg` succeeds, then both parties hold the same transcript digest —
    hence the same ephemeral keys, static-key ciphertexts and payload
    ciphertexts in the same order — the same cipher key and the same chaining
    key (so the two directions' keys derived by `split` are complementary). -/
theorem act_agreement (w w' r r' : St) (mp : MsgPattern) (fields fields' : List Field)
    (hkw : KeyCk w) (hkr : KeyCk r)
    (hw : writeMsg w mp = .ok (w', fields)) (hr : readMsg r mp fields' = .ok r')
    (hsame : fields'.getLast? = fields.getLast?) :
    r'.h = w'.h ∧ r'.key = w'.key ∧ r'.ck = w'.ck := by
  obtain ⟨pre, c, hlast, had, hkey, hh, hk, _⟩ := writeMsg_last w w' mp fields hw
  have hl : fields'.getLast? = some (.ct (.hon c)) := by rw [hsame, hlast]
  obtain ⟨h1, h2⟩ := readMsg_last r r' mp fields' hr c hl
  have kw : KeyCk w' := writeMsg_keyck _ _ _ _ hkw hw
  have kr : KeyCk r' := readMsg_keyck _ _ _ _ hkr hr
  refine ⟨by rw [h1, hh, had], by rw [h2, hk, hkey], ?_⟩
  rw [← kr, ← kw, h2, hk, hkey]

/-- what the two parties hold when the handshake ends with that act: equal
    digests and complementary keys -/
theorem finish_agreement (i r : St) (hi : i.initiator = true) (hr : r.initiator = false)
    (hh : r.h = i.h) (hck : r.ck = i.ck) :
    (finish i).digest = (finish r).digest ∧ (finish i).sendKey = (finish r).recvKey ∧
      (finish i).recvKey = (finish r).sendKey := by
  simp [finish, hi, hr, hh, hck]

/-- non-vacuity: the states `initSt` builds satisfy the key invariant -/
theorem initSt_keyck (p : Pattern) (initiator : Bool) (ls le : Nat) (rs : Option Pt) (pw : Nat)
    (payload : Option Bytes) (a b : Nat) (st : St)
    (h : initSt xxPattern initiator ls le rs pw payload a b = .ok st) : KeyCk st := by
  simp [initSt, xxPattern, pure, Except.pure, bind, Except.bind, List.foldlM] at h
  subst h; rfl

end Lnc.Props.C04
