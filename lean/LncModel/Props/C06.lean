import LncModel.Proofs.ProtoStep
import LncModel.Control
/-
  C06 — GBN progress (the untimed logical core; the timed statement is explored
  on the real connection, see DESIGN.md).
-/
namespace Lnc.Props.C06
open Lnc Lnc.Gbn Lnc.ModArith

/-- **stops retransmitting once everything has been acknowledged**: with an
    empty window the resend iteration sends nothing -/
theorem quiescent_silent (s fuel b : Nat) : resendSeqs s (fuel + 1) b b = .ok [] := by
  simp [resendSeqs]

theorem size_zero_of_base_eq_top (s t : Nat) (ht : t < 256) : Queue.size ⟨s, t, t⟩ = 0 := by
  unfold Queue.size sub8
  simp only [ge_iff_le, Nat.le_refl, ↓reduceIte]
  omega

/-- the resend iteration over a window of `k` packets starting at absolute index `B` -/
theorem resendSeqs_window (s : Nat) (hs2 : 1 < s) (hs : s ≤ 255) (k : Nat) :
    ∀ (B fuel : Nat), k < s → k < fuel →
      resendSeqs s fuel (B % s) ((B + k) % s) = .ok ((List.range k).map fun i => (B + i) % s) := by
  induction k with
  | zero =>
    intro B fuel _ hf
    cases fuel with
    | zero => omega
    | succ fuel => simp [resendSeqs]
  | succ k ih =>
    intro B fuel hk hf
    cases fuel with
    | zero => omega
    | succ fuel =>
      have hne : B % s ≠ (B + (k + 1)) % s := by
        intro he
        have := eq_of_mod_eq B (B + (k + 1)) s he (by omega) (by omega)
        omega
      have hlt : B % s < s := Nat.mod_lt _ (by omega)
      have hge : ¬ (B % s ≥ s) := by omega
      have hadd : add8 (B % s) 1 % s = (B + 1) % s := by
        unfold add8
        rw [Nat.mod_eq_of_lt (by omega : B % s + 1 < 256), succ_mod]
      have hrec := ih (B + 1) fuel (by omega) (by omega)
      have e1 : B + 1 + k = B + (k + 1) := by omega
      rw [e1] at hrec
      simp only [resendSeqs, hne, hge, ↓reduceIte, modS, Nat.ne_of_gt (by omega : 0 < s), Outcome.bind, hadd,
        hrec, Outcome.map]
      congr 1
      rw [List.range_succ_eq_map, List.map_cons, List.map_map]
      congr 1
      apply List.map_congr_left
      intro a _
      simp only [Function.comp]
      congr 1; omega

/-- **a resend round re-offers exactly the outstanding window**: in every
    reachable state `resend()`'s loop visits the sequence numbers of packets
    B, B+1, …, T-1 in this order, and never indexes outside the queue -/
theorem resend_covers_window (σ : Uni) (h : Inv σ) :
    resendSeqs σ.q.s (σ.q.s + 1) σ.q.base σ.q.top =
      .ok ((List.range (σ.T - σ.B)).map fun i => (σ.B + i) % σ.q.s) := by
  have hn := h.n_lt_s; have hnp := h.n_pos; have hw := h.win; have hBR := h.BR; have hRT := h.RT
  rw [h.base_eq, h.top_eq]
  have := resendSeqs_window σ.q.s (by omega) h.s_le (σ.T - σ.B) σ.B (σ.q.s + 1) (by omega) (by omega)
  rwa [show σ.B + (σ.T - σ.B) = σ.T by omega] at this

/-- **the ACK of the last outstanding packet empties the queue**, from any
    reachable state in which the receiver has everything -/
theorem ack_of_top_empties (σ : Uni) (h : Inv σ) (hR : σ.R = σ.T) (hpos : σ.B < σ.T) :
    ∃ b, σ.q.processACK ((σ.T - 1) % σ.q.s) = .ok ({ σ.q with base := σ.q.top }, b) ∧
      Queue.size { σ.q with base := σ.q.top } = 0 := by
  obtain ⟨b, hb⟩ := processACK_spec h ((σ.T - 1) % σ.q.s) σ.T (by omega) (by omega) (by omega) rfl
  refine ⟨b, ?_, ?_⟩
  · rw [hb, h.top_eq]
  · have : σ.q.top < 256 := by
      rw [h.top_eq]
      have := Nat.mod_lt σ.T (by have := h.n_lt_s; omega : 0 < σ.q.s)
      have := h.s_le; omega
    exact size_zero_of_base_eq_top _ _ this

/-- **a NACK naming the top empties the queue** (the `seq == sequenceTop` shortcut is sound) -/
theorem nack_of_top_empties (σ : Uni) (h : Inv σ) (hR : σ.R = σ.T) :
    (σ.q.processNACK (σ.T % σ.q.s)).1 = { σ.q with base := σ.q.top } := by
  rw [processNACK_spec h (σ.T % σ.q.s) σ.T (by have := h.BR; omega) (by omega) rfl, h.top_eq]

/-! ### the resend timer is not starved by the peer's own traffic -/
open Lnc.Gbn.Control in
/-- **with the repaired reset rule, whatever DATA / ping traffic the peer sends,
    the resend timer fires by its deadline** (so a lost packet is retransmitted
    one resend timeout after the last response, for every reverse-traffic
    pattern) -/
theorem resend_fires_despite_peer_traffic (rt : ResendTimer) (hist : List (RxKind × Nat)) (horizon : Nat)
    (hdata : ∀ e ∈ hist, e.1 = RxKind.data) (hh : rt.deadline ≤ horizon) :
    firesBy resetsOnResponse rt hist horizon = true := by
  induction hist with
  | nil => simp [firesBy, hh]
  | cons e rest ih =>
    obtain ⟨k, t⟩ := e
    have hk : k = RxKind.data := hdata (k, t) List.mem_cons_self
    subst hk
    simp only [firesBy]
    split
    · rfl
    · have : rt.recv resetsOnResponse RxKind.data t = rt := by simp [ResendTimer.recv, resetsOnResponse]
      rw [this]
      exact ih (fun e he => hdata e (List.mem_cons_of_mem _ he))

open Lnc.Gbn.Control in
theorem peerTraffic_succ (t0 p n : Nat) :
    peerTraffic t0 p (n + 1) = (RxKind.data, t0 + p) :: peerTraffic (t0 + p) p n := by
  simp only [peerTraffic, List.range_succ_eq_map, List.map_cons, List.map_map]
  congr 1
  · simp
  · refine List.map_congr_left fun i _ => ?_
    simp only [Function.comp, Nat.succ_eq_add_one, Prod.mk.injEq, true_and]
    rw [Nat.add_mul (i + 1) 1 p, Nat.one_mul]; omega

open Lnc.Gbn.Control in
/-- **the rule before the repair is starved**: a peer sending with any period
    shorter than the resend timeout keeps the timer from ever firing — for
    every length of the history (this is the retired known finding
    `C06/retransmit-starved-by-reverse-traffic`, and its keepalive-ping variant) -/
theorem starved_before_repair (T p : Nat) (hp : p < T) (n t0 : Nat) :
    firesBy resetsOnAny ⟨t0 + T, T⟩ (peerTraffic t0 p n) (t0 + n * p) = false := by
  induction n generalizing t0 with
  | zero => simp [peerTraffic, firesBy]; omega
  | succ n ih =>
    rw [peerTraffic_succ]
    simp only [firesBy]
    rw [if_neg (by omega)]
    have h1 : (⟨t0 + T, T⟩ : ResendTimer).recv resetsOnAny RxKind.data (t0 + p) = ⟨(t0 + p) + T, T⟩ := by
      simp [ResendTimer.recv, resetsOnAny]
    rw [h1, show t0 + (n + 1) * p = (t0 + p) + n * p by rw [Nat.add_mul, Nat.one_mul]; omega]
    exact ih (t0 + p)

/-! ### the syncer's expected ACK (`initResendUpTo`) and its 8-bit wrap -/

/-- the value `(s + top - 1) % s` takes when `s + top` does not fit a byte -/
theorem syncerExpect_val (s top : Nat) (hs : 0 < s) (hs255 : s ≤ 255) (ht : top < s) :
    syncerExpect s top = .ok ((if s + top ≤ 256 then s + top - 1 else s + top - 257) % s, top) := by
  have key : ((s + top) % 256 + 256 - 1 % 256) % 256 = if s + top ≤ 256 then s + top - 1 else s + top - 257 := by
    split <;> omega
  unfold syncerExpect modS add8 sub8
  rw [if_neg (by omega), key]
  rfl

/-- **the sync wait expects the ACK of the last re-sent packet, `(top - 1) mod s`,
    exactly when `s + top` fits a byte** — so for every window below 128 always,
    and for larger windows only in the lower part of the sequence space -/
theorem syncerExpect_correct_iff (s top : Nat) (hs : 0 < s) (hs255 : s ≤ 255) (ht : top < s) :
    syncerExpect s top = .ok ((top + s - 1) % s, top) ↔ s + top ≤ 256 := by
  rw [syncerExpect_val s top hs hs255 ht]
  constructor
  · intro h
    by_cases hle : s + top ≤ 256
    · exact hle
    · exfalso
      rw [if_neg hle] at h
      have he : (s + top - 257) % s = (top + s - 1) % s := by
        have := h; simp only [Outcome.ok.injEq, Prod.mk.injEq, and_true] at this; exact this
      -- the two arguments differ by 256, so s would divide 256; but 128 < s < 256
      have h1 : top + s - 1 = (s + top - 257) + 256 := by omega
      rw [h1, Nat.add_mod] at he
      have h256 : 256 % s = 256 - s := by
        rw [Nat.mod_eq_sub_mod (by omega), Nat.mod_eq_of_lt (by omega)]
      rw [h256] at he
      have hx : (s + top - 257) % s < s := Nat.mod_lt _ hs
      generalize (s + top - 257) % s = x at he hx
      by_cases hc : x + (256 - s) < s
      · rw [Nat.mod_eq_of_lt hc] at he; omega
      · rw [Nat.mod_eq_sub_mod (by omega), Nat.mod_eq_of_lt (by omega)] at he; omega
  · intro hle
    rw [if_pos hle, show top + s - 1 = s + top - 1 by omega]

/-- the wrap is real: window 199 (s = 200), top = 100 — the syncer waits for ACK 43, the last re-sent packet is 99 -/
theorem syncerExpect_wrap_counterexample : syncerExpect 200 100 = .ok (43, 100) ∧ (100 + 200 - 1) % 200 = 99 := by decide

/-! non-vacuity -/
example : resendSeqs 4 5 3 1 = .ok [3, 0] := by decide
open Lnc.Gbn.Control in
example : firesBy resetsOnResponse ⟨10, 10⟩ (peerTraffic 0 3 5) 20 = true ∧
          firesBy resetsOnAny ⟨10, 10⟩ (peerTraffic 0 3 5) 20 = false := by decide

end Lnc.Props.C06
