import LncModel.Proofs.ProtoStep
/-
  C01 — GBN delivers every message exactly once, in order and intact.
  Property theorems only; the invariant and its preservation are in
  Proofs/ProtoInv.lean and Proofs/ProtoStep.lean.
-/
namespace Lnc.Props.C01
open Lnc Lnc.Gbn

/-- **C01, one direction, packet level.**  For every window size `1 ≤ n ≤ 254`
    and every finite sequence of steps — new packets (data or ping), any
    retransmissions of the last `n` packets, per-packet drop / in-order
    duplicate / delay on both channels — the packets handed to the receiving
    application are a prefix of the packets accepted by the sender: nothing
    lost in the middle, duplicated, reordered or altered (`Pkt` equality covers
    payload bytes and the FinalChunk flag). -/
theorem C01_uni (n : Nat) (hn : 0 < n) (hn254 : n ≤ 254) (σ : Uni) (hr : Reachable n σ) :
    σ.out <+: σ.accepted := by
  have h := inv_reachable hn hn254 hr
  rw [h.out_eq]
  exact (List.take_prefix _ _).filter _

/-- the receiver's output is exactly the first `R` accepted packets: nothing
    is skipped once later packets have been delivered -/
theorem C01_exact (n : Nat) (hn : 0 < n) (hn254 : n ≤ 254) (σ : Uni) (hr : Reachable n σ) :
    σ.out = (σ.log.take σ.R).filter (fun p => !p.ping) ∧ σ.R ≤ σ.log.length :=
  let h := inv_reachable hn hn254 hr
  ⟨h.out_eq, by rw [h.log_len]; exact h.RT⟩

/-! Non-vacuity: a concrete run, n = 2 (s = 3), that wraps the sequence space,
    loses an ACK, duplicates a DATA packet, retransmits, and provokes a NACK —
    every label below is enabled, and the output is the accepted prefix. -/
def pk (b : UInt8) : Pkt := ⟨[b], true, false⟩
def demo : List Label :=
  [.sendNew (pk 1), .sendNew (pk 2), .fwdDup, .fwdDeliver false, .fwdDeliver true,
   .bwdDrop, .fwdDeliver false, .bwdDeliver, .bwdDeliver,
   .sendNew (pk 3), .sendNew ⟨[], false, true⟩, .retransmit 2, .fwdDeliver false, .fwdDrop,
   .fwdDeliver true, .bwdDeliver, .bwdDup, .bwdDeliver, .bwdDeliver, .retransmit 3,
   .fwdDeliver false, .bwdDeliver, .sendNew (pk 4), .fwdDeliver false]

example : ((Uni.init 2).run? demo).map (fun σ => (σ.out, [σ.B, σ.R, σ.T, σ.q.base, σ.q.top, σ.recvSeq]))
    = some ([pk 1, pk 2, pk 3, pk 4], [4, 5, 5, 1, 2, 2]) := by decide

end Lnc.Props.C01
