import LncModel.GbnCodec
import LncModel.MsgData
/-
  C19 — Wire codecs round-trip for all field values.
  Property theorems only.  `g` is the DATA length guard of `Deserialize`
  (`len(b) < g`), instantiated from the regenerated facts in Facts/Instances.
-/
namespace Lnc.Props.C19
open Lnc Lnc.Gbn Lnc.Mailbox

theorem boolByte_true_iff (b : Bool) : (boolByte b == bTRUE) = b := by
  cases b <;> decide

/-- Every GBN packet deserialises from its own serialisation to an equal value:
    all six types, all 256 values of `Seq`/`N`, both flags, any payload. -/
theorem gbn_roundtrip (g : Nat) (hg : g ≤ 4) (m : Msg) :
    deserializeG g (serialize m) = .ok m := by
  cases m with
  | data seq fin ping pl =>
    have h : ¬ (pl.length + 4 < g) := by omega
    simp [serialize, deserializeG, tDATA, idx, sliceFrom, Outcome.bind, h, boolByte_true_iff]
  | ack s => simp [serialize, deserializeG, tDATA, tACK, idx, Outcome.bind]
  | nack s => simp [serialize, deserializeG, tDATA, tACK, tNACK, idx, Outcome.bind]
  | syn s => simp [serialize, deserializeG, tDATA, tACK, tNACK, tSYN, idx, Outcome.bind]
  | fin => simp [serialize, deserializeG, tDATA, tACK, tNACK, tSYN, tFIN]
  | synack => simp [serialize, deserializeG, tDATA, tACK, tNACK, tSYN, tFIN, tSYNACK]

/-- Any bytes that deserialise successfully re-serialise to a packet that
    deserialises to the same value again. -/
theorem gbn_canonical (g : Nat) (hg : g ≤ 4) (b : Bytes) (m : Msg)
    (_h : deserializeG g b = .ok m) : deserializeG g (serialize m) = .ok m :=
  gbn_roundtrip g hg m

/-- Non-vacuity: `gbn_canonical`'s hypothesis is met by non-canonical bytes
    (flag byte 7, trailing garbage on an ACK). -/
example : deserializeG 4 [2, 9, 7, 1, 0xAA] = .ok (.data 9 false true [0xAA]) := by decide
example : deserializeG 4 [3, 200, 1, 2, 3] = .ok (.ack 200) := by decide

/-! MsgData -/

theorem toNat_ofNat_mod (k : Nat) : (UInt8.ofNat (k % 256)).toNat = k % 256 := by simp

theorem readBe32_be32 (n : Nat) (h : n < 4294967296) :
    readBe32 (UInt8.ofNat (n / 16777216 % 256)) (UInt8.ofNat (n / 65536 % 256))
      (UInt8.ofNat (n / 256 % 256)) (UInt8.ofNat (n % 256)) = n := by
  simp only [readBe32, toNat_ofNat_mod]; omega

/-- Control-message round trip for every version byte, every payload whose length
    fits the 32-bit prefix, and every receiver object — fresh or used before. -/
theorem msgdata_roundtrip (recv : MsgData) (v : UInt8) (p : Bytes)
    (hlen : p.length < 4294967296) :
    MsgData.deserializeInto recv (MsgData.serialize ⟨v, p⟩) = .ok ⟨v, p⟩ := by
  have hb := readBe32_be32 p.length hlen
  simp only [MsgData.serialize, Nat.mod_eq_of_lt hlen]
  simp only [be32, List.cons_append, List.nil_append, MsgData.deserializeInto, hb]
  by_cases hp : p.length > 0
  · have h5 : ¬ (p.length + 1 + 1 + 1 + 1 + 1 < 5 + p.length) := by omega
    simp [hp, h5]
  · have : p = [] := by cases p <;> simp_all
    subst this
    simp

/-- before repair (finding 19) the statement needed a fresh receiver: a used one kept
    its old payload when a message without payload arrived -/
theorem msgdata_reuse_counterexample :
    MsgData.deserializeIntoOld ⟨1, [0xAA]⟩ (MsgData.serialize ⟨2, []⟩) = .ok ⟨2, [0xAA]⟩ := by decide

theorem msgdata_canonical (b : Bytes) (m : MsgData)
    (h : MsgData.deserialize b = .ok m) (hlen : m.payload.length < 4294967296) :
    MsgData.deserialize (MsgData.serialize m) = .ok m := by
  cases m with
  | mk v p => exact msgdata_roundtrip _ v p hlen

example : MsgData.deserialize [7, 0, 0, 0, 2, 0xAA, 0xBB, 0xCC] = .ok ⟨7, [0xAA, 0xBB]⟩ := by decide

end Lnc.Props.C19
