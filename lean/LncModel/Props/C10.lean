import LncModel.Handshake
/-
  C10 — GBN handshake: both ends use the window the client proposed (safety
  part; convergence in time is established by exploration under virtual time).
-/
namespace Lnc.Props.C10
open Lnc Lnc.Gbn Lnc.Gbn.Hs

/-- what the server's registers may hold, given the SYNs it has received so far -/
def SrvOK (syns : List Nat) : Srv → Prop
  | .s0 false _ => True
  | .s0 true n => validN n = true ∧ n ∈ syns
  | .s1 _ n => validN n = true ∧ n ∈ syns
  | .done n => validN n = true ∧ n ∈ syns
  | .fail _ => True

theorem SrvOK_mono {syns syns' : List Nat} (h : ∀ x ∈ syns, x ∈ syns') :
    ∀ st, SrvOK syns st → SrvOK syns' st
  | .s0 false _, _ => trivial
  | .s0 true _, ⟨a, b⟩ => ⟨a, h _ b⟩
  | .s1 _ _, ⟨a, b⟩ => ⟨a, h _ b⟩
  | .done _, ⟨a, b⟩ => ⟨a, h _ b⟩
  | .fail _, _ => trivial

theorem srvOnSyn_ok (syns : List Nat) (r : Bool) (n' : Nat) :
    SrvOK (syns ++ [n']) (srvOnSyn r n').1 := by
  unfold srvOnSyn
  split
  · next hv => exact ⟨hv, by simp⟩
  · trivial

theorem srv_step_ok (g : Nat) (syns : List Nat) (st : Srv) (e : Ev) (h : SrvOK syns st) :
    SrvOK (syns ++ synsIn g [e]) (srvStep g st e).1 := by
  have mono := fun st h' => SrvOK_mono (syns := syns) (syns' := syns ++ synsIn g [e])
    (fun x hx => List.mem_append_left _ hx) st h'
  cases st with
  | s0 resent n =>
    cases e with
    | timeout => exact mono _ h
    | recv b =>
      simp only [srvStep, synsIn, List.filterMap_cons, List.filterMap_nil]
      cases hd : deserializeG g b with
      | err e => trivial
      | panic p => trivial
      | ok m =>
        cases m with
        | syn n' => simpa using srvOnSyn_ok syns resent n'.toNat
        | synack =>
          cases resent with
          | true => simp only [List.append_nil, ↓reduceIte]; exact ⟨h.1, h.2⟩
          | false => trivial
        | data a b c d =>
          cases resent with
          | true => simp only [List.append_nil, ↓reduceIte]; exact ⟨h.1, h.2⟩
          | false => trivial
        | ack a => simpa using h
        | nack a => simpa using h
        | fin => simpa using h
  | s1 resent n =>
    cases e with
    | timeout => exact mono _ (by exact h)
    | recv b =>
      simp only [srvStep, synsIn, List.filterMap_cons, List.filterMap_nil]
      cases hd : deserializeG g b with
      | err e => trivial
      | panic p => trivial
      | ok m =>
        cases m with
        | syn n' => simpa using srvOnSyn_ok syns true n'.toNat
        | synack => simp only [List.append_nil]; exact ⟨h.1, h.2⟩
        | data a b c d => trivial
        | ack a => trivial
        | nack a => trivial
        | fin => trivial
  | done n =>
    cases e <;> exact mono _ h
  | fail w =>
    cases e <;> trivial

theorem synsIn_append (g : Nat) (a b : List Ev) : synsIn g (a ++ b) = synsIn g a ++ synsIn g b := by
  simp [synsIn, List.filterMap_append]

theorem srv_run_ok (g : Nat) (evs : List Ev) (syns : List Nat) (st : Srv) (h : SrvOK syns st) :
    SrvOK (syns ++ synsIn g evs) (srvRun g st evs) := by
  induction evs generalizing syns st with
  | nil => simpa [srvRun, synsIn] using h
  | cons e es ih =>
    have h1 := srv_step_ok g syns st e h
    have h2 := ih (syns ++ synsIn g [e]) (srvStep g st e).1 h1
    have : synsIn g (e :: es) = synsIn g [e] ++ synsIn g es := synsIn_append g [e] es
    rw [this, ← List.append_assoc]
    exact h2

/-- **A server never enters the data phase with a window size that it did not
    receive in a SYN, nor with one the protocol cannot represent** — for every
    sequence of received byte strings (honest, duplicated, stale, garbage) and
    timeouts. -/
theorem server_done (g : Nat) (evs : List Ev) (n : Nat) (h : srvRun g srvStart evs = .done n) :
    1 ≤ n ∧ n ≤ 254 ∧ n ∈ synsIn g evs := by
  have := srv_run_ok g evs [] srvStart trivial
  rw [h] at this
  obtain ⟨hv, hm⟩ := this
  simp only [validN, decide_eq_true_eq] at hv
  exact ⟨hv.1, hv.2, by simpa using hm⟩

/-- client side: it proceeds only when a SYN echoing its own window was delivered -/
theorem client_run_ok (g : Nat) (evs : List Ev) (N : Nat) :
    ∀ st, (st = .waiting N ∨ st = .done N ∨ ∃ w, st = .fail w) →
      (cliRun g st evs = .waiting N ∨ cliRun g st evs = .done N ∨ ∃ w, cliRun g st evs = .fail w) := by
  induction evs with
  | nil => intro st h; simpa [cliRun] using h
  | cons e es ih =>
    intro st h
    have : cliRun g st (e :: es) = cliRun g (cliStep g st e).1 es := rfl
    rw [this]
    apply ih
    rcases h with rfl | rfl | ⟨w, rfl⟩
    · cases e with
      | timeout => left; rfl
      | recv b =>
        simp only [cliStep]
        cases deserializeG g b with
        | err e => right; right; exact ⟨_, rfl⟩
        | panic p => right; right; exact ⟨_, rfl⟩
        | ok m =>
          cases m with
          | syn n' =>
            simp only
            split
            · right; left; rfl
            · right; right; exact ⟨_, rfl⟩
          | _ => left; rfl
    · right; left; cases e <;> rfl
    · right; right; cases e <;> exact ⟨w, rfl⟩

theorem cliRun_fail (g : Nat) (w : String) (evs : List Ev) : cliRun g (.fail w) evs = .fail w := by
  induction evs with
  | nil => rfl
  | cons e es ih => cases e <;> exact ih

theorem client_done (g : Nat) (evs : List Ev) (N n : Nat)
    (h : cliRun g (cliStart N).1 evs = .done n) : n = N ∧ 1 ≤ N ∧ N ≤ 254 := by
  unfold cliStart at h
  split at h
  · next hv =>
    simp only [validN, decide_eq_true_eq] at hv
    rcases client_run_ok g evs N (.waiting N) (Or.inl rfl) with h1 | h1 | ⟨w, h1⟩
    · rw [h1] at h; cases h
    · rw [h1] at h; injection h with h; exact ⟨h.symm, hv.1, hv.2⟩
    · rw [h1] at h; cases h
  · rw [cliRun_fail] at h; cases h

/-- **Agreement.**  If every SYN the server ever received carries the client's
    window `N` (no stale SYN of an earlier connection with another window), then
    whenever both sides reach the data phase they use `N`. -/
theorem C10_agree_partial (g : Nat) (N : Nat) (cevs sevs : List Ev) (nc ns : Nat)
    (hs : ∀ m ∈ synsIn g sevs, m = N)
    (hc : cliRun g (cliStart N).1 cevs = .done nc) (hsv : srvRun g srvStart sevs = .done ns) :
    nc = N ∧ ns = N ∧ 1 ≤ N ∧ N ≤ 254 := by
  obtain ⟨h1, h2, h3⟩ := client_done g cevs N nc hc
  obtain ⟨_, _, hm⟩ := server_done g sevs ns hsv
  exact ⟨h1, hs ns hm, h2, h3⟩

/-- The statement without the hypothesis on stale SYNs is false of the
    protocol: with a stale `SYN 7` and a stale `SYNACK` of an earlier connection
    queued towards the server, and a stale `SYN 3` queued towards the client,
    the client of window 3 and the server finish with different windows. -/
def C10_statement : Prop :=
  ∀ (g N : Nat) (cevs sevs : List Ev) (nc ns : Nat),
    cliRun g (cliStart N).1 cevs = .done nc → srvRun g srvStart sevs = .done ns → ns = nc

theorem C10_stale_counterexample : ¬ C10_statement := by
  intro h
  have := h 4 3 [.recv [1, 3]] [.recv [1, 7], .recv [6]] 3 7 (by decide) (by decide)
  revert this; decide

/-! non-vacuity -/
example : srvRun 4 srvStart [.recv [1, 20], .timeout, .recv [2, 0, 1, 0, 9]] = .done 20 := by decide
example : srvRun 4 srvStart [.recv [1, 255]] = .fail "invalid window size" := by decide
example : srvRun 4 srvStart [.recv [1, 0]] = .fail "invalid window size" := by decide
example : cliRun 4 (cliStart 20).1 [.timeout, .recv [3, 1], .recv [1, 20]] = .done 20 := by decide

end Lnc.Props.C10
