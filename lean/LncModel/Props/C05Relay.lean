import LncModel.Relay
/-
  C05 / C01 — the mailbox layer over the relay is a transport in the sense the
  Go-Back-N theorems assume.

  C01, C06 and C05_end_to_end quantify over channels that keep per-direction
  order but may drop, duplicate in place and delay.  The property C05 speaks of
  a relay that "may drop or delay relay messages and break and re-establish its
  streams".  The theorems below close that gap for the retry loops of
  ServerConn / ClientConn (Relay.lean): whatever the outcome of every single
  stream operation — send attempts that fail with or without the relay having
  queued the payload, payloads acknowledged and then lost, receive attempts
  that fail with or without the relay having taken the head of the queue — the
  sequence of payloads the receive function hands to Go-Back-N arises from the
  sequence of payloads given to the send function by dropping items and
  repeating items in place (`LossyDup`), which is exactly what the channel of
  the protocol model does (`lossyDup_iff_chan`).  (One sender at a time per
  mailbox: Go-Back-N's DATA and ACK senders are serialised by the harness of
  this theorem as they are by the relay's per-stream order; see DESIGN.)
-/
namespace Lnc.Props.C05
open Lnc Lnc.Mailbox.Relay

theorem ld_of_nil {ys : List Bytes} (h : LossyDup [] ys) : ys = [] := by
  cases h; rfl

theorem ld_nil_right (xs : List Bytes) : LossyDup xs [] := by
  induction xs with
  | nil => exact .nil
  | cons x xs ih => exact .drop x ih

/-- a further payload given to the send function and lost altogether -/
theorem ld_append_drop {xs ys : List Bytes} (m : Bytes) (h : LossyDup xs ys) : LossyDup (xs ++ [m]) ys := by
  induction h with
  | nil => exact .drop m .nil
  | drop x _ ih => exact .drop x ih
  | dup x _ ih => exact .dup x ih

/-- one more copy of the payload the sender is working on reaches the queue -/
theorem ld_snoc_emit {zs ys : List Bytes} (m : Bytes) (h : LossyDup zs ys) (hl : zs.getLast? = some m) :
    LossyDup zs (ys ++ [m]) := by
  induction h with
  | nil => simp at hl
  | @drop x xs ys h ih =>
    cases xs with
    | nil =>
      have : ys = [] := ld_of_nil h
      subst this
      simp at hl
      subst hl
      exact .dup x (.drop x .nil)
    | cons x' xs' =>
      have : (x' :: xs').getLast? = some m := by simpa [List.getLast?_cons_cons] using hl
      exact .drop x (ih this)
  | @dup x xs ys _ ih => exact .dup x (ih hl)

/-- whatever is taken out of the queue and lost, the rest is still a lossy image -/
theorem ld_sublist {xs ys : List Bytes} (h : LossyDup xs ys) : ∀ {ys'}, List.Sublist ys' ys → LossyDup xs ys' := by
  induction h with
  | nil => intro ys' hs; cases hs; exact .nil
  | drop x _ ih => intro ys' hs; exact .drop x (ih hs)
  | @dup x xs ys _ ih =>
    intro ys' hs
    cases hs with
    | cons _ hs' => exact ih hs'
    | cons_cons _ hs' => exact .dup x (ih hs')

/-- the invariant: what has been handed out plus what is queued is a lossy image of what was given
    to the send function -/
def Inv (sent : List Bytes) (s : St) : Prop := LossyDup sent (s.got ++ s.box)

theorem sendCall_inv (m : Bytes) (tries : List SendTry) (sent : List Bytes) (s : St)
    (h : LossyDup (sent ++ [m]) (s.got ++ s.box)) : Inv (sent ++ [m]) (sendCall m tries s).1 := by
  induction tries generalizing s with
  | nil => exact h
  | cons t rest ih =>
    have hq : LossyDup (sent ++ [m]) (s.got ++ (s.box ++ [m])) := by
      rw [← List.append_assoc]
      exact ld_snoc_emit m h (by simp)
    cases t with
    | ok => exact hq
    | okLost => exact h
    | fail q =>
      cases q with
      | true => exact ih _ hq
      | false => exact ih _ h

theorem recvCall_inv (tries : List RecvTry) (sent : List Bytes) (s : St) (h : Inv sent s) :
    Inv sent (recvCall tries s).1 := by
  induction tries generalizing s with
  | nil => exact h
  | cons t rest ih =>
    cases hb : s.box with
    | nil =>
      cases t with
      | ok => simpa [recvCall, hb] using h
      | fail taken => simp only [recvCall, hb]; exact ih s h
    | cons b bs =>
      cases t with
      | ok =>
        simp only [recvCall, hb]
        unfold Inv at h ⊢
        simpa [hb, List.append_assoc] using h
      | fail taken =>
        simp only [recvCall, hb]
        cases taken with
        | false => exact ih s h
        | true =>
          apply ih
          unfold Inv at h ⊢
          rw [hb] at h
          exact ld_sublist h (List.Sublist.append (List.Sublist.refl _) (List.Sublist.cons _ (List.Sublist.refl _)))

theorem run_inv (ops : List Op) (sent : List Bytes) (s : St) (h : Inv sent s) :
    Inv (sent ++ sentOf ops) (run s ops) := by
  induction ops generalizing sent s with
  | nil => simpa [run, sentOf] using h
  | cons op ops ih =>
    cases op with
    | send m tries =>
      have h1 : Inv (sent ++ [m]) (step s (.send m tries)) := sendCall_inv m tries sent s (ld_append_drop m h)
      have := ih (sent ++ [m]) _ h1
      simpa [run, sentOf, List.append_assoc] using this
    | recv tries =>
      have h1 : Inv sent (step s (.recv tries)) := recvCall_inv tries sent s h
      have := ih sent _ h1
      simpa [run, sentOf] using this

/-- **the mailbox layer over the relay is a lossy, duplicating, order-keeping channel.**  For every
    sequence of send and receive calls and every outcome of every stream operation: the payloads
    handed to Go-Back-N by the receive function, in order, are obtained from the payloads given to
    the send function, in order, by dropping some and repeating some in place — never reordered,
    never altered, never invented. -/
theorem relay_layer_is_lossy_fifo (ops : List Op) : LossyDup (sentOf ops) (run St.init ops).got := by
  have h := run_inv ops [] St.init (by unfold Inv; exact .nil)
  simp only [List.nil_append] at h
  exact ld_sublist h (List.sublist_append_left _ _)

/-! ### `LossyDup` is the channel of the protocol model -/

inductive COp | deliver | dupDeliver | drop
deriving Repr, DecidableEq

/-- a FIFO channel holding `xs`: deliver the head, deliver a copy of the head and keep it (Proto:
    fwdDup then fwdDeliver), or drop the head; what is left when the schedule ends is still delayed -/
def chanOut : List Bytes → List COp → List Bytes
  | _, [] => []
  | [], _ :: _ => []
  | x :: xs, .deliver :: r => x :: chanOut xs r
  | x :: xs, .dupDeliver :: r => x :: chanOut (x :: xs) r
  | _ :: xs, .drop :: r => chanOut xs r

theorem lossyDup_of_chan (xs : List Bytes) (ops : List COp) : LossyDup xs (chanOut xs ops) := by
  induction ops generalizing xs with
  | nil => cases xs <;> simp [chanOut] <;> exact ld_nil_right _
  | cons o r ih =>
    cases xs with
    | nil => simp [chanOut]; exact .nil
    | cons x xs =>
      cases o with
      | deliver => simp only [chanOut]; exact .dup x (.drop x (ih xs))
      | dupDeliver => simp only [chanOut]; exact .dup x (ih (x :: xs))
      | drop => simp only [chanOut]; exact .drop x (ih xs)

theorem chan_of_lossyDup {xs ys : List Bytes} (h : LossyDup xs ys) : ∃ ops, chanOut xs ops = ys := by
  induction h with
  | nil => exact ⟨[], rfl⟩
  | @drop x xs ys _ ih =>
    obtain ⟨ops, ho⟩ := ih
    cases ys with
    | nil => exact ⟨[], by simp [chanOut]⟩
    | cons y ys' => exact ⟨.drop :: ops, by simp only [chanOut]; exact ho⟩
  | @dup x xs ys _ ih =>
    obtain ⟨ops, ho⟩ := ih
    exact ⟨.dupDeliver :: ops, by simp only [chanOut]; rw [ho]⟩

theorem lossyDup_iff_chan (xs ys : List Bytes) : LossyDup xs ys ↔ ∃ ops, chanOut xs ops = ys :=
  ⟨chan_of_lossyDup, fun ⟨ops, h⟩ => h ▸ lossyDup_of_chan xs ops⟩

/-! non-vacuity: three payloads; the first is queued by a failed attempt and again by the retry, the
    second is acknowledged and lost, a receive attempt fails after the relay took a copy -/
example : (run St.init [.send [1] [.fail true, .ok], .send [2] [.okLost], .recv [.fail true, .ok],
    .send [3] [.fail false, .fail false, .ok], .recv [.ok], .recv [.ok]]).got = [[1], [3]] := by decide

end Lnc.Props.C05
