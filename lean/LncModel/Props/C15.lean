import LncModel.Stream
/-
  C15 — Secured connections honour the net.Conn stream contract for any buffer
  size.
-/
namespace Lnc.Props.C15
open Lnc Lnc.Mailbox.Stream

/-- NoiseGrpcConn.Read: never more than the buffer holds (nor than 32 KiB), and
    nothing is lost: what was returned plus what is still owed is what was owed. -/
theorem grpcRead_spec (cap k : Nat) (st st' : RState) (b : Bytes)
    (h : grpcRead cap k st = some (b, st')) :
    b.length ≤ k ∧ b.length ≤ cap ∧ b ++ st'.rest = st.rest := by
  unfold grpcRead at h
  cases hp : st.pending with
  | cons x xs =>
    simp only [hp, Option.some.injEq, Prod.mk.injEq] at h
    obtain ⟨rfl, rfl⟩ := h
    refine ⟨?_, ?_, ?_⟩
    · simp only [List.length_take]; omega
    · simp only [List.length_take]; omega
    · simp [RState.rest, hp, ← List.append_assoc, List.take_append_drop]
  | nil =>
    cases hi : st.incoming with
    | nil => simp [hp, hi] at h
    | cons r rest =>
      simp only [hp, hi, Option.some.injEq, Prod.mk.injEq] at h
      obtain ⟨rfl, rfl⟩ := h
      refine ⟨?_, ?_, ?_⟩
      · simp only [List.length_take]; omega
      · simp only [List.length_take]; omega
      · simp [RState.rest, hp, hi, ← List.append_assoc, List.take_append_drop]

theorem bufRefill_spec (k : Nat) (inc : List Bytes) (st' : RState) (b : Bytes)
    (h : bufRefill k inc = some (b, st')) :
    b.length ≤ k ∧ b ++ st'.rest = inc.flatten ∧ (1 ≤ k → b ≠ []) := by
  induction inc with
  | nil => simp [bufRefill] at h
  | cons r rest ih =>
    cases r with
    | nil =>
      simp only [bufRefill] at h
      simpa using ih h
    | cons y ys =>
      simp only [bufRefill, Option.some.injEq, Prod.mk.injEq] at h
      obtain ⟨rfl, rfl⟩ := h
      refine ⟨by simp only [List.length_take]; omega, by simp [RState.rest, ← List.append_assoc], ?_⟩
      intro hk; cases k with
      | zero => omega
      | succ k => simp

/-- NoiseConn.Read / connKit.Read: at most the buffer size, nothing lost, and
    with a non-empty buffer never an empty result (no spurious EOF on an empty
    record). -/
theorem bufRead_spec (k : Nat) (st st' : RState) (b : Bytes) (h : bufRead k st = some (b, st')) :
    b.length ≤ k ∧ b ++ st'.rest = st.rest ∧ (1 ≤ k → b ≠ []) := by
  unfold bufRead at h
  cases hp : st.pending with
  | cons x xs =>
    simp only [hp, Option.some.injEq, Prod.mk.injEq] at h
    obtain ⟨rfl, rfl⟩ := h
    refine ⟨by simp only [List.length_take]; omega, by simp [RState.rest, hp, ← List.append_assoc], ?_⟩
    intro hk; cases k with
    | zero => omega
    | succ k => simp
  | nil =>
    simp only [hp] at h
    have := bufRefill_spec k st.incoming st' b h
    simpa [RState.rest, hp] using this

def AllLe : List Bytes → List Nat → Prop
  | [], _ => True
  | b :: bs, k :: ks => b.length ≤ k ∧ AllLe bs ks
  | _ :: _, [] => False

/-- **any sequence of read-buffer sizes**: the concatenation of everything read,
    followed by what is still owed, is exactly what was owed — no byte lost,
    duplicated or reordered; and every Read respects its buffer. -/
theorem readAll_spec (rd : Nat → RState → Option (Bytes × RState))
    (hrd : ∀ k st b st', rd k st = some (b, st') → b.length ≤ k ∧ b ++ st'.rest = st.rest)
    (ks : List Nat) (st : RState) :
    (readAll rd ks st).1.flatten ++ (readAll rd ks st).2.rest = st.rest ∧
    AllLe (readAll rd ks st).1 ks := by
  induction ks generalizing st with
  | nil => simp [readAll, AllLe]
  | cons k ks ih =>
    unfold readAll
    cases h : rd k st with
    | none => simp [AllLe]
    | some r =>
      obtain ⟨b, st'⟩ := r
      obtain ⟨h1, h2⟩ := hrd k st b st' h
      obtain ⟨i1, i2⟩ := ih st'
      simp only [List.flatten_cons, List.append_assoc]
      exact ⟨by rw [i1]; exact h2, h1, i2⟩

theorem grpc_stream (cap : Nat) (ks : List Nat) (st : RState) :
    (readAll (grpcRead cap) ks st).1.flatten ++ (readAll (grpcRead cap) ks st).2.rest = st.rest :=
  (readAll_spec (grpcRead cap) (fun k st b st' h => ⟨(grpcRead_spec cap k st st' b h).1, (grpcRead_spec cap k st st' b h).2.2⟩) ks st).1

theorem buf_stream (ks : List Nat) (st : RState) :
    (readAll bufRead ks st).1.flatten ++ (readAll bufRead ks st).2.rest = st.rest :=
  (readAll_spec bufRead (fun k st b st' h => ⟨(bufRead_spec k st st' b h).1, (bufRead_spec k st st' b h).2.1⟩) ks st).1

/-! writers -/

theorem tcpChunks_spec (fuel : Nat) (b : Bytes) (hf : b.length < fuel) :
    (tcpChunks fuel b).flatten = b ∧ ∀ r ∈ tcpChunks fuel b, r.length ≤ maxRecord ∧ r ≠ [] := by
  induction fuel generalizing b with
  | zero => omega
  | succ fuel ih =>
    unfold tcpChunks
    split
    · next hle =>
      cases b with
      | nil => simp
      | cons x xs => simp at hle ⊢; exact hle
    · next hgt =>
      have hd : (b.drop maxRecord).length < fuel := by
        simp only [List.length_drop, maxRecord] at *; omega
      obtain ⟨h1, h2⟩ := ih (b.drop maxRecord) hd
      constructor
      · simp [h1]
      · intro r hr
        rcases List.mem_cons.mp hr with rfl | hr
        · constructor
          · simp only [List.length_take]; omega
          · intro he
            have := congrArg List.length he
            simp only [List.length_take, List.length_nil, maxRecord] at this hgt
            omega
        · exact h2 r hr

/-- **NoiseConn.Write: a write larger than one record is chunked transparently** -/
theorem tcp_write_chunks (b : Bytes) :
    (tcpWrite b).1.flatten = b ∧ (tcpWrite b).2 = b.length ∧ ∀ r ∈ (tcpWrite b).1, r.length ≤ maxRecord := by
  unfold tcpWrite
  split
  · next h => simp; exact h
  · next h =>
    obtain ⟨h1, h2⟩ := tcpChunks_spec (b.length + 1) b (by omega)
    exact ⟨h1, rfl, fun r hr => (h2 r hr).1⟩

/-- **NoiseGrpcConn.Write: larger than one record is rejected, never truncated** -/
theorem grpc_write_rejects (b : Bytes) :
    (b.length ≤ maxRecord → grpcWrite b = .ok ([b], b.length)) ∧
    (b.length > maxRecord → grpcWrite b = .err "ErrMaxMessageLengthExceeded") := by
  unfold grpcWrite
  constructor <;> intro h
  · have : ¬ b.length > maxRecord := by omega
    simp [this]
  · simp [h]

/-- **C15 end to end (TCP variant / connKit)**: for any sequence of writes and any
    sequence of read-buffer sizes the bytes read are a prefix of the bytes
    written, and equal once the reader has drained everything. -/
theorem C15_tcp (writes : List Bytes) (ks : List Nat) :
    let records := writes.flatMap fun w => (tcpWrite w).1
    let res := readAll bufRead ks ⟨[], records⟩
    res.1.flatten <+: writes.flatten ∧ (res.2.rest = [] → res.1.flatten = writes.flatten) := by
  intro records res
  have hrec : records.flatten = writes.flatten := by
    show (writes.flatMap fun w => (tcpWrite w).1).flatten = writes.flatten
    induction writes with
    | nil => rfl
    | cons w ws ih => simp only [List.flatMap_cons, List.flatten_append, List.flatten_cons, ih, (tcp_write_chunks w).1]
  have h := buf_stream ks ⟨[], records⟩
  simp only [RState.rest, List.nil_append] at h
  rw [hrec] at h
  constructor
  · exact ⟨_, h⟩
  · intro hr
    show (readAll bufRead ks ⟨[], records⟩).1.flatten = writes.flatten
    have hr' : (readAll bufRead ks ⟨[], records⟩).2.rest = [] := hr
    simp only [RState.rest] at hr' h
    rw [← h, hr', List.append_nil]

/-- **C15 end to end (gRPC variant)**: every accepted write is one record; bytes
    read are a prefix of bytes written, equal when drained. -/
theorem C15_grpc (cap : Nat) (writes : List Bytes) (ks : List Nat) :
    let res := readAll (grpcRead cap) ks ⟨[], writes⟩
    res.1.flatten <+: writes.flatten ∧ (res.2.rest = [] → res.1.flatten = writes.flatten) := by
  intro res
  have h := grpc_stream cap ks ⟨[], writes⟩
  simp only [RState.rest, List.nil_append] at h
  constructor
  · exact ⟨_, h⟩
  · intro hr
    show (readAll (grpcRead cap) ks ⟨[], writes⟩).1.flatten = writes.flatten
    have hr' : (readAll (grpcRead cap) ks ⟨[], writes⟩).2.rest = [] := hr
    simp only [RState.rest] at hr'
    rw [← h, hr', List.append_nil]

/-! non-vacuity: a 10-byte record read through a 4-byte buffer; an empty record in mid-stream -/
example : (readAll (grpcRead 32768) [4, 4, 4, 4] ⟨[], [[1, 2, 3, 4, 5, 6, 7, 8, 9, 10], [11]]⟩).1
    = [[1, 2, 3, 4], [5, 6, 7, 8], [9, 10], [11]] := by decide
example : (readAll bufRead [3, 3, 3] ⟨[], [[1, 2], [], [3, 4, 5, 6]]⟩).1 = [[1, 2], [3, 4, 5], [6]] := by decide

end Lnc.Props.C15
