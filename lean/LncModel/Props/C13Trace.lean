import LncModel.KaTrace
import LncModel.Props.C13
/-
  C13 — what acceptance by the keepalive trace validator means.  The validator
  (KaTrace.lean) is what ties `KA.step` to the running connections: every
  observed ping / close / packet arrival of a real endpoint must be explained
  by the model.  The theorems below say that "explained" is what it should be:
  the states the validator carries are reached by `KA.step` only, so an accepted
  trace is a run of the model the C13 theorems are about; a keepalive close is
  accepted only when the pong deadline has passed, a ping only when it is due.
-/
namespace Lnc.Props.C13
open Lnc.Gbn.Control

theorem mem_dedup {a : KA} {l : List KA} (h : a ∈ dedup l) : a ∈ l := by
  induction l with
  | nil => simp [dedup] at h
  | cons x xs ih =>
    simp only [dedup] at h
    split at h
    · exact List.mem_cons_of_mem _ (ih h)
    · rcases List.mem_cons.mp h with rfl | h'
      · exact List.mem_cons_self
      · exact List.mem_cons_of_mem _ (ih h')

/-- every successor the validator admits is the model's own step on an event
    with the observation's time stamp (or the unchanged state, at the end) -/
theorem obs_is_step (strict : Bool) (k k' : KA) (o : Obs) (h : k' ∈ k.obs strict o) :
    k' = k ∨ (∃ e : Ev, e.time = o.time ∧ k' = k.step e) ∨
      (o = .ping o.time ∧ k.pongDue = some o.time ∧ k' = { k with pingDue := o.time + k.P }) := by
  cases o with
  | pkt t =>
    simp only [KA.obs] at h
    split at h
    · simp at h
    · simp only [List.mem_singleton] at h
      exact Or.inr (Or.inl ⟨.pkt t, rfl, h⟩)
  | ping t =>
    simp only [KA.obs] at h
    split at h
    · simp at h
    · split at h
      · split at h
        · rename_i hp
          simp only [List.mem_singleton] at h
          exact Or.inr (Or.inr ⟨rfl, hp, h⟩)
        · split at h
          · simp at h
          · simp only [List.mem_singleton] at h
            exact Or.inr (Or.inl ⟨.service t, rfl, h⟩)
      · simp at h
  | close t =>
    simp only [KA.obs] at h
    split at h
    · simp at h
    · split at h
      · split at h
        · simp only [List.mem_singleton] at h
          exact Or.inr (Or.inl ⟨.service t, rfl, h⟩)
        · simp at h
      · simp at h
  | stop t =>
    simp only [KA.obs] at h
    split at h
    · simp at h
    · simp only [List.mem_singleton] at h
      exact Or.inl h

/-- runs of the keepalive model as the validator sees them: steps of `KA.step`,
    plus the one thing two timers expiring at the same instant add — a ping that
    goes out at the very instant `t` the pong deadline expires, before the loop
    has seen that tick (the deadline stays armed, so the next service closes) -/
inductive Explained : KA → KA → Prop
  | refl (k : KA) : Explained k k
  | step (k : KA) (e : Ev) (k' : KA) : Explained (k.step e) k' → Explained k k'
  | tie (k : KA) (t : Nat) (k' : KA) : k.pongDue = some t →
      Explained { k with pingDue := t + k.P } k' → Explained k k'

/-- **an accepted sequence of observations is a run of the keepalive model**:
    every state the validator still carries after the observations `os` is
    reached from one of the states it started with by `KA.step` (and ties) -/
theorem runSeq_is_run (strict : Bool) (os : List Obs) (ks : List KA) (k' : KA)
    (h : k' ∈ runSeq strict ks os) : ∃ k ∈ ks, Explained k k' := by
  induction os generalizing ks with
  | nil => exact ⟨k', h, .refl _⟩
  | cons o os ih =>
    simp only [runSeq, List.foldl_cons] at h
    obtain ⟨k1, hk1, he⟩ := ih _ h
    have hk1' := mem_dedup hk1
    obtain ⟨k, hk, hko⟩ := List.mem_flatMap.mp hk1'
    refine ⟨k, hk, ?_⟩
    rcases obs_is_step strict k k1 o hko with rfl | ⟨e, _, rfl⟩ | ⟨_, hp, rfl⟩
    · exact he
    · exact .step _ e _ he
    · exact .tie _ _ _ hp he

theorem runGroup_is_run (strict : Bool) (g : List Obs) (ks : List KA) (k' : KA)
    (h : k' ∈ runGroup strict ks g) : ∃ k ∈ ks, Explained k k' := by
  obtain ⟨p, _, hp⟩ := List.mem_flatMap.mp (mem_dedup h)
  exact runSeq_is_run strict p ks k' hp

/-- ties do not close and do not disarm: whatever explains a trace, the model
    closes only through `KA.step`, i.e. (C13.lean) only at a service instant at
    or after an armed pong deadline -/
theorem explained_closed (k k' : KA) (h : Explained k k') (hk : k.closed = true) : k'.closed = true := by
  induction h with
  | refl k => exact hk
  | step k e k' _ ih => apply ih; cases e <;> simp [KA.step, hk]
  | tie k t k' _ _ ih => exact ih hk

/-- a keepalive close is admitted only when a pong deadline is armed and has
    passed, and it closes the model too -/
theorem close_needs_expired_pong (strict : Bool) (k k' : KA) (t : Nat) (h : k' ∈ k.obs strict (.close t)) :
    ∃ d, k.pongDue = some d ∧ d ≤ t ∧ k.closed = false ∧ k'.closed = true := by
  simp only [KA.obs] at h
  split at h
  · simp at h
  · rename_i hc
    cases hp : k.pongDue with
    | none => simp [hp] at h
    | some d =>
      simp only [hp] at h
      split at h
      · rename_i hd
        simp only [List.mem_singleton] at h
        refine ⟨d, rfl, hd.1, by simpa using hc, ?_⟩
        subst h
        have hc' : k.closed = false := by simpa using hc
        simp [KA.step, hc', hp, hd.1]
      · simp at h

/-- a ping is admitted only when it is due, no pong deadline has passed, and it
    leaves the model open with a pong deadline armed -/
theorem ping_needs_due (strict : Bool) (k k' : KA) (t : Nat) (h : k' ∈ k.obs strict (.ping t)) :
    k.pingDue ≤ t ∧ k.closed = false ∧ k'.closed = false ∧ k'.pongDue.isSome = true := by
  simp only [KA.obs] at h
  split at h
  · simp at h
  · rename_i hc
    have hc' : k.closed = false := by simpa using hc
    split at h
    · rename_i hd
      split at h
      · rename_i hp
        simp only [List.mem_singleton] at h
        subst h
        exact ⟨hd.1, hc', hc', by simp [hp]⟩
      split at h
      · simp at h
      · rename_i hcl
        simp only [List.mem_singleton] at h
        subst h
        refine ⟨hd.1, hc', by simpa using hcl, ?_⟩
        cases hp : k.pongDue with
        | none => simp [KA.step, hc', hp, hd.1]
        | some d =>
          by_cases hdt : d ≤ t
          · exfalso; apply hcl; simp [KA.step, hc', hp, hdt]
          · simp [KA.step, hc', hp, hdt, hd.1]
    · simp at h

/-- strict mode: a ping is admitted only at the very instant it is due -/
theorem strict_ping_on_time (k k' : KA) (t : Nat) (h : k' ∈ k.obs true (.ping t)) : k.pingDue = t := by
  simp only [KA.obs] at h
  split at h
  · simp at h
  · split at h
    · rename_i hd; simpa using hd.2
    · simp at h

/-! non-vacuity: ping 5 s / pong 3 s.  An idle healthy endpoint (pings on time,
    answers 10 ms later, one answer arriving at the very instant the next ping
    is due) is accepted strictly; a premature close, an early ping and a missing
    ping are not. -/
def k0 : KA := ⟨5000, 3000, 5000, none, false⟩
example : validate true k0 [.ping 5000, .pkt 5010, .ping 10010, .pkt 10020, .stop 12000] = none := by decide
example : validate true k0 [.ping 5000, .pkt 5010, .pkt 10010, .ping 10010, .pkt 10020, .stop 12000] = none := by decide
example : (validate false k0 [.ping 5000, .close 7999]).isSome = true := by decide
example : validate false k0 [.ping 5000, .close 8000] = none := by decide
example : (validate false k0 [.ping 4000]).isSome = true := by decide
example : (validate true k0 [.ping 5000, .pkt 5010, .stop 12000]).isSome = true := by decide
example : validate false k0 [.ping 5000, .pkt 5010, .stop 12000] = none := by decide

end Lnc.Props.C13
