import LncModel.Handshake
import LncModel.Props.C10
/-
  C10, convergence: once the channel behaves, one clean exchange SYN / SYN /
  SYNACK completes the handshake from every state the two automata can be in
  while they are still trying — whatever losses, timeouts and restarts came
  before.
-/
namespace Lnc.Props.C10
open Lnc Lnc.Gbn Lnc.Gbn.Hs

theorem deser_syn (g : Nat) (x : UInt8) : deserializeG g (serialize (.syn x)) = .ok (.syn x) := by
  simp [deserializeG, serialize, tSYN, tDATA, tACK, tNACK, idx, Outcome.bind]

theorem deser_synack (g : Nat) : deserializeG g (serialize .synack) = .ok .synack := by
  simp [deserializeG, serialize, tSYNACK, tSYN, tDATA, tACK, tNACK, tFIN]

theorem toNat_ofNat_of_valid (N : Nat) (h : validN N = true) : (UInt8.ofNat N).toNat = N := by
  simp only [validN, decide_eq_true_eq] at h
  rw [UInt8.toNat_ofNat']
  omega

/-- **server side**: from "waiting for a SYN" or "waiting for the SYNACK", in
    any restart state and with any window left over from earlier attempts, the
    client's SYN followed by its SYNACK puts the server in the data phase with
    the client's window -/
theorem server_converges (g N : Nat) (hN : validN N = true) (resent : Bool) (n0 : Nat) :
    srvRun g (.s0 resent n0) [.recv (serialize (.syn (UInt8.ofNat N))), .recv (serialize .synack)] = .done N ∧
    srvRun g (.s1 resent n0) [.recv (serialize (.syn (UInt8.ofNat N))), .recv (serialize .synack)] = .done N := by
  have h1 := toNat_ofNat_of_valid N hN
  constructor <;>
    simp [srvRun, srvStep, deser_syn, deser_synack, srvOnSyn, h1, hN]

/-- **client side**: while it is waiting (after any number of timeouts and
    re-sent SYNs) the server's echo of its window completes it -/
theorem client_converges (g N : Nat) (hN : validN N = true) (k : Nat) :
    cliRun g (.waiting N) (List.replicate k .timeout ++ [.recv (serialize (.syn (UInt8.ofNat N)))]) = .done N := by
  have h1 := toNat_ofNat_of_valid N hN
  induction k with
  | zero => simp [cliRun, cliStep, deser_syn, h1]
  | succ k ih =>
    rw [List.replicate_succ, List.cons_append]
    simpa [cliRun, cliStep] using ih

/-- and a timed-out server that sees a DATA packet or a SYNACK of the client (which
    completed on an earlier echo) completes too, with the window it echoed -/
theorem restarted_server_completes (g n : Nat) :
    srvRun g (.s1 false n) [.timeout, .recv (serialize .synack)] = .done n := by
  simp [srvRun, srvStep, deser_synack]

example : validN 20 = true := by decide

end Lnc.Props.C10
