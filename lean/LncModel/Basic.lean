/-
  Basic vocabulary shared by all models.  Core Lean only (no Mathlib) so that the
  driver links as a native executable.
-/
namespace Lnc

abbrev Bytes := List UInt8

/-- Result of a Go function that may return an error or panic.  Nothing is
    totalised silently: every Go indexing / slicing / division that can panic is
    modelled by `panic`, and "never panics" is a theorem about the model. -/
inductive Outcome (α : Type) where
  | ok    : α → Outcome α
  | err   : String → Outcome α
  | panic : String → Outcome α
deriving Repr, DecidableEq

namespace Outcome
def isPanic {α} : Outcome α → Bool
  | .panic _ => true
  | _ => false
def isOk {α} : Outcome α → Bool
  | .ok _ => true
  | _ => false
def map {α β} (f : α → β) : Outcome α → Outcome β
  | .ok a => .ok (f a)
  | .err e => .err e
  | .panic p => .panic p
def bind {α β} (o : Outcome α) (f : α → Outcome β) : Outcome β :=
  match o with
  | .ok a => f a
  | .err e => .err e
  | .panic p => .panic p
end Outcome

/-! ### hex helpers (driver only; no theorem depends on them) -/

def hexDigit (n : Nat) : Char :=
  if n < 10 then Char.ofNat (48 + n) else Char.ofNat (87 + n)

def hexOfBytes (b : Bytes) : String :=
  String.ofList (b.foldr (fun x acc => hexDigit (x.toNat / 16) :: hexDigit (x.toNat % 16) :: acc) [])

def hexVal (c : Char) : Option Nat :=
  if '0' ≤ c ∧ c ≤ '9' then some (c.toNat - 48)
  else if 'a' ≤ c ∧ c ≤ 'f' then some (c.toNat - 87)
  else if 'A' ≤ c ∧ c ≤ 'F' then some (c.toNat - 55)
  else none

def bytesOfHexAux : List Char → Option Bytes
  | [] => some []
  | [_] => none
  | a :: b :: rest =>
    match hexVal a, hexVal b, bytesOfHexAux rest with
    | some x, some y, some r => some (UInt8.ofNat (x * 16 + y) :: r)
    | _, _, _ => none

/-- "-" denotes the empty byte string (so that fields are never empty tokens). -/
def bytesOfHex (s : String) : Option Bytes :=
  if s = "-" then some [] else bytesOfHexAux s.toList

def hexOrDash (b : Bytes) : String :=
  if b.isEmpty then "-" else hexOfBytes b

end Lnc
