import LncModel.Shutdown
/-
  GoBackNConn.Close as a small concurrent system, over the same regenerated
  facts as Shutdown.lean.

    closer      executes the calls of Close in program order (`pc`); a call
                that raises a signal raises it; `g.wg.Wait` can be passed only
                when every loop goroutine has returned; everything else is a
                non-blocking step (the wait for the FIN attempt is bounded by
                its own timer: obligation `fin_wait_bounded`)
    goroutines  each is at one of the blocking points of the table or has
                returned.  A goroutine can move when its point is released
                (one of its wake signals has been raised, or the point has a
                timer).  If `quit` has been raised it then returns — both loops
                test `quit` on every iteration — otherwise it goes on to block
                at ANY point of the table (an over-approximation: the real
                loops have fewer successors and may also return).

  The scheduler is arbitrary: a run is any list of moves.
-/
namespace Lnc.Gbn.Shutdown

def signalOf (call : String) : Option Signal :=
  if call = "close" then some .quit
  else if call = "g.cancel" then some .ctxCancel
  else if call = "g.sendQueue.stop" then some .queueQuit
  else none

/-- the signals raised by a sequence of calls -/
def raisedOf (calls : List String) : List Signal := calls.filterMap signalOf

structure CSt where
  pc : Nat
  gs : List (Option BlockPoint)     -- `none`: the goroutine has returned
deriving Repr, DecidableEq

inductive Move
  | closer
  | wake (i : Nat) (next : BlockPoint)
deriving Repr, DecidableEq

def CSt.raised (f : Facts) (σ : CSt) : List Signal := raisedOf (f.order.take σ.pc)

def CSt.allDone (σ : CSt) : Bool := σ.gs.all (· == none)

def CSt.live (σ : CSt) : Nat := (σ.gs.filter (· != none)).length

def CSt.final (f : Facts) (σ : CSt) : Bool := σ.pc == f.order.length

def cstep (f : Facts) (σ : CSt) : Move → Option CSt
  | .closer =>
    match f.order[σ.pc]? with
    | none => none
    | some c =>
      if c = "g.wg.Wait" then (if σ.allDone then some { σ with pc := σ.pc + 1 } else none)
      else some { σ with pc := σ.pc + 1 }
  | .wake i next =>
    match σ.gs[i]? with
    | some (some p) =>
      if released (σ.raised f) p then
        if (σ.raised f).contains .quit then some { σ with gs := σ.gs.set i none }
        else if f.blocking.contains next then some { σ with gs := σ.gs.set i (some next) }
        else none
      else none
    | _ => none

def crun (f : Facts) (σ : CSt) : List Move → Option CSt
  | [] => some σ
  | m :: ms => match cstep f σ m with
    | some σ' => crun f σ' ms
    | none => none

/-- index of the wait in Close -/
def waitIdx (f : Facts) : Nat := f.order.idxOf "g.wg.Wait"

/-- what the wake-up argument needs of the table: Close does wait, it closes
    `quit` before it waits, and every blocking point is released by what has
    been raised by then -/
def Ready (f : Facts) : Bool :=
  f.order.contains "g.wg.Wait" &&
  (raisedOf (f.order.take (waitIdx f))).contains .quit &&
  f.blocking.all (released (raisedOf (f.order.take (waitIdx f))))

end Lnc.Gbn.Shutdown
