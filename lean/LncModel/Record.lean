import LncModel.Cipher
/-
  The encrypted record stream under an adversary who controls the bytes
  (mailbox/noise.go ReadHeader / ReadBody / ReadMessage, with the sticky
  authentication error).

  A wire byte is symbolic: `hon dir use off` is byte `off` of the honest sealed
  unit produced by the `use`-th cipher use of direction `dir` (unit 2j is the
  header of record j, unit 2j+1 its body); `junk` is any other byte (flipped,
  injected, truncated garbage, handshake bytes).  The adversary's output is an
  arbitrary list of such bytes — that subsumes flip, truncate, drop, duplicate,
  reorder, replay, reflect and inject — with `pause` marks anywhere in it: the
  relay controls timing too, and a reader with a read deadline sees a timeout
  at that point of the stream and may ask again.

  AEAD idealisation: a run of `n` bytes opens under (dir, use) iff it is
  exactly bytes 0..n-1 of the honest unit (dir, use) and `n` is that unit's
  length.
-/
namespace Lnc.Mailbox.Record

inductive SByte
  | hon (dir use off : Nat)
  | junk
  | pause   -- no byte: here the transport reports a timeout once (a read deadline expires while the
            -- relay holds the rest of the stream back); the next read goes on behind it
deriving Repr, DecidableEq

def macSize : Nat := 16
def hdrLen : Nat := 18

/-- length of honest unit `use` given the plaintext lengths of the records -/
def unitLen (recs : List Bytes) (use : Nat) : Option Nat :=
  match recs[use / 2]? with
  | none => none
  | some p => if use % 2 = 0 then some hdrLen else some (p.length + macSize)

/-- the honest bytes of a unit -/
def unitBytes (dir use len : Nat) : List SByte := (List.range len).map fun i => .hon dir use i

/-- does this run of bytes open under (dir, use)? -/
def opens (recs : List Bytes) (dir use : Nat) (run : List SByte) : Bool :=
  match unitLen recs use with
  | none => false
  | some len => decide (run = unitBytes dir use len)

structure Reader where
  dir : Nat          -- the direction this reader receives
  use : Nat          -- receive cipher uses so far (= nonce schedule position, C08.kth_use)
  failed : Bool      -- sticky authentication error
deriving Repr, DecidableEq

inductive Res
  | ok (record : Nat)     -- returned the plaintext of honest record number `record`
  | err                   -- authentication failure or short read
deriving Repr, DecidableEq

/-- io.ReadFull of `n` bytes meets a timeout after `i < n` bytes: the index of the first pause mark
    among the first `n` elements of the wire -/
def pauseAt (n : Nat) (wire : List SByte) : Option Nat :=
  (wire.take n).findIdx? (fun b => b == .pause)

/-- one ReadMessage call on the remaining wire; `recs` are the plaintexts the
    authentic peer wrote in this direction.  Returns result, reader', wire'.
    A read that fails after part of a record was consumed latches the reader
    (noise.go after repair 98daed6): a timeout before the first byte of a
    header leaves it as it was. -/
def readMessage (recs : List Bytes) (r : Reader) (wire : List SByte) : Res × Reader × List SByte :=
  if r.failed then (.err, r, wire)
  else match pauseAt hdrLen wire with
  | some i => (.err, { r with failed := decide (0 < i) }, wire.drop (i + 1))   -- timeout inside / before the header
  | none =>
  if wire.length < hdrLen then (.err, { r with failed := decide (0 < wire.length) }, [])   -- io.ReadFull: unexpected EOF
  else if !opens recs r.dir r.use (wire.take hdrLen) then
    (.err, { r with use := r.use + 1, failed := true }, wire.drop hdrLen)
  else
    -- an authentic header of record j = use/2 carries that record's length
    match recs[r.use / 2]? with
    | none => (.err, { r with use := r.use + 1, failed := true }, wire.drop hdrLen)
    | some p =>
      match pauseAt (p.length + macSize) (wire.drop hdrLen) with
      | some i => (.err, { r with use := r.use + 1, failed := true }, (wire.drop hdrLen).drop (i + 1))   -- timeout before / inside the body
      | none =>
      if (wire.drop hdrLen).length < p.length + macSize then (.err, { r with use := r.use + 1, failed := true }, [])
      else if opens recs r.dir (r.use + 1) ((wire.drop hdrLen).take (p.length + macSize)) then
        (.ok (r.use / 2), { r with use := r.use + 2 }, (wire.drop hdrLen).drop (p.length + macSize))
      else
        (.err, { r with use := r.use + 2, failed := true }, (wire.drop hdrLen).drop (p.length + macSize))

/-- keep calling ReadMessage (the code permits calls after an error) -/
def readLoop (recs : List Bytes) : Nat → Reader → List SByte → List Res
  | 0, _, _ => []
  | fuel + 1, r, wire =>
    if wire.isEmpty then []
    else
      let (res, r', w') := readMessage recs r wire
      res :: readLoop recs fuel r' w'

/-- the record numbers returned as valid -/
def oks : List Res → List Nat
  | [] => []
  | .ok j :: rest => j :: oks rest
  | .err :: rest => oks rest

end Lnc.Mailbox.Record
