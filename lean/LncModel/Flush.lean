import LncModel.Basic
/-
  Machine.WriteMessage / Machine.Flush (mailbox/noise.go) and the read side's
  dependence on transport fragmentation.

  Flush: `Pending` = the unwritten tails of the encrypted header and body.  The
  io.Writer is modelled by the number of bytes it accepts on each call
  (`budget`); it reports an error exactly when it accepted fewer bytes than
  offered (the io.Writer contract for short writes; a timeout error).
-/
namespace Lnc.Mailbox.Flush

def macSize : Nat := 16
def encHeaderSize : Nat := 18

structure Pending where
  hdr : Bytes
  body : Bytes
deriving Repr, DecidableEq

/-- WriteMessage with already-computed ciphertexts (header 18 bytes, body
    |p|+16 bytes): refused while a prior message is not fully flushed. -/
def writeMessage (p : Pending) (plainLen : Nat) (encHdr encBody : Bytes) : Outcome Pending :=
  if plainLen > 65535 then .err "ErrMaxMessageLengthExceeded"
  else if p.hdr.length > 0 ∨ p.body.length > 0 then .err "ErrMessageNotFlushed"
  else .ok { hdr := encHdr, body := encBody }

structure FlushRes where
  p : Pending        -- what is still pending afterwards
  out : Bytes        -- bytes handed to the writer by this call
  nn : Nat           -- the count Flush returns
  err : Bool         -- whether Flush returns an error
deriving Repr, DecidableEq

/-- the count reported for a body write that leaves `end_` of `start` bytes pending -/
def reported (start end_ : Nat) : Nat :=
  let n := start - end_
  if start > macSize ∧ end_ ≤ macSize then n - (macSize - end_)
  else if start > macSize ∧ end_ > macSize then n else 0

/-- one Flush call; `b1`, `b2` = bytes the writer accepts on the header / body write. -/
def flushOnce (p : Pending) (b1 b2 : Nat) : FlushRes :=
  if min b1 p.hdr.length < p.hdr.length then
    { p := { p with hdr := p.hdr.drop (min b1 p.hdr.length) }, out := p.hdr.take (min b1 p.hdr.length),
      nn := 0, err := true }
  else
    { p := { hdr := [], body := p.body.drop (min b2 p.body.length) },
      out := p.hdr ++ p.body.take (min b2 p.body.length),
      nn := reported p.body.length (p.body.length - min b2 p.body.length),
      err := decide (min b2 p.body.length < p.body.length) }

structure SeqRes where
  p : Pending
  out : Bytes
  nn : Nat
deriving Repr, DecidableEq

/-- a series of Flush calls against a writer with the given acceptances -/
def flushSeq (p : Pending) : List (Nat × Nat) → SeqRes
  | [] => { p := p, out := [], nn := 0 }
  | (b1, b2) :: rest =>
    let r := flushOnce p b1 b2
    let r2 := flushSeq r.p rest
    { p := r2.p, out := r.out ++ r2.out, nn := r.nn + r2.nn }

/-- plaintext bytes still to be reported -/
def Pending.plain (p : Pending) : Nat := p.body.length - macSize

/-! ### readers over a fragmenting source -/

/-- io.ReadFull(r, buf[:k]): loops over fragments until k bytes are gathered -/
def readFull : Nat → List Bytes → Option (Bytes × List Bytes)
  | 0, frs => some ([], frs)
  | _ + 1, [] => none                               -- EOF / ErrUnexpectedEOF
  | k + 1, f :: frs =>
    if k + 1 ≤ f.length then some (f.take (k + 1), f.drop (k + 1) :: frs)
    else match readFull (k + 1 - f.length) frs with
      | some (b, r) => some (f ++ b, r)
      | none => none

/-- a single r.Read(buf[:k]): whatever the first fragment holds, at most k -/
def readOnce (k : Nat) : List Bytes → Option (Bytes × List Bytes)
  | [] => none
  | f :: frs => some (f.take k, (f.drop k) :: frs)

inductive Mode | full | bare
deriving Repr, DecidableEq

/-- read a sequence of fixed-size fields, each with its read mode; a bare read
    that comes back short leaves the rest of the field zero (Go: the buffer was
    allocated zeroed and the error is nil) -/
def readFields : List (Nat × Mode) → List Bytes → Option (List Bytes)
  | [], _ => some []
  | (k, .full) :: rest, frs =>
    match readFull k frs with
    | some (b, r) => (readFields rest r).map (b :: ·)
    | none => none
  | (k, .bare) :: rest, frs =>
    match readOnce k frs with
    | some (b, r) => (readFields rest r).map ((b ++ List.replicate (k - b.length) 0) :: ·)
    | none => none

end Lnc.Mailbox.Flush
