/-
  Concurrency discipline of IntervalAwareForceTicker.ResetWithInterval / Stop
  (gbn/ticker.go) and the lock-acquisition order of the package.

  Reset protocol, per call:  [Lock] ; ticker.Stop ; close(quit) ; wg.Wait ;
  ticker := new ; quit := make ; start ; [Unlock].  Any number of threads may
  call it.  `close(quit)` on an already closed channel panics.  The model counts
  the threads between the entry and `close(quit)` (`before`) and between
  `close(quit)` and the re-creation of `quit` (`after`).
-/
namespace Lnc.Gbn.Ticker

structure St where
  guarded : Bool      -- the body runs under a mutex (extracted fact)
  lock : Bool         -- mutex held
  quitOpen : Bool
  before : Nat
  after : Nat
  panicked : Bool
deriving Repr, DecidableEq

inductive Step
  | enter       -- a thread starts a Reset (takes the mutex when guarded)
  | closeQuit   -- close(t.quit)
  | reopen      -- t.quit = make(chan struct{}) … start() ; releases the mutex when guarded
deriving Repr, DecidableEq

def St.step (s : St) : Step → Option St
  | .enter =>
    if s.guarded then (if s.lock then none else some { s with lock := true, before := s.before + 1 })
    else some { s with before := s.before + 1 }
  | .closeQuit =>
    if s.before = 0 then none
    else if s.quitOpen then some { s with quitOpen := false, before := s.before - 1, after := s.after + 1 }
    else some { s with panicked := true }
  | .reopen =>
    if s.after = 0 then none
    else some { s with quitOpen := true, after := s.after - 1, lock := if s.guarded then false else s.lock }

def St.run (s : St) : List Step → Option St
  | [] => some s
  | x :: xs => match s.step x with
    | some s' => s'.run xs
    | none => none

def St.init (guarded : Bool) : St := ⟨guarded, false, true, 0, 0, false⟩

/-- lock-order graph: no lock is (transitively) acquired while it is already held -/
def succs (edges : List (String × String)) (v : String) : List String :=
  (edges.filter fun e => e.1 == v).map (·.2)

def reach (edges : List (String × String)) : Nat → List String → List String
  | 0, frontier => frontier
  | fuel + 1, frontier =>
    let next := (frontier.flatMap (succs edges)).eraseDups
    if next.all frontier.contains then frontier else reach edges fuel (frontier ++ next).eraseDups

def acyclic (edges : List (String × String)) : Bool :=
  let verts := (edges.map (·.1)).eraseDups
  verts.all fun v => !(reach edges edges.length (succs edges v)).contains v

end Lnc.Gbn.Ticker
