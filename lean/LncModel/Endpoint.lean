import LncModel.GbnCodec
import LncModel.Queue
/-
  One data-phase iteration of receivePacketsForever as a total function of the
  bytes the relay delivers: Deserialize, then the type switch.  State is the
  window bookkeeping the relay must not be able to corrupt.
-/
namespace Lnc.Gbn

structure EpState where
  q : Queue
  recvSeq : Nat
deriving Repr, DecidableEq

inductive EpResult
  | continue (st : EpState) (reply : Option Msg) (deliver : Option Bytes)
  | closed (why : String)          -- connection fails with an error / FIN
deriving Repr, DecidableEq

def msgU8 (x : UInt8) : Nat := x.toNat

/-- a decode *error* closes the connection; only a decode *panic* is a panic -/
def decodeThen {α} (o : Outcome α) (f : α → Outcome EpResult) : Outcome EpResult :=
  match o with
  | .ok a => f a
  | .err e => .ok (.closed ("deserialize error: " ++ e))
  | .panic p => .panic p

/-- `g` is the DATA length guard of Deserialize in this tree. -/
def dataPhaseStep (g : Nat) (st : EpState) (b : Bytes) : Outcome EpResult :=
  decodeThen (deserializeG g b) fun m =>
    match m with
    | .data seq _ ping pl =>
      if msgU8 seq = st.recvSeq then
        (modS (add8 st.recvSeq 1) st.q.s).bind fun r =>
          .ok (.continue { st with recvSeq := r } (some (.ack seq)) (if ping then none else some pl))
      else
        .ok (.continue st (some (.nack (UInt8.ofNat st.recvSeq))) none)
    | .ack seq =>
      (st.q.processACK (msgU8 seq)).bind fun r => .ok (.continue { st with q := r.1 } none none)
    | .nack seq =>
      .ok (.continue { st with q := (st.q.processNACK (msgU8 seq)).1 } none none)
    | .fin => .ok (.closed "remote closed")
    | .syn _ => .ok (.closed "received unexpected message")
    | .synack => .ok (.closed "received unexpected message")

/-- well-formed bookkeeping: inside the sequence space -/
def EpState.WF (st : EpState) : Prop :=
  0 < st.q.s ∧ st.q.s ≤ 255 ∧ st.q.base < st.q.s ∧ st.q.top < st.q.s ∧ st.recvSeq < st.q.s

/-- setN as adopted by the server after the handshake (post-validation) -/
def adoptN (n : Nat) : Outcome EpState :=
  if n = 0 ∨ n ≥ 255 then .err "invalid window size"
  else .ok { q := { s := mkS n, base := 0, top := 0 }, recvSeq := 0 }

end Lnc.Gbn
