import LncModel.Basic
/-
  Symbolic model of the Brontide/Noise handshake of mailbox/noise.go: an
  interpreter over token patterns with the same structure as writeTokens /
  readTokens / writeMsgPattern / readMsgPattern / DoHandshake, version
  negotiation included, and a field-level man in the middle.

  Cryptography is idealised: private keys are identified by numbers; a point is
  `pub k`, a SPAKE2-masked point, the result of unmasking with another
  password, or an attacker-chosen point; DH outputs, HKDF chains and SHA-256
  digests are free (injective) constructions; an AEAD ciphertext opens only
  under exactly the key, nonce and associated data it was sealed with.  A
  ciphertext is named inside a digest by its creation id (unique per run).
-/
namespace Lnc.Mailbox.Noise

inductive Pt
  | pub (k : Nat)
  | masked (k pw : Nat)            -- pub k + pw·N
  | unmasked (k pw pw' : Nat)      -- (pub k + pw·N) − pw'·N with pw ≠ pw'
  | unmaskedOther (n pw' : Nat)    -- attacker point n − pw'·N
  | other (n : Nat)                -- attacker-chosen valid point
deriving Repr, DecidableEq

def ekeMask (p : Pt) (pw : Nat) : Pt :=
  match p with
  | .pub k => .masked k pw
  | p => p   -- only ephemerals `pub e` are ever masked

def ekeUnmask (p : Pt) (pw' : Nat) : Pt :=
  match p with
  | .masked k pw => if pw = pw' then .pub k else .unmasked k pw pw'
  | .other n => .unmaskedOther n pw'
  | p => p

inductive Sec
  | dh (lo hi : Nat)               -- ECDH of two known key pairs (symmetric)
  | dhx (k : Nat) (p : Pt)         -- private k with a point whose discrete log nobody in the run holds
deriving Repr, DecidableEq

def ecdh (p : Pt) (k : Nat) : Sec :=
  match p with
  | .pub j => if j ≤ k then .dh j k else .dh k j
  | p => .dhx k p

/-- handshake AEAD plaintexts -/
inductive Pl
  | empty
  | static (p : Pt)
  | len (n : Nat)
  | bytes (b : Bytes)
  | fixed500 (claimed : Option Nat) (b : Bytes)   -- v0 act 2: [2-byte length ‖ payload] zero padded to 500; none = no payload
deriving Repr, DecidableEq

inductive Tok
  | proto (kk : Bool)
  | prologue
  | pt (p : Pt)
  | ct (id : Nat)
  | gct (n : Nat)
deriving Repr, DecidableEq

structure Ct where
  id : Nat
  key : List Sec
  nonce : Nat
  ad : List Tok
  pl : Pl
deriving Repr, DecidableEq

inductive WCt
  | hon (c : Ct)
  | garbage (n : Nat)
deriving Repr, DecidableEq

inductive Field
  | ver (v : Nat)
  | point (p : Option Pt)     -- none: bytes that do not parse as a public key
  | ct (c : WCt)
deriving Repr, DecidableEq

inductive Token | e | me | s | ee | es | se | ss
deriving Repr, DecidableEq

structure MsgPattern where
  tokens : List Token
  initiator : Bool
  act : Nat
deriving Repr, DecidableEq

structure Pattern where
  kk : Bool
  pre : List Bool            -- pre-messages: who contributes a static key (true = initiator)
  msgs : List MsgPattern
deriving Repr, DecidableEq

def xxPattern : Pattern :=
  { kk := false, pre := [],
    msgs := [⟨[.me], true, 1⟩, ⟨[.e, .ee, .s, .es], false, 2⟩, ⟨[.s, .se], true, 3⟩] }

def kkPattern : Pattern :=
  { kk := true, pre := [true, false],
    msgs := [⟨[.e, .es, .ss], true, 1⟩, ⟨[.e, .ee, .se], false, 2⟩] }

structure St where
  initiator : Bool
  ls : Nat                       -- local static private key
  le : Nat                       -- local ephemeral private key (what ephemeralGen will return)
  rs : Option Pt
  re : Option Pt
  pw : Nat                       -- stretched passphrase
  payload : Option Bytes         -- payloadToSend
  received : Option Bytes
  minV : Nat
  maxV : Nat
  version : Nat
  ck : List Sec
  key : List Sec
  n : Nat
  h : List Tok
  nextId : Nat                   -- creation ids: initiator even, responder odd
deriving Repr, DecidableEq

abbrev M := Except String

def mixHash (st : St) (t : Tok) : St := { st with h := st.h ++ [t] }
def mixKey (st : St) (s : Sec) : St := { st with ck := st.ck ++ [s], key := st.ck ++ [s], n := 0 }

def encryptAndHash (st : St) (pl : Pl) : St × WCt :=
  let c : Ct := { id := st.nextId, key := st.key, nonce := st.n, ad := st.h, pl := pl }
  ({ st with n := st.n + 1, h := st.h ++ [.ct c.id], nextId := st.nextId + 2 }, .hon c)

def decryptAndHash (st : St) (w : WCt) : M (St × Pl) :=
  match w with
  | .garbage _ => .error "mac"
  | .hon c =>
    if c.key = st.key ∧ c.nonce = st.n ∧ c.ad = st.h then
      .ok ({ st with n := st.n + 1, h := st.h ++ [.ct c.id] }, c.pl)
    else .error "mac"

/-- newHandshakeState (after NewBrontideMachine adjusted the version range) -/
def initSt (p : Pattern) (initiator : Bool) (ls le : Nat) (rs : Option Pt) (pw : Nat)
    (payload : Option Bytes) (minV maxV : Nat) : M St := do
  let (minV, maxV) ← (if p.kk then
      if maxV < 2 then (Except.error "KK needs max version 2" : M (Nat × Nat)) else pure (max minV 2, maxV)
    else pure (minV, maxV))
  let st0 : St := { initiator, ls, le, rs, re := none, pw, payload, received := none, minV, maxV,
                    version := if initiator then minV else maxV, ck := [], key := [], n := 0,
                    h := [.proto p.kk, .prologue], nextId := if initiator then 0 else 1 }
  p.pre.foldlM (fun st who =>
    if who = initiator then pure (mixHash st (.pt (.pub ls)))
    else match rs with
      | none => Except.error "a remote static key is expected"
      | some r => pure (mixHash st (.pt r))) st0

def need {α} (o : Option α) (e : String) : M α :=
  match o with | some a => pure a | none => .error e

def dhToken (st : St) (t : Token) : M St := do
  match t with
  | .ee => let re ← need st.re "nil remote ephemeral"; pure (mixKey st (ecdh re st.le))
  | .ss => let rs ← need st.rs "nil remote static"; pure (mixKey st (ecdh rs st.ls))
  | .es =>
    if st.initiator then do let rs ← need st.rs "nil remote static"; pure (mixKey st (ecdh rs st.le))
    else do let re ← need st.re "nil remote ephemeral"; pure (mixKey st (ecdh re st.ls))
  | .se =>
    if st.initiator then do let re ← need st.re "nil remote ephemeral"; pure (mixKey st (ecdh re st.ls))
    else do let rs ← need st.rs "nil remote static"; pure (mixKey st (ecdh rs st.le))
  | _ => .error "not a dh token"

def writeTokens : List Token → St → List Field → M (St × List Field)
  | [], st, out => pure (st, out)
  | .e :: ts, st, out => writeTokens ts (mixHash st (.pt (.pub st.le))) (out ++ [.point (some (.pub st.le))])
  | .me :: ts, st, out =>
    writeTokens ts (mixHash st (.pt (.pub st.le))) (out ++ [.point (some (ekeMask (.pub st.le) st.pw))])
  | .s :: ts, st, out =>
    let (st', c) := encryptAndHash st (.static (.pub st.ls))
    writeTokens ts st' (out ++ [.ct c])
  | t :: ts, st, out => do let st' ← dhToken st t; writeTokens ts st' out

def readTokens : List Token → St → List Field → M (St × List Field)
  | [], st, inp => pure (st, inp)
  | .e :: ts, st, inp =>
    match inp with
    | .point (some p) :: rest => readTokens ts (mixHash { st with re := some p } (.pt p)) rest
    | _ => .error "invalid public key"
  | .me :: ts, st, inp =>
    match inp with
    | .point (some p) :: rest =>
      let u := ekeUnmask p st.pw
      readTokens ts (mixHash { st with re := some u } (.pt u)) rest
    | _ => .error "invalid public key"
  | .s :: ts, st, inp =>
    match inp with
    | .ct c :: rest => do
      let (st', pl) ← decryptAndHash st c
      match pl with
      | .static p => readTokens ts { st' with rs := some p } rest
      | _ => .error "invalid static key"
    | _ => .error "short read"
  | t :: ts, st, inp => do let st' ← dhToken st t; readTokens ts st' inp

def actTwoPayloadSize : Nat := 500

/-- writeMsgPattern: version byte, tokens, payload as the version prescribes -/
def writeMsg (st : St) (mp : MsgPattern) : M (St × List Field) := do
  let (st, out) ← writeTokens mp.tokens st [.ver st.version]
  if st.version = 0 then
    let pl ← (if mp.act = 2 then
        match st.payload with
        | none => pure (Pl.fixed500 none [])
        | some b =>
          if b.length > actTwoPayloadSize - 2 then (Except.error "auth payload does not fit" : M Pl)
          else pure (Pl.fixed500 (some b.length) b)
      else pure Pl.empty)
    let (st', c) := encryptAndHash st pl
    pure (st', out ++ [.ct c])
  else if st.version = 1 ∨ st.version = 2 then
    if mp.act = 2 then
      let b := st.payload.getD []
      let (st1, c1) := encryptAndHash st (.len b.length)
      let (st2, c2) := encryptAndHash st1 (.bytes b)
      pure (st2, out ++ [.ct c1, .ct c2])
    else
      let (st', c) := encryptAndHash st .empty
      pure (st', out ++ [.ct c])
  else .error "unknown handshake version"

/-- readMsgPattern -/
def readMsg (st : St) (mp : MsgPattern) (inp : List Field) : M St := do
  match inp with
  | .ver v :: rest =>
    let st ← (if mp.act = 1 ∨ mp.act = 2 then
        if v < st.minV ∨ v > st.maxV then (Except.error "unexpected handshake version" : M St)
        else pure (if st.initiator then { st with version := v } else st)
      else if v ≠ st.version then .error "unexpected handshake version" else pure st)
    let (st, rest) ← readTokens mp.tokens st rest
    -- the payload is parsed according to the version byte just received
    if v = 0 then
      match rest with
      | [.ct c] =>
        let (st', pl) ← decryptAndHash st c
        match pl with
        | .empty => pure st'
        | .fixed500 none _ => pure { st' with received := some [] }     -- length prefix 0
        | .fixed500 (some claimed) b =>
          -- make([]byte, claimed) then a single Read from the 498 remaining bytes
          pure { st' with received := some (b.take claimed ++ List.replicate (claimed - (b.take claimed).length) 0) }
        | _ => .error "bad payload"
      | _ => .error "mac"       -- a v1/v2 layout read as v0 never authenticates
    else if v = 1 ∨ v = 2 then
      if mp.act = 2 then
        match rest with
        | [.ct c1, .ct c2] =>
          let (st1, pl1) ← decryptAndHash st c1
          match pl1 with
          | .len _ =>
            let (st2, pl2) ← decryptAndHash st1 c2
            match pl2 with
            | .bytes b => pure { st2 with received := some b }
            | _ => .error "bad payload"
          | _ => .error "bad length header"
        | _ => .error "mac"
      else
        match rest with
        | [.ct c] =>
          let (st', pl) ← decryptAndHash st c
          match pl with
          | .empty => pure st'
          | _ => .error "bad payload"
        | _ => .error "mac"
    else .error "unknown handshake version"
  | _ => .error "short read"

/-- what a side holds after DoHandshake returned nil -/
structure Done where
  version : Nat
  sendKey : List Sec × Bool      -- (chaining key, which half of the split)
  recvKey : List Sec × Bool
  remoteStatic : Option Pt
  authData : Option Bytes        -- initiator: payload received (SetAuthData); responder: its own
  setRemote : Bool               -- ConnData.SetRemote was called (version ≥ 2)
  digest : List Tok
deriving Repr, DecidableEq

def finish (st : St) : Done :=
  { version := st.version,
    sendKey := (st.ck, !st.initiator), recvKey := (st.ck, st.initiator),
    remoteStatic := st.rs,
    authData := if st.initiator then st.received else st.payload,
    setRemote := decide (st.version ≥ 2), digest := st.h }

inductive SideRes
  | ok (d : Done)
  | fail (act : Nat) (why : String)
  | newFail (why : String)       -- NewBrontideMachine refused the configuration
deriving Repr, DecidableEq

/-- field-level man in the middle: rewrites the fields of act `a` -/
abbrev Mitm := Nat → List Field → List Field

structure Cfg where
  ls : Nat
  le : Nat
  rs : Option Pt
  pw : Nat
  payload : Option Bytes
  minV : Nat
  maxV : Nat
deriving Repr, DecidableEq

/-- both sides run DoHandshake over a channel controlled by `mitm`; a side that
    fails closes the connection, so its peer fails at its next read -/
def runActs (mitm : Mitm) : List MsgPattern → St → St → (SideRes × SideRes) × List (Nat × Nat)
  | [], i, r => ((.ok (finish i), .ok (finish r)), [])
  | mp :: rest, i, r =>
    let (w, rd) := if mp.initiator then (i, r) else (r, i)
    match writeMsg w mp with
    | .error e =>
      let wf := SideRes.fail mp.act e
      let rf := SideRes.fail mp.act "connection closed"
      ((if mp.initiator then (wf, rf) else (rf, wf)), [])
    | .ok (w', fields) =>
      match readMsg rd mp (mitm mp.act fields) with
      | .error e =>
        -- the reader fails in this act; the writer fails at its next read, or, if it
        -- has nothing more to read, completes on its own
        let rf := SideRes.fail mp.act e
        let writerReadsLater := rest.any fun m => m.initiator ≠ mp.initiator
        let wf := if writerReadsLater then SideRes.fail (mp.act + 1) "connection closed" else SideRes.ok (finish w')
        ((if mp.initiator then (wf, rf) else (rf, wf)), [(mp.act, fields.length)])
      | .ok rd' =>
        let (i', r') := if mp.initiator then (w', rd') else (rd', w')
        let (res, lens) := runActs mitm rest i' r'
        (res, (mp.act, fields.length) :: lens)

def run (p : Pattern) (ci cr : Cfg) (mitm : Mitm) : SideRes × SideRes :=
  match initSt p true ci.ls ci.le ci.rs ci.pw ci.payload ci.minV ci.maxV,
        initSt p false cr.ls cr.le cr.rs cr.pw cr.payload cr.minV cr.maxV with
  | .error e, .error e' => (.newFail e, .newFail e')
  | .error e, .ok _ => (.newFail e, .fail 1 "connection closed")
  | .ok _, .error e => (.fail (if p.kk then 2 else 2) "connection closed", .newFail e)
  | .ok i, .ok r => (runActs mitm p.msgs i r).1

def noMitm : Mitm := fun _ f => f

end Lnc.Mailbox.Noise
