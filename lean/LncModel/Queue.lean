import LncModel.Basic
/-
  Mirror of gbn/queue.go.  Sequence numbers are Go `uint8`s; the model keeps
  them as `Nat`s below 256 and writes every uint8 operation with its
  wrap-around made explicit (`add8`, `sub8`), so the arithmetic the theorems
  talk about is the arithmetic the code performs, and `omega` can reason
  about it.  Go operations that can panic (index out of range on `content`,
  `% 0`) are explicit `Outcome.panic`s.
-/
namespace Lnc.Gbn

/-- uint8 addition / subtraction (wrap at 256) -/
def add8 (a b : Nat) : Nat := (a + b) % 256
def sub8 (a b : Nat) : Nat := (a + 256 - b % 256) % 256

structure Queue where
  s : Nat        -- sequence space; len(content) = s
  base : Nat
  top : Nat
deriving Repr, DecidableEq

def containsSequence (base top seq : Nat) : Bool :=
  if base = top then false
  else if base < top then decide (base ≤ seq ∧ seq < top)
  else decide (seq < top ∨ base ≤ seq)

def Queue.size (q : Queue) : Nat :=
  if q.top ≥ q.base then sub8 q.top q.base else add8 q.top (sub8 q.s q.base)

/-- `x % s` in Go panics for `s = 0`. -/
def modS (x s : Nat) : Outcome Nat :=
  if s = 0 then .panic "integer divide by zero" else .ok (x % s)

/-- returns (queue', sequence number given to the packet) -/
def Queue.addPacket (q : Queue) : Outcome (Queue × Nat) :=
  if q.top ≥ q.s then .panic "index out of range (content[top])"
  else (modS (add8 q.top 1) q.s).bind fun t => .ok ({ q with top := t }, q.top)

/-- returns (queue', gotValidACK).  `seq ≥ s` cannot name a packet and is rejected. -/
def Queue.processACK (q : Queue) (seq : Nat) : Outcome (Queue × Bool) :=
  if q.size = 0 then .ok (q, false)
  else if seq ≥ q.s then .ok (q, false)
  else if seq = q.base then
    (modS (add8 q.base 1) q.s).bind fun b => .ok ({ q with base := b }, true)
  else if containsSequence q.base q.top seq then
    (modS (add8 seq 1) q.s).bind fun b => .ok ({ q with base := b }, true)
  else .ok (q, false)

/-- returns (queue', shouldResend, bumped) -/
def Queue.processNACK (q : Queue) (seq : Nat) : Queue × Bool × Bool :=
  if seq ≥ q.s then (q, false, false)
  else if seq = q.top then ({ q with base := q.top }, false, true)
  else if !containsSequence q.base q.top seq then (q, false, false)
  else ({ q with base := seq }, true, decide (q.base ≠ seq))

/-- sequence numbers re-sent by `resend()` for a snapshot (base, top) -/
def resendSeqs (s : Nat) : Nat → Nat → Nat → Outcome (List Nat)
  | 0, _, _ => .err "no-termination"
  | fuel + 1, base, top =>
    if base = top then .ok []
    else if base ≥ s then .panic "index out of range (content[base])"
    else (modS (add8 base 1) s).bind fun b =>
      (resendSeqs s fuel b top).map fun l => base :: l

/-- syncer.initResendUpTo: `(c.s + top - 1) % c.s` in uint8 arithmetic, and `top` -/
def syncerExpect (s top : Nat) : Outcome (Nat × Nat) :=
  (modS (sub8 (add8 s top) 1) s).map fun a => (a, top)

/-- newConfig / setN: `s = n + 1` in uint8 -/
def mkS (n : Nat) : Nat := add8 n 1

end Lnc.Gbn
