/- Shapes of the facts extracted from /repo by factgen. -/
namespace Lnc.Facts

structure SelectFact where
  cases : List String
  hasDefault : Bool
  loopDepth : Nat
  hasTimer : Bool := false     -- some case receives from time.After(...)
deriving Repr, DecidableEq

end Lnc.Facts
