import LncModel.Props.C11
import LncModel.Facts.Generated
/- C11 on the control-flow facts regenerated from /repo/mailbox/server.go and client.go. -/
namespace Lnc.Inst.C11
open Lnc.Facts

/-- position of an event in a function's source-ordered event list -/
def pos (evs : List String) (e : String) : Nat := evs.idxOf e

def before (evs : List String) (a b : String) : Bool :=
  evs.contains a && evs.contains b && decide (pos evs a < pos evs b)

/-- **Accept waits for the previous connection before it hands out the next
    one** (the model's `acceptRet` is disabled while `opened`): the receive on
    `mailboxConn.Done()` is guarded by `mailboxConn != nil` only, and precedes
    every constructor of the next connection -/
theorem accept_waits_for_previous :
    before events_Accept "recv:s.mailboxConn.Done()" "call:NewServerConn" = true ∧
    before events_Accept "recv:s.mailboxConn.Done()" "call:RefreshServerConn" = true ∧
    guarded_AcceptWait = [true] := by decide

theorem dial_waits_for_previous :
    before events_Dial "recv:c.mailboxConn.Done()" "call:NewClientConn" = true ∧
    before events_Dial "recv:c.mailboxConn.Done()" "call:RefreshClientConn" = true ∧
    guarded_DialWait = [true] := by decide

/-- the rendezvous is recomputed from ConnData on every Accept / Dial, after the
    wait (so a pairing that completed on the previous connection is seen) and
    before the connection is (re)created -/
theorem sid_recomputed_each_time :
    before events_Accept "recv:s.mailboxConn.Done()" "call:s.connData.SID" = true ∧
    before events_Accept "call:s.connData.SID" "call:NewServerConn" = true ∧
    before events_Accept "call:s.connData.SID" "call:RefreshServerConn" = true ∧
    before events_Dial "recv:c.mailboxConn.Done()" "call:c.connData.SID" = true ∧
    before events_Dial "call:c.connData.SID" "call:NewClientConn" = true ∧
    before events_Dial "call:c.connData.SID" "call:RefreshClientConn" = true := by decide

/-- `Done()` is signalled by Close, once, after the GBN connection is closed -/
theorem close_signals_done :
    before events_ServerConnClose "call:c.gbnConn.Close" "call:close" = true ∧
    before events_ClientConnClose "call:c.gbnConn.Close" "call:close" = true ∧
    events_ServerConnClose.head? = some "call:c.closeOnce.Do" ∧
    events_ClientConnClose.head? = some "call:c.closeOnce.Do" := by decide

/-- **Done() is signalled on every path through Close**: whatever closing the GBN
    connection and the two streams returns, nothing leaves the function before
    `close(quit)` — errors are recorded, not returned early (otherwise the next
    Accept / Dial would wait for ever) -/
theorem close_always_signals_done :
    skel_ClientConnClose.contains "call:close" = true ∧
    (skel_ClientConnClose.take (skel_ClientConnClose.idxOf "call:close")).contains "return" = false ∧
    skel_ServerConnClose.contains "call:close" = true ∧
    (skel_ServerConnClose.take (skel_ServerConnClose.idxOf "call:close")).contains "return" = false := by decide

end Lnc.Inst.C11
