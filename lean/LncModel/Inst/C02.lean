import LncModel.Props.C02
import LncModel.Facts.Generated
/- C02 on the constants regenerated from /repo. -/
namespace Lnc.Inst.C02
open Lnc.Facts Lnc.Mailbox.Record

theorem framing : mb_macSize = some macSize ∧ mb_encHeaderSize = some hdrLen := by decide
theorem record_reads_full : reads_ReadHeader = ["full"] ∧ reads_ReadBody = ["full"] := by decide

end Lnc.Inst.C02
