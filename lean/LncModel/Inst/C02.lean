import LncModel.Props.C02
import LncModel.Facts.Generated
/- C02 on the constants regenerated from /repo. -/
namespace Lnc.Inst.C02
open Lnc.Facts Lnc.Mailbox.Record

theorem framing : mb_macSize = some macSize ∧ mb_encHeaderSize = some hdrLen := by decide
theorem record_reads_full : reads_ReadHeader = ["full"] ∧ reads_ReadBody = ["full"] := by decide

/-- **an authentication failure is latched by both readers** (the model's
    `failed` flag): ReadHeader and ReadBody refuse to work once `readAuthErr` is
    set, and each sets it after its decrypt (when that fails) -/
theorem auth_error_latched_in_both_readers :
    skel_Machine_ReadHeader.take 3 = ["if", "cond:b.readAuthErr != nil", "return"] ∧
    skel_Machine_ReadBody.take 3 = ["if", "cond:b.readAuthErr != nil", "return"] ∧
    (skel_Machine_ReadHeader.drop (skel_Machine_ReadHeader.idxOf "call:b.recvCipher.Decrypt")).contains "assign:b.readAuthErr" = true ∧
    (skel_Machine_ReadBody.drop (skel_Machine_ReadBody.idxOf "call:b.recvCipher.Decrypt")).contains "assign:b.readAuthErr" = true ∧
    skel_Machine_ReadHeader.contains "call:b.recvCipher.Decrypt" = true ∧
    skel_Machine_ReadBody.contains "call:b.recvCipher.Decrypt" = true := by decide

/-- between the `io.ReadFull` of a reader and its decrypt: an assignment to the latch, behind a
    condition on the number of bytes consumed (written as its own `if n > 0` or merged into the
    error test) -/
def latchGuarded (s : List String) : Bool :=
  let seg := (s.take (s.idxOf "call:b.recvCipher.Decrypt")).drop (s.idxOf "call:io.ReadFull")
  let a := seg.idxOf "assign:b.readAuthErr"
  a < seg.length && (seg.idxOf "cond:n > 0" < a || seg.idxOf "cond:err != nil && n > 0" < a) &&
    seg.head? == some "call:io.ReadFull"

/-- **a read that fails inside a record is latched too** (repair 98daed6; the
    pause branches of the model's `readMessage`): between `io.ReadFull` and the
    decrypt, both readers set the latch when some bytes had been consumed, and
    `ReadMessage` sets it whenever the body read fails after its header was read -/
theorem partial_read_latched :
    latchGuarded skel_Machine_ReadHeader = true ∧ latchGuarded skel_Machine_ReadBody = true ∧
    (let s := skel_Machine_ReadMessage
     (s.drop (s.idxOf "call:b.ReadBody")).take 4 =
       ["call:b.ReadBody", "if", "cond:err != nil && b.readAuthErr == nil", "assign:b.readAuthErr"]) := by decide

/-- the latch lives in the Machine, not in the cipher state that a key rotation re-initialises -/
theorem rotation_does_not_touch_the_latch :
    skel_cipherState_InitializeKey = ["assign:c.secretKey", "assign:c.nonce", "assign:c.cipher", "call:chacha20poly1305.New"] := by decide

end Lnc.Inst.C02
