import LncModel.Props.C02
import LncModel.Facts.Generated
/- C02 on the constants regenerated from /repo. -/
namespace Lnc.Inst.C02
open Lnc.Facts Lnc.Mailbox.Record

theorem framing : mb_macSize = some macSize ∧ mb_encHeaderSize = some hdrLen := by decide
theorem record_reads_full : reads_ReadHeader = ["full"] ∧ reads_ReadBody = ["full"] := by decide

/-- **an authentication failure is latched by both readers** (the model's
    `failed` flag): ReadHeader and ReadBody refuse to work once `readAuthErr` is
    set, and each sets it when its decrypt fails -/
theorem auth_error_latched_in_both_readers :
    skel_Machine_ReadHeader.take 3 = ["if", "cond:b.readAuthErr != nil", "return"] ∧
    skel_Machine_ReadBody.take 3 = ["if", "cond:b.readAuthErr != nil", "return"] ∧
    skel_Machine_ReadHeader.idxOf "call:b.recvCipher.Decrypt" < skel_Machine_ReadHeader.idxOf "assign:b.readAuthErr" ∧
    skel_Machine_ReadBody.idxOf "call:b.recvCipher.Decrypt" < skel_Machine_ReadBody.idxOf "assign:b.readAuthErr" ∧
    skel_Machine_ReadHeader.contains "assign:b.readAuthErr" = true ∧
    skel_Machine_ReadBody.contains "assign:b.readAuthErr" = true := by decide

/-- the latch lives in the Machine, not in the cipher state that a key rotation re-initialises -/
theorem rotation_does_not_touch_the_latch :
    skel_cipherState_InitializeKey = ["assign:c.secretKey", "assign:c.nonce", "assign:c.cipher", "call:chacha20poly1305.New"] := by decide

end Lnc.Inst.C02
