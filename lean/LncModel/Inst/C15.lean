import LncModel.Props.C15
import LncModel.Facts.Generated
/- C15 on the constants regenerated from /repo. -/
namespace Lnc.Inst.C15
open Lnc.Facts

theorem grpc_cap : mb_defaultGrpcWriteBufSize = some 32768 := by decide

end Lnc.Inst.C15
