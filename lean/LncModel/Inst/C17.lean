import LncModel.Props.C17
import LncModel.Facts.Generated
/- C17 on the constants regenerated from /repo. -/
namespace Lnc.Inst.C17
open Lnc.Facts Lnc.Mailbox.Mnemonic

theorem phrase_constants :
    mb_NumPassphraseWords = some numWords ∧ mb_NumPassphraseEntropyBytes = some numBytes := by decide

/-- ten 11-bit words fit the entropy bytes and leave fewer than 8 spare bits -/
theorem words_fit : numWords * bitsPerWord ≤ 8 * numBytes ∧ 8 * numBytes - numWords * bitsPerWord < 8 := by decide

end Lnc.Inst.C17
