import LncModel.Props.C01
import LncModel.Facts.Generated
/- C01 on the control skeleton of the receive loop regenerated from /repo/gbn/gbn_conn.go. -/
namespace Lnc.Inst.C01
open Lnc.Facts

def S := skel_receivePacketsForever

/-- **the receiver's step for an expected DATA packet is the model's
    `fwdDeliver`**: acknowledge, advance `recvSeq`, and only then decide whether
    the packet is a ping (not delivered) or is handed to the application —
    in that order, for pings too; the hand-over can be interrupted by `quit`
    only -/
theorem expected_data_step :
    S.idxOf "call:g.sendPacket" < S.idxOf "assign:g.recvSeq" ∧
    S.idxOf "assign:g.recvSeq" < S.idxOf "cond:m.IsPing" ∧
    S.idxOf "cond:m.IsPing" < S.idxOf "send:g.recvDataChan" ∧
    (S.filter (· == "assign:g.recvSeq")).length = 1 ∧
    (S.filter (· == "send:g.recvDataChan")).length = 1 ∧
    ((S.drop (S.idxOf "cond:m.IsPing")).take 7) =
      ["cond:m.IsPing", "continue", "select", "case:send g.recvDataChan", "send:g.recvDataChan", "case:recv g.quit", "return"] := by decide

/-- every packet passes the decoder and the liveness bookkeeping before the type switch -/
theorem decode_first :
    S.idxOf "call:Deserialize" < S.idxOf "call:g.timeoutManager.Received" ∧
    S.idxOf "call:g.timeoutManager.Received" < S.idxOf "call:g.pingTicker.Reset" ∧
    S.idxOf "call:g.pingTicker.Reset" < S.idxOf "call:g.sendPacket" := by decide

end Lnc.Inst.C01
