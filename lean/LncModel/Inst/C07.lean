import LncModel.Props.C07
import LncModel.Facts.Generated
/- C07 instantiated on the facts regenerated from /repo on this run. -/
namespace Lnc.Inst.C07
open Lnc Lnc.Gbn Lnc.Facts

/-- the DATA guard of this tree covers the whole 4-byte header -/
theorem data_guard_ge_4 : ∃ g, guard_DATA = some g ∧ 4 ≤ g := by decide

theorem fixed_guards_cover_reads :
    [guard_ACK, guard_NACK, guard_SYN] = [some 2, some 2, some 2] := by decide

theorem gbn_deserialize_no_panic_this_tree (b : Bytes) :
    (deserializeG (guard_DATA.getD 0) b).isPanic = false :=
  Lnc.Props.C07.gbn_deserialize_no_panic _ (by decide) b

theorem dataPhaseStep_total_this_tree (st : EpState) (h : st.WF) (b : Bytes) :
    ∃ r, dataPhaseStep (guard_DATA.getD 0) st b = .ok r ∧
      ∀ st' reply d, r = .continue st' reply d → st'.WF :=
  Lnc.Props.C07.dataPhaseStep_total _ (by decide) st h b

end Lnc.Inst.C07
