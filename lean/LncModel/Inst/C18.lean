import LncModel.Props.C18
import LncModel.Facts.Generated
/- C18 on the locking facts regenerated from /repo. -/
namespace Lnc.Inst.C18
open Lnc.Facts Lnc.Gbn.Ticker

/-- Reset, ResetWithInterval and Stop all start by taking the same mutex -/
theorem ticker_reset_and_stop_guarded :
    lock_tickerReset = "t.resetMtx.Lock" ∧ lock_tickerResetWithInterval = "t.resetMtx.Lock" ∧
    lock_tickerStop = "t.resetMtx.Lock" := by decide

/-- the code that closes and re-creates the quit channel is reached only through
    those entry points: the shared body closes and re-makes the channel, the two
    entry points call nothing else that touches it, Stop closes it -/
theorem ticker_bodies :
    calls_tickerResetBody.contains "close" = true ∧ calls_tickerResetBody.contains "make" = true ∧
    calls_tickerResetWithInterval = ["t.resetMtx.Lock", "t.resetMtx.Unlock", "t.resetWithIntervalUnsafe"] ∧
    calls_tickerReset = ["t.resetMtx.Lock", "t.resetMtx.Unlock", "t.resetWithIntervalUnsafe"] ∧
    calls_tickerStop.contains "close" = true := by decide

/-- **no lock-order deadlock**: the lock-acquisition graph of both packages is acyclic -/
theorem lock_order_acyclic : acyclic lockEdges_gbn = true ∧ acyclic lockEdges_mailbox = true := by decide

/-- the window bookkeeping is accessed under its mutexes -/
theorem queue_methods_locked :
    lock_processNACK = "q.baseMtx.Lock" ∧ lock_addPacket = "q.topMtx.Lock" ∧ lock_size = "q.baseMtx.RLock" := by decide

end Lnc.Inst.C18
