import LncModel.Props.C06
import LncModel.Control
import LncModel.Facts.Generated
/- C06 on the control-flow facts regenerated from /repo. -/
namespace Lnc.Inst.C06
open Lnc.Facts Lnc.Gbn.Control

/-- a retransmission can be triggered from every select the send loop rests in:
    by the resend ticker and by the NACK-driven resend signal -/
theorem resend_reachable_from_every_resting_select :
    (restingSelects sel_sendPacketsForever).all (fun s =>
      s.cases.contains "recv g.resendTicker.C" && s.cases.contains "recv g.resendSignal") = true := by decide

/-- the window-full wait is left when an ACK frees a slot -/
theorem full_window_wakes_on_ack :
    (sel_sendPacketsForever.filter fun s => s.loopDepth = 2 ∧ !s.hasDefault).all
      (fun s => s.cases.contains "recv g.receivedACKSignal") = true := by decide

/-- the sync wait after a resend is bounded by a timer, as is the post-ACK grace wait -/
theorem sync_waits_bounded :
    sel_waitForSync.all (·.hasTimer) = true ∧ sel_proceedAfterTime.all (·.hasTimer) = true := by decide

/-- in the receive loop the resend ticker is reset only inside the ACK/NACK arm
    of a type switch (`resetsOnResponse` is the rule the code implements) -/
theorem resend_reset_only_on_response :
    typecases_resendReset_recvLoop = ["*PacketACK,*PacketNACK"] := by decide

theorem timeouts : gbn_minimumResendTimeout = some 1000000000 ∧ gbn_awaitingTimeoutMultiplier = some 3 := by decide

end Lnc.Inst.C06
