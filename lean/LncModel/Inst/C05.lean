import LncModel.Props.C05
import LncModel.Facts.Generated
/- C05: the way the layers are plugged together in /repo/mailbox, re-extracted every run. -/
namespace Lnc.Inst.C05
open Lnc.Facts

def sub (l : List String) (pat : List String) : Bool := (l.filter (pat.contains ·)) == pat

/-- connKit.Write is one MsgData, one SendControlMsg; SendControlMsg is
    Serialize then one gbn Send (the model's `kitSend`, one GBN message per write) -/
theorem write_path :
    sub events_kitWrite ["call:NewMsgData", "call:k.impl.SendControlMsg"] = true ∧
    sub events_cliSendCtl ["call:controlMsg.Serialize", "call:c.gbnConn.Send"] = true ∧
    sub events_srvSendCtl ["call:controlMsg.Serialize", "call:c.gbnConn.Send"] = true ∧
    mb_ProtocolVersion = some 0 := by decide

/-- connKit.Read refills its buffer from ReceiveControlMsg (gbn Recv then
    Deserialize) only when the buffer is empty, then reads from the buffer
    (the model's `kitRecvAll` followed by `bufRead`) -/
theorem read_path :
    sub events_kitRead ["call:k.recvBuffer.Len", "call:k.impl.ReceiveControlMsg", "call:k.recvBuffer.Write", "call:k.recvBuffer.Read"] = true ∧
    sub events_cliRecvCtl ["call:c.gbnConn.Recv", "call:receive.Deserialize"] = true ∧
    sub events_srvRecvCtl ["call:c.gbnConn.Recv", "call:receive.Deserialize"] = true := by decide

/-- the mailbox never enables GBN chunking (`packetsOf` uses maxChunk = 0) -/
theorem no_chunking_in_mailbox : gbnOptions_mailbox.contains "gbn.WithMaxSendSize" = false := by decide

end Lnc.Inst.C05
