import LncModel.Props.C13
import LncModel.Facts.Generated
/- C13 on the control-flow facts regenerated from /repo. -/
namespace Lnc.Inst.C13
open Lnc.Facts Lnc.Gbn.Control

/-- **every select the send loop can rest in — the outer one and the one it
    sits in while the window is full — lists the ping and the pong ticker** -/
theorem all_resting_selects_service_keepalive :
    (restingSelects sel_sendPacketsForever).all servicesKeepalive = true ∧
    (restingSelects sel_sendPacketsForever).length = 2 := by decide

/-- every received packet resets the ping timer and pauses the pong timer -/
theorem receive_resets_ping_pauses_pong :
    calls_receivePacketsForever.contains "g.pingTicker.Reset" = true ∧
    calls_receivePacketsForever.contains "g.pongTicker.Pause" = true := by decide

/-- a running pong timer is never restarted by a ping -/
theorem pong_reset_guarded : guarded_pongReset.all id = true ∧ guarded_pongReset.length = 2 := by decide

/-- the loop is away from those selects for a bounded time only: waitForSync has a timer case -/
theorem resend_round_bounded :
    sel_waitForSync.all (fun s => s.hasTimer) = true ∧ sel_waitForSync.length = 1 ∧
    gbn_awaitingTimeoutMultiplier = some 3 := by decide

end Lnc.Inst.C13
