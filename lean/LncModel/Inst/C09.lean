import LncModel.Props.C09
import LncModel.Facts.Generated
/- C09 on the control skeleton of the send loop regenerated from /repo/gbn/gbn_conn.go. -/
namespace Lnc.Inst.C09
open Lnc.Facts

/-- the part of the skeleton from the first occurrence of `a` (inclusive) -/
def fromTok (l : List String) (a : String) : List String := l.drop (l.idxOf a)

/-- the part before the first occurrence of `b` -/
def upTo (l : List String) (b : String) : List String := l.take (l.idxOf b)

def isJump (t : String) : Bool := t == "continue" || t == "break" || t == "goto"

/-- **every packet that enters the queue is followed by the window-full wait**
    (the model's `sendNew` is enabled only when `size < n`): between
    `addPacket` and the wait loop there is no `continue`, `break` or `goto`
    (a packet, data or ping, cannot skip the wait), and the wait loop is left
    only when `size() < n` -/
theorem window_wait_not_skipped :
    skel_sendPacketsForever.contains "call:g.sendQueue.addPacket" = true ∧
    ((upTo (fromTok skel_sendPacketsForever "call:g.sendQueue.addPacket") "for").any isJump) = false ∧
    (((fromTok (fromTok skel_sendPacketsForever "call:g.sendQueue.addPacket") "for").take 5) =
        ["for", "if", "cond:g.sendQueue.size() < g.cfg.n", "call:g.sendQueue.size", "break"] ∨
     -- the same loop written with its exit test in the header
     ((fromTok (fromTok skel_sendPacketsForever "call:g.sendQueue.addPacket") "for").take 2) =
        ["for", "forcond:g.sendQueue.size() >= g.cfg.n"]) := by decide

/-- there is exactly one place where packets enter the queue -/
theorem single_entry : (skel_sendPacketsForever.filter (· == "call:g.sendQueue.addPacket")).length = 1 := by decide

/-- **every response that makes room wakes the window wait** (repair 611abab):
    in the receive loop the signal that releases a sender waiting on a full
    window is raised after `processACK` and after `processNACK` — in the NACK
    arm before the `!shouldResend` shortcut, so also for a NACK that empties the
    queue without asking for a resend -/
theorem room_wakes_sender :
    (let s := fromTok skel_receivePacketsForever "call:g.sendQueue.processACK"
     (upTo s "call:g.sendQueue.processNACK").contains "send:g.receivedACKSignal" = true) ∧
    (let s := fromTok skel_receivePacketsForever "call:g.sendQueue.processNACK"
     (upTo s "cond:!shouldResend").contains "send:g.receivedACKSignal" = true ∧
     s.contains "cond:!shouldResend" = true) := by decide

end Lnc.Inst.C09
