import LncModel.Props.C14
import LncModel.Facts.Generated
/- C14 on the control skeletons of Send and Recv regenerated from /repo/gbn/gbn_conn.go. -/
namespace Lnc.Inst.C14
open Lnc.Facts

/-- **Send's chunk loop ends only by returning** — with the error of a chunk that
    could not be queued, or after the final chunk (the model's `split` emits
    chunks up to and including the final one): no `break` leaves it, and its
    last statements are the final-chunk test and the return -/
theorem send_loop_exits_by_return :
    skel_Send.contains "break" = false ∧ skel_Send.contains "continue" = false ∧
    skel_Send.reverse.take 3 = ["return", "cond:packet.FinalChunk", "if"] ∧
    (skel_Send.filter (· == "for")).length = 1 := by decide

/-- **Recv appends every packet to the connection's reassembly buffer before it
    looks at the FinalChunk flag** (the model's `recvCalls`: the partial
    message is connection state; no path returns a packet's payload without
    the chunks already buffered).  `order_Recv` is the translator's view of the
    function after helper expansion: the one receive from `recvDataChan`, the one
    `append`, the one condition on `.FinalChunk`, in source order -/
theorem recv_appends_before_final_test :
    order_Recv = ["recv", "append", "final-test"] := by decide

end Lnc.Inst.C14
