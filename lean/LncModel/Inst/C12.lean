import LncModel.Props.C12
import LncModel.Props.C12Sys
import LncModel.Control
import LncModel.Facts.Generated
/- C12 instantiated on the shutdown facts regenerated from /repo. -/
namespace Lnc.Inst.C12
open Lnc.Facts Lnc.Gbn.Shutdown Lnc.Gbn.Control

def selPoint (name : String) (s : SelectFact) : BlockPoint :=
  ⟨name, (if s.cases.contains "recv g.quit" then [Signal.quit] else []) ++
         (if s.cases.contains "recv c.quit" then [Signal.queueQuit] else []) ++
         (if s.hasTimer then [Signal.timer] else [])⟩

/-- a wait inside Close itself: ended by the context that carries the FIN timeout (the translator
    prints a local defined by `context.WithTimeout` / `WithDeadline` as `timeoutCtx`, whatever it
    is called in the source) -/
def closePoint (name : String) (s : SelectFact) : BlockPoint :=
  ⟨name, if s.cases.contains "recv timeoutCtx.Done()" then [Signal.timer] else []⟩

def ctxPoint (name arg : String) : BlockPoint :=
  ⟨name, if arg = "g.ctx" then [Signal.ctxCancel] else []⟩

/-- the shutdown table of this tree -/
def facts : Facts :=
  { created := created_start,
    stopped := stopped_Close,
    order := calls_Close,
    blocking :=
      (restingSelects sel_sendPacketsForever).map (selPoint "sendPacketsForever select") ++
      (restingSelects sel_receivePacketsForever).map (selPoint "receivePacketsForever select") ++
      sel_waitForSync.map (selPoint "waitForSync") ++
      (restingSelects sel_Close).map (closePoint "Close: wait for the FIN attempt") ++
      ctxarg_recvFromStream.map (ctxPoint "recvFromStream") ++
      ctxarg_sendPacket_recvLoop.map (ctxPoint "sendPacket (receive loop)") ++
      ctxarg_sendPacket_sendLoop.map (ctxPoint "sendPacket (send loop)") }

theorem stopped_list : facts.stopped = ["g.pingTicker", "g.pongTicker", "g.resendTicker"] := by decide

/-- **everything start() creates is stopped by Close** -/
theorem no_leak_this_tree : noLeak facts = true := by decide

/-- **wherever the two loop goroutines block, Close wakes them before it waits** -/
theorem close_terminates_this_tree : waitReturns facts = true := by decide

theorem close_terminates_every_config (c : Config) (hc : ∀ p ∈ c, p ∈ facts.blocking) :
    stillBlocked facts c = [] :=
  Lnc.Props.C12.close_terminates facts close_terminates_this_tree c hc

/-- **the table of this tree is `Ready`**: Close waits, it closes `quit` before it
    waits, and every blocking point of the loops is released by the signals
    raised before the wait — the hypothesis of `no_deadlock`, `move_decreases`,
    `run_bounded` and `returned_means_all_done` (Props/C12Sys.lean) -/
theorem close_system_ready : Ready facts = true := by decide

/-- hence, for this tree: under every scheduler Close cannot deadlock, and when it
    has returned both loop goroutines have returned -/
theorem close_returns_this_tree (σ σ' : CSt) (ms : List Move) (hstart : Lnc.Props.C12.Start facts σ)
    (hrun : crun facts σ ms = some σ') :
    (σ'.final facts = false → ∃ m, (cstep facts σ' m).isSome = true) ∧
    (σ'.final facts = true → σ'.allDone = true) :=
  ⟨Lnc.Props.C12.no_deadlock facts close_system_ready σ'
     (Lnc.Props.C12.wf_run facts close_system_ready ms σ σ' (Lnc.Props.C12.wf_start facts σ hstart) hrun),
   Lnc.Props.C12.returned_means_all_done facts close_system_ready σ σ' ms hstart hrun⟩

/-- Close is wrapped in sync.Once; the two loops are the only goroutines start() spawns;
    the goroutine spawned by the syncer exits on the queue's quit channel or its own timer -/
theorem structure_facts :
    calls_Close.head? = some "g.closeOnce.Do" ∧ go_start.length = 2 ∧
    go_syncerProcessACK = ["c.proceedAfterTime"] ∧
    sel_proceedAfterTime.all (fun s => s.cases.contains "recv c.quit" && s.hasTimer) = true ∧
    calls_queueStop = ["close"] := by decide

/-- callers blocked in Send / Recv are woken by quit -/
theorem callers_woken :
    (restingSelects sel_Recv).all (fun s => s.cases.contains "recv g.quit") = true ∧
    sel_Send.all (fun s => s.cases.contains "recv g.quit") = true := by decide

/-- FIN is attempted before the context is cancelled -/
theorem fin_before_cancel :
    (calls_Close.idxOf "g.sendPacket") < (calls_Close.idxOf "g.cancel") ∧
    (calls_Close.idxOf "close") < (calls_Close.idxOf "g.sendPacket") ∧
    (calls_Close.idxOf "g.cancel") < (calls_Close.idxOf "g.wg.Wait") := by decide

/-- ... and nowhere else: the goroutines `start()` spawns end in `Close` without cancelling the
    connection context themselves, so that a closure of the connection's own making (keepalive
    timeout, transport error in one direction) still attempts its FIN on a live context -/
theorem loops_leave_cancel_to_close :
    skel_start.contains "call:g.cancel" = false ∧ (skel_start.filter (· == "call:g.Close")).length = 2 := by decide

/-- **Close itself blocks only in waits that a timer ends**: the only select
    without `default` in Close's body is the wait for the FIN attempt, which
    also listens on the FIN timeout context; the FIN attempt itself runs in a
    goroutine of its own (repair 818c5cb: the send function handed to the
    connection need not return when its context expires) -/
theorem fin_wait_bounded :
    (restingSelects sel_Close).all (fun s => s.cases.contains "recv timeoutCtx.Done()" && s.cases.length == 2) = true ∧
    (restingSelects sel_Close).length = 1 ∧ go_Close.length = 1 ∧
    (calls_Close.idxOf "context.WithTimeout") < (calls_Close.idxOf "g.sendPacket") := by decide

/-- **a loop goroutine leaves the wait group before it calls Close** (Close waits
    on that group: a goroutine that called Close while still counted would wait
    for itself), in a deferred function, so on every way out of the loop -/
theorem loops_release_before_close :
    (skel_start.filter (· == "go")).length = 2 ∧
    (skel_start.filter (· == "call:g.wg.Add")).length = 2 ∧
    (skel_start.filter (· == "call:g.wg.Done")).length = 2 ∧
    ((skel_start.drop (skel_start.idxOf "go")).take 4) =
      ["go", "defer", "call:g.wg.Done", "if"] ∧
    ((skel_start.drop (skel_start.idxOf "call:g.receivePacketsForever")).dropWhile (· != "go")).take 4 =
      ["go", "defer", "call:g.wg.Done", "if"] := by decide

end Lnc.Inst.C12
