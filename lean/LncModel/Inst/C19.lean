import LncModel.Props.C19
import LncModel.Facts.Generated
/-
  C19 instantiated on the facts regenerated from /repo on this run.
  Each theorem here is a proof obligation re-checked by the kernel every run.
-/
namespace Lnc.Inst.C19
open Lnc Lnc.Gbn Lnc.Facts

/-- the packet type bytes in the code are the ones the model uses -/
theorem type_bytes :
    [gbn_SYN, gbn_DATA, gbn_ACK, gbn_NACK, gbn_FIN, gbn_SYNACK, gbn_TRUE, gbn_FALSE]
      = [some 1, some 2, some 3, some 4, some 5, some 6, some 1, some 0] := by decide

/-- the fixed-size packets are guarded exactly as the model reads them -/
theorem fixed_guards :
    [guard_ACK, guard_NACK, guard_SYN] = [some 2, some 2, some 2] ∧
    guard_FIN.getD 0 ≤ 1 ∧ guard_SYNACK.getD 0 ≤ 1 := by decide

/-- DATA guard is extracted and admits every serialised DATA packet (header = 4 bytes) -/
theorem data_guard_le_4 : ∃ g, guard_DATA = some g ∧ g ≤ 4 := by decide

theorem gbn_roundtrip_this_tree (m : Msg) :
    deserializeG (guard_DATA.getD 0) (serialize m) = .ok m :=
  Lnc.Props.C19.gbn_roundtrip _ (by decide) m

end Lnc.Inst.C19
