import LncModel.Props.C10
import LncModel.Facts.Generated
/- C10 on the control skeletons of the two handshake functions regenerated from /repo/gbn. -/
namespace Lnc.Inst.C10
open Lnc.Facts

def Srv := skel_serverHandshake
def Cli := skel_clientHandshake

/-- **every SYN the server adopts passes the window check**: the check sits behind
    the `recvClientSYN` label, i.e. on the path of the first SYN and of every
    re-SYN (`goto recvClientSYN`), and before the echo is sent -/
theorem every_syn_is_validated :
    Srv.idxOf "labeldef:recvClientSYN" < Srv.idxOf "cond:n == 0 || n == math.MaxUint8" ∧
    Srv.idxOf "cond:n == 0 || n == math.MaxUint8" < Srv.idxOf "call:g.cfg.sendToStream" ∧
    (Srv.filter (· == "cond:n == 0 || n == math.MaxUint8")).length = 1 ∧
    (Srv.filter (· == "labeldef:recvClientSYN")).length = 1 := by decide

/-- **every way out of the server's handshake loop that means success goes through
    `setN`**: `setN` is called in one place only, the last statement before the
    function's final return, outside the loop (the returns inside the loop are
    error or shutdown paths; every other way out of the loop falls through to it) -/
theorem server_adopts_window_on_every_exit :
    Srv.reverse.take 2 = ["return", "call:g.setN"] ∧
    (Srv.filter (· == "call:g.setN")).length = 1 := by decide

set_option maxRecDepth 8192 in
/-- the `resent` shortcut (complete on SYNACK / DATA) is taken only after the
    server has restarted its handshake: the flag is tested right where the
    shortcut leaves the loop, and it is not set by the loop's header -/
theorem resent_shortcut_guarded :
    (((Srv.drop (Srv.idxOf "cond:resent")).take 4) =
        ["cond:resent", "call:g.timeoutManager.Received", "break", "label:handshakeLoop"] ∨
     -- the same test written the other way round
     ((Srv.drop (Srv.idxOf "cond:!resent")).take 5) =
        ["cond:!resent", "continue", "call:g.timeoutManager.Received", "break", "label:handshakeLoop"]) ∧
    ((Srv.drop (Srv.idxOf "labeldef:handshakeLoop")).take 2) = ["labeldef:handshakeLoop", "for"] ∧
    Srv.contains "forpost" = false := by decide

/-- the client re-arms its handshake timeout for every wait (a fresh `time.After`
    inside the loop) and completes only on an echo of its own window -/
theorem client_waits :
    Cli.contains "case:recv time.After(timeout)" = true ∧
    Cli.idxOf "labeldef:handshake" < Cli.idxOf "call:g.timeoutManager.GetHandshakeTimeout" ∧
    Cli.contains "cond:respSYN.N != g.cfg.n" = true ∧
    Cli.idxOf "cond:respSYN.N != g.cfg.n" < Cli.idxOf "call:new(PacketSYNACK).Serialize" := by decide

end Lnc.Inst.C10
