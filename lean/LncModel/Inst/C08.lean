import LncModel.Props.C08
import LncModel.Facts.Generated
/- C08 on the constants regenerated from /repo. -/
namespace Lnc.Inst.C08
open Lnc.Facts Lnc.Mailbox.Cipher

theorem rotation_interval : mb_keyRotationInterval = some 1000 := by decide

theorem kth_use_this_tree (k : Nat) :
    CS.after (mb_keyRotationInterval.getD 0) k CS.init = ⟨k / 1000, k % 1000⟩ :=
  Lnc.Props.C08.kth_use 1000 (by decide) k

end Lnc.Inst.C08
