import LncModel.Props.C08
import LncModel.Facts.Generated
/- C08 on the constants regenerated from /repo. -/
namespace Lnc.Inst.C08
open Lnc.Facts Lnc.Mailbox.Cipher

theorem rotation_interval : mb_keyRotationInterval = some 1000 := by decide

theorem kth_use_this_tree (k : Nat) :
    CS.after (mb_keyRotationInterval.getD 0) k CS.init = ⟨k / 1000, k % 1000⟩ :=
  Lnc.Props.C08.kth_use 1000 (by decide) k

/-- **the nonce schedule of the model is the code's**: in Encrypt and in Decrypt
    the nonce is incremented first, the rotation test follows, and both use
    the same test; rotation derives the next key from the old key and the salt
    and re-keys the AEAD through InitializeKey (which also restarts the nonce) -/
theorem nonce_then_rotation_in_both_directions :
    skel_cipherState_Encrypt.take 5 = ["defer", "incdec:c.nonce", "if", "cond:c.nonce == keyRotationInterval", "call:c.rotateKey"] ∧
    skel_cipherState_Decrypt.take 5 = ["defer", "incdec:c.nonce", "if", "cond:c.nonce == keyRotationInterval", "call:c.rotateKey"] ∧
    skel_cipherState_rotateKey = ["call:hkdf.New", "arg:sha256.New", "arg:oldKey[:]", "arg:c.salt[:]", "arg:info", "call:h.Read", "call:h.Read", "call:c.InitializeKey"] ∧
    skel_cipherState_InitializeKey.contains "call:chacha20poly1305.New" = true ∧
    skel_cipherState_InitializeKey.contains "assign:c.nonce" = true := by decide

end Lnc.Inst.C08
