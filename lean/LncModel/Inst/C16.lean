import LncModel.Props.C16
import LncModel.Facts.Generated
/- C16 on the read modes and constants regenerated from /repo. -/
namespace Lnc.Inst.C16
open Lnc.Facts Lnc.Mailbox.Flush

/-- every fixed-size field of the handshake is read with io.ReadFull -/
theorem handshake_reads_full :
    reads_readMsgPattern.all (· == "full") = true ∧ reads_readTokens.all (· == "full") = true ∧
    reads_readMsgPattern.length = 4 ∧ reads_readTokens.length = 3 := by decide

/-- the record layer reads header and body with io.ReadFull -/
theorem record_reads_full : reads_ReadHeader = ["full"] ∧ reads_ReadBody = ["full"] := by decide

theorem framing_constants :
    mb_macSize = some macSize ∧ mb_encHeaderSize = some encHeaderSize ∧ mb_lengthHeaderSize = some 2 := by decide

/-- the handshake's field list as the code reads it (all modes `full` by the
    obligation above) parses independently of fragmentation -/
theorem handshake_frag_independent_this_tree (sizes : List Nat) (frs frs' : List Lnc.Bytes)
    (h : frs.flatten = frs'.flatten) :
    readFields (sizes.map fun k => (k, Mode.full)) frs = readFields (sizes.map fun k => (k, Mode.full)) frs' :=
  Lnc.Props.C16.readFields_frag_independent _ (by simp [Lnc.Props.C16.allFull]) frs frs' h

/-- WriteMessage refuses a new record while any part of the previous one is
    unflushed: header bytes *or* body bytes pending (the model's `write_while_pending`) -/
theorem pending_guard :
    skel_Machine_WriteMessage.contains "cond:len(b.nextHeaderSend) > 0 || len(b.nextBodySend) > 0" = true ∧
    skel_Machine_WriteMessage.idxOf "cond:len(b.nextHeaderSend) > 0 || len(b.nextBodySend) > 0" <
      skel_Machine_WriteMessage.idxOf "assign:b.nextHeaderSend" := by decide

end Lnc.Inst.C16
